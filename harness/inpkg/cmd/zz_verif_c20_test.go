//go:build verif

package cmd

// C20 correspondence harness (injected with `go test -overlay`; never lives in /repo).
// Runs the REAL code for every row of the security-option table:
//   url   core.ParsePublicURL / oauth.IssuerIdToWellKnown on generated URLs, strict and lenient
//   flag  ServerConfig.Load with ONE registered flag set on the command line (every registered flag)
//   load  ServerConfig.Load with a moved (legacy) key in the config file / environment
//   sys   the assembled node: CreateSystem + Load + System.Configure for a configuration of the option product, then
//         per-action probes on the configured node (dummy signing means, unlisted remote JSON-LD context, strict client flag)
//   do    outbound requests through http/client (New, NewWithCache, NewWithTLSConfig) against real local TLS / HTTP
//         servers with scripted redirects
// Writes ops.jsonl and impl.out (one canonical line per op).

import (
	"bufio"
	"bytes"
	"context"
	"crypto/tls"
	"crypto/x509"
	"encoding/hex"
	"encoding/json"
	"fmt"
	"io"
	"math/rand"
	"net"
	"net/http"
	"net/http/httptest"
	"net/url"
	"os"
	"path/filepath"
	"sort"
	"strconv"
	"strings"
	"sync"
	"testing"
	"time"

	ssi "github.com/nuts-foundation/go-did"
	"github.com/nuts-foundation/go-did/vc"
	"github.com/nuts-foundation/nuts-node/auth"
	"github.com/nuts-foundation/nuts-node/auth/oauth"
	"github.com/nuts-foundation/nuts-node/auth/contract"
	"github.com/nuts-foundation/nuts-node/auth/services"
	"github.com/nuts-foundation/nuts-node/auth/services/dummy"
	"github.com/nuts-foundation/nuts-node/core"
	httpEngine "github.com/nuts-foundation/nuts-node/http"
	"github.com/nuts-foundation/nuts-node/http/client"
	"github.com/nuts-foundation/nuts-node/jsonld"
	"github.com/nuts-foundation/nuts-node/vcr/pe"
	"github.com/sirupsen/logrus"
	"github.com/spf13/cobra"
	"github.com/spf13/pflag"
)

type xOp struct {
	Op     string `json:"op"`
	S      string `json:"s,omitempty"` // hex string argument (url)
	Strict bool   `json:"strict"`
	StrictUnset bool `json:"strictunset,omitempty"` // sys: the configuration does not mention strictmode at all (the default must be strict)
	Via    string `json:"via,omitempty"` // url: "" = ParsePublicURL, "wellknown" = oauth.IssuerIdToWellKnown
	// flag
	Flag  string `json:"flag,omitempty"`
	Value string `json:"value,omitempty"`
	// load / sys: the option table
	URL     string   `json:"url,omitempty"`
	TLS     bool     `json:"tls,omitempty"`
	Methods []string `json:"methods,omitempty"`
	Crypto  string   `json:"crypto,omitempty"`
	SQL     bool     `json:"sql,omitempty"`
	Dummy   bool     `json:"dummy,omitempty"`
	IamMatrix bool   `json:"iammatrix,omitempty"` // sys: after start-up, call EVERY outbound method of the IAM client with every endpoint class
	Cache   string   `json:"cache,omitempty"` // http.cache.maxbytes: "" = default, "0" = response cache off, or a size (an option unrelated to strict mode)
	DummyName string `json:"dummyname,omitempty"` // spelling of the test-only means in auth.contractvalidators (dummy, Dummy, DUMMY, ...)
	Allow   []string `json:"allow,omitempty"`     // ctx: jsonld.contexts.remoteallowlist in effect
	Fetches int      `json:"fetches,omitempty"`   // ctx: oracle data — outbound fetches the real loader attempted
	Irma    string   `json:"irma,omitempty"`
	Legacy  string   `json:"legacy,omitempty"`    // moved key set in the config file, e.g. network.certfile
	LegacyEnv bool   `json:"legacyenv,omitempty"` // ... set through the environment instead
	Cli     string   `json:"cli,omitempty"`       // extra command line argument
	// do
	Args  []string `json:"args,omitempty"`  // flags: several --name=value arguments on one command line
	Late  bool     `json:"late,omitempty"`  // do: the client is built while StrictMode is still false (real start-up order), strict mode is switched on afterwards
	Ctor  string   `json:"ctor,omitempty"`  // New | NewWithCache | NewWithTLSConfig
	First string   `json:"first,omitempty"` // first URL (symbolic ports 1001 https, 1002 https, 1003 http)
	Locs  []string `json:"locs,omitempty"`  // redirect targets, hop by hop
	Tag   string   `json:"tag,omitempty"`
	TLSParts *string `json:"tlsparts,omitempty"` // sys: which of the three tls.* file options are set: subset of "ckt" (certfile, certkeyfile, truststorefile); overrides TLS
	// src: one option set through up to three sources (config file, environment, command line); Load (and for
	// strictmode optionally Configure with a plain-http public URL) decides
	Key       string      `json:"key,omitempty"`       // strictmode | url | didmethods
	FileVal   *string     `json:"fileval,omitempty"`   // the value as written into nuts.yaml (YAML text)
	Env       [][2]string `json:"env,omitempty"`       // environment variables set in this order (name, raw value)
	Configure bool        `json:"configure,omitempty"` // strictmode: continue with System.Configure
	// sys (round 3): the storage.sql.connection STRING ($DIR = the node's data directory; "" = not configured; overrides SQL), and
	// what happened on this data directory BEFORE: "lenient" = the node ran once with strict mode off and no connection
	// string (pilot / quick-start), which leaves <datadir>/sqlite.db behind
	SQLConn *string `json:"sqlconn,omitempty"`
	Prior   string  `json:"prior,omitempty"`
	// cflag (round 3): core.NewClientConfigForCommand on a command whose flag set is Names (ALL flags, in VisitAll order:
	// core.ClientConfigFlags plus the command's own), with Args set on the command line and NUTS_TOKEN = EnvToken
	Acts     []string `json:"acts,omitempty"` // dummy: history of calls on one dummy.Dummy: start | status:<n> (n-th started session) | verify
	Cmd      string   `json:"cmd,omitempty"` // cflag: path of a REAL client command in the tree of CreateCommand (e.g. "vdr create-did"); "" = a synthetic command
	Names    []string `json:"names,omitempty"`
	EnvToken *string  `json:"envtoken,omitempty"`
	// cap: the server answering last sends a body of this many bytes (Content-Length, or chunked)
	Body    *int `json:"body,omitempty"`
	Chunked bool `json:"chunked,omitempty"`
}

// xPayload is the body the local servers send for a cap op
func xPayload(n int) []byte {
	b := make([]byte, n)
	for i := range b {
		b[i] = byte('a' + i%23)
	}
	return b
}

func xhx(s string) string { return hex.EncodeToString([]byte(s)) }
func xunhx(s string) string {
	b, err := hex.DecodeString(s)
	if err != nil {
		panic("bad hex " + s)
	}
	return string(b)
}

func xURLErr(err error) string {
	m := err.Error()
	switch {
	case strings.Contains(m, "url must contain scheme and host"):
		return "no-scheme-or-host"
	case strings.Contains(m, "scheme must be"):
		return "scheme"
	case strings.Contains(m, "hostname is IP"):
		return "ip"
	case strings.Contains(m, "RFC2606 reserved"):
		return "reserved"
	}
	return "parse"
}

func xStartErr(err error) string {
	m := err.Error()
	eng := "load"
	if strings.HasPrefix(m, "unable to configure ") {
		rest := strings.TrimPrefix(m, "unable to configure ")
		if i := strings.Index(rest, ":"); i > 0 {
			eng = strings.ToLower(rest[:i])
		}
	}
	class := "other:" + m
	switch {
	case strings.Contains(m, "have moved to tls"):
		class = "moved-keys"
	case strings.Contains(m, "is a secret"):
		class = "cli-secret"
	case strings.Contains(m, "storage.sql.connection must be set in strictmode"):
		class = "sql-implicit"
	case strings.Contains(m, "unsupported SQL database"), strings.Contains(m, "unknown dialect"), strings.Contains(m, "unsupported driver"), strings.Contains(m, "unknown driver"):
		class = "sql-unsupported"
	case strings.Contains(m, "backend must be explicitly set in strict mode"):
		class = "crypto-implicit"
	case strings.Contains(m, "invalid config for crypto.storage"):
		class = "crypto-invalid"
	case strings.Contains(m, "disabling TLS in strict mode is not allowed"):
		class = "tls-off"
	case strings.Contains(m, "only valid irma-scheme-manager is 'pbdf'"):
		class = "irma-scheme"
	case strings.Contains(m, "unable to load node TLS certificate"):
		class = "tls-cert"
	case strings.Contains(m, "unable to read trust store"):
		class = "tls-truststore"
	case strings.Contains(m, "'url' must be configured"):
		class = "url:missing"
	case strings.Contains(m, "invalid 'url'"):
		class = "url:" + xURLErr(err)
	case strings.Contains(m, "unsupported DID method"):
		class = "didmethod"
	case strings.Contains(m, "at least one DID method"):
		class = "didmethod"
	}
	return eng + ":" + class
}

func xCertFiles() (string, string) {
	return "/repo/test/pki/certificate-and-key.pem", "/repo/test/pki/truststore.pem"
}

// xConfigYAML renders the option table as a nuts.yaml
func xConfigYAML(op xOp, dir string) string {
	var sb strings.Builder
	if !op.StrictUnset {
		fmt.Fprintf(&sb, "strictmode: %v\n", op.Strict)
	}
	fmt.Fprintf(&sb, "datadir: %s\nverbosity: panic\n", dir)
	if op.URL != "" {
		fmt.Fprintf(&sb, "url: %q\n", op.URL)
	}
	fmt.Fprintf(&sb, "didmethods: [%s]\n", strings.Join(op.Methods, ","))
	fmt.Fprintf(&sb, "http:\n  internal:\n    address: \"127.0.0.1:0\"\n  public:\n    address: \"127.0.0.1:0\"\n")
	if op.Cache != "" {
		fmt.Fprintf(&sb, "  cache:\n    maxbytes: %s\n", op.Cache)
	}
	if op.TLSParts != nil {
		cert, trust := xCertFiles()
		if *op.TLSParts != "" {
			sb.WriteString("tls:\n")
		}
		if strings.Contains(*op.TLSParts, "c") {
			fmt.Fprintf(&sb, "  certfile: %s\n", cert)
		}
		if strings.Contains(*op.TLSParts, "k") {
			fmt.Fprintf(&sb, "  certkeyfile: %s\n", cert)
		}
		if strings.Contains(*op.TLSParts, "t") {
			fmt.Fprintf(&sb, "  truststorefile: %s\n", trust)
		}
	} else if op.TLS {
		cert, trust := xCertFiles()
		fmt.Fprintf(&sb, "tls:\n  certfile: %s\n  certkeyfile: %s\n  truststorefile: %s\n", cert, cert, trust)
	}
	if op.Crypto != "" {
		fmt.Fprintf(&sb, "crypto:\n  storage: %s\n", op.Crypto)
	}
	if op.SQLConn != nil {
		if *op.SQLConn != "" {
			fmt.Fprintf(&sb, "storage:\n  sql:\n    connection: %q\n", strings.ReplaceAll(*op.SQLConn, "$DIR", dir))
		}
	} else if op.SQL {
		fmt.Fprintf(&sb, "storage:\n  sql:\n    connection: \"sqlite:file:%s/explicit.sqlite?_pragma=foreign_keys(1)&journal_mode(WAL)\"\n", dir)
	}
	vals := "employeeid"
	if op.Dummy {
		name := op.DummyName
		if name == "" {
			name = "dummy"
		}
		vals = name + ",employeeid"
	}
	fmt.Fprintf(&sb, "auth:\n  contractvalidators: [%s]\n", vals)
	if op.Irma != "" {
		fmt.Fprintf(&sb, "  irma:\n    schememanager: %s\n", op.Irma)
	}
	netw := "network:\n  grpcaddr: \"127.0.0.1:0\"\n"
	if op.Legacy != "" && !op.LegacyEnv {
		parts := strings.Split(op.Legacy, ".")
		netw += "  " + parts[1] + ": /tmp/x.pem\n"
	}
	sb.WriteString(netw)
	sb.WriteString("events:\n  nats:\n    port: 0\n    hostname: 127.0.0.1\n")
	return sb.String()
}

func xShutdown(system *core.System) {
	system.VisitEngines(func(e core.Engine) {
		if r, ok := e.(core.Runnable); ok {
			func() {
				defer func() { recover() }()
				_ = r.Shutdown()
			}()
		}
	})
}

func xLoad(op xOp, dir string) (*core.System, error) {
	f := filepath.Join(dir, "nuts.yaml")
	if err := os.WriteFile(f, []byte(xConfigYAML(op, dir)), 0o644); err != nil {
		panic(err)
	}
	if op.Legacy != "" && op.LegacyEnv {
		k := "NUTS_" + strings.ToUpper(strings.ReplaceAll(op.Legacy, ".", "_"))
		os.Setenv(k, "/tmp/x.pem")
		defer os.Unsetenv(k)
	}
	system := CreateSystem(func() {})
	flags := serverConfigFlags()
	args := []string{"--configfile", f}
	if op.Cli != "" {
		args = append(args, op.Cli)
	}
	if err := flags.Parse(args); err != nil {
		return system, fmt.Errorf("flag-parse: %w", err)
	}
	return system, system.Load(flags)
}

// xSrc: where an option comes from. The REAL loader (file < environment < command line) on a real nuts.yaml, real
// environment variables and a real command line
func xSrc(op xOp, sock **xSock) string {
	dir, err := os.MkdirTemp(os.Getenv("VERIF_OUT"), "src")
	if err != nil {
		panic(err)
	}
	defer os.RemoveAll(dir)
	base := xOp{Op: "sys", Strict: true, StrictUnset: true, URL: "http://nuts.nl", TLS: true, Methods: []string{"web", "nuts"}, Crypto: "fs", SQL: true, Irma: "pbdf"}
	var yaml string
	if op.Configure {
		yaml = xConfigYAML(base, dir)
	} else {
		yaml = fmt.Sprintf("datadir: %s\nverbosity: panic\n", dir)
	}
	if op.FileVal != nil {
		yaml += op.Key + ": " + *op.FileVal + "\n"
	}
	f := filepath.Join(dir, "nuts.yaml")
	if err := os.WriteFile(f, []byte(yaml), 0o644); err != nil {
		panic(err)
	}
	for _, nv := range op.Env {
		os.Unsetenv(nv[0])
	}
	for _, nv := range op.Env {
		os.Setenv(nv[0], nv[1])
	}
	defer func() {
		for _, nv := range op.Env {
			os.Unsetenv(nv[0])
		}
	}()
	if op.Configure {
		if *sock == nil {
			*sock = xNewSock()
		}
		restore := (*sock).install()
		defer restore()
		oldStrict := client.StrictMode
		client.StrictMode = false
		defer func() { client.StrictMode = oldStrict }()
	}
	system := CreateSystem(func() {})
	flags := serverConfigFlags()
	args := []string{"--configfile", f}
	if op.Cli != "" {
		args = append(args, op.Cli)
	}
	if err := flags.Parse(args); err != nil {
		return "src refuse:flag-parse"
	}
	if err := system.Load(flags); err != nil {
		switch {
		case strings.Contains(err.Error(), "decoding"):
			return "src refuse:unmarshal"
		case strings.Contains(err.Error(), "have moved to tls"):
			return "src refuse:moved-keys"
		}
		return "src refuse:other:" + err.Error()
	}
	val := ""
	switch op.Key {
	case "strictmode":
		val = strconv.FormatBool(system.Config.Strictmode)
	case "url":
		val = xhx(system.Config.URL)
	case "didmethods":
		hs := make([]string, len(system.Config.DIDMethods))
		for i, m := range system.Config.DIDMethods {
			hs[i] = xhx(m)
		}
		val = "[" + strings.Join(hs, "|") + "]"
	}
	line := "src " + op.Key + "=" + val
	if op.Configure {
		defer xShutdown(system)
		if err := system.Configure(); err != nil {
			line += " start=refuse:" + xStartErr(err)
		} else {
			line += " start=ok"
		}
	}
	return line
}

// ---------- outbound client against real local servers

type xSock struct {
	mu      sync.Mutex
	locs    []string
	reqs    []string
	servers []*httptest.Server
	real    map[string]string
	pool    *x509.CertPool
	bodyN   int  // < 0: the fixed two-byte body
	chunked bool
}

func (s *xSock) handler(scheme string) http.Handler {
	return http.HandlerFunc(func(w http.ResponseWriter, r *http.Request) {
		s.mu.Lock()
		hop := len(s.reqs)
		s.reqs = append(s.reqs, scheme+"://"+r.Host)
		loc := ""
		if hop < len(s.locs) {
			loc = s.locs[hop]
		}
		bodyN, chunked := s.bodyN, s.chunked
		s.mu.Unlock()
		if loc != "" {
			w.Header().Set("Location", loc)
			w.WriteHeader(http.StatusFound)
			return
		}
		if bodyN >= 0 {
			payload := xPayload(bodyN)
			if !chunked {
				w.Header().Set("Content-Length", strconv.Itoa(bodyN))
			}
			w.WriteHeader(http.StatusOK)
			if chunked && bodyN > 0 {
				k := bodyN/3 + 1
				w.Write(payload[:k])
				if f, ok := w.(http.Flusher); ok {
					f.Flush()
				}
				payload = payload[k:]
			}
			w.Write(payload)
			return
		}
		w.WriteHeader(http.StatusOK)
		w.Write([]byte("ok"))
	})
}

func xNewSock() *xSock {
	s := &xSock{real: map[string]string{}, pool: x509.NewCertPool(), bodyN: -1}
	s.servers = []*httptest.Server{httptest.NewTLSServer(s.handler("https")), httptest.NewTLSServer(s.handler("https")), httptest.NewServer(s.handler("http"))}
	for i, srv := range s.servers {
		_, p, _ := net.SplitHostPort(srv.Listener.Addr().String())
		s.real[strconv.Itoa(1001+i)] = p
		if srv.Certificate() != nil {
			s.pool.AddCert(srv.Certificate())
		}
	}
	return s
}

func (s *xSock) install() func() {
	oldDial, oldTLS, oldCache := client.SafeHttpTransport.DialContext, client.SafeHttpTransport.TLSClientConfig, client.DefaultCachingTransport
	client.SafeHttpTransport.DialContext = func(ctx context.Context, network, addr string) (net.Conn, error) {
		_, p, err := net.SplitHostPort(addr)
		if err != nil {
			return nil, err
		}
		rp, ok := s.real[p]
		if !ok {
			return nil, fmt.Errorf("verif: no server on symbolic port %s", p)
		}
		return (&net.Dialer{}).DialContext(ctx, "tcp", "127.0.0.1:"+rp)
	}
	client.SafeHttpTransport.TLSClientConfig = s.tlsConfig()
	client.SafeHttpTransport.DisableKeepAlives = true
	client.DefaultCachingTransport = client.SafeHttpTransport
	return func() {
		client.SafeHttpTransport.DialContext, client.SafeHttpTransport.TLSClientConfig, client.DefaultCachingTransport = oldDial, oldTLS, oldCache
	}
}

func (s *xSock) tlsConfig() *tls.Config {
	return &tls.Config{RootCAs: s.pool, ServerName: "example.com", MinVersion: tls.VersionTLS12}
}

// every outbound method of the IAM client × every endpoint class (symbolic ports: 1001/1002 TLS servers, 1003 plain HTTP)
var xIamSites = []string{"ClientMetadata", "PresentationDefinition", "AuthorizationServerMetadata", "OpenIDConfiguration", "OpenIdCredentialIssuerMetadata",
	"RequestObjectByGet", "RequestObjectByPost", "PostError", "PostAuthorizationResponse", "AccessToken", "AccessTokenDPoP", "VerifiableCredentials"}
var xIamEndpoints = []string{"https://pub-verif.nl:1001/e", "http://pub-verif.nl:1003/e", "https://127.0.0.1:1001/e", "https://[::1]:1001/e", "https://localhost:1001/e",
	"https://node.local:1001/e", "https://a.test:1001/e", "https://10.0.0.12:1002/e", "https://example.com:1001/e"}

// ---------- executing one op

type xRecordingRT struct{ n int }

func (r *xRecordingRT) RoundTrip(req *http.Request) (*http.Response, error) {
	r.n++
	return nil, fmt.Errorf("verif: no network")
}

// xCtx drives the REAL JSON-LD loader of a configured jsonld engine with one URL; outbound fetches are counted by a
// recording transport that replaces http.DefaultTransport (json-gold's default loader uses http.DefaultClient)
func xCtx(op *xOp) string {
	inst := jsonld.NewJSONLDInstance()
	cfg := inst.(core.Injectable).Config().(*jsonld.Config)
	cfg.Contexts.RemoteAllowList = op.Allow
	if err := inst.(core.Configurable).Configure(core.ServerConfig{Strictmode: op.Strict}); err != nil {
		return "ctx configure-error:" + err.Error()
	}
	rt := &xRecordingRT{}
	old := http.DefaultTransport
	http.DefaultTransport = rt
	defer func() { http.DefaultTransport = old }()
	_, err := inst.DocumentLoader().LoadDocument(xunhx(op.S))
	op.Fetches = rt.n
	if err != nil && strings.Contains(err.Error(), "context not on the remoteallowlist") {
		return "ctx refused"
	}
	return "ctx passed"
}

func xExec(t *testing.T, op xOp, sock **xSock) (line string) {
	defer func() {
		if r := recover(); r != nil {
			line = fmt.Sprintf("%s panic:%v", op.Op, r)
		}
	}()
	switch op.Op {
	case "url":
		var host string
		var err error
		if op.Via == "wellknown" {
			u, e := oauth.IssuerIdToWellKnown(xunhx(op.S), oauth.AuthzServerWellKnown, op.Strict)
			err = e
			if e == nil {
				host = u.Host
			}
		} else {
			u, e := core.ParsePublicURL(xunhx(op.S), op.Strict)
			err = e
			if e == nil {
				host = u.Host
			}
		}
		if err != nil {
			return "url refuse:" + xURLErr(err)
		}
		return "url ok host=" + xhx(host)
	case "flag":
		cfg := core.NewServerConfig()
		flags := serverConfigFlags()
		if err := flags.Parse([]string{"--" + op.Flag + "=" + op.Value}); err != nil {
			return "flag parse-error"
		}
		err := cfg.Load(flags)
		switch {
		case err == nil:
			return "flag ok"
		case strings.Contains(err.Error(), "is a secret"):
			return "flag refuse:cli-secret"
		case op.Flag == "configfile" && strings.Contains(err.Error(), "unable to load config file"):
			return "flag ok" // the flag itself was accepted; the named file does not exist
		}
		return "flag other:" + err.Error()
	case "flags":
		cfg := core.NewServerConfig()
		flags := serverConfigFlags()
		var args []string
		for _, a := range op.Args {
			args = append(args, "--"+a)
		}
		if err := flags.Parse(args); err != nil {
			return "flags parse-error"
		}
		err := cfg.Load(flags)
		switch {
		case err == nil:
			return "flags ok"
		case strings.Contains(err.Error(), "is a secret"):
			return "flags refuse:cli-secret"
		}
		return "flags other:" + err.Error()
	case "src":
		return xSrc(op, sock)
	case "cflag":
		return xClientFlags(op)
	case "dummy":
		d := dummy.Dummy{InStrictMode: op.Strict, Sessions: map[string]string{}, Status: map[string]string{}}
		var ids, outs []string
		for _, a := range op.Acts {
			var err error
			out := ""
			switch {
			case a == "start":
				sp, e := d.StartSigningSession(contract.Contract{RawContractText: "NL:BehandelaarLogin:v3 text"}, nil)
				err = e
				if e == nil {
					ids = append(ids, sp.SessionID())
					out = "started"
				}
			case a == "verify":
				_, err = d.VerifyVP(vc.VerifiablePresentation{}, nil)
				out = "verifier-reached"
			default:
				n, _ := strconv.Atoi(strings.TrimPrefix(a, "status:"))
				id := "no-such-session"
				if n < len(ids) {
					id = ids[n]
				}
				res, e := d.SigningSessionStatus(context.Background(), id)
				err = e
				if e == nil {
					out = res.Status()
				}
			}
			switch {
			case err == nil:
			case strings.Contains(err.Error(), "not allowed in strict mode"):
				out = "not-enabled"
			case err == services.ErrSessionNotFound:
				out = "not-found"
			case a == "verify":
				out = "verifier-reached"
			default:
				out = "error:" + err.Error()
			}
			outs = append(outs, out)
		}
		return "dummy " + strings.Join(outs, ",")
	case "load", "sys":
		dir, err := os.MkdirTemp(os.Getenv("VERIF_OUT"), "node")
		if err != nil {
			panic(err)
		}
		defer os.RemoveAll(dir)
		// a fresh process: strict mode of the HTTP clients is off until the HTTP engine is configured (last);
		// clients that engines build before that moment are represented by `early`
		if *sock == nil {
			*sock = xNewSock()
		}
		restore := (*sock).install()
		defer restore()
		oldStrict := client.StrictMode
		client.StrictMode = false
		defer func() { client.StrictMode = oldStrict }()
		early := client.New(5 * time.Second)
		if op.Prior == "lenient" {
			// the history the data directory has: one complete lenient start-up without a connection string
			prior := xOp{Op: "sys", Strict: false, URL: "https://nuts.nl", TLS: true, Methods: []string{"web", "nuts"}, Crypto: "fs", Irma: "pbdf"}
			psys, perr := xLoad(prior, dir)
			if perr == nil {
				perr = psys.Configure()
			}
			xShutdown(psys)
			client.StrictMode = false
			if perr != nil {
				return op.Op + " prior-run-failed:" + xStartErr(perr)
			}
			if _, serr := os.Stat(filepath.Join(dir, "sqlite.db")); serr != nil {
				return op.Op + " prior-run-left-no-sqlite.db"
			}
		}
		system, err := xLoad(op, dir)
		if err != nil {
			return op.Op + " refuse:" + xStartErr(err)
		}
		if op.Op == "load" {
			return "load ok"
		}
		defer xShutdown(system)
		if op.Cache != "" {
			// also set the engine's own config field (the nested koanf key may not reach it through the loader)
			system.VisitEngines(func(e core.Engine) {
				if he, ok := e.(*httpEngine.Engine); ok {
					n, _ := strconv.Atoi(op.Cache)
					he.Config().(*httpEngine.Config).ResponseCacheSize = n
				}
			})
		}
		if err := system.Configure(); err != nil {
			return "sys refuse:" + xStartErr(err)
		}
		// per-action probes on the configured node
		dummy, remote, iamHTTP, iamIP, iamAll, iamVC := "?", "?", "?", "?", "?", "?"
		iamMatrix := ""
		sk := *sock
		iamCall := func(a *auth.Auth, site string, endpoint string) error {
			c, ctx := a.IAMClient(), context.Background()
			var err error
			switch site {
			case "ClientMetadata":
				_, err = c.ClientMetadata(ctx, endpoint)
			case "PresentationDefinition":
				_, err = c.PresentationDefinition(ctx, endpoint)
			case "AuthorizationServerMetadata":
				_, err = c.AuthorizationServerMetadata(ctx, endpoint)
			case "OpenIDConfiguration":
				_, err = c.OpenIDConfiguration(ctx, endpoint)
			case "OpenIdCredentialIssuerMetadata":
				_, err = c.OpenIdCredentialIssuerMetadata(ctx, endpoint)
			case "RequestObjectByGet":
				_, err = c.RequestObjectByGet(ctx, endpoint)
			case "PostError":
				_, err = c.PostError(ctx, oauth.OAuth2Error{Code: oauth.InvalidRequest}, endpoint, "state")
			case "VerifiableCredentials":
				_, err = c.VerifiableCredentials(ctx, endpoint, "token", "proof")
			case "RequestObjectByPost":
				_, err = c.RequestObjectByPost(ctx, endpoint, oauth.AuthorizationServerMetadata{})
			case "PostAuthorizationResponse":
				_, err = c.PostAuthorizationResponse(ctx, vc.VerifiablePresentation{}, pe.PresentationSubmission{}, endpoint, "state")
			case "AccessToken":
				_, err = c.AccessToken(ctx, "code", endpoint, "https://nuts.nl/callback", "subject", "client", "verifier", false)
			case "AccessTokenDPoP":
				_, err = c.AccessToken(ctx, "code", endpoint, "https://nuts.nl/callback", "subject", "client", "verifier", true)
			}
			return err
		}
		iamProbeSite := func(a *auth.Auth, site string, endpoint string) string {
			sk.mu.Lock()
			sk.locs, sk.reqs = nil, nil
			sk.mu.Unlock()
			err := iamCall(a, site, endpoint)
			sk.mu.Lock()
			sent := len(sk.reqs) > 0
			sk.mu.Unlock()
			switch {
			case sent:
				return "sent"
			case err != nil && (strings.Contains(err.Error(), "scheme must be") || strings.Contains(err.Error(), "hostname is IP") || strings.Contains(err.Error(), "reserved")):
				return "refused-endpoint"
			case err != nil && strings.Contains(err.Error(), "request is not over HTTPS"):
				return "refused-client"
			}
			return fmt.Sprintf("other:%v", err)
		}
		iamProbe := func(a *auth.Auth, endpoint string) string { return iamProbeSite(a, "ClientMetadata", endpoint) }
		system.VisitEngines(func(e core.Engine) {
			switch v := e.(type) {
			case *auth.Auth:
				iamHTTP = iamProbe(v, "http://c.verif.test:1003/meta")
				iamIP = iamProbe(v, "https://127.0.0.1:1001/meta")
				// every other IAM call site that validates its endpoint, with a plain-http endpoint
				iamAll = ""
				for _, site := range []string{"PresentationDefinition", "AuthorizationServerMetadata", "OpenIDConfiguration", "OpenIdCredentialIssuerMetadata", "RequestObjectByGet", "PostError"} {
					if r := iamProbeSite(v, site, "http://c.verif.test:1003/x"); r != iamHTTP {
						iamAll += site + ":" + r + ","
					}
				}
				if iamAll == "" {
					iamAll = "same"
				}
				iamVC = iamProbeSite(v, "VerifiableCredentials", "http://c.verif.test:1003/credential")
				if op.IamMatrix {
					var sb strings.Builder
					for _, site := range xIamSites {
						sb.WriteString(site + ":")
						for _, ep := range xIamEndpoints {
							r := iamProbeSite(v, site, ep)
							if strings.HasPrefix(r, "other:") {
								r = "nosend"
							}
							sb.WriteString(r + "/")
						}
						sb.WriteString(",")
					}
					iamMatrix = " iammatrix=" + sb.String()
				}
				_, err := v.ContractNotary().CreateSigningSession(services.CreateSessionRequest{SigningMeans: "dummy", Message: "not a contract"})
				if err != nil && strings.Contains(err.Error(), "unknown signing means") {
					dummy = "absent"
				} else {
					dummy = "registered"
				}
				_, err = v.ContractNotary().VerifyVP(vc.VerifiablePresentation{Type: []ssi.URI{vc.VerifiablePresentationTypeV1URI(), ssi.MustParseURI("DummyVerifiablePresentation")}}, nil)
				if err == nil || !strings.Contains(err.Error(), "unknown VerifiablePresentation type") {
					if dummy == "absent" {
						dummy = "verifier-only"
					}
				} else if dummy == "registered" {
					dummy = "signer-only"
				}
			case jsonld.JSONLD:
				_, err := v.DocumentLoader().LoadDocument("https://unlisted.verif.test/context.jsonld")
				if err != nil && strings.Contains(err.Error(), "context not on the remoteallowlist") {
					remote = "refused"
				} else {
					remote = "attempted"
				}
			}
		})
		// the client built before the node was configured, now asked to follow https -> http
		sk.mu.Lock()
		sk.locs, sk.reqs = []string{"http://c.verif.test:1003/hop0"}, nil
		sk.mu.Unlock()
		earlyOut := "followed"
		req, _ := http.NewRequest(http.MethodGet, "https://a.verif.test:1001/start", nil)
		if _, err := early.Do(req); err != nil {
			earlyOut = "refused"
		}
		sk.mu.Lock()
		for _, r := range sk.reqs {
			if strings.HasPrefix(r, "http://") {
				earlyOut = "followed"
			}
		}
		sk.mu.Unlock()
		return fmt.Sprintf("sys ok dummy=%s remotectx=%s clientstrict=%v earlyclient=%s iamhttp=%s iamip=%s iamsites=%s iamvc=%s%s", dummy, remote, client.StrictMode, earlyOut, iamHTTP, iamIP, iamAll, iamVC, iamMatrix)
	case "do", "cap":
		if *sock == nil {
			*sock = xNewSock()
		}
		s := *sock
		s.mu.Lock()
		s.locs, s.reqs, s.bodyN, s.chunked = op.Locs, nil, -1, op.Chunked
		if op.Op == "cap" && op.Body != nil {
			s.bodyN = *op.Body
		}
		s.mu.Unlock()
		defer func() { // later ops (IAM probes of sys rows) get the fixed small body again
			s.mu.Lock()
			s.bodyN, s.chunked = -1, false
			s.mu.Unlock()
		}()
		restore := s.install()
		defer restore()
		old := client.StrictMode
		client.StrictMode = op.Strict
		if op.Late {
			client.StrictMode = false
		}
		defer func() { client.StrictMode = old }()
		var c *client.StrictHTTPClient
		switch op.Ctor {
		case "New":
			c = client.New(5 * time.Second)
		case "NewWithCache":
			c = client.NewWithCache(5 * time.Second)
		default:
			c = client.NewWithTLSConfig(5*time.Second, s.tlsConfig())
		}
		client.StrictMode = op.Strict // from here on the node is configured
		req, err := http.NewRequest(http.MethodGet, op.First, nil)
		if err != nil {
			return "do bad-request"
		}
		resp, err := c.Do(req)
		out := "ok"
		if err != nil {
			switch {
			case strings.Contains(err.Error(), "request is not over HTTPS"):
				out = "refuse:first-not-https"
			case strings.Contains(err.Error(), "redirect is not over HTTPS"):
				out = "refuse:redirect-not-https"
			case strings.Contains(err.Error(), "stopped after 10 redirects"):
				out = "refuse:too-many-redirects"
			default:
				out = "error:" + err.Error()
			}
		} else {
			out = "ok:" + strconv.Itoa(resp.StatusCode)
		}
		if op.Op == "cap" {
			// what the caller of Do gets to read: length, and whether it is byte for byte what the server sent
			if err == nil {
				got, rerr := io.ReadAll(resp.Body)
				out += fmt.Sprintf(" len=%d same=%v", len(got), rerr == nil && op.Body != nil && bytes.Equal(got, xPayload(*op.Body)))
			} else if strings.Contains(err.Error(), "exceeds max. safety limit") {
				out = "refuse:too-large"
			}
			s.mu.Lock()
			defer s.mu.Unlock()
			return fmt.Sprintf("cap reqs=%d out=%s", len(s.reqs), out)
		}
		s.mu.Lock()
		defer s.mu.Unlock()
		return fmt.Sprintf("do reqs=[%s] out=%s", strings.Join(s.reqs, ","), out)
	}
	return "bad-op:" + op.Op
}

// ---------- generators

var xHosts = []string{"localhost.", "node.local.", "example.com.", "www.example.org.", "a.test.", "a.invalid.", "127.0.0.1.", "127.0.0.1.:8080", "10.0.0.1.", "localhost.:443",
	"node.example.net.:8443", "nuts.nl.:443", "sub.nuts.nl.", "localhost..", "[::1].", "nuts.nl", "node.example.org", "Example.COM", "example.com", "www.example.net", "sub.example.org", "localhost", "LOCALHOST", "foo.localhost", "node.local", "node.lan",
	"a.corp", "a.home", "a.host", "a.invalid", "a.test", "a.localdomain", "a.example", "example", "nuts.nl.", "nuts", "test", "nl", "a.b.c.d.nl", "xn--nts-hoa.nl", "127.0.0.1", "10.0.0.1",
	"127.1", "0x7f.0.0.1", "2130706433", "[::1]", "[fe80::1]", "::1", "1.2.3.4.", "256.1.1.1", "a_b.nl", "-.nl", "nuts.nl:443", "nuts.nl:", "nuts.nl:80", "localhost:8080", "127.0.0.1:443",
	"[::1]:443", "user@nuts.nl", "user:pw@nuts.nl", "user@localhost", "nuts.nl@localhost", "nuts.nl%2F", "nuts.nl%00", "é.nl", "日本.jp", "nuts.nl\\", "nuts nl", "", ".", "..", ".nl", "nl.", "example.com.", "a.example.com", "example.comx", "notexample.com", "example.co", "my-example.org", "test.nl", "corp.nl"}

var xSchemes = []string{"https://", "https://", "https://", "http://", "HTTPS://", "Http://", "", "//", "ftp://", "grpc://", "https:", "https:/", "file://", "ws://", "wss://", "did:web:", "javascript:", "h ttps://", "1https://", "+https://"}

// xClientFlags: the CLI client's loader (environment, then loadFromFlagSet — a refusal panics) on a real cobra command
func xClientFlags(op xOp) (line string) {
	cmd := &cobra.Command{Use: "verif"}
	if op.Cmd != "" {
		// a fresh command tree per op: AddFlagSet shares the *pflag.Flag objects between all client commands
		root := CreateCommand(CreateSystem(func() {}))
		c, rest, err := root.Find(strings.Fields(op.Cmd))
		if err != nil || len(rest) != 0 || c == root {
			return "cflag no-such-command"
		}
		cmd = c
	} else {
		cmd.Flags().AddFlagSet(core.ClientConfigFlags())
	}
	for _, n := range op.Names {
		if cmd.Flags().Lookup(n) == nil {
			cmd.Flags().String(n, "", "a flag of the command itself")
		}
	}
	var args []string
	for _, a := range op.Args {
		args = append(args, "--"+a)
	}
	if err := cmd.Flags().Parse(args); err != nil {
		return "cflag parse-error"
	}
	os.Unsetenv("NUTS_TOKEN")
	if op.EnvToken != nil {
		os.Setenv("NUTS_TOKEN", *op.EnvToken)
		defer os.Unsetenv("NUTS_TOKEN")
	}
	defer func() {
		if r := recover(); r != nil {
			m := fmt.Sprint(r)
			if i := strings.Index(m, " is a secret"); i > 0 && strings.HasPrefix(m, "flag ") {
				line = "cflag refuse:cli-secret:" + xhx(m[len("flag "):i])
				return
			}
			line = "cflag panic:" + m
		}
	}()
	cfg := core.NewClientConfigForCommand(cmd)
	return "cflag ok token=" + xhx(cfg.Token)
}

// xGenClientFlags: every client flag alone, --token among flags sorting before / after it, a command's own flags whose
// names end in token / password without a dot, token from the environment
func xGenClientFlags(r *rand.Rand, thorough bool) []xOp {
	var base []string
	core.ClientConfigFlags().VisitAll(func(f *pflag.Flag) { base = append(base, f.Name) })
	val := func(n string) string {
		switch n {
		case "timeout":
			return "7s"
		case "verbosity":
			return "debug"
		case "address":
			return "localhost:8081"
		}
		return "v" + strconv.Itoa(len(n))
	}
	extras := []string{"apitoken", "xtoken", "db.password", "password", "mypassword", "tokens", "passwords", "a.token", "tokenx", "zz.token", "aa", "zy", "sessiontoken", "tokenpassword", "pass.word"}
	mk := func(extra []string, set []string, env *string, tag string) xOp {
		all := append(append([]string{}, base...), extra...)
		sort.Strings(all)
		var args []string
		for _, n := range set {
			args = append(args, n+"="+val(n))
		}
		return xOp{Op: "cflag", Names: all, Args: args, EnvToken: env, Strict: true, Tag: tag}
	}
	envTok := "env-secret"
	var ops []xOp
	// every REAL command of the tree that offers --token: --token alone, --token with --address, and no secret + NUTS_TOKEN
	var walk func(c *cobra.Command, path []string)
	walk = func(c *cobra.Command, path []string) {
		if c.Flags().Lookup("token") != nil {
			var names []string
			c.Flags().VisitAll(func(f *pflag.Flag) { names = append(names, f.Name) })
			p := strings.Join(path, " ")
			ops = append(ops, xOp{Op: "cflag", Cmd: p, Names: names, Args: []string{"token=" + val("token")}, Strict: true, Tag: "cflag-real-command"},
				xOp{Op: "cflag", Cmd: p, Names: names, Args: []string{"address=" + val("address"), "token=" + val("token")}, EnvToken: &envTok, Strict: true, Tag: "cflag-real-command"},
				xOp{Op: "cflag", Cmd: p, Names: names, Args: []string{"address=" + val("address")}, EnvToken: &envTok, Strict: true, Tag: "cflag-real-command"})
		}
		for _, sub := range c.Commands() {
			walk(sub, append(append([]string{}, path...), sub.Name()))
		}
	}
	walk(CreateCommand(CreateSystem(func() {})), nil)
	ops = append(ops, mk(nil, nil, nil, "cflag-none"), mk(nil, nil, &envTok, "cflag-env"))
	for _, n := range base {
		ops = append(ops, mk(nil, []string{n}, nil, "cflag-single"), mk(nil, []string{n}, &envTok, "cflag-single"))
	}
	ops = append(ops, mk(nil, []string{"address", "token"}, nil, "cflag-combined"), mk(nil, []string{"token", "verbosity"}, nil, "cflag-combined"),
		mk(nil, []string{"address", "token", "token-file", "verbosity"}, &envTok, "cflag-combined"), mk(nil, []string{"address", "timeout", "token-file", "verbosity"}, &envTok, "cflag-combined"))
	for _, e := range extras {
		ops = append(ops, mk([]string{e}, []string{e}, nil, "cflag-own-flag"), mk(extras, []string{e, "address"}, &envTok, "cflag-own-flag"))
	}
	n := 25
	if thorough {
		n = 400
	}
	for i := 0; i < n; i++ {
		var extra, set []string
		for _, e := range extras {
			if r.Intn(3) == 0 {
				extra = append(extra, e)
			}
		}
		for _, c := range append(append([]string{}, base...), extra...) {
			if r.Intn(4) == 0 {
				set = append(set, c)
			}
		}
		var env *string
		if r.Intn(2) == 0 {
			env = &envTok
		}
		ops = append(ops, mk(extra, set, env, "cflag-random"))
	}
	return ops
}

func xGenURL(r *rand.Rand) string {
	s := xSchemes[r.Intn(len(xSchemes))] + xHosts[r.Intn(len(xHosts))]
	if r.Intn(3) == 0 {
		s += []string{"/", "/path", "/a/b?c=d", "?q", "#f", "/%zz", "/a b", "/\x7f", "/é"}[r.Intn(9)]
	}
	return s
}

func xFlagValue(f *pflag.Flag) string {
	switch f.Name {
	case "loggerformat":
		return "json"
	case "verbosity":
		return "debug"
	}
	switch f.Value.Type() {
	case "bool":
		return "true"
	case "int", "uint", "int64", "uint64", "int32", "uint32", "float64", "uint16":
		return "7"
	case "duration":
		return "7s"
	case "stringToString":
		return "a=b"
	case "intSlice":
		return "1"
	}
	return "verif"
}

func xGenerate(seed int64, thorough bool) []xOp {
	r := rand.New(rand.NewSource(seed*15485863 + 2020))
	var ops []xOp
	// 1. URLs: every (scheme, host) pair of the tables, both modes (exhaustive), plus random decorations
	for _, sc := range xSchemes {
		for _, h := range xHosts {
			for _, strict := range []bool{true, false} {
				ops = append(ops, xOp{Op: "url", S: xhx(sc + h), Strict: strict, Tag: "url-table"})
			}
		}
	}
	n := 1500
	if thorough {
		n = 30000
	}
	for i := 0; i < n; i++ {
		op := xOp{Op: "url", S: xhx(xGenURL(r)), Strict: r.Intn(2) == 0, Tag: "url-random"}
		if r.Intn(4) == 0 {
			op.Via, op.Tag = "wellknown", "url-wellknown"
		}
		ops = append(ops, op)
	}
	// 2. every registered flag on the command line (exhaustive)
	var names []string
	serverConfigFlags().VisitAll(func(f *pflag.Flag) { names = append(names, f.Name) })
	sort.Strings(names)
	fs := serverConfigFlags()
	for _, name := range names {
		ops = append(ops, xOp{Op: "flag", Flag: name, Value: xFlagValue(fs.Lookup(name)), Strict: true, Tag: "flag"})
	}
	// 2b. every secret flag COMBINED with other flags that sort before and after it (pflag visits flags in sorted order)
	var secrets, plain []string
	for _, name := range names {
		if strings.HasSuffix(name, "token") || strings.HasSuffix(name, "password") {
			secrets = append(secrets, name)
		} else if name != "configfile" && name != "cpuprofile" {
			plain = append(plain, name)
		}
	}
	arg := func(name string) string { return name + "=" + xFlagValue(fs.Lookup(name)) }
	for _, sname := range secrets {
		var before, after []string
		for _, p := range plain {
			if p < sname {
				before = append(before, p)
			} else {
				after = append(after, p)
			}
		}
		combos := [][]string{{arg(sname), arg(before[0])}, {arg(sname), arg(after[len(after)-1])}, {arg(before[len(before)-1]), arg(sname), arg(after[0])},
			{arg(after[0]), arg(sname)}, {arg("url"), arg(sname), arg("verbosity")}}
		for k := 0; k < 6; k++ {
			c := []string{arg(sname)}
			for n := 1 + r.Intn(4); n > 0; n-- {
				c = append(c, arg(plain[r.Intn(len(plain))]))
			}
			if k%2 == 0 {
				c = append(c, arg(secrets[r.Intn(len(secrets))]))
			}
			r.Shuffle(len(c), func(i, j int) { c[i], c[j] = c[j], c[i] })
			combos = append(combos, c)
		}
		for _, c := range combos {
			ops = append(ops, xOp{Op: "flags", Args: c, Strict: true, Tag: "flags-combined"})
		}
	}
	for k := 0; k < 20; k++ { // and combinations without any secret
		var c []string
		for n := 1 + r.Intn(4); n > 0; n-- {
			c = append(c, arg(plain[r.Intn(len(plain))]))
		}
		ops = append(ops, xOp{Op: "flags", Args: c, Strict: true, Tag: "flags-plain"})
	}
	// 3. moved keys: file and environment, both modes (exhaustive)
	base := xOp{URL: "https://nuts.nl", Methods: []string{"web"}, Crypto: "fs", SQL: true, Irma: "pbdf"}
	for _, k := range []string{"network.certfile", "network.certkeyfile", "network.truststorefile", ""} {
		for _, strict := range []bool{true, false} {
			for _, env := range []bool{false, true} {
				op := base
				op.Op, op.Legacy, op.LegacyEnv, op.Strict, op.Tag = "load", k, env, strict, "moved-keys"
				ops = append(ops, op)
			}
		}
	}
	// 4. the option product through the assembled node
	var product []xOp
	for _, strict := range []bool{true, false} {
		for _, u := range []string{"https://nuts.nl", "http://nuts.nl", "https://127.0.0.1", "https://localhost", "https://node.example.com", ""} {
			for _, tlsOn := range []bool{false, true} {
				for _, m := range [][]string{{"web"}, {"web", "nuts"}, {"nuts"}} {
					for _, cr := range []string{"", "fs", "bogus"} {
						for _, sql := range []bool{false, true} {
							for _, dummy := range []bool{false, true} {
								for _, irma := range []string{"pbdf", "irma-demo"} {
									product = append(product, xOp{Op: "sys", Strict: strict, URL: u, TLS: tlsOn, Methods: m, Crypto: cr, SQL: sql, Dummy: dummy, Irma: irma, Tag: "product"})
								}
							}
						}
					}
				}
			}
		}
	}
	// the test-only means is spelled in every case variant (the notary matches validator names case-insensitively)
	spell := []string{"dummy", "Dummy", "DUMMY", "dUmMy"}
	for i := range product {
		if product[i].Dummy {
			product[i].DummyName = spell[i%len(spell)]
		}
	}
	// exhaustive in both tiers (the whole product takes ~20 s); the order is shuffled per seed
	r.Shuffle(len(product), func(i, j int) { product[i], product[j] = product[j], product[i] })
	ops = append(ops, product...)
	// the configuration does not mention strictmode: the default must be strict (secure row + every single insecure setting)
	secure := xOp{Op: "sys", Strict: true, StrictUnset: true, URL: "https://nuts.nl", TLS: true, Methods: []string{"web", "nuts"}, Crypto: "fs", SQL: true, Dummy: true, Irma: "pbdf", Tag: "default-strict"}
	for k := 0; k < 8; k++ {
		op := secure
		switch k {
		case 1:
			op.URL = "http://nuts.nl"
		case 2:
			op.URL = "https://127.0.0.1"
		case 3:
			op.URL = "https://localhost"
		case 4:
			op.TLS = false
		case 5:
			op.Crypto = ""
		case 6:
			op.SQL = false
		case 7:
			op.Irma = "irma-demo"
		}
		ops = append(ops, op)
	}
	// the IAM client: every outbound method × every endpoint class, on a started strict and a started lenient node
	for _, strict := range []bool{true, false} {
		op := secure
		op.StrictUnset, op.Strict, op.IamMatrix, op.Tag = false, strict, true, "iam-matrix"
		ops = append(ops, op)
	}
	// an option that has nothing to do with strict mode — the size of the HTTP response cache — must not change any verdict
	for _, strict := range []bool{true, false} {
		for _, cache := range []string{"0", "4096", ""} {
			for _, m := range [][]string{{"web"}, {"web", "nuts"}, {"nuts"}} {
				for _, dummy := range []bool{false, true} {
					op := secure
					op.StrictUnset, op.Strict, op.Cache, op.Methods, op.Dummy, op.Tag = false, strict, cache, m, dummy, "cache-option"
					ops = append(ops, op)
				}
			}
		}
	}
	// a CLI secret on an otherwise fine node, both modes
	for _, strict := range []bool{true, false} {
		op := base
		op.Op, op.Strict, op.Cli, op.Tag = "load", strict, "--crypto.vault.token=s3cr3t", "cli-secret"
		ops = append(ops, op)
	}
	// 4b. remote JSON-LD contexts: the real loader with the exact allow-listed URLs and hostile URLs derived from them
	allowLists := [][]string{jsonld.DefaultAllowList(), {"https://ctx.verif.test/v1", "https://other.verif.test/ns/"}, {}}
	for _, al := range allowLists {
		var urls []string
		for _, a := range al {
			u, _ := url.Parse(a)
			urls = append(urls, a, a+"/", a+"/evil.jsonld", a+".attacker.example/ctx", a+"x", a+"?x=1", a+"#f", strings.TrimSuffix(a, "/"),
				strings.ToUpper(a), strings.Replace(a, "https://", "http://", 1), strings.Replace(a, "https://", "https://"+u.Host+"@attacker.example/", 1),
				u.Scheme+"://"+u.Host+":8443"+u.Path, u.Scheme+"://"+u.Host+".attacker.example"+u.Path, u.Scheme+"://attacker.example/"+u.Host+u.Path, a[:len(a)-1], " "+a)
		}
		urls = append(urls, "https://unlisted.verif.test/context.jsonld", "https://attacker.example/", "", "https://")
		for _, u := range urls {
			for _, strict := range []bool{true, false} {
				ops = append(ops, xOp{Op: "ctx", S: xhx(u), Strict: strict, Allow: al, Tag: "remote-context"})
			}
		}
	}
	// 5. outbound requests
	origins := []string{"https://a.verif.test:1001", "https://b.verif.test:1002", "http://c.verif.test:1003"}
	nd := 150
	if thorough {
		nd = 1500
	}
	for i := 0; i < nd; i++ {
		op := xOp{Op: "do", Ctor: []string{"New", "NewWithCache", "NewWithTLSConfig"}[i%3], Strict: r.Intn(3) != 0, Late: i%2 == 1, First: origins[r.Intn(3)] + "/start", Tag: "do"}
		for r.Intn(2) == 0 && len(op.Locs) < 12 {
			op.Locs = append(op.Locs, origins[r.Intn(3)]+"/hop"+strconv.Itoa(len(op.Locs)))
		}
		if i%25 == 0 {
			for len(op.Locs) < 12 {
				op.Locs = append(op.Locs, origins[r.Intn(2)]+"/loop")
			}
		}
		ops = append(ops, op)
	}
	// 6. the response cap of http/client (deepening round): bodies around 1 MiB, Content-Length and chunked, behind 0..2 redirects
	const mib = 1024 * 1024
	sizes := []int{0, 1, mib - 1, mib, mib + 1, mib + 2, 2 * mib, r.Intn(mib), mib + 1 + r.Intn(mib)}
	if thorough {
		sizes = append(sizes, 2, 4096, mib/2, mib-2, 3*mib, r.Intn(mib), mib+1+r.Intn(4096), 4*mib+7)
	}
	k := 0
	for _, n := range sizes {
		for _, chunked := range []bool{false, true} {
			for _, strict := range []bool{true, false} {
				nctor := 1
				if thorough {
					nctor = 3
				}
				for c := 0; c < nctor; c++ {
					n := n
					// every cap op talks to host names of its own: http/client does not close the body of a response it refuses as too
					// large, so that connection stays counted against SafeHttpTransport.MaxConnsPerHost (5) of its host for good
					host := func(i, port int) string {
						sch := "https"
						if port == 1003 {
							sch = "http"
						}
						return fmt.Sprintf("%s://cap%d-%d.verif.test:%d", sch, k, i, port)
					}
					op := xOp{Op: "cap", Ctor: []string{"New", "NewWithCache", "NewWithTLSConfig"}[(k+c)%3], Strict: strict, First: host(0, 1001+k%2) + "/big", Body: &n, Chunked: chunked, Tag: "response-cap"}
					if !strict && k%3 == 0 {
						op.First = host(0, 1003) + "/big"
					}
					for h := 0; h < k%3; h++ {
						op.Locs = append(op.Locs, host(h+1, 1001+(k+h)%2)+"/hop"+strconv.Itoa(h))
					}
					k++
					ops = append(ops, op)
				}
			}
		}
	}
	ops = append(ops, xGenSources(r, thorough)...)
	// 8. (deepening round) the three tls.* file options individually, and spellings of the crypto back-end name
	for _, parts := range []string{"", "c", "k", "t", "ck", "ct", "kt", "ckt"} {
		for _, strict := range []bool{true, false} {
			for _, methods := range [][]string{{"web", "nuts"}, {"web"}} {
				parts := parts
				ops = append(ops, xOp{Op: "sys", Strict: strict, URL: "https://nuts.nl", TLSParts: &parts, TLS: strings.ContainsAny(parts, "ck"), Methods: methods, Crypto: "fs", SQL: true, Irma: "pbdf", Tag: "tls-files"})
			}
		}
	}
	for _, name := range []string{"FS", "Fs", "fs2", "f", "filesystem", "vault", "VAULTKV", "azure", "External"} {
		for _, strict := range []bool{true, false} {
			ops = append(ops, xOp{Op: "sys", Strict: strict, URL: "https://nuts.nl", TLS: true, Methods: []string{"web", "nuts"}, Crypto: name, SQL: true, Irma: "pbdf", Tag: "crypto-names"})
		}
	}
	// 9. (round 3) the connection STRING through the real storage engine, on a fresh data directory and on one that an earlier
	// lenient run without a connection string has used (its sqlite.db is still there)
	conns := []string{"", "sqlite:file:$DIR/explicit.sqlite?_pragma=foreign_keys(1)&journal_mode(WAL)", "sqlite:file:$DIR/sqlite.db?_pragma=foreign_keys(1)&journal_mode(WAL)",
		"bogus:file:$DIR/x.db", "Sqlite:file:$DIR/x.db", "file:$DIR/x.db", "sqlite3:file:$DIR/x.db"}
	for _, strict := range []bool{true, false} {
		for _, prior := range []string{"", "lenient"} {
			for _, conn := range conns {
				conn := conn
				ops = append(ops, xOp{Op: "sys", Strict: strict, URL: "https://nuts.nl", TLS: true, Methods: []string{"web", "nuts"}, Crypto: "fs", SQLConn: &conn, SQL: conn != "", Prior: prior, Irma: "pbdf", Tag: "sql-conn"})
			}
		}
	}
	for _, url := range []string{"http://nuts.nl", "https://127.0.0.1"} {
		for _, crypto := range []string{"", "fs"} {
			conn := ""
			ops = append(ops, xOp{Op: "sys", Strict: true, StrictUnset: crypto == "", URL: url, TLS: true, Methods: []string{"web"}, Crypto: crypto, SQLConn: &conn, Prior: "lenient", Irma: "pbdf", Tag: "sql-conn"})
		}
	}
	ops = append(ops, xGenClientFlags(r, thorough)...)
	// 10. (round 3) histories of calls on the dummy means itself, strict and lenient
	nh := 30
	if thorough {
		nh = 600
	}
	for i := 0; i < nh+2; i++ {
		acts := []string{"start", "status:0", "status:0", "status:0", "status:0", "verify"}
		if i >= 2 {
			acts = nil
			for k := 1 + r.Intn(12); k > 0; k-- {
				switch r.Intn(5) {
				case 0:
					acts = append(acts, "verify")
				case 1, 2:
					acts = append(acts, "start")
				default:
					acts = append(acts, "status:"+strconv.Itoa(r.Intn(4)))
				}
			}
		}
		ops = append(ops, xOp{Op: "dummy", Strict: i%2 == 0, Acts: acts, Tag: "dummy-history"})
	}
	return ops
}

// 7. where the options come from (deepening round): every combination of file / environment / command line for strictmode,
// with hostile environment spellings and values; url and didmethods through the same loader
func xGenSources(r *rand.Rand, thorough bool) []xOp {
	var ops []xOp
	sp := func(s string) *string { return &s }
	fileVals := []*string{nil, sp("true"), sp("false")}
	cliVals := []string{"", "--strictmode", "--strictmode=true", "--strictmode=false"}
	envNames := []string{"NUTS_STRICTMODE", "NUTS_strictmode", "NUTS_StrictMode", "nuts_strictmode", "NUTSSTRICTMODE", "XNUTS_STRICTMODE", "NUTS__STRICTMODE", "NUTS_STRICT_MODE", "STRICTMODE"}
	envVals := []string{"true", "false", "TRUE", "FALSE", "True", "False", "1", "0", "t", "f", "T", "F", " false ", "false ", "\tfalse", " true", "", " ", "yes", "no", "off", "fALSE", "false,false", "false,", "true,false", "false\\,", "0x0", "00"}
	n := 0
	for _, fv := range fileVals {
		for _, cv := range cliVals {
			// no environment, then a few environments
			envs := [][][2]string{nil}
			k := 6
			if thorough {
				k = 40
			}
			for i := 0; i < k; i++ {
				var e [][2]string
				name := envNames[0]
				if r.Intn(3) == 0 {
					name = envNames[r.Intn(len(envNames))]
				}
				e = append(e, [2]string{name, envVals[r.Intn(len(envVals))]})
				if r.Intn(4) == 0 {
					e = append(e, [2]string{envNames[r.Intn(3)], envVals[r.Intn(4)]})
					if e[1][0] == e[0][0] {
						e = e[:1]
					}
				}
				envs = append(envs, e)
			}
			for _, e := range envs {
				n++
				ops = append(ops, xOp{Op: "src", Key: "strictmode", FileVal: fv, Env: e, Cli: cv, Configure: n%5 == 0, Tag: "sources"})
			}
		}
	}
	// every environment value once, alone (and every name once with "false")
	for _, v := range envVals {
		ops = append(ops, xOp{Op: "src", Key: "strictmode", Env: [][2]string{{"NUTS_STRICTMODE", v}}, Configure: v == " false " || v == "yes", Tag: "sources"})
	}
	for _, nm := range envNames {
		ops = append(ops, xOp{Op: "src", Key: "strictmode", Env: [][2]string{{nm, "false"}}, Configure: true, Tag: "sources"})
	}
	// url and didmethods: precedence, trimming, list splitting and escaping
	urlEnv := []string{"https://env.nl", " https://env.nl ", "https://env.nl,https://b.nl", "https://env.nl\\,x", "", "https://env.nl\\"}
	for i, ev := range urlEnv {
		for j, fv := range []*string{nil, sp("\"https://file.nl\"")} {
			cli := ""
			if (i+j)%3 == 2 {
				cli = "--url=https://cli.nl"
			}
			ops = append(ops, xOp{Op: "src", Key: "url", FileVal: fv, Env: [][2]string{{"NUTS_URL", ev}}, Cli: cli, Tag: "sources"})
		}
	}
	ops = append(ops, xOp{Op: "src", Key: "url", FileVal: sp("\"https://file.nl\""), Tag: "sources"}, xOp{Op: "src", Key: "url", FileVal: sp("\"https://file.nl\""), Cli: "--url=https://cli.nl", Tag: "sources"})
	dmEnv := []string{"web", "web,nuts", " web , nuts ", "web\\,nuts", "web,,nuts", ",", "", "nuts\\,web,x", "a\\\\,b", "web, "}
	for i, ev := range dmEnv {
		for j, fv := range []*string{nil, sp("[filea, fileb]")} {
			cli := ""
			if (i+j)%4 == 3 {
				cli = "--didmethods=clia,clib"
			}
			ops = append(ops, xOp{Op: "src", Key: "didmethods", FileVal: fv, Env: [][2]string{{"NUTS_DIDMETHODS", ev}}, Cli: cli, Tag: "sources"})
		}
	}
	ops = append(ops, xOp{Op: "src", Key: "didmethods", FileVal: sp("[filea, fileb]"), Tag: "sources"}, xOp{Op: "src", Key: "didmethods", FileVal: sp("[filea]"), Cli: "--didmethods=clia", Tag: "sources"})
	return ops
}

// ---------- entry point

func xReadOps(path string) []xOp {
	f, err := os.Open(path)
	if err != nil {
		panic(err)
	}
	defer f.Close()
	var ops []xOp
	sc := bufio.NewScanner(f)
	sc.Buffer(make([]byte, 1<<20), 1<<26)
	for sc.Scan() {
		t := strings.TrimSpace(sc.Text())
		if t == "" || strings.HasPrefix(t, "#") {
			continue
		}
		var op xOp
		if err := json.Unmarshal([]byte(t), &op); err != nil {
			panic(fmt.Sprintf("bad op line %q: %v", t, err))
		}
		ops = append(ops, op)
	}
	return ops
}

func TestVerifC20(t *testing.T) {
	out := os.Getenv("VERIF_OUT")
	if out == "" {
		t.Skip("VERIF_OUT not set")
	}
	logrus.SetLevel(logrus.PanicLevel)
	seed, _ := strconv.ParseInt(os.Getenv("VERIF_SEED"), 10, 64)
	var ops []xOp
	if rp := os.Getenv("VERIF_REPLAY"); rp != "" {
		ops = xReadOps(rp)
	} else {
		if dir := os.Getenv("VERIF_CORPUS"); dir != "" {
			files, _ := filepath.Glob(filepath.Join(dir, "*.jsonl"))
			sort.Strings(files)
			for _, f := range files {
				ops = append(ops, xReadOps(f)...)
			}
		}
		ops = append(ops, xGenerate(seed, os.Getenv("VERIF_TIER") == "thorough")...)
	}
	fo, _ := os.Create(filepath.Join(out, "ops.jsonl"))
	fi, _ := os.Create(filepath.Join(out, "impl.out"))
	wo, wi := bufio.NewWriter(fo), bufio.NewWriter(fi)
	var sock *xSock
	for _, op := range ops {
		var line string
		if op.Op == "ctx" {
			func() {
				defer func() {
					if r := recover(); r != nil {
						line = fmt.Sprintf("ctx panic:%v", r)
					}
				}()
				line = xCtx(&op)
			}()
		} else {
			line = xExec(t, op, &sock)
		}
		b, _ := json.Marshal(op)
		wo.Write(b)
		wo.WriteByte('\n')
		wi.WriteString(line)
		wi.WriteByte('\n')
	}
	wo.Flush()
	wi.Flush()
	fo.Close()
	fi.Close()
}
