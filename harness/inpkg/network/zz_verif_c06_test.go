//go:build verif

// C06 leg 3: the REAL wiring (Network.Configure: which verifiers and which key resolver the state gets) and the REAL
// CreateTransaction (head + additional prevs, calculateLamportClock, NewTransaction de-duplication, signing.go, parse-back,
// state.Add) on a Network built by NewTestNetworkInstance. Defective foreign transactions are offered to the wired state
// directly: a dropped verifier shows as an admitted defect. Library: network/dag/zz_verif_c06_lib.go (overlay).
package network

import (
	"context"
	"encoding/json"
	"os"
	"path/filepath"
	"strconv"
	"strings"
	"testing"
	"time"

	ssi "github.com/nuts-foundation/go-did"
	"github.com/nuts-foundation/go-did/did"
	"github.com/nuts-foundation/nuts-node/audit"
	"github.com/nuts-foundation/nuts-node/crypto"
	"github.com/nuts-foundation/nuts-node/crypto/hash"
	"github.com/nuts-foundation/nuts-node/network/dag"
	"github.com/nuts-foundation/nuts-node/vdr/didnuts/didstore"
	"github.com/sirupsen/logrus"
)

func TestVerifC06Network(t *testing.T) {
	out := os.Getenv("VERIF_OUT")
	if out == "" {
		t.Skip("VERIF_OUT not set")
	}
	logrus.SetLevel(logrus.PanicLevel)
	seed, _ := strconv.ParseInt(os.Getenv("VERIF_SEED"), 10, 64)
	instances := 12
	if os.Getenv("VERIF_TIER") == "thorough" {
		instances = 40
	}
	if v, err := strconv.Atoi(os.Getenv("VERIF_NET_INSTANCES")); err == nil {
		instances = v
	}
	fo, _ := os.Create(filepath.Join(out, "ops.jsonl"))
	fi, _ := os.Create(filepath.Join(out, "impl.out"))
	defer fo.Close()
	defer fi.Close()
	emit := func(op map[string]any, line string) {
		b, _ := json.Marshal(op)
		fo.Write(append(b, '\n'))
		fi.WriteString(line + "\n")
	}
	b := dag.NewVerifC06Builder(seed*15485863+3, 3)
	rnd := b.Rnd()
	ctx := audit.TestContext()
	for inst := 0; inst < instances; inst++ {
		n := NewTestNetworkInstance(t)
		dag.VerifC06DropNotifiers(n.state)
		var refs, phs []string
		addU := func(l *[]string, v string) {
			for _, x := range *l {
				if x == v {
					return
				}
			}
			*l = append(*l, v)
		}
		obs := func() string { return dag.VerifC06Observe(n.state, refs, phs) }
		emit(map[string]any{"op": "new", "lite": true, "subs": []any{}, "keys": b.KeysHex()}, "new "+obs())
		kid := "signing-key-" + strconv.Itoa(inst)
		_, pub, err := n.keyStore.New(ctx, crypto.StringNamingFunc(kid))
		if err != nil {
			t.Fatal(err)
		}
		type info struct {
			ref     string
			lc      int
			payload bool
		}
		var present []info
		isPresent := func(ref string) bool {
			h, _ := hash.ParseHex(ref)
			p, _ := n.state.IsPresent(context.Background(), h)
			return p
		}
		steps := 18 + rnd.Intn(14)
		for s := 0; s < steps; s++ {
			switch k := rnd.Intn(10); {
			case k < 5 || len(present) == 0: // the node creates a transaction itself
				var additional []string
				var addH []hash.SHA256Hash
				note := "create"
				if len(present) > 0 {
					for i := rnd.Intn(3); i > 0; i-- {
						additional = append(additional, present[rnd.Intn(len(present))].ref)
					}
				}
				if rnd.Intn(8) == 0 {
					h := make([]byte, 32)
					rnd.Read(h)
					additional = append(additional, hash.FromSlice(h).String())
					note = "create:unknown-additional-prev"
				}
				for _, a := range additional {
					h, _ := hash.ParseHex(a)
					addH = append(addH, h)
				}
				pid := b.NewPid()
				tpl := TransactionTemplate("application/did+json", dag.VerifC06Payload(&pid), kid).WithAttachKey(pub).WithAdditionalPrevs(addH)
				stop := dag.VerifC06Watch("create " + note)
				tx, err := n.CreateTransaction(ctx, tpl)
				stop()
				if additional == nil {
					additional = []string{}
				}
				if err != nil {
					cls := "err:create:?" + err.Error()
					switch {
					case strings.Contains(err.Error(), "additional prev is unknown or missing payload"):
						cls = "err:create:additional-prev"
					case strings.Contains(err.Error(), "cannot have previous transactions on root"):
						cls = "err:create:prevs-on-root"
					}
					emit(map[string]any{"op": "create", "additional": additional, "createErr": cls, "note": note}, "r="+cls+" | "+obs())
					continue
				}
				c := b.CallOf(tx.Data())
				c.Pid = &pid
				c.Sha = dag.VerifC06Sha(dag.VerifC06Payload(&pid))
				c.Phs = []string{c.Sha}
				c.Note = note
				addU(&refs, c.Jws["ref"].(string))
				addU(&phs, c.Sha)
				emit(map[string]any{"op": "create", "additional": additional, "call": c}, "r=ok created=match | "+obs())
				present = append(present, info{ref: c.Jws["ref"].(string), lc: int(tx.Clock()), payload: true})
			case k == 5 && len(present) > 0: // a transaction signed with a key that a DID document in the REAL did store holds as of a prev
				src := present[rnd.Intn(len(present))]
				other := present[rnd.Intn(len(present))]
				signer := rnd.Intn(3)
				docDID := did.MustParseDID("did:nuts:verif" + strconv.Itoa(inst) + "x" + strconv.Itoa(s))
				vmID := did.MustParseDIDURL(docDID.String() + "#k" + strconv.Itoa(signer))
				vm, err := did.NewVerificationMethod(vmID, ssi.JsonWebKey2020, docDID, b.PublicKey(signer))
				if err != nil {
					t.Fatal(err)
				}
				doc := did.Document{ID: docDID}
				doc.AddCapabilityInvocation(vm)
				srcH, _ := hash.ParseHex(src.ref)
				docJSON, _ := json.Marshal(doc)
				if err := n.didStore.Add(doc, didstore.Transaction{Ref: srcH, Clock: uint32(src.lc), SigningTime: time.Now(), PayloadHash: hash.SHA256Sum(docJSON)}); err != nil {
					t.Fatal(err)
				}
				emit(map[string]any{"op": "doc", "did": docDID.String(), "src": src.ref, "doc": map[string]any{"res": "doc", "vms": [][]any{{vmID.String(), signer}}}}, "doc")
				prevs, kidS, sg, note := []string{src.ref}, vmID.String(), signer, "foreign:kid-valid"
				switch rnd.Intn(6) {
				case 0:
					prevs, note = []string{other.ref, src.ref}, "foreign:kid-via-later-prev"
				case 1, 5:
					if other.ref != src.ref {
						prevs, note = []string{other.ref}, "foreign:kid-document-not-as-of-prevs"
					}
				case 2:
					sg, note = (signer+1)%3, "foreign:kid-signed-by-other-key"
				case 3:
					kidS, note = docDID.String()+"#nope", "foreign:kid-not-in-document"
				}
				hi := -1
				for _, p := range prevs {
					for _, q := range present {
						if q.ref == p && q.lc > hi {
							hi = q.lc
						}
					}
				}
				pid := b.NewPid()
				c := b.TxKid(prevs, strconv.Itoa(hi+1), sg, kidS, pid, note)
				addU(&refs, c.Jws["ref"].(string))
				for _, p := range c.Phs {
					addU(&phs, strings.ToLower(p))
				}
				tx, perr := dag.ParseTransaction(dag.VerifC06Input(c))
				res := ""
				if perr != nil {
					res = dag.VerifC06ParseClass(perr)
				} else {
					stop := dag.VerifC06Watch("add " + note)
					res = dag.VerifC06AddClass(n.state.Add(context.Background(), tx, dag.VerifC06Payload(c.Pid)))
					stop()
				}
				emit(map[string]any{"op": "add", "call": c}, "r="+res+" | "+obs())
				if isPresent(c.Jws["ref"].(string)) {
					present = append(present, info{ref: c.Jws["ref"].(string), lc: hi + 1, payload: true})
				}
			default: // a transaction arrives from elsewhere: valid or defective, offered to the wired state
				var prevs []string
				hi := -1
				for i := 1 + rnd.Intn(2); i > 0; i-- {
					p := present[len(present)-1-rnd.Intn(min(3, len(present)))]
					prevs = append(prevs, p.ref)
					if p.lc > hi {
						hi = p.lc
					}
				}
				pid := b.NewPid()
				lc, wp, tamper, other, note := hi+1, 1, false, false, "foreign:valid"
				priv := false
				switch rnd.Intn(9) {
				case 0:
					tamper, note = true, "foreign:tampered"
				case 1:
					other, note = true, "foreign:other-signer"
				case 2:
					lc, note = lc+1, "foreign:clock+1"
				case 3:
					h := make([]byte, 32)
					rnd.Read(h)
					prevs, note = append(prevs, hash.FromSlice(h).String()), "foreign:missing-prev"
				case 4:
					wp, note = 2, "foreign:wrong-payload"
				case 5:
					prevs, lc, note = nil, 0, "foreign:second-root"
				case 6:
					wp, priv, note = 0, true, "foreign:valid-private-without-payload"
				}
				c := b.Tx(prevs, strconv.Itoa(lc), rnd.Intn(3), priv, pid, wp, tamper, other, note)
				addU(&refs, c.Jws["ref"].(string))
				for _, p := range c.Phs {
					addU(&phs, strings.ToLower(p))
				}
				tx, perr := dag.ParseTransaction(dag.VerifC06Input(c))
				res := ""
				if perr != nil {
					res = dag.VerifC06ParseClass(perr)
				} else {
					stop := dag.VerifC06Watch("add " + note)
					res = dag.VerifC06AddClass(n.state.Add(context.Background(), tx, dag.VerifC06Payload(c.Pid)))
					stop()
				}
				emit(map[string]any{"op": "add", "call": c}, "r="+res+" | "+obs())
				if isPresent(c.Jws["ref"].(string)) {
					present = append(present, info{ref: c.Jws["ref"].(string), lc: lc, payload: wp == 1})
				}
			}
		}
		_ = n.state.Shutdown()
	}
}
