//go:build verif

// C06 correspondence harness LIBRARY (non-test overlay file, `//go:build verif`; nothing is written into /repo): builders,
// describers, verdicts, the node under test, the op executor and the generators. The test entry is zz_verif_c06_test.go;
// the legs in network/transport/v2 and network use the exported facade at the end of this file.
// Three generators feed one executor:
//   (1) parser differential: structure-aware mutants of valid signed transactions -> ParseTransaction
//   (2) admission differential: generated DAG histories with valid and defective transactions on a real `state`
//   (3) schedules: 2/3 goroutines running state.Add, interleaved at read-tx / write-tx granularity by a gating KVStore
// ops.jsonl carries everything the Lean model needs (decoded header, verdicts as data); impl.out has one line per op.
package dag

import (
	"bytes"
	"context"
	"crypto"
	"crypto/ecdsa"
	"crypto/elliptic"
	crand "crypto/rand"
	"crypto/sha256"
	"crypto/sha512"
	"encoding/base64"
	"encoding/hex"
	"encoding/json"
	"errors"
	"fmt"
	"math"
	"math/big"
	"math/rand"
	"os"
	"path/filepath"
	"sort"
	"strconv"
	"strings"
	"sync"
	"time"

	"github.com/lestrrat-go/jwx/v2/jwk"
	"github.com/lestrrat-go/jwx/v2/jws"
	ssi "github.com/nuts-foundation/go-did"
	"github.com/nuts-foundation/go-did/did"
	"github.com/nuts-foundation/go-stoabs"
	"github.com/nuts-foundation/go-stoabs/bbolt"
	"github.com/nuts-foundation/nuts-node/audit"
	nutsCrypto "github.com/nuts-foundation/nuts-node/crypto"
	"github.com/nuts-foundation/nuts-node/crypto/hash"
	"github.com/nuts-foundation/nuts-node/crypto/jwx"
	"crypto/ed25519"
	"crypto/rsa"
	"github.com/lestrrat-go/jwx/v2/jwa"
	dto "github.com/prometheus/client_model/go"
	"github.com/nuts-foundation/nuts-node/network/dag/tree"
	"github.com/nuts-foundation/nuts-node/vdr/resolver"
	"github.com/sirupsen/logrus"
)

// ---------------------------------------------------------------- keys and JWS construction

type v6Key struct {
	priv *ecdsa.PrivateKey
	jwkD string // the same key as a PRIVATE JWK (with the d member)
	jwk  string // public JWK JSON
	hex  string // uncompressed point, for the ops file
}

func v6NewKey() *v6Key {
	p, err := ecdsa.GenerateKey(elliptic.P256(), crand.Reader)
	if err != nil {
		panic(err)
	}
	return v6KeyOf(p)
}

func v6KeyOf(p *ecdsa.PrivateKey) *v6Key {
	n := (p.Curve.Params().BitSize + 7) / 8
	crv := p.Curve.Params().Name
	x, y := p.X.FillBytes(make([]byte, n)), p.Y.FillBytes(make([]byte, n))
	j := fmt.Sprintf(`{"crv":"%s","kty":"EC","x":"%s","y":"%s"}`, crv, base64.RawURLEncoding.EncodeToString(x), base64.RawURLEncoding.EncodeToString(y))
	jd := fmt.Sprintf(`{"crv":"%s","d":"%s","kty":"EC","x":"%s","y":"%s"}`, crv, base64.RawURLEncoding.EncodeToString(p.D.FillBytes(make([]byte, n))),
		base64.RawURLEncoding.EncodeToString(x), base64.RawURLEncoding.EncodeToString(y))
	h := hex.EncodeToString(p.D.FillBytes(make([]byte, n)))
	if crv != "P-256" {
		h = crv + ":" + h // keys of another curve carry it in the ops file
	}
	return &v6Key{priv: p, jwk: j, jwkD: jd, hex: h}
}

// v6NewKeyOn: a fresh key on the named curve (the extra resolver-only key of a history: a DID document may hold a P-384 key)
func v6NewKeyOn(crv string) *v6Key {
	c := map[string]elliptic.Curve{"P-256": elliptic.P256(), "P-384": elliptic.P384(), "P-521": elliptic.P521()}[crv]
	p, err := ecdsa.GenerateKey(c, crand.Reader)
	if err != nil {
		panic(err)
	}
	return v6KeyOf(p)
}

func (k *v6Key) crv() string { return k.priv.Curve.Params().Name }

// v6AlgDigest: the digest a JWS ECDSA signer/verifier takes for a header algorithm (RFC 7518 3.4), nil = not an ECDSA algorithm
func v6AlgDigest(alg string, signingInput string) []byte {
	switch alg {
	case "ES256":
		h := sha256.Sum256([]byte(signingInput))
		return h[:]
	case "ES384":
		h := sha512.Sum384([]byte(signingInput))
		return h[:]
	case "ES512":
		h := sha512.Sum512([]byte(signingInput))
		return h[:]
	}
	return nil
}

// v6EcVerifyAlg: r||s of the key's own size, digest by the header algorithm, on the key's own curve. With strict=true the
// algorithm must be the one RFC 7518 3.4 assigns to that curve (the verdict of the property); strict=false is the "family
// only" verdict of a JWS library that does not compare algorithm and curve (only handed to the model, which applies
// AlgorithmFitsKey itself before it consults it).
func v6EcVerifyAlg(pub *ecdsa.PublicKey, alg string, signingInput string, sig []byte, strict bool) bool {
	n := (pub.Curve.Params().BitSize + 7) / 8
	d := v6AlgDigest(alg, signingInput)
	if d == nil || len(sig) != 2*n {
		return false
	}
	if strict && alg != map[string]string{"P-256": "ES256", "P-384": "ES384", "P-521": "ES512"}[pub.Curve.Params().Name] {
		return false
	}
	return ecdsa.Verify(pub, d, new(big.Int).SetBytes(sig[:n]), new(big.Int).SetBytes(sig[n:]))
}

func v6KeyFromHex(h string) *v6Key {
	crv := elliptic.P256()
	if i := strings.Index(h, ":"); i >= 0 {
		crv = map[string]elliptic.Curve{"P-256": elliptic.P256(), "P-384": elliptic.P384(), "P-521": elliptic.P521()}[h[:i]]
		h = h[i+1:]
	}
	d, _ := hex.DecodeString(h)
	p := new(ecdsa.PrivateKey)
	p.Curve = crv
	p.D = new(big.Int).SetBytes(d)
	p.X, p.Y = p.Curve.ScalarBaseMult(d)
	return v6KeyOf(p)
}

// RSA JWKs (private and public) for the embedded-key mutants; RFC 7517 appendix A.2 key, truncated use is fine: jwx only parses them
var v6RsaPubJWK = `{"kty":"RSA","n":"0vx7agoebGcQSuuPiLJXZptN9nndrQmbXEps2aiAFbWhM78LhWx4cbbfAAtVT86zwu1RK7aPFFxuhDR1L6tSoc_BJECPebWKRXjBZCiFV4n3oknjhMstn64tZ_2W-5JsGY4Hc5n9yBXArwl93lqt7_RN5w6Cf0h4QyQ5v-65YGjQR0_FDW2QvzqY368QQMicAtaSqzs8KJZgnYb9c7d0zgdAZHzu6qMQvRL5hajrn1n91CbOpbISD08qNLyrdkt-bFTWhAI4vMQFh6WeZu0fM4lFd2NcRwr3XPksINHaQ-G_xBniIqbw0Ls1jF44-csFCur-kEgU8awapJzKnqDKgw","e":"AQAB"}`
var v6RsaPrivJWK = `{"kty":"RSA","n":"0vx7agoebGcQSuuPiLJXZptN9nndrQmbXEps2aiAFbWhM78LhWx4cbbfAAtVT86zwu1RK7aPFFxuhDR1L6tSoc_BJECPebWKRXjBZCiFV4n3oknjhMstn64tZ_2W-5JsGY4Hc5n9yBXArwl93lqt7_RN5w6Cf0h4QyQ5v-65YGjQR0_FDW2QvzqY368QQMicAtaSqzs8KJZgnYb9c7d0zgdAZHzu6qMQvRL5hajrn1n91CbOpbISD08qNLyrdkt-bFTWhAI4vMQFh6WeZu0fM4lFd2NcRwr3XPksINHaQ-G_xBniIqbw0Ls1jF44-csFCur-kEgU8awapJzKnqDKgw","e":"AQAB","d":"X4cTteJY_gn4FYPsXB8rdXix5vwsg1FLN5E3EaG6RJoVH-HLLKD9M7dx5oo7GURknchnrRweUkC7hT5fJLM0WbFAKNLWY2vv7B6NqXSzUvxT0_YSfqijwp3RTzlBaCxWp4doFk5N2o8Gy_nHNKroADIkJ46pRUohsXywbReAdYaMwFs9tv8d_cPVY3i07a3t8MN6TNwm0dSawm9v47UiCl3Sk5ZiG7xojPLu4sbg1U2jx4IBTNBznbJSzFHK66jT8bgkuqsk0GjskDJk19Z4qwjwbsnn4j2WBii3RL-Us2lGVkY8fkFzme1z0HbIkfz0Y6mqnOYtqc0X4jfcKoAC8Q","p":"83i-7IvMGXoMXCskv73TKr8637FiO7Z27zv8oj6pbWUQyLPQBQxtPVnwD20R-60eTDmD2ujnMt5PoqMrm8RfmNhVWDtjjMmCMjOpSXicFHj7XOuVIYQyqVWlWEh6dN36GVZYk93N8Bc9vY41xy8B9RzzOGVQzXvNEvn7O0nVbfs","q":"3dfOR9cuYq-0S-mkFLzgItgMEfFzB2q3hWehMuG0oCuqnb3vobLyumqjVZQO1dIrdwgTnCdpYzBcOfW5r370AFXjiWft_NGEiovonizhKpo9VVS78TzFgxkIdrecRezsZ-1kYd_s1qDbxtkDEgfAITAG9LUnADun4vIcb6yelxk","dp":"G4sPXkc6Ya9y8oJW9_ILj4xuppu0lzi_H7VTkS8xj5SdX3coE0oimYwxIi2emTAue0UOa5dpgFGyBJ4c8tQ2VF402XRugKDTP8akYhFo5tAA77Qe_NmtuYZc3C3m3I24G2GvR5sSDxUyAN2zq8Lfn9EUms6rY3Ob8YeiKkTiBj0","dq":"s9lAH9fggBsoFR8Oac2R_E2gw282rT2kGOAhvIllETE1efrA6huUUvMfBcMpn8lqeW6vzznYY5SSQF7pMdC_agI3nG8Ibp1BUb0JUiraRNqUfLhcQb_d9GF4Dh7e74WbRsobRonujTYN1xCaP6TO61jvWrX-L18txXw494Q_cgk","qi":"GyM_p6JrXySiz1toFgKbWV-JdI3jQ4ypu9rbMWx3rQJBfmt0FoYzgUIZEVFEcOqwemRN81zoDAaa-Bk0KWNGDjJHZDdDmFhW3AN7lI-puxk_mHZGJ11rxyR8O55XLSe3SPmRfKwZI6yU24ZxvQKFYItdldUKGzO6Ia6zTKhAVRU"}`

type v6Pair struct{ k, v string } // header member: name, raw JSON value

func v6HdrJSON(ps []v6Pair) string {
	var sb strings.Builder
	sb.WriteByte('{')
	for i, p := range ps {
		if i > 0 {
			sb.WriteByte(',')
		}
		kb, _ := json.Marshal(p.k)
		sb.Write(kb)
		sb.WriteByte(':')
		sb.WriteString(p.v)
	}
	sb.WriteByte('}')
	return sb.String()
}

func v6b64(b []byte) string { return base64.RawURLEncoding.EncodeToString(b) }

// signs b64(hdr).b64(payload) with ES256 (r||s)
func v6Sign(k *v6Key, hdr, payload string) (signingInput string, sig []byte) {
	signingInput = v6b64([]byte(hdr)) + "." + v6b64([]byte(payload))
	h := sha256.Sum256([]byte(signingInput))
	r, s, err := ecdsa.Sign(crand.Reader, k.priv, h[:])
	if err != nil {
		panic(err)
	}
	sig = append(r.FillBytes(make([]byte, 32)), s.FillBytes(make([]byte, 32))...)
	return
}

func v6Compact(k *v6Key, hdr, payload string) []byte {
	si, sig := v6Sign(k, hdr, payload)
	return []byte(si + "." + v6b64(sig))
}

func v6Str(s string) string { b, _ := json.Marshal(s); return string(b) }
func v6StrList(l []string) string {
	b, _ := json.Marshal(l)
	if l == nil {
		return "[]"
	}
	return string(b)
}

// the header a conforming node produces (signing.go)
func v6BaseHdr(key *v6Key, kid string, cty string, lc string, prevs []string, sigt int64, ver int, pal []string) []v6Pair {
	ps := []v6Pair{{"alg", `"ES256"`}, {"crit", `["sigt","ver","prevs","lc"]`}, {"cty", v6Str(cty)}}
	if kid == "" {
		ps = append(ps, v6Pair{"jwk", key.jwk})
	} else {
		ps = append(ps, v6Pair{"kid", v6Str(kid)})
	}
	ps = append(ps, v6Pair{"lc", lc})
	if pal != nil {
		ps = append(ps, v6Pair{"pal", v6StrList(pal)})
	}
	ps = append(ps, v6Pair{"prevs", v6StrList(prevs)}, v6Pair{"sigt", strconv.FormatInt(sigt, 10)}, v6Pair{"ver", strconv.Itoa(ver)})
	return ps
}

// ---------------------------------------------------------------- describing an input for the model

// exact value of a float64 as m * 2^e
func v6Dyadic(f float64) (string, int) {
	if f == 0 {
		return "0", 0
	}
	frac, exp := math.Frexp(f)
	m := int64(frac * (1 << 53))
	e := exp - 53
	for m%2 == 0 {
		m /= 2
		e++
	}
	return strconv.FormatInt(m, 10), e
}

func v6J(raw json.RawMessage) (map[string]any, bool) {
	var v any
	if err := json.Unmarshal(raw, &v); err != nil {
		return nil, false
	}
	switch x := v.(type) {
	case nil:
		return map[string]any{"t": "null"}, true
	case bool:
		return map[string]any{"t": "bool", "v": x}, true
	case float64:
		m, e := v6Dyadic(x)
		return map[string]any{"t": "num", "m": json.Number(m), "e": e}, true
	case string:
		return map[string]any{"t": "str", "v": x}, true
	case []any:
		els := []any{}
		for _, el := range x {
			if s, ok := el.(string); ok {
				els = append(els, map[string]any{"s": s})
			} else if el == nil {
				els = append(els, map[string]any{"n": 1})
			} else {
				els = append(els, map[string]any{"o": 1})
			}
		}
		return map[string]any{"t": "arr", "v": els}, true
	default:
		return map[string]any{"t": "obj"}, true
	}
}

// ordered members of a JSON object (duplicates kept)
func v6Members(b []byte) ([]v6Pair, bool) {
	dec := json.NewDecoder(bytes.NewReader(b))
	tok, err := dec.Token()
	if err != nil || tok != json.Delim('{') {
		return nil, false
	}
	var res []v6Pair
	for dec.More() {
		kt, err := dec.Token()
		if err != nil {
			return nil, false
		}
		k, ok := kt.(string)
		if !ok {
			return nil, false
		}
		var raw json.RawMessage
		if err := dec.Decode(&raw); err != nil {
			return nil, false
		}
		res = append(res, v6Pair{k, string(raw)})
	}
	if tok, err := dec.Token(); err != nil || tok != json.Delim('}') {
		return nil, false
	}
	return res, true
}

func v6B64Any(s string) ([]byte, bool) {
	for _, enc := range []*base64.Encoding{base64.RawURLEncoding, base64.URLEncoding, base64.RawStdEncoding, base64.StdEncoding} {
		if b, err := enc.DecodeString(s); err == nil {
			return b, true
		}
	}
	return nil, false
}

// bytes of the protected header of the first signature, by our own framing (not via jwx's accessors)
func v6Protected(input []byte) ([]byte, bool) {
	t := bytes.TrimSpace(input)
	if len(t) > 0 && t[0] == '{' {
		var m struct {
			Protected  *string `json:"protected"`
			Signatures []struct {
				Protected *string `json:"protected"`
			} `json:"signatures"`
		}
		if err := json.Unmarshal(t, &m); err != nil {
			return nil, false
		}
		var p *string
		if len(m.Signatures) > 0 {
			p = m.Signatures[0].Protected
		} else {
			p = m.Protected
		}
		if p == nil || *p == "" {
			return []byte("{}"), true
		}
		return v6B64Any(*p)
	}
	parts := strings.SplitN(string(t), ".", 3) // jwx splits at the first two dots
	if len(parts) != 3 {
		return nil, false
	}
	return v6B64Any(parts[0])
}

// RFC 7515 framing, checked on the bytes with the harness's own code: JSON serialization (starts with '{' after white space)
// or exactly three segments over the base64url alphabet, none of length 1 mod 4, no non-zero trailing bits
func v6StrictFraming(input []byte) bool {
	t := bytes.TrimLeft(input, " \t\r\n\v\f")
	if len(t) > 0 && t[0] == '{' {
		return true
	}
	segs := strings.Split(string(input), ".")
	if len(segs) != 3 {
		return false
	}
	const alphabet = "ABCDEFGHIJKLMNOPQRSTUVWXYZabcdefghijklmnopqrstuvwxyz0123456789-_"
	for _, sg := range segs {
		if len(sg)%4 == 1 {
			return false
		}
		for _, ch := range sg {
			if !strings.ContainsRune(alphabet, ch) {
				return false
			}
		}
		if len(sg) > 0 {
			last := strings.IndexByte(alphabet, sg[len(sg)-1])
			if (len(sg)%4 == 2 && last&0xF != 0) || (len(sg)%4 == 3 && last&0x3 != 0) {
				return false
			}
		}
	}
	return true
}

// the model's view of an input: framing verdict by jwx (contract), members decoded generically
func v6Describe(input []byte) map[string]any {
	ref := sha256.Sum256(input)
	d := map[string]any{"ref": hex.EncodeToString(ref[:]), "strict": v6StrictFraming(input)}
	msg, err := jws.Parse(input)
	if err != nil {
		d["framing"] = "bad"
		return d
	}
	d["nsigs"] = len(msg.Signatures())
	d["payload"] = string(msg.Payload())
	if len(msg.Signatures()) == 0 {
		d["members"] = []any{}
		return d
	}
	hb, ok := v6Protected(input)
	if !ok {
		d["framing"] = "unmodelled"
		return d
	}
	ms, ok := v6Members(hb)
	if !ok {
		d["framing"] = "unmodelled"
		return d
	}
	members := []any{}
	jwkOK := true
	jwkPrivate := false
	b64ok := []string{}
	for _, p := range ms {
		j, ok := v6J(json.RawMessage(p.v))
		if !ok {
			d["framing"] = "unmodelled"
			return d
		}
		members = append(members, []any{p.k, j})
		if p.k == "jwk" {
			if _, err := jwk.ParseKey([]byte(p.v)); err != nil {
				jwkOK = false
			}
			// private / symmetric key material, read off the JSON itself (RFC 7518: d = private part, kty oct = symmetric)
			var km map[string]json.RawMessage
			jwkPrivate = false
			if json.Unmarshal([]byte(p.v), &km) == nil {
				if _, has := km["d"]; has {
					jwkPrivate = true
				}
				if string(km["kty"]) == `"oct"` {
					jwkPrivate = true
				}
			}
		}
		if p.k == "pal" {
			var l []any
			if json.Unmarshal([]byte(p.v), &l) == nil {
				for _, el := range l {
					if s, ok := el.(string); ok {
						if _, err := base64.StdEncoding.DecodeString(s); err == nil {
							b64ok = append(b64ok, s)
						}
					}
				}
			}
		}
	}
	d["members"] = members
	d["jwkOK"] = jwkOK
	d["jwkPrivate"] = jwkPrivate
	d["b64ok"] = b64ok
	return d
}

// ---------------------------------------------------------------- signature verdicts, computed without jwx

// v6Frame returns protected (base64 text), payload (base64 text) and signature bytes of a single-signature input
func v6Frame(input []byte) (prot, pl string, sig []byte, ok bool) {
	t := bytes.TrimSpace(input)
	if len(t) > 0 && t[0] == '{' {
		var m struct {
			Payload    string  `json:"payload"`
			Protected  *string `json:"protected"`
			Signature  *string `json:"signature"`
			Signatures []struct {
				Protected *string `json:"protected"`
				Signature *string `json:"signature"`
			} `json:"signatures"`
		}
		if json.Unmarshal(t, &m) != nil {
			return
		}
		p, sg := m.Protected, m.Signature
		if len(m.Signatures) == 1 {
			p, sg = m.Signatures[0].Protected, m.Signatures[0].Signature
		} else if len(m.Signatures) > 1 {
			return
		}
		if p == nil || sg == nil {
			return
		}
		b, ok2 := v6B64Any(*sg)
		return *p, m.Payload, b, ok2
	}
	parts := strings.Split(string(t), ".")
	if len(parts) != 3 {
		return
	}
	b, ok2 := v6B64Any(parts[2])
	return parts[0], parts[1], b, ok2
}

func v6EcVerify(pub *ecdsa.PublicKey, signingInput string, sig []byte) bool {
	if len(sig) != 64 {
		return false
	}
	h := sha256.Sum256([]byte(signingInput))
	return ecdsa.Verify(pub, h[:], new(big.Int).SetBytes(sig[:32]), new(big.Int).SetBytes(sig[32:]))
}

// v6Verdicts: does the signature verify (ES256 only: every key here is P-256, any other alg cannot match the key)
// against the embedded jwk / against each known key. Uses crypto/ecdsa directly.
func v6Verdicts(input []byte, keys []*v6Key) (sigJwk bool, sigKeys []int) {
	v := v6VerdictsAll(input, keys)
	return v.sigJwk, v.sigKeys
}

type v6Verdict struct {
	sigJwk  bool  // strict (RFC 7518 3.4: ES256 = P-256 + SHA-256, ES384 = P-384 + SHA-384, ES512 = P-521 + SHA-512)
	sigKeys []int // strict, per known key
	laxJwk  bool  // family only: digest by the header algorithm, on whatever curve the key has
	laxKeys []int
	jwkCrv  string // curve of an embedded EC key ("" = none / not EC)
}

func v6VerdictsAll(input []byte, keys []*v6Key) (v v6Verdict) {
	v.sigKeys, v.laxKeys = []int{}, []int{}
	prot, pl, sig, ok := v6Frame(input)
	if !ok {
		return
	}
	hb, ok := v6B64Any(prot)
	if !ok {
		return
	}
	ms, ok := v6Members(hb)
	if !ok {
		return
	}
	alg, jwkRaw := "", ""
	for _, m := range ms {
		if m.k == "alg" {
			alg = m.v
		}
		if m.k == "jwk" {
			jwkRaw = m.v
		}
	}
	si := prot + "." + pl
	algName := strings.Trim(alg, `"`)
	if alg != `"`+algName+`"` {
		algName = ""
	}
	for i, k := range keys {
		if v6EcVerifyAlg(&k.priv.PublicKey, algName, si, sig, true) {
			v.sigKeys = append(v.sigKeys, i)
		}
		if v6EcVerifyAlg(&k.priv.PublicKey, algName, si, sig, false) {
			v.laxKeys = append(v.laxKeys, i)
		}
	}
	if jwkRaw != "" {
		var j struct{ Kty, Crv, X, Y string }
		if json.Unmarshal([]byte(jwkRaw), &j) == nil && j.Kty == "EC" {
			v.jwkCrv = j.Crv
			curve := map[string]elliptic.Curve{"P-256": elliptic.P256(), "P-384": elliptic.P384(), "P-521": elliptic.P521()}[j.Crv]
			x, e1 := base64.RawURLEncoding.DecodeString(j.X)
			y, e2 := base64.RawURLEncoding.DecodeString(j.Y)
			if curve != nil && e1 == nil && e2 == nil {
				pub := &ecdsa.PublicKey{Curve: curve, X: new(big.Int).SetBytes(x), Y: new(big.Int).SetBytes(y)}
				if pub.Curve.IsOnCurve(pub.X, pub.Y) {
					v.sigJwk = v6EcVerifyAlg(pub, algName, si, sig, true)
					v.laxJwk = v6EcVerifyAlg(pub, algName, si, sig, false)
				}
			}
		}
	}
	return
}

// v6SetVerdicts fills the verdict data of a call: strict verdicts (the property's; used by the oracles), family-only verdicts
// and key curves (the model's inputs: it applies AlgorithmFitsKey itself, on the key the code resolves)
func v6SetVerdicts(c *v6Call, input []byte, keys []*v6Key) {
	v := v6VerdictsAll(input, keys)
	c.SigJwk, c.SigKeys, c.LaxJwk, c.LaxKeys, c.JwkCrv = v.sigJwk, v.sigKeys, v.laxJwk, v.laxKeys, v.jwkCrv
	c.KeyCrvs = []string{}
	for _, k := range keys {
		c.KeyCrvs = append(c.KeyCrvs, k.crv())
	}
}

// v6SignCurve signs like a JWS ECDSA signer would with ANY curve/hash combination: digest by the header algorithm, r||s
// padded to the curve's size (what jwx produces when handed a key of another curve)
func v6SignCurve(priv *ecdsa.PrivateKey, alg string, hdr, payload string) (string, []byte) {
	si := v6b64([]byte(hdr)) + "." + v6b64([]byte(payload))
	var digest []byte
	switch alg {
	case "ES384":
		h := sha512.Sum384([]byte(si))
		digest = h[:]
	case "ES512":
		h := sha512.Sum512([]byte(si))
		digest = h[:]
	default:
		h := sha256.Sum256([]byte(si))
		digest = h[:]
	}
	r, sv, err := ecdsa.Sign(crand.Reader, priv, digest)
	if err != nil {
		panic(err)
	}
	n := (priv.Curve.Params().BitSize + 7) / 8
	return si, append(r.FillBytes(make([]byte, n)), sv.FillBytes(make([]byte, n))...)
}

func v6JwkOf(pub *ecdsa.PublicKey) string {
	n := (pub.Curve.Params().BitSize + 7) / 8
	return fmt.Sprintf(`{"crv":"%s","kty":"EC","x":"%s","y":"%s"}`, pub.Curve.Params().Name,
		base64.RawURLEncoding.EncodeToString(pub.X.FillBytes(make([]byte, n))), base64.RawURLEncoding.EncodeToString(pub.Y.FillBytes(make([]byte, n))))
}

// ---------------------------------------------------------------- canonical results

func v6Short(h hash.SHA256Hash) string { return h.String()[:8] }

func v6ParseClass(err error) string {
	s := err.Error()
	switch {
	case strings.Contains(s, "unable to parse transaction"):
		return "err:parse"
	case strings.Contains(s, "does not contain any signature"):
		return "err:no-signature"
	case strings.Contains(s, "contains multiple signature"):
		return "err:multiple-signatures"
	case strings.Contains(s, "signing algorithm not allowed"):
		return "err:alg"
	case strings.Contains(s, "invalid payload"):
		return "err:payload"
	case strings.Contains(s, "payload type must be formatted"):
		return "err:cty"
	case strings.Contains(s, "must not hold a private"):
		return "err:jwk-private"
	case strings.Contains(s, "either `kid` or `jwk`"):
		return "err:kid-jwk"
	case strings.Contains(s, "unsupported version"):
		return "err:version"
	}
	for _, h := range []string{"sigt", "ver", "prevs", "pal", "lc"} {
		if strings.Contains(s, "missing "+h+" header") {
			return "err:missing:" + h
		}
		if strings.Contains(s, "invalid "+h+" header") {
			return "err:invalid:" + h
		}
	}
	return "err:?" + s
}

func v6TxLine(tx Transaction) string {
	prevs := []string{}
	for _, p := range tx.Previous() {
		prevs = append(prevs, v6Short(p))
	}
	return fmt.Sprintf("ok ref=%s alg=%s ph=%s cty=%q jwk=%v kid=%q sigt=%d ver=%d prevs=[%s] pal=%d lc=%d",
		v6Short(tx.Ref()), tx.SigningAlgorithm(), v6Short(tx.PayloadHash()), tx.PayloadType(), tx.SigningKey() != nil, tx.SigningKeyID(),
		tx.SigningTime().Unix(), int(tx.Version()), strings.Join(prevs, ","), len(tx.PAL()), tx.Clock())
}

func v6Parse(input []byte) (tx Transaction, line string) {
	defer func() {
		if r := recover(); r != nil {
			fmt.Fprintf(os.Stderr, "panic in parse: %v\n", r)
			tx, line = nil, "panic:parse"
		}
	}()
	tx, err := ParseTransaction(input)
	if err != nil {
		return nil, v6ParseClass(err)
	}
	return tx, v6TxLine(tx)
}

func v6AddClass(err error) string {
	if err == nil {
		return "ok"
	}
	s := err.Error()
	switch {
	case errors.Is(err, errV6Fault):
		return "err:fault"
	case errors.Is(err, stoabs.ErrCommitFailed):
		return "err:cancelled"
	case errors.Is(err, ErrPreviousTransactionMissing):
		return "err:prev-missing"
	case errors.Is(err, ErrInvalidLamportClockValue):
		return "err:clock"
	case errors.Is(err, errRootAlreadyExists):
		return "err:root-exists"
	case strings.Contains(s, "does not match hash of payload"):
		return "err:payload-hash"
	case errors.Is(err, resolver.ErrKeyNotFound):
		return "err:key-not-found"
	case errors.Is(err, errV6Resolve):
		return "err:resolve"
	case strings.Contains(s, "invalid key ID"):
		return "err:kid-invalid"
	case errors.Is(err, resolver.ErrNotFound):
		return "err:did-not-found"
	case strings.Contains(s, "does not fit the signing key"):
		return "err:signature"
	case strings.Contains(s, "could not verify message"):
		return "err:signature"
	}
	return "err:?" + s
}

// ---------------------------------------------------------------- fake DID resolver (keys.go runs for real)

var errV6Resolve = errors.New("verif: resolver failure")

type v6DocEntry struct {
	Res string     `json:"res"` // doc | err | wrapped
	Vms [][2]any   `json:"vms"` // [id, key index]
}

type v6Resolver struct {
	mu   sync.Mutex
	docs map[string]v6DocEntry // did + "@" + source ref hex
	latest map[string]v6DocEntry // did -> most recently registered version
	keys []*v6Key
}

func (r *v6Resolver) Resolve(id did.DID, md *resolver.ResolveMetadata) (*did.Document, *resolver.DocumentMetadata, error) {
	r.mu.Lock()
	defer r.mu.Unlock()
	src := ""
	if md != nil && md.SourceTransaction != nil {
		src = md.SourceTransaction.String()
	}
	e, ok := r.docs[id.String()+"@"+src]
	if src == "" {
		// no source transaction asked for: the latest version of the document (what a resolver without metadata returns)
		e, ok = r.latest[id.String()]
	}
	if !ok {
		return nil, nil, resolver.ErrNotFound
	}
	switch e.Res {
	case "err":
		return nil, nil, errV6Resolve
	case "wrapped":
		return nil, nil, fmt.Errorf("%w: %w", errV6Resolve, resolver.ErrNotFound) // not == ErrNotFound: ends the loop in keys.go
	}
	doc := &did.Document{ID: id}
	for _, vm := range e.Vms {
		vid, err := did.ParseDIDURL(vm[0].(string))
		if err != nil {
			continue
		}
		ki := 0
		switch v := vm[1].(type) {
		case float64:
			ki = int(v)
		case int:
			ki = v
		}
		m, err := did.NewVerificationMethod(*vid, ssi.JsonWebKey2020, id, crypto.PublicKey(&r.keys[ki].priv.PublicKey))
		if err != nil {
			panic(err)
		}
		doc.VerificationMethod.Add(m)
	}
	return doc, &resolver.DocumentMetadata{}, nil
}

// ---------------------------------------------------------------- never wait for ever

// v6StepLimit bounds one step of a schedule, v6OpLimit one op; v6Hang is set by the test entry: it records the op in progress
// (so that the ops executed so far are the replay) and ends the process with exit code 97.
var v6StepLimit = 20 * time.Second
var v6OpLimit = 60 * time.Second
var v6Hang = func(msg string) { fmt.Fprintln(os.Stderr, "HANG: "+msg); os.Exit(97) }

// ---------------------------------------------------------------- gating store (schedules)

type v6TidKey struct{}

type v6Ctl struct {
	phase  []int // per thread: 0 = its read transaction has not run yet
	grant  []chan struct{}
	events chan [2]int // tid, 0=arrived at a gate 1=step done 2=exit
}

type v6Gate struct {
	stoabs.KVStore
	ctl *v6Ctl
}

func (g *v6Gate) tid(ctx context.Context) int {
	if g.ctl == nil {
		return -1
	}
	if v, ok := ctx.Value(v6TidKey{}).(int); ok {
		return v
	}
	return -1
}

// The explorer's atomic steps of one Add: step 1 = the read transaction (presence + verification); step 2 = everything
// after it (addMutex, the write transaction under the write lock, rollback handler / after-commit hooks) — state.Add takes
// addMutex between the two, so a thread must never be parked while it holds that mutex: the park points are BEFORE the
// first Read and right AFTER it (still inside the wrapper); everything later in the same Add passes straight through.
func (g *v6Gate) Read(ctx context.Context, fn func(stoabs.ReadTx) error) error {
	t := g.tid(ctx)
	if t < 0 || g.ctl.phase[t] != 0 {
		return g.KVStore.Read(ctx, fn)
	}
	g.ctl.events <- [2]int{t, 0}
	<-g.ctl.grant[t]
	err := g.KVStore.Read(ctx, fn)
	g.ctl.phase[t] = 1
	g.ctl.events <- [2]int{t, 0}
	<-g.ctl.grant[t]
	return err
}

// errV6Fault is the injected store fault: the write function ran to its end, then the transaction is rolled back
var errV6Fault = errors.New("verif: injected store fault after the write function")

type v6FaultKey struct{}

// Write: a context carrying v6FaultKey makes THIS write transaction fail after its function returned nil (rollback after
// updateState), and runs `window` as the FIRST rollback handler — i.e. after the store released its write lock and before
// state.Add's own handler reloads the trees: the window in which a concurrent Add must not get in.
func (g *v6Gate) Write(ctx context.Context, fn func(stoabs.WriteTx) error, opts ...stoabs.TxOption) error {
	window, ok := ctx.Value(v6FaultKey{}).(func())
	if !ok {
		return g.KVStore.Write(ctx, fn, opts...)
	}
	failing := func(tx stoabs.WriteTx) error {
		if err := fn(tx); err != nil {
			return err
		}
		return errV6Fault
	}
	return g.KVStore.Write(ctx, failing, append([]stoabs.TxOption{stoabs.OnRollback(window)}, opts...)...)
}

// a subscriber whose Save cancels the caller's context while the write transaction is open (when armed)
type v6CancelSub struct {
	mu     sync.Mutex
	cancel context.CancelFunc
}

func (c *v6CancelSub) Name() string { return "zz-cancel" }
func (c *v6CancelSub) Save(_ stoabs.WriteTx, _ Event) error {
	c.mu.Lock()
	defer c.mu.Unlock()
	if c.cancel != nil {
		c.cancel()
	}
	return nil
}
func (c *v6CancelSub) Notify(_ Event)                        {}
func (c *v6CancelSub) Finished(_ hash.SHA256Hash) error      { return nil }
func (c *v6CancelSub) Run() error                            { return nil }
func (c *v6CancelSub) GetFailedEvents() ([]Event, error)     { return nil, nil }
func (c *v6CancelSub) Close() error                          { return nil }
func (c *v6CancelSub) arm(f context.CancelFunc)              { c.mu.Lock(); c.cancel = f; c.mu.Unlock() }

// ---------------------------------------------------------------- a node under test

type v6Sub struct {
	Name        string `json:"name"`
	Persistent  bool   `json:"persistent"`
	WantTx      bool   `json:"wantTx"`
	WantPayload bool   `json:"wantPayload"`
	PalOnly     bool   `json:"palOnly"`
	Outcome     string `json:"outcome"` // finished | fatal
}

type v6Node struct {
	dir    string
	inner  stoabs.KVStore
	gate   *v6Gate
	st     *state
	res    *v6Resolver
	subs   []v6Sub
	notifs map[string]Notifier
	mu     sync.Mutex
	ledger map[string][]string // per subscriber, events delivered since last drain
	refs   []hash.SHA256Hash   // probe list
	phs    []hash.SHA256Hash
	canc   *v6CancelSub
	pevents []string
}

var v6Counter int

func v6NewNode(base string, subs []v6Sub, keys []*v6Key) *v6Node {
	v6Counter++
	dir := filepath.Join(base, fmt.Sprintf("db%d", v6Counter))
	_ = os.MkdirAll(dir, 0o755)
	lg := logrus.New()
	lg.SetLevel(logrus.PanicLevel)
	inner, err := bbolt.CreateBBoltStore(filepath.Join(dir, "dag"), stoabs.WithNoSync(), stoabs.WithLogger(lg))
	if err != nil {
		panic(err)
	}
	n := &v6Node{dir: dir, inner: inner, gate: &v6Gate{KVStore: inner}, subs: subs, ledger: map[string][]string{}, notifs: map[string]Notifier{},
		res: &v6Resolver{docs: map[string]v6DocEntry{}, latest: map[string]v6DocEntry{}, keys: keys}}
	s, err := NewState(n.gate, NewPrevTransactionsVerifier(), NewTransactionSignatureVerifier(SourceTXKeyResolver{Resolver: n.res}))
	if err != nil {
		panic(err)
	}
	n.st = s.(*state)
	for _, sub := range subs {
		sub := sub
		var opts []NotifierOption
		if sub.Persistent {
			opts = append(opts, WithPersistency(inner))
		}
		opts = append(opts, WithSelectionFilter(func(e Event) bool {
			if e.Type == TransactionEventType && !sub.WantTx {
				return false
			}
			if e.Type == PayloadEventType && !sub.WantPayload {
				return false
			}
			if sub.PalOnly && e.Transaction.PAL() == nil {
				return false
			}
			return true
		}))
		nt, err := n.st.Notifier(sub.Name, func(e Event) (bool, error) {
			t := "t"
			if e.Type == PayloadEventType {
				t = "p"
			}
			n.mu.Lock()
			n.ledger[sub.Name] = append(n.ledger[sub.Name], t+":"+v6Short(e.Hash))
			if e.Type == PayloadEventType {
				// oracle only (impl.side): the bytes a payload event carries must hash to the transaction's payload hash
				ph := sha256.Sum256(e.Payload)
				n.pevents = append(n.pevents, v6Short(e.Hash)+":"+hex.EncodeToString(ph[:4])+":"+v6Short(e.Transaction.PayloadHash()))
			}
			n.mu.Unlock()
			if sub.Outcome == "fatal" {
				return false, EventFatal{errors.New("verif: fatal")}
			}
			return true, nil
		}, opts...)
		if err != nil {
			panic(err)
		}
		n.notifs[sub.Name] = nt
	}
	n.canc = &v6CancelSub{}
	n.st.notifiers.Store(n.canc.Name(), n.canc)
	n.st.loadState(context.Background())
	return n
}

// observables the model does not compute (IBLT), written to impl.side for the oracle: digest of the whole IBLT and its clock
func (n *v6Node) side() string {
	iblt, clock := n.st.IBLT(math.MaxUint32)
	b, _ := iblt.MarshalBinary()
	h := sha256.Sum256(b)
	xor, xclock := n.st.XOR(math.MaxUint32)
	// reference fold: the IBLT of exactly the stored transactions (the tree package's own Iblt as accumulator)
	fold := "ok"
	if txs, err := n.st.FindBetweenLC(context.Background(), 0, MaxLamportClock); err == nil {
		exp := tree.NewIblt(IbltNumBuckets)
		for _, tx := range txs {
			exp.Insert(tx.Ref())
		}
		eb, _ := exp.MarshalBinary()
		if !bytes.Equal(eb, b) {
			fold = "BAD"
		}
	}
	n.mu.Lock()
	pe := strings.Join(n.pevents, ",")
	n.pevents = nil
	n.mu.Unlock()
	// the Prometheus counter nuts_dag_transactions_total of THIS state instance (a restart makes a new one: compared by its moves)
	mc := "-"
	if n.st.transactionCount != nil {
		var m dto.Metric
		if err := n.st.transactionCount.Write(&m); err == nil && m.GetCounter() != nil {
			mc = strconv.FormatFloat(m.GetCounter().GetValue(), 'f', -1, 64)
		}
	}
	return fmt.Sprintf("iblt=%s@%d xor=%s@%d ibltfold=%s mc=%s pe=%s", hex.EncodeToString(h[:6]), clock, xor.String()[:12], xclock, fold, mc, pe)
}

func (n *v6Node) close() {
	_ = n.st.Shutdown()
	_ = n.inner.Close(context.Background())
	_ = os.RemoveAll(n.dir)
}

func (n *v6Node) drainLedger() string {
	n.mu.Lock()
	defer n.mu.Unlock()
	var names []string
	for k := range n.ledger {
		names = append(names, k)
	}
	sort.Strings(names)
	var out []string
	for _, k := range names {
		for _, e := range n.ledger[k] {
			out = append(out, k+":"+e)
		}
	}
	n.ledger = map[string][]string{}
	return strings.Join(out, ",")
}

// the part of the observation every leg shares: presence, listing, payloads, metadata, digest
func v6ObserveCore(st *state, refs []hash.SHA256Hash, phs []hash.SHA256Hash) string {
	ctx := context.Background()
	var sb strings.Builder
	sb.WriteString("P=")
	for _, r := range refs {
		p, err := st.IsPresent(ctx, r)
		tx, gerr := st.GetTransaction(ctx, r)
		switch {
		case err != nil:
			sb.WriteByte('E')
		case p && gerr == nil && tx != nil && tx.Ref().Equals(r):
			sb.WriteByte('1')
		case !p && errors.Is(gerr, ErrTransactionNotFound):
			sb.WriteByte('0')
		default:
			sb.WriteByte('X')
		}
	}
	sb.WriteString(" | LC=")
	txs, err := st.FindBetweenLC(ctx, 0, MaxLamportClock)
	if err != nil {
		sb.WriteString("err")
	}
	for i, tx := range txs {
		if i > 0 {
			sb.WriteByte(',')
		}
		fmt.Fprintf(&sb, "%d:%s", tx.Clock(), v6Short(tx.Ref()))
	}
	sb.WriteString(" | PL=")
	for i, h := range phs {
		if i > 0 {
			sb.WriteByte(',')
		}
		b, err := st.ReadPayload(ctx, h)
		pp, _ := st.IsPayloadPresent(ctx, h)
		switch {
		case errors.Is(err, ErrPayloadNotFound) && !pp:
			sb.WriteByte('-')
		case err == nil && pp && len(b) > 1 && b[0] == 'P':
			sb.WriteString(string(b[1:]))
		default:
			sb.WriteByte('X')
		}
	}
	var count uint64
	var lch uint32
	_ = st.db.Read(ctx, func(tx stoabs.ReadTx) error {
		count = st.graph.getNumberOfTransactions(tx)
		lch = st.graph.getHighestClockValue(tx)
		return nil
	})
	head, _ := st.Head(ctx)
	hs := "-"
	if !head.Equals(hash.EmptyHash()) {
		hs = v6Short(head)
	}
	xor, _ := st.XOR(math.MaxUint32)
	fmt.Fprintf(&sb, " | n=%d lch=%d lca=%d head=%s xor=%s", count, lch, st.lamportClockHigh.Load(), hs, v6Short(xor))
	return sb.String()
}

func (n *v6Node) observe() string {
	ctx := context.Background()
	var sb strings.Builder
	sb.WriteString(v6ObserveCore(n.st, n.refs, n.phs))
	sb.WriteString(" | J=")
	var jobs []string
	for _, sub := range n.subs {
		if !sub.Persistent {
			continue
		}
		nt := n.notifs[sub.Name].(*notifier)
		_ = n.inner.ReadShelf(ctx, nt.shelfName(), func(r stoabs.Reader) error {
			return r.Iterate(func(k stoabs.Key, v []byte) error {
				var e Event
				if err := json.Unmarshal(v, &e); err != nil {
					jobs = append(jobs, sub.Name+":"+hex.EncodeToString(k.Bytes())[:8]+":X")
					return nil
				}
				t, f := "t", "-"
				if e.Type == PayloadEventType {
					t = "p"
				}
				if e.Retries >= maxRetries {
					f = "f"
				}
				jobs = append(jobs, sub.Name+":"+v6Short(e.Hash)+":"+t+":"+f)
				return nil
			}, stoabs.BytesKey{})
		})
	}
	sort.Strings(jobs)
	sb.WriteString(strings.Join(jobs, ","))
	sb.WriteString(" | E=" + n.drainLedger())
	return sb.String()
}

func (n *v6Node) add(ctx context.Context, input []byte, payload []byte) (res string) {
	defer func() {
		if r := recover(); r != nil {
			fmt.Fprintf(os.Stderr, "panic in add: %v\n", r)
			res = "panic:add"
		}
	}()
	tx, line := v6Parse(input)
	if tx == nil {
		return line
	}
	return v6AddClass(n.st.Add(ctx, tx, payload))
}

// ---------------------------------------------------------------- ops

type v6Call struct {
	In      string         `json:"in"`      // input bytes, base64
	Pid     *int           `json:"pid"`     // payload id (bytes = "P<id>"), nil = no payload
	Sha     string         `json:"sha"`     // SHA-256 of the payload bytes (hex)
	Jws     map[string]any `json:"jws"`     // model's view
	SigJwk  bool           `json:"sigJwk"`  // verdict: verifies against the embedded key
	SigKeys []int          `json:"sigKeys"` // verdict: key indices it verifies against
	LaxJwk  bool           `json:"laxJwk"`  // family-only verdict (digest by alg, whatever curve the key has): the model's jws.Verify parameter
	LaxKeys []int          `json:"laxKeys"`
	JwkCrv  string         `json:"jwkCrv"`  // curve of the embedded EC key ("" = none)
	KeyCrvs []string       `json:"keyCrvs"` // curve of each known key
	KidDid  *string        `json:"kidDid"`  // DID of the kid, nil if the kid does not parse
	Phs     []string       `json:"phs"`     // payload hashes to add to the probe list
	Note    string         `json:"note"`
}

type v6Op struct {
	Op    string   `json:"op"` // parse | new | doc | add | sched | reopen
	Call  *v6Call  `json:"call,omitempty"`
	Subs  []v6Sub  `json:"subs,omitempty"`
	Keys  []string `json:"keys,omitempty"`
	Did   string   `json:"did,omitempty"`
	Src   string   `json:"src,omitempty"`
	Doc   *v6DocEntry `json:"doc,omitempty"`
	Calls []v6Call `json:"calls,omitempty"`
	Sched []int    `json:"sched,omitempty"`
	Obs   bool     `json:"obs,omitempty"` // observe the state after every step of the schedule
	Cancel bool    `json:"cancel,omitempty"` // add: the context is cancelled by a subscriber's Save inside the write transaction
	Note  string   `json:"note,omitempty"`
	Ranges [][2]uint32 `json:"ranges,omitempty"` // shelf: FindBetweenLC queries to run on the raw store
	// newtx: arguments of NewTransaction and of Sign
	Cty   string   `json:"cty,omitempty"`
	Prevs []string `json:"prevs,omitempty"`
	PalN  *int     `json:"paln,omitempty"`
	Lc    uint32   `json:"lc,omitempty"`
	Ph    string   `json:"ph,omitempty"`
	Sigt  int64    `json:"sigt,omitempty"`
	Embed bool     `json:"embed,omitempty"`
	// algfit: arguments of jwx.AlgorithmFitsKey
	Alg   string   `json:"alg,omitempty"`
	Shape string   `json:"shape,omitempty"` // Go type of the key : curve / length
	Kid   string   `json:"kid,omitempty"`
}

func v6Payload(pid *int) []byte {
	if pid == nil {
		return nil
	}
	return []byte("P" + strconv.Itoa(*pid))
}

type v6Exec struct {
	base string
	node *v6Node
	keys []*v6Key
	subs []v6Sub
	out  *os.File
}

func (x *v6Exec) probe(c *v6Call) {
	var d struct{ Ref string }
	b, _ := json.Marshal(c.Jws)
	_ = json.Unmarshal(b, &d)
	r, _ := hash.ParseHex(c.Jws["ref"].(string))
	found := false
	for _, k := range x.node.refs {
		if k.Equals(r) {
			found = true
		}
	}
	if !found {
		x.node.refs = append(x.node.refs, r)
	}
	for _, p := range c.Phs {
		h, _ := hash.ParseHex(p)
		f := false
		for _, k := range x.node.phs {
			if k.Equals(h) {
				f = true
			}
		}
		if !f {
			x.node.phs = append(x.node.phs, h)
		}
	}
}

func (x *v6Exec) run(op v6Op) string {
	switch op.Op {
	case "parse":
		in, _ := base64.StdEncoding.DecodeString(op.Call.In)
		_, line := v6Parse(in)
		if op.Call.Jws["framing"] == "unmodelled" {
			return "unmodelled"
		}
		return line
	case "framing":
		in, _ := base64.StdEncoding.DecodeString(op.Call.In)
		return v6FramingLine(in)
	case "hashlist":
		in, _ := base64.StdEncoding.DecodeString(op.Call.In)
		return v6HashListLine(in)
	case "algfit":
		return v6AlgFitLine(op.Alg, op.Shape)
	case "newtx":
		return v6NewTxLine(op)
	case "shelf":
		return x.node.shelfDump(op.Ranges)
	case "new":
		if x.node != nil {
			x.node.close()
		}
		x.keys = nil
		for _, h := range op.Keys {
			x.keys = append(x.keys, v6KeyFromHex(h))
		}
		x.subs = op.Subs
		x.node = v6NewNode(x.base, op.Subs, x.keys)
		return "new " + x.node.observe()
	case "doc":
		x.node.res.mu.Lock()
		x.node.res.docs[op.Did+"@"+op.Src] = *op.Doc
		x.node.res.latest[op.Did] = *op.Doc
		x.node.res.mu.Unlock()
		return "doc"
	case "add":
		in, _ := base64.StdEncoding.DecodeString(op.Call.In)
		x.probe(op.Call)
		ctx := context.Background()
		if op.Cancel {
			c, cancel := context.WithCancel(ctx)
			defer cancel()
			x.node.canc.arm(cancel)
			ctx = c
		}
		r := x.node.add(ctx, in, v6Payload(op.Call.Pid))
		x.node.canc.arm(nil)
		return "r=" + r + " | " + x.node.observe()
	case "reopen":
		// a second state object on the same database sees the same DAG
		s2, err := NewState(x.node.inner, NewPrevTransactionsVerifier())
		if err != nil {
			return "reopen err"
		}
		old := x.node.st
		x.node.st = s2.(*state)
		x.node.st.loadState(context.Background())
		// notifiers stay registered on the old state; observe() only reads shelves
		line := "reopen " + x.node.observe()
		_ = s2.Shutdown()
		x.node.st = old
		return line
	case "sched":
		return x.sched(op)
	case "rbwin":
		// Add(A) is rolled back by a store fault after its write function; Add(B) is started inside the rollback-handler chain,
		// before state.Add's reload. With the critical section intact B waits (the window times out) and runs afterwards.
		for i := range op.Calls {
			x.probe(&op.Calls[i])
		}
		inA, _ := base64.StdEncoding.DecodeString(op.Calls[0].In)
		inB, _ := base64.StdEncoding.DecodeString(op.Calls[1].In)
		resB := ""
		doneB := make(chan struct{})
		started := false
		window := func() {
			started = true
			go func() {
				defer close(doneB)
				resB = x.node.add(context.Background(), inB, v6Payload(op.Calls[1].Pid))
			}()
			select {
			case <-doneB:
			case <-time.After(150 * time.Millisecond):
			}
		}
		resA := x.node.add(context.WithValue(context.Background(), v6FaultKey{}, window), inA, v6Payload(op.Calls[0].Pid))
		if !started { // A never reached its write transaction (rejected in phase 1): B is simply offered afterwards
			window()
		}
		select {
		case <-doneB:
		case <-time.After(v6StepLimit):
			v6Hang("rbwin: Add(B) did not return")
		}
		return "resA=" + resA + " resB=" + resB + " | " + x.node.observe()
	}
	return "bad-op"
}

func (x *v6Exec) sched(op v6Op) string {
	n := len(op.Calls)
	ctl := &v6Ctl{events: make(chan [2]int, 16)}
	for i := 0; i < n; i++ {
		ctl.grant = append(ctl.grant, make(chan struct{}))
		ctl.phase = append(ctl.phase, 0)
	}
	results := make([]string, n)
	for i := range op.Calls {
		x.probe(&op.Calls[i])
	}
	x.node.gate.ctl = ctl
	// 0 = waiting at a gate, 2 = exited
	status := make([]int, n)
	for i := 0; i < n; i++ {
		i := i
		in, _ := base64.StdEncoding.DecodeString(op.Calls[i].In)
		payload := v6Payload(op.Calls[i].Pid)
		go func() {
			ctx := context.WithValue(context.Background(), v6TidKey{}, i)
			results[i] = x.node.add(ctx, in, payload)
			ctl.events <- [2]int{i, 2}
		}()
		// let it reach its first gate (or exit: parse failure) before starting the next, so that start-up is deterministic
		select {
		case ev := <-ctl.events:
			status[ev[0]] = ev[1]
		case <-time.After(v6StepLimit):
			v6Hang(fmt.Sprintf("schedule %v: thread %d did not start within %v", op.Sched, i, v6StepLimit))
		}
	}
	stepOne := func(t int) {
		if t < 0 || t >= n || status[t] == 2 {
			return
		}
		ctl.grant[t] <- struct{}{}
		for {
			select {
			case ev := <-ctl.events:
				if ev[0] == t {
					status[t] = ev[1]
					return
				}
			case <-time.After(v6StepLimit):
				// a thread that neither reaches its next park point nor returns: never wait for ever
				v6Hang(fmt.Sprintf("schedule %v: thread %d did not finish its step within %v", op.Sched, t, v6StepLimit))
			}
		}
	}
	var mid []string
	for _, t := range op.Sched {
		stepOne(t)
		if op.Obs {
			// what every observer sees between two steps (reads take the read lock; no controlled thread holds a lock now)
			mid = append(mid, x.node.observe())
		}
	}
	for t := 0; t < n; t++ { // complete whatever the schedule left unfinished (generator emits complete schedules)
		for status[t] != 2 {
			stepOne(t)
		}
	}
	x.node.gate.ctl = nil
	pre := ""
	if op.Obs {
		pre = "mid=" + strings.Join(mid, " ;; ") + " || "
	}
	return pre + "res=" + strings.Join(results, ",") + " | " + x.node.observe()
}

// ---------------------------------------------------------------- generators

type v6Gen struct {
	rnd  *rand.Rand
	keys []*v6Key
	xkey *v6Key // one more key, on P-384, never picked as a random signer: only DID documents hold it (kid-referenced), index len(keys)
	pid  int
	lastSi  string
	lastSig []byte
	sink func(op v6Op) string // executes the op on the real code, records op and line, returns the line
}

// emit runs the op at once: the generator steers by what the implementation did (never by the model)
func (g *v6Gen) emit(op v6Op) string { return g.sink(op) }

func (g *v6Gen) allKeys() []*v6Key {
	if g.xkey == nil {
		return g.keys
	}
	return append(append([]*v6Key{}, g.keys...), g.xkey)
}

func v6Hex(b []byte) string { return hex.EncodeToString(b) }

func (g *v6Gen) randRef() string {
	b := make([]byte, 32)
	g.rnd.Read(b)
	return v6Hex(b)
}

func v6CallOf(input []byte) v6Call {
	return v6Call{In: base64.StdEncoding.EncodeToString(input), Jws: v6Describe(input)}
}

var v6Kinds = []string{`null`, `true`, `false`, `0`, `1`, `2`, `-1`, `1.5`, `0.5`, `-0.5`, `2.5`, `0.999`, `"str"`, `""`, `"1"`, `[]`, `[1]`, `["x"]`, `[null]`, `[[]]`, `{}`, `{"a":1}`,
	`4294967295`, `4294967296`, `4294967297`, `4294967295.5`, `1e10`, `1e19`, `-1e19`, `9007199254740993`, `9223372036854775807`, `9223372036854775808`, `18446744073709551616`,
	`1e308`, `-1e308`, `1e-5`, `1E2`, `1.0`, `2.0e0`, `-0`, `3`, `2.9`, `1.9999999999999998`}

var v6Algs = []string{`"none"`, `"HS256"`, `"HS384"`, `"HS512"`, `"RS256"`, `"RS384"`, `"RS512"`, `"ES256"`, `"ES384"`, `"ES512"`, `"PS256"`, `"PS384"`, `"PS512"`, `"EdDSA"`, `"ES256K"`, `"es256"`, `""`, `"XYZ"`, `null`, `5`, `["ES256"]`}

func v6Replace(ps []v6Pair, k, v string) []v6Pair {
	out := append([]v6Pair{}, ps...)
	for i := range out {
		if out[i].k == k {
			out[i].v = v
			return out
		}
	}
	return append(out, v6Pair{k, v})
}

func v6Remove(ps []v6Pair, k string) []v6Pair {
	var out []v6Pair
	for _, p := range ps {
		if p.k != k {
			out = append(out, p)
		}
	}
	return out
}

// ---- deepening round: the framing check on raw bytes (parser.go isJWSSerialization) and the base64 decoder it uses

// digest of a byte string: length, first bytes, byte sum (small lines; the model prints the same)
func v6Dig(b []byte) string {
	sum := 0
	for _, c := range b {
		sum = (sum*31 + int(c)) % 1000003
	}
	n := len(b)
	if n > 4 {
		n = 4
	}
	return strconv.Itoa(len(b)) + ":" + hex.EncodeToString(b[:n]) + ":" + strconv.Itoa(sum)
}

// verdict of the REAL isJWSSerialization, plus what the REAL base64.RawURLEncoding decoder makes of the first segments
func v6FramingLine(in []byte) string {
	fr := isJWSSerialization(in)
	segs := bytes.Split(in, []byte{'.'})
	var ds []string
	for i, sg := range segs {
		if i >= 4 {
			break
		}
		d, err := base64.RawURLEncoding.DecodeString(string(sg))
		if err != nil {
			ds = append(ds, "e")
		} else {
			ds = append(ds, v6Dig(d))
		}
	}
	return "fr=" + strconv.FormatBool(fr) + " segs=" + strconv.Itoa(len(segs)) + " dec=" + strings.Join(ds, ",")
}

func (g *v6Gen) framingOp(note string, in []byte) {
	g.emit(v6Op{Op: "framing", Call: &v6Call{In: base64.StdEncoding.EncodeToString(in), Note: note}})
}

const v6Alphabet = "ABCDEFGHIJKLMNOPQRSTUVWXYZabcdefghijklmnopqrstuvwxyz0123456789-_"

// byte-level re-framings of one valid compact transaction, and small synthetic inputs around every branch of the check
func (g *v6Gen) framingMutants(exhaustive bool) {
	key := g.keys[g.rnd.Intn(len(g.keys))]
	hdr := v6BaseHdr(key, "", "application/did+json", strconv.Itoa(g.rnd.Intn(1000)), []string{g.randRef()}, 1600000000+int64(g.rnd.Intn(1e8)), 1+g.rnd.Intn(2), nil)
	valid := v6Compact(key, v6HdrJSON(hdr), g.randRef())
	segs := strings.Split(string(valid), ".")
	join := func(a, b, c string) []byte { return []byte(a + "." + b + "." + c) }
	withSeg := func(k int, f func(string) string) []byte {
		cp := append([]string{}, segs...)
		cp[k] = f(cp[k])
		return []byte(strings.Join(cp, "."))
	}
	g.framingOp("valid", valid)
	g.framingOp("extra-segment", append(append([]byte{}, valid...), []byte(".x")...))
	g.framingOp("extra-empty-segment", append(append([]byte{}, valid...), '.'))
	g.framingOp("extra-segment-canonical", append(append([]byte{}, valid...), []byte(".QQ")...))
	g.framingOp("two-segments", []byte(segs[0]+"."+segs[1]))
	g.framingOp("one-segment", []byte(segs[0]))
	g.framingOp("empty", []byte{})
	g.framingOp("dots-only", []byte(".."))
	g.framingOp("empty-payload", join(segs[0], "", segs[2]))
	g.framingOp("empty-signature", join(segs[0], segs[1], ""))
	g.framingOp("empty-header", join("", segs[1], segs[2]))
	for k := 0; k < 3; k++ {
		ks := strconv.Itoa(k)
		g.framingOp("pad1:"+ks, withSeg(k, func(s string) string { return s + "=" }))
		g.framingOp("pad2:"+ks, withSeg(k, func(s string) string { return s + "==" }))
		g.framingOp("std-alphabet:"+ks, withSeg(k, func(s string) string { return strings.NewReplacer("-", "+", "_", "/").Replace(s) }))
		for _, ins := range []string{"\n", "\r", "\r\n", " ", "\t", "\x00", "\x80", "\xff", "+", "/", "=", "~"} {
			pos := g.rnd.Intn(len(segs[k]) + 1)
			if g.rnd.Intn(3) == 0 {
				pos = len(segs[k])
			} else if g.rnd.Intn(4) == 0 {
				pos = 0
			}
			g.framingOp("insert:"+ks+":"+strconv.Quote(ins), withSeg(k, func(s string) string { return s[:pos] + ins + s[pos:] }))
		}
		g.framingOp("drop-last-char:"+ks, withSeg(k, func(s string) string { return s[:len(s)-1] }))
		g.framingOp("drop-two-chars:"+ks, withSeg(k, func(s string) string { return s[:len(s)-2] }))
		g.framingOp("drop-three-chars:"+ks, withSeg(k, func(s string) string { return s[:len(s)-3] }))
		// the same bytes with other trailing bits in the last character (only when the last quantum is partial)
		for try := 0; try < 3; try++ {
			raw := make([]byte, 1+g.rnd.Intn(8))
			g.rnd.Read(raw)
			enc := base64.RawURLEncoding.EncodeToString(raw)
			last := strings.IndexByte(v6Alphabet, enc[len(enc)-1])
			bump := 1 + g.rnd.Intn(3)
			alt := enc[:len(enc)-1] + string(v6Alphabet[(last+bump)%64])
			g.framingOp("segment-honest:"+ks, withSeg(k, func(string) string { return enc }))
			g.framingOp("segment-last-char-bumped:"+ks+":len%4="+strconv.Itoa(len(enc)%4), withSeg(k, func(string) string { return alt }))
		}
	}
	// the JSON branch: white space as unicode.IsSpace sees it (UTF-8 decoded), look-alikes that are not white space
	js := `{"payload":"` + segs[1] + `","protected":"` + segs[0] + `","signature":"` + segs[2] + `"}`
	for _, pre := range []string{"", " ", "\t\n\v\f\r ", "\u0085", "\u00a0", "\u1680", "\u2000", "\u2003", "\u200a", "\u2028", "\u2029", "\u202f", "\u205f", "\u3000",
		" \u00a0 \u3000\n", "\u200b", "\u180e", "\ufeff", "\u2060", "\xc2", "\xe2\x80", "\xa0", "\x85", "\x00", "x", ".", "[", "\u00a0x", "\xe2\x80\x8b", "\xe2\x80\xa7", "\xe2\x81\x9e", "\xe3\x80\x81", "\xe1\x9a\x81", "\x1c", "\x1f", "\x08", "\x0e"} {
		g.framingOp("json-prefix:"+strconv.Quote(pre), []byte(pre+js))
		if g.rnd.Intn(4) == 0 {
			g.framingOp("space-prefix-compact:"+strconv.Quote(pre), append([]byte(pre), valid...))
		}
	}
	g.framingOp("only-space", []byte(" \n\t"))
	g.framingOp("brace-only", []byte("{"))
	g.framingOp("brace-then-compact", append([]byte("{"), valid...))
	if exhaustive {
		// every last character for segments with a partial last quantum (trailing bits), every single character, every lone byte
		for i := 0; i < 64; i++ {
			c := string(v6Alphabet[i])
			g.framingOp("syn:last2", []byte("e30.Q"+c+".QQ"))
			g.framingOp("syn:last3", []byte("e30.QQ.QU"+c))
			g.framingOp("syn:last4", []byte("e30"+c+".QQ.QQ")) // length 4·k+... : e30X is a full quantum
			g.framingOp("syn:single", []byte("e30."+c+".QQ"))
		}
		for b := 0; b < 256; b++ {
			g.framingOp("syn:byte", []byte("e30.Q"+string([]byte{byte(b)})+"Q.QQ"))
			g.framingOp("syn:first-byte", append([]byte{byte(b)}, []byte("{}")...))
		}
	}
}

// ---- deepening round: making a transaction — the REAL NewTransaction and the REAL transactionSigner.Sign (with an in-memory JWS signer)

func v6SignClass(err error) string {
	s := err.Error()
	switch {
	case strings.Contains(s, "signing time is zero"):
		return "err:signing-time-zero"
	case strings.Contains(s, "already signed"):
		return "err:already-signed"
	case strings.Contains(s, "unable to parse transaction") || strings.Contains(s, "transaction validation failed") || strings.Contains(s, "not valid"):
		return v6ParseClass(err)
	}
	return v6ParseClass(err)
}

func v6NewTxLine(op v6Op) string {
	ph, _ := hash.ParseHex(op.Ph)
	var prevs []hash.SHA256Hash
	for _, p := range op.Prevs {
		h, _ := hash.ParseHex(p)
		prevs = append(prevs, h)
	}
	var pal EncryptedPAL
	if op.PalN != nil {
		pal = EncryptedPAL{}
		for i := 0; i < *op.PalN; i++ {
			pal = append(pal, []byte{byte(i), 'p', 'a', 'l'})
		}
	}
	u, err := NewTransaction(ph, op.Cty, prevs, pal, op.Lc)
	if err != nil {
		switch err {
		case errInvalidPayloadType:
			return "err:invalid-payload-type"
		case errInvalidPrevs:
			return "err:invalid-prevs"
		}
		return "err:new:?" + err.Error()
	}
	var ups []string
	for _, p := range u.Previous() {
		ups = append(ups, v6Short(p))
	}
	line := fmt.Sprintf("new prevs=[%s] nilprevs=%v ver=%d lc=%d", strings.Join(ups, ","), u.Previous() == nil, u.Version(), u.Clock())
	// Sign with a fresh in-memory key
	k := v6NewKey()
	jk, err := jwk.FromRaw(k.priv)
	if err != nil {
		return line + " | sign-setup:" + err.Error()
	}
	_ = jk.Set(jwk.KeyIDKey, op.Kid)
	var pub crypto.PublicKey
	if op.Embed {
		pub = &k.priv.PublicKey
	}
	signer := NewTransactionSigner(nutsCrypto.MemoryJWTSigner{Key: jk}, op.Kid, pub)
	ctx := audit.TestContext()
	if _, err := signer.Sign(ctx, u, time.Time{}); err != nil {
		line += " zero=" + v6SignClass(err)
	} else {
		line += " zero=ok"
	}
	moment := time.Unix(op.Sigt, 0)
	if op.Sigt == 0 {
		moment = time.Time{}
	}
	signed, err := signer.Sign(ctx, u, moment)
	if err != nil {
		return line + " | sign=" + v6SignClass(err)
	}
	var sps []string
	for _, p := range signed.Previous() {
		sps = append(sps, v6Short(p))
	}
	kid := signed.SigningKeyID()
	line += fmt.Sprintf(" | sign=ok alg=%s ph=%s cty=%q jwk=%v kid=%q sigt=%d ver=%d prevs=[%s] pal=%d lc=%d", signed.SigningAlgorithm(), v6Short(signed.PayloadHash()),
		signed.PayloadType(), signed.SigningKey() != nil, kid, signed.SigningTime().Unix(), signed.Version(), strings.Join(sps, ","), len(signed.PAL()), signed.Clock())
	// the protected header as signed: member names and the crit list
	d := v6Describe(signed.Data())
	var names []string
	crit := "?"
	if ms, ok := d["members"].([]any); ok {
		for _, m := range ms {
			if pr, ok := m.([]any); ok && len(pr) == 2 {
				nm, _ := pr[0].(string)
				names = append(names, nm)
				if nm == "crit" {
					var cs []string
					if j, ok := pr[1].(map[string]any); ok {
						if arr, ok := j["v"].([]any); ok {
							for _, el := range arr {
								if em, ok := el.(map[string]any); ok {
									sv, _ := em["s"].(string)
									cs = append(cs, sv)
								}
							}
						}
					}
					crit = strings.Join(cs, ",")
				}
			}
		}
	}
	sort.Strings(names)
	line += " names=" + strings.Join(names, ",") + " crit=" + crit
	if _, err := signer.Sign(ctx, signed, time.Unix(1700000000, 0)); err != nil {
		line += " again=" + v6SignClass(err)
	} else {
		line += " again=ok"
	}
	return line
}

func (g *v6Gen) newTxOps(n int) {
	ctys := []string{"application/did+json", "a/b", "/", "x/", "/y", "nomime", "", "application\\json", "a/b/c", " / "}
	zero := strings.Repeat("0", 64)
	for i := 0; i < n; i++ {
		op := v6Op{Op: "newtx", Ph: g.randRef(), Lc: uint32(g.rnd.Intn(5))}
		op.Cty = ctys[0]
		if g.rnd.Intn(3) == 0 {
			op.Cty = ctys[g.rnd.Intn(len(ctys))]
		}
		switch g.rnd.Intn(6) {
		case 0:
			op.Lc = math.MaxUint32
		case 1:
			op.Lc = uint32(g.rnd.Uint32())
		}
		pool := []string{g.randRef(), g.randRef(), g.randRef()}
		np := g.rnd.Intn(6)
		for j := 0; j < np; j++ {
			op.Prevs = append(op.Prevs, pool[g.rnd.Intn(len(pool))]) // duplicates on purpose
		}
		if g.rnd.Intn(6) == 0 {
			at := g.rnd.Intn(len(op.Prevs) + 1)
			op.Prevs = append(op.Prevs[:at:at], append([]string{zero}, op.Prevs[at:]...)...)
		}
		if g.rnd.Intn(8) == 0 {
			op.Ph = zero
		}
		switch g.rnd.Intn(4) {
		case 0:
			n0 := 0
			op.PalN = &n0
		case 1:
			n2 := 1 + g.rnd.Intn(3)
			op.PalN = &n2
		}
		op.Sigt = 1600000000 + int64(g.rnd.Intn(1e8))
		switch g.rnd.Intn(10) {
		case 0:
			op.Sigt = 0
		case 1:
			op.Sigt = -1 - int64(g.rnd.Intn(1e9))
		case 2:
			op.Sigt = 1
		case 3:
			op.Sigt = 253402300799 // year 9999
		}
		op.Embed = g.rnd.Intn(2) == 0
		op.Kid = "did:nuts:d" + strconv.Itoa(g.rnd.Intn(5)) + "#k" + strconv.Itoa(g.rnd.Intn(3))
		if g.rnd.Intn(7) == 0 {
			op.Kid = ""
		}
		g.emit(op)
	}
}

// ---- deepening round: the bytes in the store (dag.go clocks / documents / metadata shelves) and the range scan of FindBetweenLC

// what the REAL parseHashList / appendHashList / bytesToClock / bytesToCount make of raw bytes
func v6HashListLine(in []byte) string {
	var src []byte
	if len(in) > 0 {
		src = in
	}
	parsed := parseHashList(src)
	var rs []string
	for _, h := range parsed {
		rs = append(rs, v6Dig(h.Slice()))
	}
	var one hash.SHA256Hash
	for i := range one {
		one[i] = byte(i + 1)
	}
	app := appendHashList(src, one)
	back := parseHashList(app)
	line := fmt.Sprintf("n=%d nil=%v refs=%s app=%s back=%d", len(parsed), parsed == nil, strings.Join(rs, ","), v6Dig(app), len(back))
	if len(in) >= 4 {
		line += fmt.Sprintf(" clk=%d", bytesToClock(in[:4]))
	}
	if len(in) >= 8 {
		line += fmt.Sprintf(" cnt=%d", bytesToCount(in[:8]))
	}
	return line
}

// raw dump of the three shelves dag.go writes, the REAL getRoots on the clocks shelf and the REAL findBetweenLC for the given ranges
func (n *v6Node) shelfDump(ranges [][2]uint32) string {
	ctx := context.Background()
	var cl, doc, md, rng []string
	roots := false
	_ = n.inner.ReadShelf(ctx, clockShelf, func(r stoabs.Reader) error {
		roots = getRoots(r) != nil
		return r.Iterate(func(k stoabs.Key, v []byte) error {
			var rs []string
			for i := 0; i+32 <= len(v); i += 32 {
				rs = append(rs, hex.EncodeToString(v[i:i+4]))
			}
			e := hex.EncodeToString(k.Bytes()) + ":" + strings.Join(rs, ",")
			if len(v)%32 != 0 {
				e += "+" + strconv.Itoa(len(v)%32)
			}
			cl = append(cl, e)
			return nil
		}, stoabs.BytesKey{})
	})
	sort.Strings(cl)
	_ = n.inner.ReadShelf(ctx, transactionsShelf, func(r stoabs.Reader) error {
		return r.Iterate(func(k stoabs.Key, _ []byte) error {
			kb := k.Bytes()
			if len(kb) != 32 {
				doc = append(doc, "badkey:"+hex.EncodeToString(kb))
			} else {
				doc = append(doc, hex.EncodeToString(kb[:4]))
			}
			return nil
		}, stoabs.BytesKey{})
	})
	sort.Strings(doc)
	_ = n.inner.ReadShelf(ctx, metadataShelf, func(r stoabs.Reader) error {
		for _, k := range []string{numberOfTransactionsKey, highestClockValue, headRefKey} {
			v, err := r.Get(stoabs.BytesKey(k))
			if err != nil || v == nil {
				md = append(md, k+":-")
			} else if k == headRefKey && len(v) == 32 {
				md = append(md, k+":"+hex.EncodeToString(v[:4]))
			} else {
				md = append(md, k+":"+hex.EncodeToString(v))
			}
		}
		return nil
	})
	for _, ab := range ranges {
		var rs []string
		err := n.inner.Read(ctx, func(tx stoabs.ReadTx) error {
			txs, err := n.st.graph.findBetweenLC(tx, ab[0], ab[1])
			for _, t := range txs {
				rs = append(rs, strconv.Itoa(int(t.Clock()))+"/"+v6Short(t.Ref()))
			}
			return err
		})
		e := fmt.Sprintf("%d-%d:%s", ab[0], ab[1], strings.Join(rs, ","))
		if err != nil {
			e += "!err"
		}
		rng = append(rng, e)
	}
	return "CL=" + strings.Join(cl, ";") + " | DOC=" + strings.Join(doc, ",") + " | MD=" + strings.Join(md, ",") + " | roots=" + strconv.FormatBool(roots) + " | RNG=" + strings.Join(rng, ";")
}

func (g *v6Gen) shelfOp(nTx int) {
	maxc := uint32(nTx + 2)
	rs := [][2]uint32{{0, math.MaxUint32}, {0, 1}, {1, 2}}
	for i := 0; i < 3; i++ {
		a := uint32(g.rnd.Intn(int(maxc) + 1))
		b := a + uint32(g.rnd.Intn(int(maxc)+2))
		rs = append(rs, [2]uint32{a, b})
	}
	rs = append(rs, [2]uint32{maxc, maxc + 5}, [2]uint32{3, 2})
	g.emit(v6Op{Op: "shelf", Ranges: rs})
}

func (g *v6Gen) hashListOps(n int) {
	for i := 0; i < n; i++ {
		var l int
		switch g.rnd.Intn(6) {
		case 0:
			l = 32 * g.rnd.Intn(5)
		case 1:
			l = 32*g.rnd.Intn(5) + 1
		case 2:
			l = 32*(1+g.rnd.Intn(5)) - 1
		case 3:
			l = g.rnd.Intn(12)
		default:
			l = g.rnd.Intn(200)
		}
		b := make([]byte, l)
		g.rnd.Read(b)
		if g.rnd.Intn(4) == 0 && l >= 8 { // small counters
			for j := 0; j < 7; j++ {
				b[j] = 0
			}
			b[3] = byte(g.rnd.Intn(3))
		}
		g.emit(v6Op{Op: "hashlist", Call: &v6Call{In: base64.StdEncoding.EncodeToString(b), Note: "len%32=" + strconv.Itoa(l%32)}})
	}
}

// ---------------------------------------------------------------- jwx.AlgorithmFitsKey, the guard of the signature verifier

var v6FitKeys = map[string]any{}
var v6FitOnce sync.Once

// v6FitKey: one key per shape "<go type>:<curve or length>" (made once: the verdict only depends on type, curve and length)
func v6FitKey(shape string) any {
	v6FitOnce.Do(func() {
		for _, c := range []elliptic.Curve{elliptic.P224(), elliptic.P256(), elliptic.P384(), elliptic.P521()} {
			p, err := ecdsa.GenerateKey(c, crand.Reader)
			if err != nil {
				panic(err)
			}
			n := c.Params().Name
			v6FitKeys["*ecdsa.PublicKey:"+n] = &p.PublicKey
			v6FitKeys["ecdsa.PublicKey:"+n] = p.PublicKey
			v6FitKeys["*ecdsa.PrivateKey:"+n] = p
			if n != "P-224" { // jwx has no P-224
				if k, err := jwk.FromRaw(&p.PublicKey); err == nil {
					v6FitKeys["jwk.ECDSAPublicKey:"+n] = k
				}
				if k, err := jwk.FromRaw(p); err == nil {
					v6FitKeys["jwk.ECDSAPrivateKey:"+n] = k
				}
			}
		}
		pub, _, _ := ed25519.GenerateKey(crand.Reader)
		for _, l := range []int{0, 31, 32, 33} {
			b := make([]byte, l)
			copy(b, pub)
			k := ed25519.PublicKey(b)
			v6FitKeys["ed25519.PublicKey:"+strconv.Itoa(l)] = k
			v6FitKeys["*ed25519.PublicKey:"+strconv.Itoa(l)] = &k
		}
		v6FitKeys["*ed25519.PublicKey:nil"] = (*ed25519.PublicKey)(nil)
		if k, err := jwk.FromRaw(pub); err == nil {
			v6FitKeys["jwk.OKPPublicKey:32"] = k
		}
		r, _ := rsa.GenerateKey(crand.Reader, 1024)
		v6FitKeys["*rsa.PublicKey:"] = &r.PublicKey
		v6FitKeys["nil:"] = nil
		v6FitKeys["[]byte:"] = []byte("secret")
	})
	return v6FitKeys[shape]
}

var v6FitShapes = []string{"*ecdsa.PublicKey:P-224", "*ecdsa.PublicKey:P-256", "*ecdsa.PublicKey:P-384", "*ecdsa.PublicKey:P-521",
	"ecdsa.PublicKey:P-224", "ecdsa.PublicKey:P-256", "ecdsa.PublicKey:P-384", "ecdsa.PublicKey:P-521",
	"*ecdsa.PrivateKey:P-256", "*ecdsa.PrivateKey:P-384", "*ecdsa.PrivateKey:P-521",
	"jwk.ECDSAPublicKey:P-256", "jwk.ECDSAPublicKey:P-384", "jwk.ECDSAPublicKey:P-521",
	"jwk.ECDSAPrivateKey:P-256", "jwk.ECDSAPrivateKey:P-384", "jwk.ECDSAPrivateKey:P-521",
	"ed25519.PublicKey:0", "ed25519.PublicKey:31", "ed25519.PublicKey:32", "ed25519.PublicKey:33",
	"*ed25519.PublicKey:31", "*ed25519.PublicKey:32", "*ed25519.PublicKey:nil", "jwk.OKPPublicKey:32",
	"*rsa.PublicKey:", "nil:", "[]byte:"}

func v6AlgFitLine(alg, shape string) (line string) {
	defer func() {
		if r := recover(); r != nil {
			line = "panic:algfit"
		}
	}()
	return fmt.Sprintf("fits=%v", jwx.AlgorithmFitsKey(jwa.SignatureAlgorithm(alg), v6FitKey(shape)))
}

// algFitOps: every algorithm name (the allowed ones, the other JWS ones, case variants, empty) x every key shape
func (g *v6Gen) algFitOps() {
	for _, a := range []string{"ES256", "ES384", "ES512", "PS256", "PS384", "PS512", "EdDSA", "RS256", "HS256", "ES256K", "none", "es256", "eddsa", ""} {
		for _, sh := range v6FitShapes {
			g.emit(v6Op{Op: "algfit", Alg: a, Shape: sh, Note: sh})
		}
	}
}

// parser mutants of one valid transaction
func (g *v6Gen) parserMutants(budget int) {
	key := g.keys[g.rnd.Intn(len(g.keys))]
	other := g.keys[g.rnd.Intn(len(g.keys))]
	ph := g.randRef()
	nprev := g.rnd.Intn(3)
	var prevs []string
	for i := 0; i < nprev; i++ {
		prevs = append(prevs, g.randRef())
	}
	kid := ""
	if g.rnd.Intn(3) == 0 {
		kid = "did:nuts:d" + strconv.Itoa(g.rnd.Intn(5)) + "#k" + strconv.Itoa(g.rnd.Intn(3))
	}
	var pal []string
	if g.rnd.Intn(3) == 0 {
		pal = []string{"QUJD", "QQ=="}
	}
	base := v6BaseHdr(key, kid, "application/did+json", strconv.Itoa(g.rnd.Intn(1000)), prevs, 1600000000+int64(g.rnd.Intn(1e8)), 1+g.rnd.Intn(2), pal)
	type mut struct {
		note string
		in   []byte
	}
	var ms []mut
	addH := func(note string, ps []v6Pair, payload string) {
		ms = append(ms, mut{note, v6Compact(key, v6HdrJSON(ps), payload)})
	}
	addH("valid", base, ph)
	names := []string{"alg", "crit", "cty", "jwk", "kid", "lc", "pal", "prevs", "sigt", "ver", "typ", "b64", "x5u"}
	for _, nme := range names {
		addH("remove:"+nme, v6Remove(base, nme), ph)
		for _, kv := range v6Kinds {
			addH("retype:"+nme+"="+kv, v6Replace(base, nme, kv), ph)
		}
		// duplicated member: valid first then mutant, and mutant first then valid
		kv := v6Kinds[g.rnd.Intn(len(v6Kinds))]
		cur := ""
		for _, p := range base {
			if p.k == nme {
				cur = p.v
			}
		}
		if cur != "" {
			addH("dup-last:"+nme+"="+kv, append(append([]v6Pair{}, base...), v6Pair{nme, kv}), ph)
			addH("dup-first:"+nme+"="+kv, append([]v6Pair{{nme, kv}}, base...), ph)
		}
	}
	for _, a := range v6Algs {
		addH("alg="+a, v6Replace(base, "alg", a), ph)
	}
	// kid / jwk combinations
	addH("kid+jwk", v6Replace(v6Replace(base, "jwk", other.jwk), "kid", `"did:nuts:x#k"`), ph)
	addH("neither", v6Remove(v6Remove(base, "jwk"), "kid"), ph)
	addH("jwk+kid-empty", v6Replace(v6Replace(base, "jwk", key.jwk), "kid", `""`), ph)
	addH("jwk+kid-null", v6Replace(v6Replace(base, "jwk", key.jwk), "kid", `null`), ph)
	addH("kid-empty-only", v6Replace(v6Remove(base, "jwk"), "kid", `""`), ph)
	addH("jwk-symmetric", v6Replace(v6Remove(base, "kid"), "jwk", `{"kty":"oct","k":"AAAA"}`), ph)
	addH("jwk-private-ec", v6Replace(v6Remove(base, "kid"), "jwk", key.jwkD), ph)
	addH("jwk-private-ec+kid", v6Replace(v6Replace(base, "kid", `"did:nuts:x#k"`), "jwk", key.jwkD), ph)
	addH("jwk-private-rsa", v6Replace(v6Remove(base, "kid"), "jwk", v6RsaPrivJWK), ph)
	addH("jwk-public-rsa", v6Replace(v6Remove(base, "kid"), "jwk", v6RsaPubJWK), ph)
	addH("jwk-private-okp", v6Replace(v6Remove(base, "kid"), "jwk", `{"kty":"OKP","crv":"Ed25519","x":"11qYAYKxCrfVS_7TyWQHOg7hcvPapiMlrwIaaPcHURo","d":"nWGxne_9WmC6hEr0kuwsxERJxWl7MmkZcDusAxyuf2A"}`), ph)
	addH("jwk-public-okp", v6Replace(v6Remove(base, "kid"), "jwk", `{"kty":"OKP","crv":"Ed25519","x":"11qYAYKxCrfVS_7TyWQHOg7hcvPapiMlrwIaaPcHURo"}`), ph)
	addH("jwk-bad", v6Replace(v6Remove(base, "kid"), "jwk", `{"kty":"EC","crv":"P-256","x":"AA"}`), ph)
	for _, c := range []string{`"foo"`, `""`, `"/"`, `"a/b/c"`, `"a/"`, `"application\/x"`, `" / "`} {
		addH("cty="+c, v6Replace(base, "cty", c), ph)
	}
	r1, r2 := g.randRef(), g.randRef()
	for _, p := range []string{`[]`, `[""]`, `["zz"]`, `["` + r1[:63] + `"]`, `["` + r1 + `0"]`, `["` + strings.ToUpper(r1) + `"]`, `["` + r1 + `",5]`, `["` + r1 + `","` + r1 + `"]`,
		`["` + r1 + `","` + r2 + `"]`, `[["` + r1 + `"]]`, `["` + r1[:62] + `zz"]`, `["` + r1 + `",""]`, `"` + r1 + `"`, `{"0":"` + r1 + `"}`} {
		addH("prevs="+p, v6Replace(base, "prevs", p), ph)
	}
	for _, p := range []string{`[]`, `["QUJD"]`, `["!!"]`, `[5]`, `"x"`, `[["QUJD"]]`, `[""]`, `["QUJD","QQ=="]`, `["QQ"]`, `["QUJD",null]`, `["QU\nJD"]`, `["QUJ-"]`, `null`, `{}`, `[true]`} {
		addH("pal="+p, v6Replace(base, "pal", p), ph)
	}
	for _, p := range []string{"", ph[:63], ph + "0", strings.ToUpper(ph), "zz" + ph[2:], "hello", ph[:62], " " + ph} {
		addH("payload="+p, base, p)
	}
	// serialisations
	hdr := v6HdrJSON(base)
	si, sig := v6Sign(key, hdr, ph)
	prot, pl := strings.Split(si, ".")[0], strings.Split(si, ".")[1]
	_, sig2 := v6Sign(other, hdr, ph)
	ms = append(ms, mut{"json-flat", []byte(fmt.Sprintf(`{"payload":"%s","protected":"%s","signature":"%s"}`, pl, prot, v6b64(sig)))})
	ms = append(ms, mut{"json-1sig", []byte(fmt.Sprintf(`{"payload":"%s","signatures":[{"protected":"%s","signature":"%s"}]}`, pl, prot, v6b64(sig)))})
	ms = append(ms, mut{"json-2sig", []byte(fmt.Sprintf(`{"payload":"%s","signatures":[{"protected":"%s","signature":"%s"},{"protected":"%s","signature":"%s"}]}`, pl, prot, v6b64(sig), prot, v6b64(sig2)))})
	ms = append(ms, mut{"json-0sig", []byte(fmt.Sprintf(`{"payload":"%s","signatures":[]}`, pl))})
	ms = append(ms, mut{"json-unprotected-only", []byte(fmt.Sprintf(`{"payload":"%s","signatures":[{"header":%s,"signature":"%s"}]}`, pl, hdr, v6b64(sig)))})
	ms = append(ms, mut{"json-protected+header", []byte(fmt.Sprintf(`{"payload":"%s","signatures":[{"protected":"%s","header":{"x":1},"signature":"%s"}]}`, pl, prot, v6b64(sig)))})
	ms = append(ms, mut{"json-flat-ws", []byte(fmt.Sprintf(" {\n\"payload\":\"%s\", \"protected\":\"%s\", \"signature\":\"%s\"} ", pl, prot, v6b64(sig)))})
	full := si + "." + v6b64(sig)
	for _, cut := range []int{1, 2, 3, 43, 86, len(v6b64(sig)), len(v6b64(sig)) + 1, len(v6b64(sig)) + 2, len(full) / 2, len(full) - len(prot), len(full) - len(prot) + 7, len(full) - 1, len(full)} {
		if cut <= len(full) {
			ms = append(ms, mut{"truncate:" + strconv.Itoa(cut), []byte(full[:len(full)-cut])})
		}
	}
	ms = append(ms, mut{"extra-segment", []byte(full + ".AAAA")})
	ms = append(ms, mut{"extra-segments-garbage", []byte(full + ".!!.??")})
	ms = append(ms, mut{"trailing-dot", []byte(full + ".")})
	ms = append(ms, mut{"trailing-newline", []byte(full + "\n")})
	ms = append(ms, mut{"sig-padded", []byte(si + "." + base64.URLEncoding.EncodeToString(sig))})
	ms = append(ms, mut{"sig-std-alphabet", []byte(si + "." + base64.RawStdEncoding.EncodeToString(sig))})
	ms = append(ms, mut{"sig-newline-inside", []byte(si + "." + v6b64(sig)[:10] + "\n" + v6b64(sig)[10:])})
	ms = append(ms, mut{"payload-padded", []byte(prot + "." + base64.URLEncoding.EncodeToString([]byte(ph)) + "." + v6b64(sig))})
	ms = append(ms, mut{"two-segments", []byte(si)})
	ms = append(ms, mut{"ws-around", []byte(" " + full + "\n")})
	ms = append(ms, mut{"std-b64-hdr", []byte(base64.StdEncoding.EncodeToString([]byte(hdr)) + "." + pl + "." + v6b64(sig))})
	ms = append(ms, mut{"sig-empty", []byte(si + ".")})
	ms = append(ms, mut{"sig-garbage", []byte(si + ".!!!!")})
	ms = append(ms, mut{"hdr-not-json", []byte(v6b64([]byte("hello")) + "." + pl + "." + v6b64(sig))})
	ms = append(ms, mut{"hdr-array", []byte(v6b64([]byte("[1]")) + "." + pl + "." + v6b64(sig))})
	ms = append(ms, mut{"hdr-empty-obj", []byte(v6b64([]byte("{}")) + "." + pl + "." + v6b64(sig))})
	ms = append(ms, mut{"empty", []byte("")})
	// random double mutations
	for i := 0; i < 40; i++ {
		ps := base
		note := "double"
		for j := 0; j < 2; j++ {
			nme := names[g.rnd.Intn(10)]
			if g.rnd.Intn(4) == 0 {
				ps = v6Remove(ps, nme)
				note += ":remove:" + nme
			} else {
				kv := v6Kinds[g.rnd.Intn(len(v6Kinds))]
				ps = v6Replace(ps, nme, kv)
				note += ":" + nme + "=" + kv
			}
		}
		addH(note, ps, ph)
	}
	if budget > 0 && len(ms) > budget {
		// keep the first (valid) and a random sample of the rest
		g.rnd.Shuffle(len(ms)-1, func(i, j int) { ms[i+1], ms[j+1] = ms[j+1], ms[i+1] })
		ms = ms[:budget]
	}
	for _, m := range ms {
		c := v6CallOf(m.in)
		c.Note = m.note
		g.emit(v6Op{Op: "parse", Call: &c})
	}
}

// ---- histories

type v6Tx struct {
	ref   string
	clock int
	prevs []string
	input []byte
	pid   int
	ph    string
	key   int    // signer
	did   string // DID this tx "creates/updates" (resolver entry keyed by its ref), "" if none
	call  v6Call
	si    string
	sig   []byte
}

type v6Spec struct {
	prevs    []string
	lc       string
	signer   int
	embed    int // key index embedded as jwk, -1 = use kid
	kid      string
	pid      int
	ph       string // payload hash text placed in the JWS payload
	pal      []string
	tamper   bool
	alg      string
	twoSigs  bool
	embedPriv bool // embed the signer's PRIVATE key as jwk
	flat     bool // JWS flattened JSON serialisation instead of compact
	curve    string // "" = the P-256 key `signer`; "P-384"/"P-521"/"P-256" = a fresh embedded key of that curve, signed per header alg
	kidCurve bool // kid-referenced key: signed per header alg (digest by alg, r||s of the key's size) with the signer's key, or
	xsigner  bool // ... with the history's P-384 key (index len(keys)) when xsigner
	extraSeg bool // a fourth compact segment appended
	framing  int  // 1 = signature segment padded, 2 = signature in the standard alphabet, 3 = trailing newline
	ver      int  // 0 = 2
}

func v6Sha(b []byte) string { h := sha256.Sum256(b); return v6Hex(h[:]) }

func (g *v6Gen) build(sp v6Spec) ([]byte, v6Call) {
	var key *v6Key
	if sp.embed >= 0 {
		key = g.keys[sp.embed]
	}
	ver := sp.ver
	if ver == 0 {
		ver = 2
	}
	ps := v6BaseHdr(key, map[bool]string{true: "", false: sp.kid}[sp.embed >= 0], "application/did+json", sp.lc, sp.prevs, 1700000000, ver, sp.pal)
	if sp.embed < 0 && sp.kid == "" {
		ps = v6Remove(ps, "kid")
	}
	if sp.alg != "" {
		ps = v6Replace(ps, "alg", v6Str(sp.alg))
	}
	if sp.embedPriv && sp.embed >= 0 {
		ps = v6Replace(ps, "jwk", g.keys[sp.embed].jwkD)
	}
	var curveKey *ecdsa.PrivateKey
	if sp.curve != "" && sp.embed >= 0 {
		c := map[string]elliptic.Curve{"P-256": elliptic.P256(), "P-384": elliptic.P384(), "P-521": elliptic.P521()}[sp.curve]
		curveKey, _ = ecdsa.GenerateKey(c, crand.Reader)
		ps = v6Replace(ps, "jwk", v6JwkOf(&curveKey.PublicKey))
	}
	hdr := v6HdrJSON(ps)
	si, sig := v6Sign(g.keys[sp.signer], hdr, sp.ph)
	if curveKey != nil {
		a := sp.alg
		if a == "" {
			a = "ES256"
		}
		si, sig = v6SignCurve(curveKey, a, hdr, sp.ph)
	}
	if sp.kidCurve && sp.embed < 0 && curveKey == nil {
		a := sp.alg
		if a == "" {
			a = "ES256"
		}
		k := g.keys[sp.signer].priv
		if sp.xsigner && g.xkey != nil {
			k = g.xkey.priv
		}
		si, sig = v6SignCurve(k, a, hdr, sp.ph)
	}
	if sp.tamper {
		sig[10] ^= 0x40
	}
	input := []byte(si + "." + v6b64(sig))
	if sp.twoSigs {
		parts := strings.Split(si, ".")
		input = []byte(fmt.Sprintf(`{"payload":"%s","signatures":[{"protected":"%s","signature":"%s"},{"protected":"%s","signature":"%s"}]}`, parts[1], parts[0], v6b64(sig), parts[0], v6b64(sig)))
	}
	if sp.flat {
		parts := strings.Split(si, ".")
		input = []byte(fmt.Sprintf(`{"payload":"%s","protected":"%s","signature":"%s"}`, parts[1], parts[0], v6b64(sig)))
	}
	if sp.extraSeg && !sp.flat && !sp.twoSigs {
		input = append(input, []byte(".AAAA")...)
	}
	if sp.framing > 0 && !sp.flat && !sp.twoSigs && !sp.extraSeg {
		switch sp.framing {
		case 1:
			input = []byte(si + "." + base64.URLEncoding.EncodeToString(sig))
		case 2:
			input = []byte(si + "." + base64.RawStdEncoding.EncodeToString(sig))
		case 3:
			input = append(input, '\n')
		}
	}
	g.lastSi, g.lastSig = si, sig
	c := v6CallOf(input)
	// verdicts: ECDSA verification done here with crypto/ecdsa (independent of jws.Verify), cross-checked with what was signed
	v6SetVerdicts(&c, input, g.allKeys())
	if !sp.twoSigs && !sp.extraSeg && sp.framing == 0 && c.Jws["framing"] != "bad" && sp.curve == "" && !sp.kidCurve {
		algOK := sp.alg == "" || sp.alg == "ES256"
		valid := !sp.tamper && algOK
		if c.SigJwk != (valid && sp.embed == sp.signer) || (len(c.SigKeys) > 0) != valid {
			panic(fmt.Sprintf("verif: verdict by verification (%v %v) and verdict by construction (valid=%v embed=%d signer=%d) disagree: %+v", c.SigJwk, c.SigKeys, valid, sp.embed, sp.signer, sp))
		}
	}
	if sp.embed < 0 {
		if u, err := did.ParseDIDURL(sp.kid); err == nil {
			d := u.DID.String()
			c.KidDid = &d
		}
	}
	return input, c
}

func (g *v6Gen) history(steps int, schedules bool) {
	// fresh key set per history
	g.keys = nil
	var keyHex []string
	for i := 0; i < 4; i++ {
		k := v6NewKey()
		g.keys = append(g.keys, k)
		keyHex = append(keyHex, k.hex)
	}
	g.xkey = v6NewKeyOn([]string{"P-384", "P-384", "P-521"}[g.rnd.Intn(3)])
	keyHex = append(keyHex, g.xkey.hex)
	subs := []v6Sub{
		{Name: "gossip", WantTx: true, Outcome: "finished"},
		{Name: "nats", Persistent: true, WantPayload: true, Outcome: "finished"},
		{Name: "private", Persistent: true, WantTx: true, PalOnly: true, Outcome: "fatal"},
	}
	if g.rnd.Intn(2) == 0 {
		subs = append(subs, v6Sub{Name: "all", WantTx: true, WantPayload: true, Outcome: "finished"})
	}
	if g.rnd.Intn(2) == 0 {
		subs = append(subs, v6Sub{Name: "keep", Persistent: true, WantTx: true, Outcome: "fatal"})
	}
	g.emit(v6Op{Op: "new", Subs: subs, Keys: keyHex})
	var dagTxs []v6Tx        // admitted (by the generator's own bookkeeping; used only to aim the generator)
	var pending []v6Call     // rejected for a missing prev: re-offered later
	byRef := map[string]v6Tx{}
	dids := map[string]int{} // did -> key index currently in its document
	newPid := func() int { g.pid++; return g.pid }
	var storedPids []int // payloads that are in the payload store (admitted together with their transaction)

	pickPrevs := func() ([]string, int) {
		if len(dagTxs) == 0 {
			return nil, 0
		}
		n := 1
		if g.rnd.Intn(3) == 0 {
			n = 2 + g.rnd.Intn(2)
		}
		var prevs []string
		hi := -1
		for i := 0; i < n; i++ {
			var t v6Tx
			if g.rnd.Intn(2) == 0 {
				t = dagTxs[len(dagTxs)-1-g.rnd.Intn(min(3, len(dagTxs)))]
			} else {
				t = dagTxs[g.rnd.Intn(len(dagTxs))]
			}
			prevs = append(prevs, t.ref)
			if t.clock > hi {
				hi = t.clock
			}
		}
		return prevs, hi + 1
	}
	validSpec := func() (v6Spec, string) {
		prevs, lc := pickPrevs()
		pid := newPid()
		sp := v6Spec{prevs: prevs, lc: strconv.Itoa(lc), signer: g.rnd.Intn(len(g.keys)), pid: pid, ph: v6Sha(v6Payload(&pid))}
		sp.embed = sp.signer
		didName := ""
		if len(prevs) > 0 && len(dids) > 0 && g.rnd.Intn(3) == 0 {
			// sign with a key a DID document holds as of one of the prevs: make that so by registering the doc for the first prev
			var names []string
			for d := range dids {
				names = append(names, d)
			}
			sort.Strings(names)
			didName = names[g.rnd.Intn(len(names))]
			sp.signer = dids[didName]
			sp.embed = -1
			sp.kid = didName + "#k" + strconv.Itoa(sp.signer)
		}
		if g.rnd.Intn(4) == 0 {
			sp.pal = []string{"QUJD"}
		}
		sp.ver = 1 + g.rnd.Intn(2)
		sp.flat = g.rnd.Intn(8) == 0
		return sp, didName
	}
	offer := func(sp v6Spec, withPayload int, note string) v6Call {
		// withPayload: 0 none, 1 correct bytes for pid, 2 other bytes
		input, c := g.build(sp)
		_ = input
		c.Phs = []string{}
		if _, err := hash.ParseHex(sp.ph); err == nil && len(sp.ph) == 64 {
			c.Phs = append(c.Phs, strings.ToLower(sp.ph))
		}
		switch withPayload {
		case 1:
			p := sp.pid
			c.Pid = &p
		case 2:
			p := newPid()
			c.Pid = &p
		}
		if c.Pid != nil {
			c.Sha = v6Sha(v6Payload(c.Pid))
			c.Phs = append(c.Phs, c.Sha)
		}
		c.Note = note
		return c
	}
	admit := func(sp v6Spec, c v6Call, did string) {
		lc, _ := strconv.Atoi(sp.lc)
		in, _ := base64.StdEncoding.DecodeString(c.In)
		t := v6Tx{ref: c.Jws["ref"].(string), clock: lc, prevs: sp.prevs, input: in, pid: sp.pid, ph: sp.ph, key: sp.signer, did: did, call: c, si: g.lastSi, sig: g.lastSig}
		dagTxs = append(dagTxs, t)
		byRef[t.ref] = t
	}
	docSrc := map[string]map[string]bool{} // did -> refs that are a source transaction of (a version of) its document
	regDoc := func(did string, src string, res string, vms [][2]any) {
		if docSrc[did] == nil {
			docSrc[did] = map[string]bool{}
		}
		docSrc[did][src] = true
		g.emit(v6Op{Op: "doc", Did: did, Src: src, Doc: &v6DocEntry{Res: res, Vms: vms}})
	}

	// on the EMPTY DAG: transactions without prevs but with a non-zero clock arrive before the real root
	for g.rnd.Intn(2) == 0 {
		pid := newPid()
		k := g.rnd.Intn(len(g.keys))
		sp := v6Spec{prevs: nil, lc: strconv.Itoa(1 + g.rnd.Intn(600)), signer: k, embed: k, pid: pid, ph: v6Sha(v6Payload(&pid))}
		c := offer(sp, g.rnd.Intn(2), "fake-root-first(no prevs, lc>0, empty DAG)")
		g.emit(v6Op{Op: "add", Call: &c})
	}
	for step := 0; step < steps; step++ {
		kind := g.rnd.Intn(100)
		if len(dagTxs) == 0 {
			kind = 0
		}
		if len(dagTxs) > 0 && g.rnd.Intn(28) == 0 {
			// rollback window: A's write transaction is rolled back by a store fault AFTER updateState, and a sibling B is
			// submitted between the store's unlock and the reload of the trees; then a restart; then A is offered again
			spA, dA := validSpec()
			spB, dB := validSpec()
			if spA.embed < 0 {
				regDoc(dA, spA.prevs[0], "doc", [][2]any{{spA.kid, spA.signer}})
			}
			if spB.embed < 0 {
				regDoc(dB, spB.prevs[0], "doc", [][2]any{{spB.kid, spB.signer}})
			}
			cA := offer(spA, g.rnd.Intn(2), "rollback-window:A(rolled back)")
			siA, sigA := g.lastSi, g.lastSig
			cB := offer(spB, g.rnd.Intn(2), "rollback-window:B(sibling in the window)")
			line := g.emit(v6Op{Op: "rbwin", Calls: []v6Call{cA, cB}, Note: "rollback-window"})
			if strings.Contains(line, " resB=ok ") {
				admit(spB, cB, "")
			}
			g.emit(v6Op{Op: "reopen"})
			if g.rnd.Intn(2) == 0 {
				cA.Note = "after-rollback-window"
				if strings.HasPrefix(g.emit(v6Op{Op: "add", Call: &cA}), "r=ok") {
					g.lastSi, g.lastSig = siA, sigA // what admit() records for later re-encodings must be A's own signed content
					admit(spA, cA, "")
				}
			}
			continue
		}
		if len(dids) > 0 && g.rnd.Intn(10) == 0 {
			// signed with a key that the signer's CURRENT document lists, but none of the prevs is a source transaction of that
			// document (key added later / on another branch): not resolvable "as of the referenced transactions"
			var names []string
			for d := range dids {
				names = append(names, d)
			}
			sort.Strings(names)
			d := names[g.rnd.Intn(len(names))]
			var cands []v6Tx
			for _, t := range dagTxs {
				if !docSrc[d][t.ref] {
					cands = append(cands, t)
				}
			}
			if len(cands) > 0 {
				var prevs []string
				hi := -1
				for i := 1 + g.rnd.Intn(2); i > 0; i-- {
					t := cands[g.rnd.Intn(len(cands))]
					prevs = append(prevs, t.ref)
					if t.clock > hi {
						hi = t.clock
					}
				}
				pid := newPid()
				sp := v6Spec{prevs: prevs, lc: strconv.Itoa(hi + 1), signer: dids[d], embed: -1, kid: d + "#k" + strconv.Itoa(dids[d]), pid: pid, ph: v6Sha(v6Payload(&pid))}
				c := offer(sp, 1, "kid-key-only-in-current-document")
				if strings.HasPrefix(g.emit(v6Op{Op: "add", Call: &c}), "r=ok") {
					admit(sp, c, "")
				}
				continue
			}
		}
		if len(storedPids) > 0 && g.rnd.Intn(12) == 0 {
			// a valid transaction declaring a payload hash that is ALREADY in the payload store (published by an earlier
			// transaction): offered with other bytes (must be refused), then with the right bytes / without payload (control)
			sp, didName := validSpec()
			if sp.embed < 0 {
				regDoc(didName, sp.prevs[0], "doc", [][2]any{{sp.kid, sp.signer}})
			}
			sp.pid = storedPids[g.rnd.Intn(len(storedPids))]
			sp.ph = v6Sha(v6Payload(&sp.pid))
			c := offer(sp, 2, "shared-payload-hash:wrong-bytes")
			g.emit(v6Op{Op: "add", Call: &c})
			if g.rnd.Intn(3) > 0 {
				c2 := offer(sp, g.rnd.Intn(2), "shared-payload-hash:control")
				if strings.HasPrefix(g.emit(v6Op{Op: "add", Call: &c2}), "r=ok") {
					admit(sp, c2, "")
				}
			}
			continue
		}
		if len(dagTxs) > 0 && g.rnd.Intn(20) == 0 {
			// the caller's context is cancelled inside the write transaction: nothing may stay behind; the same bytes are then admitted normally
			sp, didName := validSpec()
			if sp.embed < 0 {
				regDoc(didName, sp.prevs[0], "doc", [][2]any{{sp.kid, sp.signer}})
			}
			c := offer(sp, g.rnd.Intn(2), "cancelled-in-write-tx")
			g.emit(v6Op{Op: "add", Call: &c, Cancel: true})
			if g.rnd.Intn(2) == 0 {
				c.Note = "after-cancel"
				if strings.HasPrefix(g.emit(v6Op{Op: "add", Call: &c}), "r=ok") {
					admit(sp, c, "")
				}
			}
			if g.rnd.Intn(3) == 0 {
				t := dagTxs[g.rnd.Intn(len(dagTxs))]
				c2 := t.call
				c2.Phs, c2.Pid, c2.Sha, c2.Note = []string{}, nil, "", "cancelled-re-add"
				g.emit(v6Op{Op: "add", Call: &c2, Cancel: true})
			}
			continue
		}
		switch {
		case kind < 40: // valid
			sp, didName := validSpec()
			if sp.embed < 0 {
				regDoc(didName, sp.prevs[g.rnd.Intn(len(sp.prevs))], "doc", [][2]any{{sp.kid, sp.signer}, {didName + "#other", (sp.signer + 1) % len(g.keys)}})
			}
			wp := 1
			if g.rnd.Intn(4) == 0 {
				wp = 0
			}
			c := offer(sp, wp, "valid")
			ok := strings.HasPrefix(g.emit(v6Op{Op: "add", Call: &c}), "r=ok")
			if ok {
				admit(sp, c, "")
				if wp == 1 {
					storedPids = append(storedPids, sp.pid)
				}
			}
			if ok && sp.embed >= 0 && g.rnd.Intn(2) == 0 {
				// this transaction creates/updates a DID whose document holds the signer key
				d := "did:nuts:d" + strconv.Itoa(g.rnd.Intn(3))
				dids[d] = sp.signer
				regDoc(d, c.Jws["ref"].(string), "doc", [][2]any{{d + "#k" + strconv.Itoa(sp.signer), sp.signer}})
			}
		case kind < 50: // re-add of a present transaction (same / no / wrong payload)
			t := dagTxs[g.rnd.Intn(len(dagTxs))]
			c := t.call // same bytes, same verdict data; only the payload argument varies
			c.Phs = []string{}
			c.Pid, c.Sha = nil, ""
			switch g.rnd.Intn(3) {
			case 0:
				p := t.pid
				c.Pid = &p
			case 1:
				p := newPid()
				c.Pid = &p
			}
			if c.Pid != nil {
				c.Sha = v6Sha(v6Payload(c.Pid))
				c.Phs = append(c.Phs, c.Sha)
			}
			c.Note = "re-add"
			g.emit(v6Op{Op: "add", Call: &c})
		case kind < 52: // the same signed content in another serialisation: other bytes, other ref -> another transaction
			t := dagTxs[g.rnd.Intn(len(dagTxs))]
			parts := strings.Split(t.si, ".")
			var input []byte
			if len(t.input) > 0 && t.input[0] == '{' {
				input = []byte(t.si + "." + v6b64(t.sig))
			} else {
				input = []byte(fmt.Sprintf(`{"payload":"%s","protected":"%s","signature":"%s"}`, parts[1], parts[0], v6b64(t.sig)))
			}
			c := v6CallOf(input)
			v6SetVerdicts(&c, input, g.allKeys())
			c.KidDid = t.call.KidDid
			c.Phs = []string{}
			c.Note = "re-encoded-duplicate"
			line := g.emit(v6Op{Op: "add", Call: &c})
			if strings.HasPrefix(line, "r=ok") {
				dagTxs = append(dagTxs, v6Tx{ref: c.Jws["ref"].(string), clock: t.clock, prevs: t.prevs, input: input, pid: t.pid, ph: t.ph, key: t.key, call: c, si: t.si, sig: t.sig})
			}
		case kind < 55: // child offered before its parent, then the parent, then the child again
			spA, _ := validSpec()
			if spA.embed < 0 {
				spA.embed = spA.signer
			}
			_, cA := g.build(spA)
			pa := spA.pid
			cA.Pid, cA.Sha, cA.Phs, cA.Note = &pa, v6Sha(v6Payload(&pa)), []string{spA.ph}, "late-parent"
			siA, sigA := g.lastSi, g.lastSig
			lcA, _ := strconv.Atoi(spA.lc)
			refA := cA.Jws["ref"].(string)
			pidB := newPid()
			spB := v6Spec{prevs: []string{refA}, lc: strconv.Itoa(lcA + 1), signer: spA.signer, embed: spA.signer, pid: pidB, ph: v6Sha(v6Payload(&pidB))}
			_, cB := g.build(spB)
			siB, sigB := g.lastSi, g.lastSig
			cB.Pid, cB.Sha, cB.Phs, cB.Note = &pidB, v6Sha(v6Payload(&pidB)), []string{spB.ph}, "child-before-parent"
			g.emit(v6Op{Op: "add", Call: &cB})
			okA := strings.HasPrefix(g.emit(v6Op{Op: "add", Call: &cA}), "r=ok")
			cB.Note = "child-after-parent"
			okB := strings.HasPrefix(g.emit(v6Op{Op: "add", Call: &cB}), "r=ok")
			if okA {
				g.lastSi, g.lastSig = siA, sigA
				admit(spA, cA, "")
			}
			if okB {
				g.lastSi, g.lastSig = siB, sigB
				admit(spB, cB, "")
			}
		case kind < 58 && len(pending) > 0: // re-offer something rejected earlier
			c := pending[g.rnd.Intn(len(pending))]
			c.Note = "re-offer"
			g.emit(v6Op{Op: "add", Call: &c})
			// (if it got in now, later steps may not build on it: the generator does not track its clock)
		default: // one or two defects
			sp, didName := validSpec()
			if sp.embed < 0 {
				regDoc(didName, sp.prevs[0], "doc", [][2]any{{sp.kid, sp.signer}})
			}
			wp := 1
			note := "defect"
			nd := 1
			if g.rnd.Intn(4) == 0 {
				nd = 2
			}
			lc, _ := strconv.Atoi(sp.lc)
			for j := 0; j < nd; j++ {
				switch d := g.rnd.Intn(28); d {
				case 25, 26, 27:
					// ECDSA algorithm / curve combinations with a fresh embedded key: only ES256+P-256, ES384+P-384, ES512+P-521 are JWS
					combos := [][2]string{{"ES256", "P-384"}, {"ES384", "P-256"}, {"ES256", "P-521"}, {"ES512", "P-384"}, {"ES384", "P-384"}, {"ES512", "P-521"}}
					cb := combos[g.rnd.Intn(len(combos))]
					if len(sp.prevs) > 0 && g.xkey != nil && g.rnd.Intn(2) == 0 {
						// the same through a KEY ID: the key the kid denotes in the signer's DID document (as of the first prev) is
						// on another curve than the header algorithm says — P-256 signer key with ES384/ES512, the document's
						// P-384 key with ES256/ES512 — or fits it (ES384 + P-384: valid, must get in)
						xc := g.xkey.crv() // P-384 or P-521
						kc := [][2]string{{"ES384", "P-256"}, {"ES512", "P-256"}, {"ES256", xc}, {"ES512", xc}, {"ES384", xc}, {"ES256", "P-256"}}[g.rnd.Intn(6)]
						ki := sp.signer
						if kc[1] == xc {
							ki = len(g.keys)
							sp.xsigner = true
						}
						sp.embed, sp.kid, sp.kidCurve, sp.alg = -1, "did:nuts:c#k1", true, kc[0]
						regDoc("did:nuts:c", sp.prevs[0], "doc", [][2]any{{"did:nuts:c#k1", ki}})
						if (kc[0] == "ES384" && kc[1] == "P-384") || (kc[0] == "ES512" && kc[1] == "P-521") || (kc[0] == "ES256" && kc[1] == "P-256") {
							note += ":(valid)kid:" + kc[0] + "+" + kc[1]
						} else {
							note += ":kid-alg-curve-mismatch:" + kc[0] + "+" + kc[1]
						}
						break
					}
					if sp.embed < 0 {
						sp.embed = sp.signer
					}
					sp.alg, sp.curve = cb[0], cb[1]
					if (cb[0] == "ES384" && cb[1] == "P-384") || (cb[0] == "ES512" && cb[1] == "P-521") {
						note += ":(valid)" + cb[0] + "+" + cb[1]
					} else {
						note += ":alg-curve-mismatch:" + cb[0] + "+" + cb[1]
					}
				case 24:
					sp.framing = 1 + g.rnd.Intn(3)
					note += ":lenient-base64-" + strconv.Itoa(sp.framing)
				case 23:
					sp.extraSeg = true
					note += ":extra-segment"
				case 22:
					if sp.embed < 0 {
						sp.embed = sp.signer
					}
					sp.embedPriv = true
					note += ":embedded-private-jwk"
				case 0:
					sp.prevs = append(append([]string{}, sp.prevs...), g.randRef())
					note += ":missing-prev"
				case 1:
					sp.lc = strconv.Itoa(lc + 1)
					note += ":clock+1"
				case 2:
					if lc > 0 {
						sp.lc = strconv.Itoa(lc - 1)
					} else {
						sp.lc = "7"
					}
					note += ":clock-1"
				case 3:
					sp.prevs, sp.lc = nil, "0"
					if sp.embed < 0 {
						sp.embed = sp.signer
					}
					note += ":second-root"
				case 4:
					wp = 2
					note += ":wrong-payload"
				case 5:
					sp.signer = (sp.signer + 1) % len(g.keys)
					note += ":other-signer"
				case 6:
					sp.tamper = true
					note += ":tampered"
				case 7:
					sp.embed, sp.kid = -1, "did:nuts:unknown#k1"
					note += ":kid-unknown-did"
				case 8:
					if len(sp.prevs) > 0 {
						sp.embed, sp.kid = -1, "did:nuts:e#k1"
						regDoc("did:nuts:e", sp.prevs[0], []string{"err", "wrapped"}[g.rnd.Intn(2)], nil)
						note += ":resolver-error"
					}
				case 9:
					if len(sp.prevs) > 0 {
						sp.embed, sp.kid = -1, "did:nuts:m#k9"
						regDoc("did:nuts:m", sp.prevs[len(sp.prevs)-1], "doc", [][2]any{{"did:nuts:m#k1", sp.signer}})
						note += ":key-not-in-doc"
					}
				case 10:
					if len(sp.prevs) > 0 {
						sp.embed, sp.kid = -1, "did:nuts:w#k1"
						regDoc("did:nuts:w", sp.prevs[0], "doc", [][2]any{{"did:nuts:w#k1", (sp.signer + 1) % len(g.keys)}})
						note += ":doc-has-other-key"
					}
				case 11:
					sp.embed, sp.kid = -1, "not a did url"
					note += ":kid-invalid"
				case 12:
					sp.alg = "ES384"
					note += ":alg-es384"
				case 13:
					if !strings.Contains(sp.lc, ".") {
						sp.lc = sp.lc + ".5"
					}
					note += ":lc-fraction"
				case 14:
					sp.lc = strconv.FormatInt(int64(lc)+4294967296, 10)
					note += ":lc-wrap"
				case 15:
					sp.twoSigs = true
					note += ":two-sigs"
				case 16:
					sp.prevs = append(append([]string{}, sp.prevs...), "")
					note += ":empty-prev"
				case 17:
					if len(sp.prevs) > 0 {
						sp.prevs = append(append([]string{}, sp.prevs...), sp.prevs[0])
						note += ":dup-prev(valid)"
					}
				case 18:
					sp.prevs, sp.lc = nil, strconv.Itoa(1+g.rnd.Intn(3))
					if sp.embed < 0 {
						sp.embed = sp.signer
					}
					note += ":no-prevs-clock>0"
				case 19:
					sp.lc = "0"
					note += ":clock0-with-prevs"
				case 20:
					sp.ph = ""
					note += ":empty-payload-hash"
				case 21:
					sp.flat = !sp.flat
					note += ":(valid)other-serialisation"
				}
			}
			c := offer(sp, wp, note)
			line := g.emit(v6Op{Op: "add", Call: &c})
			if strings.Contains(line, "r=err:prev-missing") {
				pending = append(pending, c)
			}
			// bookkeeping by what the implementation did (aims later steps; the model decides what is expected)
			if strings.HasPrefix(line, "r=ok") {
				if _, err := strconv.Atoi(sp.lc); err == nil {
					admit(sp, c, "")
				}
			}
		}
		if step%7 == 6 {
			g.emit(v6Op{Op: "reopen"})
		}
		if step%5 == 4 || step == steps-1 {
			g.shelfOp(len(dagTxs))
		}
	}
	if schedules {
		g.schedules(dagTxs, newPid)
	}
}

func v6Interleavings(n int) [][]int {
	var res [][]int
	left := make([]int, n)
	for i := range left {
		left[i] = 2
	}
	var rec func(cur []int)
	rec = func(cur []int) {
		if len(cur) == 2*n {
			res = append(res, append([]int{}, cur...))
			return
		}
		for t := 0; t < n; t++ {
			if left[t] > 0 {
				left[t]--
				rec(append(cur, t))
				left[t]++
			}
		}
	}
	rec(nil)
	return res
}

// schedule scenarios on top of the current history: every scenario is run under EVERY interleaving on a fresh copy of the prefix
func (g *v6Gen) schedules(dagTxs []v6Tx, newPid func() int) {
	// handled by genSchedules (fresh nodes per schedule); kept for histories that end with a concurrent burst
	if len(dagTxs) == 0 {
		return
	}
	parent := dagTxs[len(dagTxs)-1]
	mk := func(prevs []string, lc int, signer int) (v6Spec, v6Call) {
		pid := newPid()
		sp := v6Spec{prevs: prevs, lc: strconv.Itoa(lc), signer: signer, embed: signer, pid: pid, ph: v6Sha(v6Payload(&pid))}
		_, c := g.build(sp)
		p := pid
		c.Pid = &p
		c.Sha = v6Sha(v6Payload(&p))
		c.Phs = []string{c.Sha}
		return sp, c
	}
	_, a := mk([]string{parent.ref}, parent.clock+1, 0)
	_, b := mk([]string{parent.ref}, parent.clock+1, 1)
	ils := v6Interleavings(2)
	il := ils[g.rnd.Intn(len(ils))]
	g.emit(v6Op{Op: "sched", Calls: []v6Call{a, b}, Sched: il, Note: "burst:siblings"})
	il = ils[g.rnd.Intn(len(ils))]
	g.emit(v6Op{Op: "sched", Calls: []v6Call{a, a}, Sched: il, Note: "burst:re-add-both-present"})
}

// schedule scenarios, each under all interleavings, each on a fresh node with a short prefix
func (g *v6Gen) genSchedules(threads int, scenarios int) {
	ils := v6Interleavings(threads)
	for sc := 0; sc < scenarios; sc++ {
		g.keys, g.xkey = nil, nil
		var keyHex []string
		for i := 0; i < 3; i++ {
			k := v6NewKey()
			g.keys = append(g.keys, k)
			keyHex = append(keyHex, k.hex)
		}
		subs := []v6Sub{
			{Name: "gossip", WantTx: true, Outcome: "finished"},
			{Name: "nats", Persistent: true, WantPayload: true, Outcome: "finished"},
			{Name: "keep", Persistent: true, WantTx: true, Outcome: "fatal"},
		}
		mk := func(prevs []string, lc int, signer int, wp int) (v6Call, string) {
			g.pid++
			pid := g.pid
			sp := v6Spec{prevs: prevs, lc: strconv.Itoa(lc), signer: signer, embed: signer, pid: pid, ph: v6Sha(v6Payload(&pid))}
			_, c := g.build(sp)
			c.Phs = []string{sp.ph}
			switch wp {
			case 1:
				p := pid
				c.Pid = &p
			case 2:
				g.pid++
				p := g.pid
				c.Pid = &p
			}
			if c.Pid != nil {
				c.Sha = v6Sha(v6Payload(c.Pid))
				c.Phs = append(c.Phs, c.Sha)
			}
			return c, c.Jws["ref"].(string)
		}
		plen := g.rnd.Intn(3) // prefix chain length (0 = empty DAG: roots compete)
		var prefix []v6Call
		last, lastLc := "", -1
		for i := 0; i < plen; i++ {
			var prevs []string
			if last != "" {
				prevs = []string{last}
			}
			c, r := mk(prevs, lastLc+1, 0, 1)
			prefix = append(prefix, c)
			last, lastLc = r, lastLc+1
		}
		var prevs []string
		if last != "" {
			prevs = []string{last}
		}
		var calls []v6Call
		note := ""
		kind := sc % 9
		if kind == 8 {
			plen, prefix, last, lastLc, prevs = 0, nil, "", -1, nil
		}
		switch kind {
		case 8: // empty DAG: a prev-less transaction with a non-zero clock races the real root
			c, _ := mk(nil, 3+g.rnd.Intn(5), 0, 1)
			d, _ := mk(nil, 0, 1, 1)
			calls = []v6Call{c, d}
			if threads > 2 {
				e, _ := mk(nil, 1, 2, 0)
				calls = append(calls, e)
			}
			note = "fake-root-vs-root"
		case 0: // the same transaction from every thread
			c, _ := mk(prevs, lastLc+1, 0, 1)
			for t := 0; t < threads; t++ {
				calls = append(calls, c)
			}
			note = "same-tx"
		case 1: // same tx: one with payload, one without, one with wrong payload
			c, _ := mk(prevs, lastLc+1, 0, 1)
			for t := 0; t < threads; t++ {
				d := c
				switch t % 3 {
				case 1:
					d.Pid, d.Sha = nil, ""
				case 2:
					g.pid++
					p := g.pid
					d.Pid = &p
					d.Sha = v6Sha(v6Payload(&p))
					d.Phs = append(append([]string{}, d.Phs...), d.Sha)
				}
				calls = append(calls, d)
			}
			note = "same-tx-different-payload-args"
		case 2: // siblings (if the DAG is empty: competing roots)
			for t := 0; t < threads; t++ {
				c, _ := mk(prevs, lastLc+1, t%len(g.keys), 1)
				calls = append(calls, c)
			}
			note = "siblings"
		case 3: // parent and child (and grandchild)
			p, l := prevs, lastLc
			for t := 0; t < threads; t++ {
				c, r := mk(p, l+1, 0, 1)
				calls = append(calls, c)
				p, l = []string{r}, l+1
			}
			// offer the child first
			for i, j := 0, len(calls)-1; i < j; i, j = i+1, j-1 {
				calls[i], calls[j] = calls[j], calls[i]
			}
			note = "child-before-parent"
		case 4: // sibling + duplicate of it + bad clock
			c, _ := mk(prevs, lastLc+1, 0, 1)
			bad, _ := mk(prevs, lastLc+2, 1, 1)
			calls = []v6Call{c, bad}
			if threads > 2 {
				calls = append(calls, c)
			}
			note = "valid+bad-clock+dup"
		case 5: // sibling with wrong payload + valid sibling
			c, _ := mk(prevs, lastLc+1, 0, 2)
			d, _ := mk(prevs, lastLc+1, 1, 1)
			calls = []v6Call{c, d}
			if threads > 2 {
				e := c
				calls = append(calls, e)
			}
			note = "wrong-payload+valid"
		case 6: // two roots + child of the prefix (forces root-exists in phase 2 when the DAG is empty)
			c, _ := mk(nil, 0, 0, 1)
			d, _ := mk(nil, 0, 1, 1)
			calls = []v6Call{c, d}
			if threads > 2 {
				e, _ := mk(prevs, lastLc+1, 2, 1)
				calls = append(calls, e)
			}
			note = "two-roots"
		case 7: // merge transaction referring to a sibling offered concurrently
			c, r := mk(prevs, lastLc+1, 0, 1)
			var mp []string
			mp = append(mp, prevs...)
			mp = append(mp, r)
			d, _ := mk(mp, lastLc+2, 1, 0)
			calls = []v6Call{d, c}
			if threads > 2 {
				calls = append(calls, d)
			}
			note = "merge-of-concurrent"
		}
		for _, il := range ils {
			g.emit(v6Op{Op: "new", Subs: subs, Keys: keyHex})
			for i := range prefix {
				c := prefix[i]
				g.emit(v6Op{Op: "add", Call: &c})
			}
			g.emit(v6Op{Op: "sched", Calls: calls, Sched: il, Note: note, Obs: true})
		}
	}
}


// ---------------------------------------------------------------- exported facade for the legs in other packages

type VerifC06Call = v6Call
type VerifC06Op = v6Op

type VerifC06Builder struct{ g *v6Gen }

func NewVerifC06Builder(seed int64, nKeys int) *VerifC06Builder {
	g := &v6Gen{rnd: rand.New(rand.NewSource(seed))}
	for i := 0; i < nKeys; i++ {
		g.keys = append(g.keys, v6NewKey())
	}
	return &VerifC06Builder{g: g}
}

func (b *VerifC06Builder) Rnd() *rand.Rand { return b.g.rnd }
func (b *VerifC06Builder) NewPid() int     { b.g.pid++; return b.g.pid }
func (b *VerifC06Builder) KeysHex() []string {
	var l []string
	for _, k := range b.g.keys {
		l = append(l, k.hex)
	}
	return l
}

// Tx builds a transaction with an embedded key. withPayload: 0 none, 1 the bytes for pid, 2 other bytes.
func (b *VerifC06Builder) Tx(prevs []string, lc string, signer int, pal bool, pid int, withPayload int, tamper bool, otherSigner bool, note string) VerifC06Call {
	sp := v6Spec{prevs: prevs, lc: lc, signer: signer, embed: signer, pid: pid, ph: v6Sha(v6Payload(&pid)), tamper: tamper}
	if otherSigner {
		sp.signer = (signer + 1) % len(b.g.keys)
	}
	if pal {
		sp.pal = []string{"QUJD"}
	}
	_, c := b.g.build(sp)
	c.Phs = []string{sp.ph}
	switch withPayload {
	case 1:
		p := pid
		c.Pid = &p
	case 2:
		p := b.NewPid()
		c.Pid = &p
	}
	if c.Pid != nil {
		c.Sha = v6Sha(v6Payload(c.Pid))
		c.Phs = append(c.Phs, c.Sha)
	}
	c.Note = note
	return c
}

// TxKid builds a transaction signed by key `signer` that names its key by `kid` (no embedded key)
func (b *VerifC06Builder) TxKid(prevs []string, lc string, signer int, kid string, pid int, note string) VerifC06Call {
	sp := v6Spec{prevs: prevs, lc: lc, signer: signer, embed: -1, kid: kid, pid: pid, ph: v6Sha(v6Payload(&pid))}
	_, c := b.g.build(sp)
	p := pid
	c.Pid = &p
	c.Sha = v6Sha(v6Payload(&p))
	c.Phs = []string{sp.ph}
	c.Note = note
	return c
}

// PublicKey of builder key i (for DID documents in a real DID store)
func (b *VerifC06Builder) PublicKey(i int) crypto.PublicKey { return &b.g.keys[i].priv.PublicKey }

// CallOf describes arbitrary bytes (e.g. a transaction made by the real CreateTransaction); verdicts by ECDSA verification
func (b *VerifC06Builder) CallOf(input []byte) VerifC06Call {
	c := v6CallOf(input)
	v6SetVerdicts(&c, input, b.g.allKeys())
	c.Phs = []string{}
	return c
}

func VerifC06Payload(pid *int) []byte         { return v6Payload(pid) }
func VerifC06Sha(b []byte) string              { return v6Sha(b) }
func VerifC06AddClass(err error) string        { return v6AddClass(err) }
func VerifC06ParseClass(err error) string      { return v6ParseClass(err) }
func VerifC06Input(c VerifC06Call) []byte      { in, _ := base64.StdEncoding.DecodeString(c.In); return in }

// VerifC06Watch is the per-op watchdog of the legs in other packages: call the returned func when the op returned.
// After v6OpLimit it prints the op in progress and ends the process with exit code 97 (reported as a hang by the check).
func VerifC06Watch(desc string) func() {
	done := make(chan struct{})
	go func() {
		select {
		case <-done:
		case <-time.After(v6OpLimit):
			v6Hang("op did not return within " + v6OpLimit.String() + ": " + desc)
		}
	}()
	return func() { close(done) }
}

// VerifC06DropNotifiers removes the subscribers a wired Network registered (their receivers need running engines: NATS);
// the legs in other packages look at admission, not at event publication
func VerifC06DropNotifiers(s State) {
	st := s.(*state)
	st.notifiers.Range(func(k, _ any) bool { st.notifiers.Delete(k); return true })
}

// VerifC06Observe: the shared part of the observation for a State created elsewhere (refs / payload hashes as hex)
func VerifC06Observe(s State, refs []string, phs []string) string {
	var rs, ps []hash.SHA256Hash
	for _, r := range refs {
		h, _ := hash.ParseHex(r)
		rs = append(rs, h)
	}
	for _, p := range phs {
		h, _ := hash.ParseHex(p)
		ps = append(ps, h)
	}
	return v6ObserveCore(s.(*state), rs, ps)
}
