//go:build verif

package dag

// C08 deepening round 3: forced schedules "a whole Add between the read transaction and the write transaction of another
// Add" (state.Add verifies in a read transaction and stores in a later write transaction: the verdict is computed on an
// older state than the one the write function works on). Model side: NutsModel/C08/Phases.lean (Conc.enter / finish).

import (
	"context"
)

// the inner call of a `between` op
func (op *vc08Op) inner() *vc08Op {
	return &vc08Op{Op: "add", I: op.I2, Pi: op.Pi2, Clk: op.Clk2, Payload: "nil", Fail: "none"}
}

// between: outer = (I, Pi, Clk, Payload), inner = (I2, Pi2, Clk2, no payload). The inner call runs completely after the
// outer call's read transaction (presence check + verifiers) and before its write transaction.
func (r *vc08Run) doBetween(op *vc08Op) string {
	in := op.inner()
	k := r.tx(op)
	r.tx(in)
	var payload []byte
	switch op.Payload {
	case "ok":
		payload = vc08Payload(op.I)
	case "bad":
		payload = []byte("not the payload")
	}
	ctx, cancel := context.WithCancel(context.Background())
	defer cancel()
	innerRes := "not-run"
	fail := op.Fail
	if fail == "" {
		fail = "none"
	}
	call := &vc08Call{id: 0, fail: fail, cancel: cancel} // the OUTER call's write transaction may be made to fail at commit
	call.afterRead = func() { innerRes = r.doAdd(in, 1) }
	ctx = context.WithValue(ctx, vc08CallKey{}, call)
	outer := vc08ErrClass(r.st.Add(ctx, k.tx, payload))
	r.fillTx(op)
	r.fillTx(in)
	op.Tx2 = in.Tx
	r.stats["add:"+innerRes]++
	r.stats["add:"+outer]++
	r.stats["between:"+innerRes+"/"+outer]++
	return "between " + innerRes + "/" + outer
}

func (g *vc08Gen) between(label string) {
	g.ops = append(g.ops, &vc08Op{Op: "new", Hist: label})
	g.clock = map[int]uint32{}
	g.added, g.top, g.maxClock, g.nextI = nil, nil, 0, 0
	mk := func(outer, inner *vc08Op, payload string) *vc08Op {
		o := *outer
		o.Op, o.Payload = "between", payload
		o.I2, o.Pi2, o.Clk2 = inner.I, inner.Pi, inner.Clk
		return &o
	}
	// two roots, both verified before either is stored: the second write function must refuse (root exists), roll back
	// and reload; the loser offered again is refused again
	a, b := g.newTx(nil, 0), g.newTx(nil, 0)
	g.ops = append(g.ops, mk(a, b, "nil"))
	g.commit(b)
	g.ops = append(g.ops, a)
	n := 5 + g.rng.Intn(16)
	for k := 0; k < n; k++ {
		switch g.rng.Intn(9) {
		case 0:
			op := g.valid(2)
			g.ops = append(g.ops, op)
			g.commit(op)
		case 1: // the child is verified before its parent is stored: refused by its read transaction; retried afterwards
			x := g.valid(2)
			child := g.newTx([]int{x.I}, x.Clk+1)
			g.ops = append(g.ops, mk(child, x, "nil"))
			g.commit(x)
			g.ops = append(g.ops, child)
			g.commit(child)
		case 2: // siblings (same prevs, same clock); the outer one possibly with a payload (matching or not)
			x := g.valid(2)
			y := g.newTx(x.Pi, x.Clk)
			pm := []string{"nil", "ok", "bad"}[g.rng.Intn(3)]
			g.ops = append(g.ops, mk(x, y, pm))
			g.commit(y)
			if pm != "bad" {
				g.commit(x)
			}
		case 3: // the same transaction from two callers: the loser finds it present inside its write transaction
			x := g.valid(2)
			g.ops = append(g.ops, mk(x, x, []string{"nil", "ok", "bad"}[g.rng.Intn(3)]))
			g.commit(x)
		case 4: // the outer call ends in its read transaction (already stored); the inner call is new
			i := g.added[g.rng.Intn(len(g.added))]
			old := &vc08Op{Op: "add", I: i, Clk: g.clock[i], Payload: "nil", Fail: "none"}
			y := g.valid(2)
			g.ops = append(g.ops, mk(old, y, "nil"))
			g.commit(y)
		case 5: // the inner call is refused (clock does not follow from its prevs), the outer one is fine
			x := g.valid(2)
			bad := g.newTx(x.Pi, x.Clk+2)
			g.ops = append(g.ops, mk(x, bad, "nil"))
			g.commit(x)
		case 7: // the loser of the race fails to commit its EMPTY write transaction: rollback handler reloads, nothing may change
			x := g.valid(2)
			o := mk(x, x, []string{"nil", "ok"}[g.rng.Intn(2)])
			o.Fail = []string{"fn", "ctx"}[g.rng.Intn(2)]
			g.ops = append(g.ops, o)
			g.commit(x)
		case 8: // siblings, the outer call's write transaction (working on the state the inner call left) fails at commit
			x := g.valid(2)
			y := g.newTx(x.Pi, x.Clk)
			o := mk(x, y, []string{"nil", "ok"}[g.rng.Intn(2)])
			o.Fail = []string{"fn", "ctx"}[g.rng.Intn(2)]
			g.ops = append(g.ops, o)
			g.commit(y)
			g.ops = append(g.ops, x) // offered again: stored
			g.commit(x)
		case 6: // the outer call extends the chain by one on top of what the inner call is about to store next to it
			x := g.valid(1)
			y := g.newTx(x.Pi, x.Clk)
			z := g.newTx([]int{x.I}, x.Clk+1)
			g.ops = append(g.ops, x)
			g.commit(x)
			g.ops = append(g.ops, mk(z, y, "nil"))
			g.commit(y)
			g.commit(z)
		}
	}
	g.ops = append(g.ops, &vc08Op{Op: "restart", fullObs: true})
}

// a short single-page history; the persisted XOR leaf is overwritten and loaded by a restart; the repair finds it but its
// write transaction does not commit: the in-memory digests must be right from then on (reference fold not suspended),
// the store still holds the damaged leaf, so a restart brings it back — unless an Add on that page rewrote the leaf;
// a committing repair finally heals the store.
func (g *vc08Gen) repairFault(label string) {
	g.ops = append(g.ops, &vc08Op{Op: "new", Hist: label})
	g.clock = map[int]uint32{}
	g.added, g.top, g.maxClock, g.nextI = nil, nil, 0, 0
	n := 1 + g.rng.Intn(30)
	for k := 0; k < n; k++ {
		op := g.valid(1 + g.rng.Intn(3))
		g.ops = append(g.ops, op)
		g.commit(op)
	}
	corrupt := func() {
		g.ops = append(g.ops, &vc08Op{Op: "corruptDisk", Key: PageSize / 2, Val: vc08RandHex(g.rng)},
			&vc08Op{Op: "restart", Sus: true, fullObs: true},
			&vc08Op{Op: "signal", Sus: true}, &vc08Op{Op: "signal", Sus: true})
	}
	corrupt()
	g.ops = append(g.ops, &vc08Op{Op: "checkFail", fullObs: true}, &vc08Op{Op: "raw", Clock: 0, Quiet: true}, &vc08Op{Op: "check"})
	switch g.rng.Intn(3) {
	case 0: // restart: the damaged leaf is back; this time the repair commits
		g.ops = append(g.ops, &vc08Op{Op: "restart", Sus: true, fullObs: true},
			&vc08Op{Op: "signal", Sus: true}, &vc08Op{Op: "signal", Sus: true},
			&vc08Op{Op: "check", fullObs: true}, &vc08Op{Op: "signalOK"}, &vc08Op{Op: "restart", fullObs: true})
	case 1: // an Add on the page rewrites the (repaired in memory) leaf: healthy after a restart without another repair
		op := g.valid(1)
		g.ops = append(g.ops, op)
		g.commit(op)
		g.ops = append(g.ops, &vc08Op{Op: "restart", fullObs: true})
	case 2: // a rolled-back Add reloads the trees from the store: the damaged leaf is back in memory without a restart
		op := g.valid(1)
		f := *op
		f.Fail = "fn"
		f.Sus = true
		g.ops = append(g.ops, &f, &vc08Op{Op: "check", fullObs: true}, &vc08Op{Op: "raw", Clock: 0, Quiet: true},
			&vc08Op{Op: "signalOK"}, &vc08Op{Op: "restart", fullObs: true})
	}
}
