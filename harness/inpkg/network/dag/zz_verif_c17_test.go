//go:build verif

package dag

// C17 harness (deepening round) on the BYTES of a DAG transaction, in-package so that the unexported framing test is reached:
//   b64       encoding/base64 RawURLEncoding.DecodeString + re-encode-and-compare on one segment   vs model decode / canonical
//   framing   the REAL isJWSSerialization(input) on arbitrary byte strings                           vs model isJWSSerialization
//   framingtx the REAL ParseTransaction on re-encodings of valid signed transactions (kid and jwk form): which of its first
//             two exits is taken (jws.Parse's verdict is data)                                        vs model parseTxFraming
//   sigalg    the REAL crypto.SignatureAlgorithm on every key kind                                    vs model signatureAlgorithm
// Injected with `go test -overlay`; nothing is written into /repo.

import (
	"bufio"
	"crypto/ecdsa"
	"crypto/ed25519"
	"crypto/elliptic"
	crand "crypto/rand"
	"crypto/rsa"
	"encoding/base64"
	"encoding/hex"
	"encoding/json"
	"fmt"
	"math/rand"
	"os"
	"path/filepath"
	"strconv"
	"strings"
	"testing"

	"github.com/lestrrat-go/jwx/v2/jwk"
	"github.com/lestrrat-go/jwx/v2/jws"
	nutsCrypto "github.com/nuts-foundation/nuts-node/crypto"
)

type vC17Out struct {
	ops, impl *bufio.Writer
	only      map[string]bool
	n         int
}

func (o *vC17Out) want(op, name string) bool { return len(o.only) == 0 || o.only[op+"|"+name] }

func (o *vC17Out) emit(op map[string]interface{}, res string) {
	b, _ := json.Marshal(op)
	o.ops.Write(b)
	o.ops.WriteByte('\n')
	o.impl.WriteString(res + "\n")
	o.n++
}

func vC17Recover(f func() string) (res string) {
	defer func() {
		if r := recover(); r != nil {
			res = "panic"
		}
	}()
	return f()
}

// spellings of one base64url segment that decode (or nearly decode) to the same bytes
func vC17SegVariants(rnd *rand.Rand, content []byte) map[string]string {
	enc := base64.RawURLEncoding.EncodeToString(content)
	v := map[string]string{"canonical": enc}
	v["padded"] = base64.URLEncoding.EncodeToString(content)
	v["pad1"] = enc + "="
	v["pad4"] = enc + "===="
	v["std-alphabet"] = base64.RawStdEncoding.EncodeToString(content)
	if len(enc) > 0 {
		i := rnd.Intn(len(enc) + 1)
		v["lf-inside"] = enc[:i] + "\n" + enc[i:]
		v["cr-inside"] = enc[:i] + "\r" + enc[i:]
		v["crlf-end"] = enc + "\r\n"
		v["space-inside"] = enc[:i] + " " + enc[i:]
		v["tab-end"] = enc + "\t"
		v["nul-inside"] = enc[:i] + "\x00" + enc[i:]
		v["high-byte"] = enc[:i] + "\xc3\xa9" + enc[i:]
		v["extra-char"] = enc + "A"
		v["extra-2"] = enc + "AA"
		v["dropped-char"] = enc[:len(enc)-1]
		if len(content)%3 != 0 { // unused trailing bits: another last character decodes to the same bytes
			const alpha = "ABCDEFGHIJKLMNOPQRSTUVWXYZabcdefghijklmnopqrstuvwxyz0123456789-_"
			last := strings.IndexByte(alpha, enc[len(enc)-1])
			v["trailing-bits"] = enc[:len(enc)-1] + string(alpha[last+1+rnd.Intn(map[int]int{1: 15, 2: 3}[len(content)%3])])
		}
		v["upper"] = strings.ToUpper(enc)
	} else {
		v["only-lf"] = "\n"
		v["only-pad"] = "="
		v["one-char"] = "A"
	}
	return v
}

func TestVerifC17Dag(t *testing.T) {
	outDir := os.Getenv("VERIF_OUT")
	if outDir == "" {
		t.Skip("VERIF_OUT not set")
	}
	only := map[string]bool{}
	if p := os.Getenv("VERIF_REPLAY"); p != "" {
		b, _ := os.ReadFile(p)
		for _, line := range strings.Split(string(b), "\n") {
			var m struct{ Op, Name string }
			if json.Unmarshal([]byte(line), &m) == nil && m.Name != "" {
				only[m.Op+"|"+m.Name] = true
			}
		}
	}
	seed, _ := strconv.ParseInt(os.Getenv("VERIF_SEED"), 10, 64)
	rnd := rand.New(rand.NewSource(seed*7919 + 17))
	opsF, _ := os.Create(filepath.Join(outDir, "ops.jsonl"))
	implF, _ := os.Create(filepath.Join(outDir, "impl.out"))
	out := &vC17Out{ops: bufio.NewWriterSize(opsF, 1<<20), impl: bufio.NewWriterSize(implF, 1<<20), only: only}
	defer func() { out.ops.Flush(); out.impl.Flush(); opsF.Close(); implF.Close() }()
	rounds := 1
	if os.Getenv("VERIF_TIER") == "thorough" {
		rounds = 6
	}
	randBytes := func(n int) []byte {
		b := make([]byte, n)
		rnd.Read(b)
		return b
	}

	// ---------------- b64: one segment
	b64 := func(name, seg string) {
		if !out.want("b64", name) {
			return
		}
		res := vC17Recover(func() string {
			decoded, err := base64.RawURLEncoding.DecodeString(seg)
			if err != nil {
				return "err canonical=false"
			}
			return "ok:" + hex.EncodeToString(decoded) + " canonical=" + strconv.FormatBool(base64.RawURLEncoding.EncodeToString(decoded) == seg)
		})
		out.emit(map[string]interface{}{"op": "b64", "name": name, "hex": hex.EncodeToString([]byte(seg))}, res)
	}
	// ---------------- framing: the real unexported test
	framing := func(name string, input []byte) {
		if !out.want("framing", name) {
			return
		}
		res := vC17Recover(func() string { return strconv.FormatBool(isJWSSerialization(input)) })
		out.emit(map[string]interface{}{"op": "framing", "name": name, "hex": hex.EncodeToString(input)}, res)
	}
	// ---------------- framingtx: the real ParseTransaction
	framingtx := func(name string, input []byte, sameContent bool, original []byte) {
		if !out.want("framingtx", name) {
			return
		}
		_, perr := jws.Parse(input)
		res := vC17Recover(func() string {
			_, err := ParseTransaction(input)
			switch {
			case err == nil:
				return "pass"
			case strings.Contains(err.Error(), "not a JWS compact or JSON serialization"):
				return "err:framing"
			case strings.HasPrefix(err.Error(), "unable to parse transaction"):
				return "err:parse"
			default:
				return "pass" // a later step refused it
			}
		})
		accepted := vC17Recover(func() string { _, err := ParseTransaction(input); return strconv.FormatBool(err == nil) })
		out.emit(map[string]interface{}{"op": "framingtx", "name": name, "hex": hex.EncodeToString(input), "parses": perr == nil,
			"same_content": sameContent, "identical": string(input) == string(original), "accepted": accepted == "true"}, res)
	}

	spaces := map[string]string{"sp": " ", "tab": "\t", "lf": "\n", "vt": "\v", "ff": "\f", "cr": "\r", "nel": "\u0085", "nbsp": "\u00a0", "ogham": "\u1680",
		"enquad": "\u2000", "emquad": "\u2001", "thin": "\u2009", "hair": "\u200a", "linesep": "\u2028", "parasep": "\u2029", "nnbsp": "\u202f", "mmsp": "\u205f", "ideographic": "\u3000",
		"zwsp-not-space": "\u200b", "mongolian-not-space": "\u180e", "bom-not-space": "\ufeff", "u1fff-not-space": "\u1fff", "u200b-1": "\u200c", "invalid-c2": "\xc2", "invalid-e2-80": "\xe2\x80", "lone-85": "\x85", "lone-a0": "\xa0",
		"overlong-space": "\xc0\xa0", "nul": "\x00", "e2-80-8b": "\xe2\x80\x8b", "e2-80-a7": "\xe2\x80\xa7", "e2-81-9e": "\xe2\x81\x9e", "e3-80-81": "\xe3\x80\x81", "c2-84": "\xc2\x84", "c2-a1": "\xc2\xa1"}

	for round := 0; round < rounds; round++ {
		tag := "r" + strconv.Itoa(round) + "-"
		// segments of many lengths (all three remainders mod 3), every spelling
		for _, n := range []int{0, 1, 2, 3, 4, 5, 6, 7, 8, 16, 31, 32, 33, 64} {
			content := randBytes(n)
			for vn, seg := range vC17SegVariants(rnd, content) {
				b64(fmt.Sprintf("%slen%d-%s", tag, n, vn), seg)
			}
		}
		for i := 0; i < 40; i++ { // raw noise over a hostile alphabet
			const noise = "AZaz09-_+/=.\n\r \t{}\x00\xff"
			n := rnd.Intn(12)
			b := make([]byte, n)
			for k := range b {
				b[k] = noise[rnd.Intn(len(noise))]
			}
			b64(fmt.Sprintf("%snoise-%d", tag, i), string(b))
			framing(fmt.Sprintf("%snoise-%d", tag, i), b)
		}

		// isJWSSerialization on compact shapes: each position in each spelling, segment counts, JSON leads
		parts := [3][]byte{randBytes(1 + rnd.Intn(40)), randBytes(rnd.Intn(40)), randBytes(1 + rnd.Intn(70))}
		var vars [3]map[string]string
		for i := range parts {
			vars[i] = vC17SegVariants(rnd, parts[i])
		}
		canon := [3]string{vars[0]["canonical"], vars[1]["canonical"], vars[2]["canonical"]}
		framing(tag+"compact-canonical", []byte(strings.Join(canon[:], ".")))
		for pos := 0; pos < 3; pos++ {
			for vn, seg := range vars[pos] {
				segs := canon
				segs[pos] = seg
				framing(fmt.Sprintf("%scompact-seg%d-%s", tag, pos, vn), []byte(strings.Join(segs[:], ".")))
			}
		}
		c := strings.Join(canon[:], ".")
		for name, in := range map[string]string{"empty": "", "one-seg": canon[0], "two-seg": canon[0] + "." + canon[1], "four-seg": c + "." + canon[2], "trailing-dot": c + ".",
			"leading-dot": "." + c, "only-dots-2": "..", "only-dots-3": "...", "empty-payload": canon[0] + ".." + canon[2], "empty-sig": canon[0] + "." + canon[1] + ".",
			"all-empty-but-dots": "..", "trailing-lf": c + "\n", "leading-sp": " " + c, "trailing-sp": c + " ", "json-object": `{"payload":"x"}`, "json-open-only": "{", "brace-then-compact": "{" + c,
			"compact-then-brace": c + "{", "json-array": `[1]`, "quote": `"x"`, "dot-brace": ".{", "seg-brace": canon[0] + ".{." + canon[2]} {
			framing(tag+name, []byte(in))
		}
		for sn, sp := range spaces {
			framing(tag+"lead-"+sn+"-brace", []byte(sp+"{}"))
			framing(tag+"lead-"+sn+"-sp-brace", []byte(sp+" \n"+sp+"{\"a\":1}"))
			framing(tag+"lead-"+sn+"-compact", []byte(sp+c))
			framing(tag+"only-"+sn, []byte(sp))
		}

		// ParseTransaction on real signed transactions, kid form and jwk form
		txKid, _, _ := CreateTestTransaction(uint32(round*2 + 1))
		txJwk := CreateTestTransactionWithJWK(uint32(round*2 + 2))
		for form, tx := range map[string]Transaction{"kid": txKid, "jwk": txJwk} {
			orig := tx.Data()
			segs := strings.Split(string(orig), ".")
			if len(segs) != 3 {
				t.Fatalf("test transaction is not compact: %d segments", len(segs))
			}
			framingtx(tag+form+"-valid", orig, true, orig)
			for pos := 0; pos < 3; pos++ {
				content, err := base64.RawURLEncoding.DecodeString(segs[pos])
				if err != nil {
					t.Fatal(err)
				}
				for vn, seg := range vC17SegVariants(rnd, content) {
					s := [3]string{segs[0], segs[1], segs[2]}
					s[pos] = seg
					// same content = the spelling decodes (leniently) to the same bytes
					same := false
					for _, e := range []*base64.Encoding{base64.RawURLEncoding, base64.URLEncoding, base64.RawStdEncoding} {
						if d, err := e.DecodeString(seg); err == nil && string(d) == string(content) {
							same = true
						}
					}
					framingtx(fmt.Sprintf("%s%s-seg%d-%s", tag, form, pos, vn), []byte(strings.Join(s[:], ".")), same, orig)
				}
			}
			o := string(orig)
			for name, in := range map[string]string{"four-seg": o + "." + segs[2], "trailing-dot": o + ".", "trailing-lf": o + "\n", "trailing-crlf": o + "\r\n", "leading-sp": " " + o,
				"leading-lf": "\n" + o, "trailing-sp": o + " ", "trailing-garbage-seg": o + ".AAAA", "all-padded": segs[0] + "==." + segs[1] + "=." + segs[2] + "=="} {
				framingtx(tag+form+"-"+name, []byte(in), true, orig)
			}
			// JSON serialisations of the same signed content (flattened and general), with leading white space of every kind
			flat := fmt.Sprintf(`{"payload":%q,"protected":%q,"signature":%q}`, segs[1], segs[0], segs[2])
			general := fmt.Sprintf(`{"payload":%q,"signatures":[{"protected":%q,"signature":%q}]}`, segs[1], segs[0], segs[2])
			framingtx(tag+form+"-json-flattened", []byte(flat), true, orig)
			framingtx(tag+form+"-json-general", []byte(general), true, orig)
			framingtx(tag+form+"-json-flattened-lead-ws", []byte(" \r\n\t"+flat), true, orig)
			for sn, sp := range spaces {
				framingtx(tag+form+"-json-lead-"+sn, []byte(sp+flat), true, orig)
			}
		}
	}

	// ---------------- crypto.SignatureAlgorithm on every key kind
	type kinded struct {
		name string
		key  interface{}
		kind map[string]interface{}
	}
	var kinds []kinded
	for _, c := range []elliptic.Curve{elliptic.P224(), elliptic.P256(), elliptic.P384(), elliptic.P521()} {
		k, err := ecdsa.GenerateKey(c, crand.Reader)
		if err != nil {
			t.Fatal(err)
		}
		kd := map[string]interface{}{"kind": "ecdsa", "bits": c.Params().BitSize, "curve": c.Params().Name}
		kinds = append(kinds, kinded{"ecdsa-pub-ptr-" + c.Params().Name, &k.PublicKey, kd}, kinded{"ecdsa-pub-value-" + c.Params().Name, k.PublicKey, kd},
			kinded{"ecdsa-priv-ptr-" + c.Params().Name, k, kd}, kinded{"ecdsa-priv-value-" + c.Params().Name, *k, kd})
	}
	rk, _ := rsa.GenerateKey(crand.Reader, 1024)
	rsaKind := map[string]interface{}{"kind": "rsa"}
	kinds = append(kinds, kinded{"rsa-pub-ptr", &rk.PublicKey, rsaKind}, kinded{"rsa-pub-value", rk.PublicKey, rsaKind}, kinded{"rsa-priv-ptr", rk, rsaKind}, kinded{"rsa-priv-value", *rk, rsaKind})
	edPub, edPriv, _ := ed25519.GenerateKey(crand.Reader)
	edKind := map[string]interface{}{"kind": "ed25519"}
	kinds = append(kinds, kinded{"ed25519-pub", edPub, edKind}, kinded{"ed25519-priv", edPriv, edKind}, kinded{"ed25519-pub-short", edPub[:31], edKind}, kinded{"ed25519-pub-empty", edPub[:0], edKind})
	other := map[string]interface{}{"kind": "other"}
	jk, _ := jwk.FromRaw(edPub)
	var nilEC *ecdsa.PublicKey
	_ = nilEC
	kinds = append(kinds, kinded{"nil", nil, map[string]interface{}{"kind": "nil"}}, kinded{"ed25519-pub-ptr", &edPub, other}, kinded{"jwk", jk, other},
		kinded{"bytes", []byte("secret"), other}, kinded{"string", "key", other}, kinded{"int", 5, other})
	for _, k := range kinds {
		if !out.want("sigalg", k.name) {
			continue
		}
		res := vC17Recover(func() string {
			alg, err := nutsCrypto.SignatureAlgorithm(k.key)
			if err != nil {
				return "error"
			}
			return alg.String()
		})
		op := map[string]interface{}{"op": "sigalg", "name": k.name}
		for kk, vv := range k.kind {
			op[kk] = vv
		}
		out.emit(op, res)
	}
	t.Logf("C17 dag: %d ops", out.n)
}
