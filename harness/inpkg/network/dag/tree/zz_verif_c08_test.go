//go:build verif

package tree

// C08 correspondence harness, tree level: drives the real tree (Insert/Delete/ZeroTo/Root/Updates/Load/Replace) with
// generated operations, writes ops.jsonl + impl.out (compared with the Lean model's output) and oracle.out (an
// independent per-page reference fold evaluated on the implementation's own answers).

import (
	"bufio"
	"encoding/hex"
	"encoding/json"
	"fmt"
	"math/bits"
	"math/rand"
	"os"
	"path/filepath"
	"sort"
	"strconv"
	"strings"
	"testing"
	"time"

	"github.com/nuts-foundation/nuts-node/crypto/hash"
)

type vc08Ref struct {
	Ref string   `json:"ref"`
	Hk  uint64   `json:"hk"`
	Idx []uint32 `json:"idx"`
}

type vc08Op struct {
	Op    string    `json:"op"`
	Kind  string    `json:"kind,omitempty"`
	Ls    uint32    `json:"ls,omitempty"`
	Nb    int       `json:"nb,omitempty"`
	Ref   string    `json:"ref,omitempty"`
	Hk    uint64    `json:"hk"`
	Idx   []uint32  `json:"idx,omitempty"`
	Clock uint32    `json:"clock"`
	Refs  []vc08Ref `json:"refs,omitempty"`
	Cs    []uint32  `json:"cs"`
	Sc    string    `json:"sc,omitempty"` // scenario label (tnew only)
	B     string    `json:"b,omitempty"`  // codec ops: raw bytes (hex)
	B2    string    `json:"b2,omitempty"`
	Bk    []vc08Bk  `json:"bk,omitempty"`
	Kv    []vc08KV  `json:"kv,omitempty"` // tlb: raw shelf content
}

const vc08M = (uint64(1) << 61) - 1
const vc08P = uint64(1000003)

// (h*P + X) mod M where X is the big-endian number made of words
func vc08Mix(h uint64, words ...uint64) uint64 {
	var x uint64
	for _, w := range words {
		_, x = bits.Div64(x, w, vc08M)
	}
	hi, lo := bits.Mul64(h, vc08P)
	lo, c := bits.Add64(lo, x, 0)
	hi += c
	_, r := bits.Div64(hi, lo, vc08M)
	return r
}

func vc08HashWords(h hash.SHA256Hash) []uint64 {
	w := make([]uint64, 4)
	for i := 0; i < 4; i++ {
		for j := 0; j < 8; j++ {
			w[i] = w[i]<<8 | uint64(h[i*8+j])
		}
	}
	return w
}

func vc08IbltDigest(i *Iblt) uint64 {
	var h uint64
	for idx := range i.buckets {
		b := &i.buckets[idx]
		h = vc08Mix(h, uint64(uint32(b.count)))
		h = vc08Mix(h, b.hashSum)
		h = vc08Mix(h, vc08HashWords(b.keySum)...)
	}
	return h
}

func vc08Digest(d Data) string {
	switch v := d.(type) {
	case *Xor:
		return hex.EncodeToString(v[:])
	case *Iblt:
		return strconv.FormatUint(vc08IbltDigest(v), 10)
	}
	return "?"
}

type vc08Run struct {
	t      *testing.T
	ops    *bufio.Writer
	impl   *bufio.Writer
	orc    *bufio.Writer
	kind   string
	ls     uint32
	nb     int
	tr     Tree
	shelf  map[uint32][]byte
	pages  map[uint32]Data     // reference: page -> data folded by the harness itself
	pagesX map[uint32][32]byte // XOR kind: the same reference kept byte-wise, independent of Xor/hash.SHA256Hash.Xor
	contig bool                // every page below the highest one has been touched in order
	npages uint32
	nops   int
	stats  map[string]int
}

func (r *vc08Run) proto() Data {
	if r.kind == "iblt" {
		return NewIblt(r.nb)
	}
	return NewXor()
}

func vc08Leaves(n *node) int {
	if n == nil {
		return 0
	}
	if n.isLeaf() {
		return 1
	}
	return vc08Leaves(n.left) + vc08Leaves(n.right)
}

func (r *vc08Run) observe(tag string, cs []uint32) string {
	tt := r.tr.(*tree)
	var sb strings.Builder
	fmt.Fprintf(&sb, "%s | size=%d ls=%d leaves=%d root=%s |", tag, tt.treeSize, tt.leafSize, vc08Leaves(tt.root), vc08Digest(r.tr.Root()))
	for _, c := range cs {
		d, lc := r.tr.ZeroTo(c)
		fmt.Fprintf(&sb, " Z%d=%s@%d", c, vc08Digest(d), lc)
	}
	keys := make([]int, 0)
	for k := range tt.dirtyLeaves {
		keys = append(keys, int(k))
	}
	sort.Ints(keys)
	sb.WriteString(" | dirty=[")
	for i, k := range keys {
		if i > 0 {
			sb.WriteString(", ")
		}
		sb.WriteString(strconv.Itoa(k))
	}
	sb.WriteString("]")
	return sb.String()
}

// reference: the sum of the harness's own page data for pages <= page(c)
func (r *vc08Run) oracle(cs []uint32) string {
	check := func(what string, got Data, upto uint32, all bool) string {
		want := r.proto()
		for p, d := range r.pages {
			if all || p <= upto {
				_ = want.Add(d)
			}
		}
		g := got.Clone()
		_ = g.Subtract(want)
		if !g.Empty() {
			return "FAIL:tree-digest-differs-from-reference-fold:" + what
		}
		return ""
	}
	if s := check("Root", r.tr.Root(), 0, true); s != "" {
		return s
	}
	if r.kind == "xor" {
		xorOf := func(upto uint32, all bool) (w [32]byte) {
			for p, d := range r.pagesX {
				if all || p <= upto {
					for i := range w {
						w[i] ^= d[i]
					}
				}
			}
			return
		}
		if got := r.tr.Root().(*Xor); [32]byte(*got) != xorOf(0, true) {
			return "FAIL:tree-digest-differs-from-reference-fold:Root(bytewise)"
		}
		for _, c := range cs {
			d, _ := r.tr.ZeroTo(c)
			if got := d.(*Xor); [32]byte(*got) != xorOf(c/r.ls, false) {
				return fmt.Sprintf("FAIL:tree-digest-differs-from-reference-fold:ZeroTo(%d)(bytewise)", c)
			}
		}
	}
	for _, c := range cs {
		d, lc := r.tr.ZeroTo(c)
		if s := check(fmt.Sprintf("ZeroTo(%d)", c), d, c/r.ls, false); s != "" {
			return s
		}
		if r.contig && r.npages > 0 {
			p := c / r.ls
			if p > r.npages-1 {
				p = r.npages - 1
			}
			if want := (p+1)*r.ls - 1; lc != want {
				return fmt.Sprintf("FAIL:tree-zeroto-clock:ZeroTo(%d) clock %d want %d", c, lc, want)
			}
		}
	}
	return "ok"
}

func (r *vc08Run) sweep(rng *rand.Rand) []uint32 {
	tt := r.tr.(*tree)
	set := map[uint32]bool{0: true, 4294967295: true}
	pages := tt.treeSize/r.ls + 1
	if pages > 20 {
		pages = 20
	}
	for p := uint32(0); p <= pages; p++ {
		e := p * r.ls
		set[e] = true
		set[e+1] = true
		if e > 0 {
			set[e-1] = true
		}
	}
	set[tt.treeSize] = true
	set[tt.treeSize-1] = true
	set[uint32(rng.Intn(int(tt.treeSize)*2+1))] = true
	cs := make([]uint32, 0, len(set))
	for c := range set {
		cs = append(cs, c)
	}
	sort.Slice(cs, func(i, j int) bool { return cs[i] < cs[j] })
	return cs
}

func (r *vc08Run) key(ref hash.SHA256Hash) (uint64, []uint32) {
	if r.kind != "iblt" {
		return 0, nil
	}
	i := NewIblt(r.nb)
	hk := i.hashKey(ref)
	return hk, i.bucketIndices(hk)
}

func (r *vc08Run) page(p uint32) Data {
	d, ok := r.pages[p]
	if !ok {
		d = r.proto()
		r.pages[p] = d
	}
	return d
}

// exec runs one op on the real tree, fills in the derived fields (hk/idx, cs) and writes the three lines
// exec with a watchdog: an operation of the real tree that does not return (e.g. the growth loop on a tree of size 0)
// is reported as an outcome
func (r *vc08Run) exec(op *vc08Op, rng *rand.Rand) {
	done := make(chan struct{})
	go func() {
		defer close(done)
		r.exec1(op, rng)
	}()
	select {
	case <-done:
	case <-time.After(90 * time.Second):
		if op.Cs == nil {
			op.Cs = []uint32{}
		}
		b, _ := json.Marshal(op)
		r.ops.Write(b)
		r.ops.WriteByte('\n')
		r.impl.WriteString("hang:" + op.Op + "\n")
		r.orc.WriteString("FAIL:operation-did-not-terminate:" + op.Op + " did not return within 90s\n")
		r.ops.Flush()
		r.impl.Flush()
		r.orc.Flush()
		os.Exit(0)
	}
}

func (r *vc08Run) exec1(op *vc08Op, rng *rand.Rand) {
	line := ""
	tagLoad := ""
	func() {
		defer func() {
			if e := recover(); e != nil {
				line = fmt.Sprintf("panic:%v", e)
			}
		}()
		switch op.Op {
		case "tnew":
			r.kind, r.ls, r.nb = op.Kind, op.Ls, op.Nb
			r.tr = New(r.proto(), r.ls)
			r.shelf = map[uint32][]byte{}
			r.pages = map[uint32]Data{}
			r.pagesX = map[uint32][32]byte{}
			r.contig, r.npages = true, 0
		case "tins", "tdel":
			ref, _ := hash.ParseHex(op.Ref)
			{
				w := r.pagesX[op.Clock/r.ls]
				for i := range w {
					w[i] ^= ref[i]
				}
				r.pagesX[op.Clock/r.ls] = w
			}
			op.Hk, op.Idx = r.key(ref)
			p := op.Clock / r.ls
			if op.Op == "tins" {
				r.tr.Insert(ref, op.Clock)
				r.page(p).Insert(ref)
			} else {
				r.tr.Delete(ref, op.Clock)
				r.page(p).Delete(ref)
			}
			if p > r.npages {
				r.contig = false
			}
			if p+1 > r.npages {
				r.npages = p + 1
			}
		case "tobs":
		case "tcx", "tci", "tcm", "tca", "tnb":
			line = r.codec(op)
		case "tlb":
			tagLoad = r.loadBytes(op)
		case "tdrop":
			tagLoad = r.dropLeaves()
		case "tpersist":
			dirty, orphaned := r.tr.Updates()
			r.tr.ResetUpdates()
			for _, o := range orphaned {
				delete(r.shelf, o)
			}
			for k, v := range dirty {
				r.shelf[k] = v
			}
		case "tload":
			cp := map[uint32][]byte{}
			for k, v := range r.shelf {
				cp[k] = append([]byte{}, v...)
			}
			nt := New(r.proto(), op.Ls)
			if err := nt.Load(cp); err != nil {
				line = "err:" + err.Error()
				return
			}
			r.tr = nt
			// the reference now is what was persisted
			r.pages = map[uint32]Data{}
			r.pagesX = map[uint32][32]byte{}
			for k, v := range r.shelf {
				d := r.proto()
				_ = d.UnmarshalBinary(v)
				r.pages[k/r.ls] = d
				if r.kind == "xor" && len(v) == 32 {
					r.pagesX[k/r.ls] = [32]byte(v)
				}
			}
			if len(r.shelf) == 0 {
				r.npages = 0
			}
		case "trepl":
			d := r.proto()
			var w [32]byte
			for i := range op.Refs {
				ref, _ := hash.ParseHex(op.Refs[i].Ref)
				op.Refs[i].Hk, op.Refs[i].Idx = r.key(ref)
				d.Insert(ref)
				for j := range w {
					w[j] ^= ref[j]
				}
			}
			r.pagesX[op.Clock/r.ls] = w
			if err := r.tr.Replace(op.Clock, d.Clone()); err != nil {
				line = "err:" + err.Error()
				return
			}
			p := op.Clock / r.ls
			r.pages[p] = d
			if p >= r.npages {
				// Replace beyond the tree creates the pages in between
				r.npages = p + 1
			}
		}
	}()
	if op.Cs == nil {
		op.Cs = r.sweep(rng)
	}
	orc := "ok"
	if line == "" {
		func() {
			defer func() {
				if e := recover(); e != nil {
					line = fmt.Sprintf("panic:%v", e)
				}
			}()
			tag := op.Op
			if tagLoad != "" {
				tag = tagLoad
			}
			line = r.observe(tag, op.Cs)
			if tagLoad == "tlb ok-damaged" {
				return // a damaged shelf that still loads (never generated): no reference
			}
			orc = r.oracle(op.Cs)
		}()
	}
	b, _ := json.Marshal(op)
	r.ops.Write(b)
	r.ops.WriteByte('\n')
	r.impl.WriteString(line + "\n")
	r.orc.WriteString(orc + "\n")
	r.nops++
	r.stats[op.Op]++
}

func vc08RandRef(rng *rand.Rand) string {
	b := make([]byte, 32)
	rng.Read(b)
	if rng.Intn(40) == 0 { // low-entropy refs too
		for i := range b[:31] {
			b[i] = 0
		}
	}
	return hex.EncodeToString(b)
}

type vc08Ins struct {
	ref   string
	clock uint32
}

// one scenario: a fresh tree and n random operations
func vc08Scenario(r *vc08Run, rng *rand.Rand, kind string, ls uint32, nb int, mode string, n int) {
	r.exec(&vc08Op{Op: "tnew", Kind: kind, Ls: ls, Nb: nb, Sc: mode}, rng)
	var inserted []vc08Ins
	next := uint32(0) // sequential clock for the contiguous modes
	maxPages := uint32(9)
	pickClock := func() uint32 {
		switch mode {
		case "contig": // clocks grow like a DAG: every clock value gets 1..3 refs, pages are filled in order
			c := next
			if rng.Intn(4) == 0 && c > 0 { // also older clocks (the clock sequence itself is not advanced then)
				return uint32(rng.Intn(int(c)))
			}
			if rng.Intn(3) > 0 {
				step := uint32(1)
				if rng.Intn(4) == 0 {
					step = ls/2 + 1 // move fast to the next page edge, never skipping a page
				}
				next += step
			}
			if next >= maxPages*ls {
				next = maxPages*ls - 1
			}
			return c
		case "edges":
			p := uint32(rng.Intn(int(maxPages)))
			e := []uint32{p * ls, p*ls + ls - 1, p*ls + 1, p*ls + ls/2, p*ls + ls/2 - 1}
			return e[rng.Intn(len(e))]
		case "growth":
			k := uint32(1) << uint(rng.Intn(5))
			e := []uint32{k*ls - 1, k * ls, k*ls + 1, 0}
			return e[rng.Intn(len(e))]
		default: // "random"
			return uint32(rng.Intn(int(maxPages * ls)))
		}
	}
	for i := 0; i < n; i++ {
		x := rng.Intn(100)
		switch {
		case x < 70:
			in := vc08Ins{vc08RandRef(rng), pickClock()}
			inserted = append(inserted, in)
			r.exec(&vc08Op{Op: "tins", Ref: in.ref, Clock: in.clock}, rng)
		case x < 76 && len(inserted) > 0:
			k := rng.Intn(len(inserted))
			in := inserted[k]
			inserted = append(inserted[:k], inserted[k+1:]...)
			r.exec(&vc08Op{Op: "tdel", Ref: in.ref, Clock: in.clock}, rng)
		case x < 86:
			r.exec(&vc08Op{Op: "tpersist"}, rng)
		case x < 92:
			// Load needs all consecutive leaves: only offered when everything is persisted and pages are contiguous,
			// or (rarely) anyway — the model mirrors the code on gaps as well, the reference fold is skipped then
			if mode == "contig" && r.contig {
				if r.ls < 2048 && rng.Intn(3) == 0 { // DropLeaves, then persist (orphans are deleted) and reload the merged pages
					r.exec(&vc08Op{Op: "tdrop"}, rng)
				}
				r.exec(&vc08Op{Op: "tpersist"}, rng)
				if nb <= 16 {
					r.exec(r.genLoadBytes(rng), rng)
				}
				r.exec(&vc08Op{Op: "tload", Ls: ls}, rng)
			}
		case x < 97:
			if mode == "contig" && r.npages > 0 {
				p := uint32(rng.Intn(int(r.npages)))
				var refs []vc08Ref
				for k := rng.Intn(3); k > 0; k-- {
					refs = append(refs, vc08Ref{Ref: vc08RandRef(rng)})
				}
				r.exec(&vc08Op{Op: "trepl", Clock: p*ls + uint32(rng.Intn(int(ls))), Refs: refs}, rng)
			} else if mode != "contig" {
				p := uint32(rng.Intn(int(maxPages)))
				r.contig = false
				r.exec(&vc08Op{Op: "trepl", Clock: p * ls, Refs: []vc08Ref{{Ref: vc08RandRef(rng)}}}, rng)
			}
		default:
			if mode == "contig" && r.contig && r.ls < 2048 && rng.Intn(4) == 0 {
				r.exec(&vc08Op{Op: "tdrop"}, rng)
			} else {
				r.exec(&vc08Op{Op: "tobs"}, rng)
			}
		}
	}
}

func TestVerifC08(t *testing.T) {
	out := os.Getenv("VERIF_OUT")
	if out == "" {
		t.Skip("VERIF_OUT not set")
	}
	seed, _ := strconv.ParseInt(os.Getenv("VERIF_SEED"), 10, 64)
	thorough := os.Getenv("VERIF_TIER") == "thorough"
	of, _ := os.Create(filepath.Join(out, "ops.jsonl"))
	imf, _ := os.Create(filepath.Join(out, "impl.out"))
	orf, _ := os.Create(filepath.Join(out, "oracle.out"))
	defer of.Close()
	defer imf.Close()
	defer orf.Close()
	r := &vc08Run{t: t, ops: bufio.NewWriterSize(of, 1<<20), impl: bufio.NewWriterSize(imf, 1<<20), orc: bufio.NewWriter(orf), stats: map[string]int{}}
	defer r.ops.Flush()
	defer r.impl.Flush()
	defer r.orc.Flush()
	rng := rand.New(rand.NewSource(seed*7919 + 11))

	replayFile := func(p string) {
		f, err := os.Open(p)
		if err != nil {
			t.Fatal(err)
		}
		defer f.Close()
		sc := bufio.NewScanner(f)
		sc.Buffer(make([]byte, 1<<20), 1<<26)
		for sc.Scan() {
			if strings.TrimSpace(sc.Text()) == "" {
				continue
			}
			var op vc08Op
			if err := json.Unmarshal(sc.Bytes(), &op); err != nil {
				t.Fatal(err)
			}
			if !strings.HasPrefix(op.Op, "t") {
				continue
			}
			r.exec(&op, rng)
		}
	}
	if p := os.Getenv("VERIF_REPLAY"); p != "" {
		replayFile(p)
		return
	}
	if d := os.Getenv("VERIF_CORPUS"); d != "" {
		files, _ := filepath.Glob(filepath.Join(d, "tree-*.jsonl"))
		sort.Strings(files)
		for _, f := range files {
			replayFile(f)
		}
	}
	reps := 1
	if thorough {
		reps = 6
	}
	for rep := 0; rep < reps; rep++ {
		vc08CodecOps(r, rng, 60)
		for _, mode := range []string{"contig", "edges", "growth", "random"} {
			vc08Scenario(r, rng, "xor", 2, 0, mode, 120)
			vc08Scenario(r, rng, "xor", 4, 0, mode, 120)
			vc08Scenario(r, rng, "xor", 512, 0, mode, 160)
			vc08Scenario(r, rng, "iblt", 2, 6, mode, 80)
			vc08Scenario(r, rng, "iblt", 4, 16, mode, 80)
		}
		vc08Scenario(r, rng, "iblt", 512, 1024, "contig", 60)
		vc08Scenario(r, rng, "iblt", 512, 1024, "growth", 40)
	}
	sb, _ := json.Marshal(r.stats)
	os.WriteFile(filepath.Join(out, "stats.json"), sb, 0o644)
}
