//go:build verif

package tree

import "github.com/nuts-foundation/nuts-node/crypto/hash"

// VerifC08Keys exposes what murmur3 says about a reference (key hash and bucket indices) for an Iblt of the given
// size, so that the C08 harness in package dag can hand these values to the Lean model as data and fold its own
// reference IBLT. Add-only, verif build tag only.
func VerifC08Keys(ref hash.SHA256Hash, numBuckets int) (uint64, []uint32) {
	i := NewIblt(numBuckets)
	hk := i.hashKey(ref)
	return hk, i.bucketIndices(hk)
}
