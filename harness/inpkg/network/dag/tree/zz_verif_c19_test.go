//go:build verif

// C19 correspondence harness for network/dag/tree/iblt.go: UnmarshalBinary → Subtract → Decode (the sequence
// handleTransactionSet runs on a peer's bytes), Insert/Delete/bucketIndices, and murmur3 itself (the Lean model carries
// its own MurmurHash3).  Tables are described compactly (key ranges from a PRNG both sides implement + bucket patches).
package tree

import (
	"encoding/binary"
	"encoding/hex"
	"encoding/json"
	"fmt"
	mrand "math/rand"
	"os"
	"path/filepath"
	"sort"
	"strings"
	"sync"
	"testing"

	"github.com/nuts-foundation/nuts-node/crypto/hash"
	"github.com/twmb/murmur3"
)

// ---- key PRNG (same in Driver/C19.lean): splitmix64 finaliser
func c19Mix(x uint64) uint64 {
	x += 0x9e3779b97f4a7c15
	x = (x ^ (x >> 30)) * 0xbf58476d1ce4e5b9
	x = (x ^ (x >> 27)) * 0x94d049bb133111eb
	return x ^ (x >> 31)
}

func c19Key(seed, i uint64) hash.SHA256Hash {
	var k hash.SHA256Hash
	for j := uint64(0); j < 4; j++ {
		binary.LittleEndian.PutUint64(k[j*8:], c19Mix(seed*1000003+i*4+j))
	}
	return k
}

// table description
type c19Patch struct {
	Idx     int
	Count   int32
	HashSum uint64
	KeySum  hash.SHA256Hash
}

func (p c19Patch) MarshalJSON() ([]byte, error) {
	return json.Marshal([]any{p.Idx, p.Count, fmt.Sprintf("%016x", p.HashSum), hex.EncodeToString(p.KeySum[:])})
}

type c19Table struct {
	N      int         `json:"n"`
	Ranges [][3]uint64 `json:"ranges"` // seed, from, to
	Keys   []string    `json:"keys"`
	Patch  []c19Patch  `json:"patch"`
	Extra  string      `json:"extra"` // trailing bytes appended to the marshalled form
}

func c19Zero(n int) *Iblt {
	i := NewIblt(6)
	if err := i.UnmarshalBinary(make([]byte, n*bucketBytes)); err != nil {
		panic(err)
	}
	return i
}

// build the table; inserts only when the table is big enough for the unrepaired bucketIndices to terminate
func (d c19Table) build() *Iblt {
	t := c19Zero(d.N)
	if d.N >= int(ibltK) {
		for _, rg := range d.Ranges {
			for i := rg[1]; i < rg[2]; i++ {
				t.Insert(c19Key(rg[0], i))
			}
		}
		for _, k := range d.Keys {
			b, _ := hex.DecodeString(k)
			var h hash.SHA256Hash
			copy(h[:], b)
			t.Insert(h)
		}
	}
	for _, p := range d.Patch {
		if p.Idx >= 0 && p.Idx < len(t.buckets) {
			t.buckets[p.Idx] = bucket{count: p.Count, hashSum: p.HashSum, keySum: p.KeySum}
		}
	}
	return t
}

func c19Digest(keys []hash.SHA256Hash) string {
	acc := uint64(0)
	for _, k := range keys {
		acc = acc*1000003 + binary.LittleEndian.Uint64(k[:8])
	}
	return fmt.Sprintf("%d:%016x", len(keys), acc)
}

func c19Buckets(t *Iblt) string {
	b, _ := t.MarshalBinary()
	return string(b)
}

func c19ErrKind(err error) string {
	s := err.Error()
	for _, p := range []string{"invalid data length", "number of buckets do not match", "hc do not match", "hk do not match", "unequal number of k", "decode loop detected", "decode failed", "unmarshalling failed"} {
		if strings.Contains(s, p) {
			return p
		}
	}
	return "other"
}

// the handleTransactionSet sequence on a peer's bytes
func c19RunSet(o *c19Out, own, peer c19Table, tag string) {
	ownT := own.build()
	peerBytes, _ := peer.build().MarshalBinary()
	ex, _ := hex.DecodeString(peer.Extra)
	peerBytes = append(peerBytes, ex...)
	before := c19Buckets(ownT)
	line := ""
	peerT := NewIblt(len(ownT.buckets))
	um := c19Guard(func() string {
		if err := peerT.UnmarshalBinary(peerBytes); err != nil {
			return "err:" + c19ErrKind(err)
		}
		return fmt.Sprintf("ok:%d", len(peerT.buckets))
	})
	line = "um=" + c19Class(um)
	if strings.HasPrefix(um, "ok") {
		sub := c19Guard(func() string {
			if err := ownT.Subtract(peerT); err != nil {
				if c19Buckets(ownT) != before {
					return "STATE-CHANGED-ON-ERROR"
				}
				return "err:" + c19ErrKind(err)
			}
			return "ok"
		})
		line += " sub=" + c19Class(sub)
		if sub == "ok" {
			dec := c19Guard(func() string {
				rem, mis, err := ownT.Decode()
				if err != nil {
					return "err:" + c19ErrKind(err)
				}
				return "ok rem=" + c19Digest(rem) + " mis=" + c19Digest(mis)
			})
			line += " dec=" + c19Class(dec)
		}
	}
	o.dist["iblt.set:"+tag]++
	o.emit(map[string]any{"op": "iblt.set", "own": own, "peer": peer}, line)
}

func c19RunInsert(o *c19Out, n int, keyHex string, del bool, tag string) {
	t := c19Zero(n)
	b, _ := hex.DecodeString(keyHex)
	var k hash.SHA256Hash
	copy(k[:], b)
	res := c19Guard(func() string {
		if del {
			t.Delete(k)
		} else {
			t.Insert(k)
		}
		var idx []string
		for i := range t.buckets {
			if !t.buckets[i].isEmpty() {
				idx = append(idx, fmt.Sprint(i))
			}
		}
		return "ok idx=[" + strings.Join(idx, ",") + "]"
	})
	o.dist["iblt.insert:"+tag]++
	o.emit(map[string]any{"op": "iblt.insert", "n": n, "key": keyHex, "del": del}, c19Class(res))
}

func c19RunMurmur(o *c19Out, k hash.SHA256Hash) {
	hk := murmur3.SeedSum64(ibltHc, k.Slice())
	b8, b4 := make([]byte, 8), make([]byte, 4)
	binary.LittleEndian.PutUint64(b8, hk)
	first := murmur3.SeedSum32(ibltHk, b8)
	binary.LittleEndian.PutUint32(b4, first)
	n1 := murmur3.SeedSum32(ibltHk, b4)
	binary.LittleEndian.PutUint32(b4, n1)
	n2 := murmur3.SeedSum32(ibltHk, b4)
	o.emit(map[string]any{"op": "murmur", "key": hex.EncodeToString(k[:])}, fmt.Sprintf("hk=%d first=%d n1=%d n2=%d", hk, first, n1, n2))
}

func c19RunRaw(o *c19Out, data []byte, tag string) {
	t := NewIblt(6)
	res := c19Guard(func() string {
		if err := t.UnmarshalBinary(data); err != nil {
			return "err:" + c19ErrKind(err)
		}
		n := len(t.buckets)
		rem, mis, err := t.Decode()
		if err != nil {
			return fmt.Sprintf("ok:%d dec=err:%s", n, c19ErrKind(err))
		}
		return fmt.Sprintf("ok:%d dec=ok rem=%s mis=%s", n, c19Digest(rem), c19Digest(mis))
	})
	o.dist["iblt.raw:"+tag]++
	o.emit(map[string]any{"op": "iblt.raw", "data": hex.EncodeToString(data)}, c19Class(res))
}

func TestVerifC19(t *testing.T) {
	dir := os.Getenv("VERIF_OUT")
	if dir == "" {
		t.Skip("VERIF_OUT not set")
	}
	o := c19Open(dir)
	defer o.close(dir)
	r := mrand.New(mrand.NewSource(c19Seed()*32452843 + 11))
	const N = 1024

	replay, isReplay := c19ReadOps()
	for _, op := range replay {
		switch op["op"] {
		case "iblt.insert":
			n, _ := op["n"].(json.Number)
			nn, _ := n.Int64()
			k, _ := op["key"].(string)
			del, _ := op["del"].(bool)
			c19RunInsert(o, int(nn), k, del, "replay")
		case "iblt.set":
			var own, peer c19Table
			b, _ := json.Marshal(op["own"])
			c19TableFromJSON(b, &own)
			b, _ = json.Marshal(op["peer"])
			c19TableFromJSON(b, &peer)
			c19RunSet(o, own, peer, "replay")
		case "iblt.raw":
			h, _ := op["data"].(string)
			d, _ := hex.DecodeString(h)
			c19RunRaw(o, d, "replay")
		}
	}
	if isReplay {
		return
	}

	// ---- murmur3 correspondence
	for i := uint64(0); i < 60; i++ {
		c19RunMurmur(o, c19Key(uint64(c19Seed()), i))
	}
	c19RunMurmur(o, hash.SHA256Hash{})
	var ff hash.SHA256Hash
	for i := range ff {
		ff[i] = 0xff
	}
	c19RunMurmur(o, ff)

	// ---- Insert/Delete on tables of every small size and a few big ones (n < k and n = 0 included)
	for _, n := range []int{6, 7, 8, 13, 64, 1023, 1024, 1025} {
		for i := uint64(0); i < 6; i++ {
			k := c19Key(77, uint64(n)*10+i)
			c19RunInsert(o, n, hex.EncodeToString(k[:]), i%2 == 1, "n>=k")
		}
	}

	// ---- honest differences of growing size (decodable up to a few hundred; beyond: ErrDecodeNotPossible)
	seed := uint64(c19Seed())
	sizes := []int{0, 1, 2, 3, 10, 50, 200, 400, 600, 640, 660, 680, 700, 720, 740, 760, 800, 900, 1500}
	if !c19Thorough() {
		sizes = []int{0, 1, 2, 3, 10, 50, 200, 500, 800}
	}
	for _, d := range sizes {
		common := uint64(r.Intn(300))
		a := uint64(r.Intn(d + 1))
		own := c19Table{N: N, Ranges: [][3]uint64{{seed, 0, common}, {seed + 1, 0, a}}}
		peer := c19Table{N: N, Ranges: [][3]uint64{{seed, 0, common}, {seed + 2, 0, uint64(d) - a}}}
		c19RunSet(o, own, peer, "honest")
	}

	// ---- size mismatches and malformed lengths (Subtract must refuse; never an index panic)
	for _, n := range []int{0, 1, 5, 6, 7, 1023, 1025, 2048} {
		c19RunSet(o, c19Table{N: N, Ranges: [][3]uint64{{seed, 0, 5}}}, c19Table{N: n, Ranges: [][3]uint64{{seed, 0, 3}}}, "bucket-count-mismatch")
	}
	for _, ex := range []string{"00", "0000000000", strings.Repeat("00", 43), strings.Repeat("ff", 45)} {
		c19RunSet(o, c19Table{N: N}, c19Table{N: N, Extra: ex}, "length-not-multiple-of-44")
		c19RunSet(o, c19Table{N: N}, c19Table{N: 0, Extra: ex}, "length-not-multiple-of-44")
	}

	// ---- adversarial tables: honest difference + hostile patches (fake pures, wrong placement, counts, repeated keys)
	nAdv := c19Env("VERIF_N", 400) / 4
	for i := 0; i < nAdv; i++ {
		common := uint64(r.Intn(50))
		d := uint64(r.Intn(40))
		own := c19Table{N: N, Ranges: [][3]uint64{{seed, 0, common}}}
		peer := c19Table{N: N, Ranges: [][3]uint64{{seed, 0, common}, {seed + 3 + uint64(i), 0, d}}}
		np := 1 + r.Intn(6)
		base := peer.build()
		kind := ""
		for p := 0; p < np; p++ {
			idx := r.Intn(N)
			k := c19Key(seed+999, uint64(r.Intn(8))) // small pool: the same key shows up in several buckets
			b := base.buckets[idx]
			var pt c19Patch
			switch r.Intn(7) {
			case 0: // fake pure: count ±1, consistent hash, in a bucket the key does not map to
				pt = c19Patch{idx, int32(1 - 2*r.Intn(2)), base.hashKey(k), k}
				kind = "fake-pure"
			case 1: // pure-looking but hashSum wrong
				pt = c19Patch{idx, 1, r.Uint64(), k}
				kind = "bad-hashsum"
			case 2: // count perturbed
				pt = c19Patch{idx, b.count + int32(r.Intn(5)-2), b.hashSum, b.keySum}
				kind = "count-perturbed"
			case 3: // extreme counts
				pt = c19Patch{idx, []int32{-2147483648, 2147483647, 2, -2, 0}[r.Intn(5)], b.hashSum, b.keySum}
				kind = "extreme-count"
			case 4: // key of the difference made pure everywhere it maps to, twice
				pt = c19Patch{idx, -1, base.hashKey(k), k}
				kind = "negative-fake-pure"
			case 5: // zero key pure
				pt = c19Patch{idx, 1, base.hashKey(hash.SHA256Hash{}), hash.SHA256Hash{}}
				kind = "zero-key-pure"
			default: // random garbage bucket
				var g hash.SHA256Hash
				r.Read(g[:])
				pt = c19Patch{idx, int32(r.Uint32()), r.Uint64(), g}
				kind = "garbage-bucket"
			}
			peer.Patch = append(peer.Patch, pt)
		}
		if np > 1 {
			kind = "multi"
		}
		c19RunSet(o, own, peer, "adversarial:"+kind)
	}
	// a key placed consistently (all its k buckets) but with the opposite sign in half of them, chains of dependent fake pures
	for i := 0; i < nAdv/2; i++ {
		peer := c19Table{N: N}
		nk := 1 + r.Intn(5)
		for j := 0; j < nk; j++ {
			k := c19Key(seed+555, uint64(i*8+j))
			z := c19Zero(N)
			for _, h := range z.bucketIndices(z.hashKey(k)) {
				if r.Intn(4) > 0 {
					cnt := int32(-1)
					if r.Intn(3) == 0 {
						cnt = 1
					}
					peer.Patch = append(peer.Patch, c19Patch{int(h), cnt, z.hashKey(k), k})
				}
			}
		}
		c19RunSet(o, c19Table{N: N}, peer, "adversarial:partial-placement")
	}

	// ---- worst case for the number of passes: a descending dependency chain. Key j sits in bucket p_j together with key j-1
	// (p_1 > p_2 > …), every other bucket is unpeelable garbage: each pass peels exactly one key, because the bucket that
	// becomes pure lies below the current position. Decode ends with ErrDecodeNotPossible after m+1 passes.
	chainLens := []int{12}
	if c19Thorough() {
		chainLens = []int{12, 100, 300}
	}
	for _, mlen := range chainLens {
		z := c19Zero(N)
		inP := map[uint32]bool{}
		for j := 0; j <= mlen; j++ {
			inP[uint32(1000-j)] = true
		}
		var keys []string
		ctr := uint64(0)
		for j := 0; j < mlen; j++ {
			pj, pn := uint32(1000-j), uint32(1000-j-1)
			for {
				k := c19Key(seed+31337, ctr)
				ctr++
				hasJ, hasN, clean := false, false, true
				for _, h := range z.bucketIndices(z.hashKey(k)) {
					switch {
					case h == pj:
						hasJ = true
					case h == pn:
						hasN = true
					case inP[h]:
						clean = false
					}
				}
				if hasJ && hasN && clean {
					keys = append(keys, hex.EncodeToString(k[:]))
					break
				}
			}
		}
		peer := c19Table{N: N, Keys: keys}
		var g hash.SHA256Hash
		g[0] = 0xaa
		for b := 0; b < N; b++ {
			// (the bucket below the last link holds only the last key: garbage too, or the chain would unravel upwards in one pass)
			if !inP[uint32(b)] || b == 1000-mlen {
				peer.Patch = append(peer.Patch, c19Patch{b, 1000000, 12345, g})
			}
		}
		// the difference own − peer has the chain with negative counts (keys "missing" here)
		c19RunSet(o, c19Table{N: N}, peer, fmt.Sprintf("adversarial:descending-chain-%d", mlen))
	}

	// ---- raw byte strings through UnmarshalBinary(+Decode): every small length, random content
	for l := 0; l <= 2*bucketBytes+1; l++ {
		d := make([]byte, l)
		if l%3 == 0 {
			r.Read(d)
		}
		c19RunRaw(o, d, "raw-length-sweep")
	}
	// small tables (n = 0 and n >= k) with pure-looking buckets
	for _, n := range []int{0, 6, 7, 8} {
		for rep := 0; rep < 3; rep++ {
			tb := c19Zero(n)
			for i := range tb.buckets {
				if r.Intn(2) == 0 {
					k := c19Key(seed+4242, uint64(r.Intn(4)))
					tb.buckets[i] = bucket{count: int32(1 - 2*r.Intn(2)), hashSum: tb.hashKey(k), keySum: k}
				}
			}
			d, _ := tb.MarshalBinary()
			c19RunRaw(o, d, "small-table-with-pures")
		}
	}
	if c19Env("VERIF_SMALLN", 1) == 1 {
		// tables with fewer than k buckets and a pure bucket (not reachable from a peer: Subtract refuses the size)
		for _, n := range []int{1, 5} {
			tb := c19Zero(n)
			k := c19Key(seed+4243, uint64(n))
			tb.buckets[0] = bucket{count: 1, hashSum: tb.hashKey(k), keySum: k}
			d, _ := tb.MarshalBinary()
			c19RunRaw(o, d, "table-smaller-than-k-with-pure")
		}
	}
	if mode := os.Getenv("VERIF_ORBIT"); mode != "" {
		c19Orbit(dir, mode, c19Seed())
	}
}

// c19Orbit measures the 32-bit hash chain next -> murmur3.SeedSum32(hk, LE32(next)) that bucketIndices walks, for
// numBuckets = 1024 and k = 6: which start values never produce k distinct buckets (short cycles of the chain), and how many
// steps the others need.  mode "full": all 2^32 start values; "sample": the six known cycle members + 2^22 random ones.
func c19Orbit(dir, mode string, seed int64) {
	const n, k = 1024, 6
	known := map[uint32]bool{2685067771: true, 3264639879: true, 4101757383: true, 4107318918: true, 1532747441: true, 2381736504: true}
	steps := func(x uint32, buf []byte) int { // 0 = never (within 200 steps)
		var seen [k]uint32
		cnt, st := 0, 0
		next := x
		for cnt < k && st < 200 {
			b := next % n
			dup := false
			for i := 0; i < cnt; i++ {
				if seen[i] == b {
					dup = true
				}
			}
			if !dup {
				seen[cnt] = b
				cnt++
			}
			binary.LittleEndian.PutUint32(buf, next)
			next = murmur3.SeedSum32(ibltHk, buf)
			st++
		}
		if cnt < k {
			return 0
		}
		return st
	}
	const workers = 16
	type res struct {
		bad      []uint32
		maxSteps int
		n        uint64
	}
	out := make([]res, workers)
	var wg sync.WaitGroup
	for w := 0; w < workers; w++ {
		wg.Add(1)
		go func(w int) {
			defer wg.Done()
			buf := make([]byte, 4)
			check := func(x uint32) {
				s := steps(x, buf)
				out[w].n++
				if s == 0 {
					out[w].bad = append(out[w].bad, x)
				} else if s > out[w].maxSteps {
					out[w].maxSteps = s
				}
			}
			if mode == "full" {
				for x := uint64(w) << 28; x < uint64(w+1)<<28; x++ {
					check(uint32(x))
				}
			} else {
				r := mrand.New(mrand.NewSource(seed*131 + int64(w)))
				for i := 0; i < 1<<18; i++ {
					check(r.Uint32())
				}
				if w == 0 {
					for x := range known {
						check(x)
					}
				}
			}
		}(w)
	}
	wg.Wait()
	var bad []uint32
	maxSteps := 0
	total := uint64(0)
	for _, r := range out {
		bad = append(bad, r.bad...)
		if r.maxSteps > maxSteps {
			maxSteps = r.maxSteps
		}
		total += r.n
	}
	sort.Slice(bad, func(i, j int) bool { return bad[i] < bad[j] })
	unexpected, foundKnown := 0, 0
	for _, b := range bad {
		if known[b] {
			foundKnown++
		} else {
			unexpected++
		}
	}
	b, _ := json.Marshal(map[string]any{"mode": mode, "starts_checked": total, "bad_starts": bad, "known_found": foundKnown, "unexpected_bad": unexpected, "max_steps_good": maxSteps})
	os.WriteFile(filepath.Join(dir, "orbit.json"), b, 0o644)
}

func c19TableFromJSON(b []byte, t *c19Table) {
	var raw struct {
		N      int         `json:"n"`
		Ranges [][3]uint64 `json:"ranges"`
		Keys   []string    `json:"keys"`
		Patch  [][]any     `json:"patch"`
		Extra  string      `json:"extra"`
	}
	json.Unmarshal(b, &raw)
	t.N, t.Ranges, t.Keys, t.Extra = raw.N, raw.Ranges, raw.Keys, raw.Extra
	for _, p := range raw.Patch {
		if len(p) != 4 {
			continue
		}
		idx, _ := p[0].(float64)
		cnt, _ := p[1].(float64)
		hs, _ := p[2].(string)
		ks, _ := p[3].(string)
		var pt c19Patch
		pt.Idx, pt.Count = int(idx), int32(cnt)
		fmt.Sscanf(hs, "%x", &pt.HashSum)
		kb, _ := hex.DecodeString(ks)
		copy(pt.KeySum[:], kb)
		t.Patch = append(t.Patch, pt)
	}
}
