//go:build verif

package tree

// C07 deepening round: the REAL tree.Iblt (Insert, MarshalBinary/UnmarshalBinary, Subtract, Decode, bucketIndices)
// against the Lean model NutsModel/C07/Iblt.lean on generated key sets. murmur3 is handed to the model as data
// (op `ibltuni`: hashKey of every key of an XOR-closed 8-bit universe, the first chain value per key hash, the chain map).

import (
	"bufio"
	"encoding/json"
	"errors"
	"fmt"
	"math/rand"
	"os"
	"path/filepath"
	"strconv"
	"strings"
	"testing"

	"github.com/nuts-foundation/nuts-node/crypto/hash"
	"github.com/twmb/murmur3"
)

const vc07Bits = 8

type vc07Tamper struct {
	I  int    `json:"i"`
	Dc int32  `json:"dc"`
	Hx uint64 `json:"hx"`
	Kx int    `json:"kx"`
}

type vc07Op struct {
	Op     string       `json:"op"`
	N      int          `json:"n,omitempty"`
	Pn     int          `json:"pn"`
	V      int          `json:"v"`
	H      uint64       `json:"h,omitempty"` // bidx: a key hash given directly (chain start on a short cycle of the murmur3 chain)
	Xh     [][2]uint64  `json:"xh,omitempty"`
	Loc    []int        `json:"loc"`
	Peer   []int        `json:"peer"`
	Tamper []vc07Tamper `json:"tamper"`
	Dup    bool         `json:"dup,omitempty"`
	Shape  string       `json:"shape,omitempty"`
	// universe
	Bits  int         `json:"bits,omitempty"`
	Hk    []uint64    `json:"hk,omitempty"`
	C0    []uint32    `json:"c0,omitempty"`
	Chain [][2]uint32 `json:"chain,omitempty"`
}

func vc07Ref(v int) hash.SHA256Hash {
	var h hash.SHA256Hash
	h[31] = byte(v)
	h[30] = byte(v >> 8)
	return h
}

func vc07Val(h hash.SHA256Hash) string {
	for i := 0; i < 30; i++ {
		if h[i] != 0 {
			return "x" + h.String()
		}
	}
	return strconv.Itoa(int(h[30])<<8 | int(h[31]))
}

func vc07Table(n int) *Iblt {
	if n >= int(ibltK) {
		return NewIblt(n)
	}
	i := &Iblt{}
	_ = i.UnmarshalBinary(make([]byte, bucketBytes*n))
	return i
}

func vc07Digest(i *Iblt) uint64 {
	const p = (uint64(1) << 61) - 1
	mul := func(a, b uint64) uint64 { // (a*b) mod p without overflow: a,b < 2^61
		var r uint64
		a %= p
		for b > 0 {
			if b&1 == 1 {
				r = (r + a) % p
			}
			a = (a * 2) % p
			b >>= 1
		}
		return r
	}
	acc := uint64(0)
	step := func(x uint64) { acc = (mul(acc, 1000003) + x%p) % p }
	for j := range i.buckets {
		b := &i.buckets[j]
		step(uint64(uint32(b.count)))
		step(b.hashSum)
		var ks uint64
		for _, by := range b.keySum[24:] {
			ks = ks<<8 | uint64(by)
		}
		step(ks)
	}
	return acc
}

// the members of the short cycles of next -> murmur3.SeedSum32(ibltHk, next) (fixed point, 2-cycle, 3-cycle; repo commit f733621)
var vc07Cycle = []uint32{4101757383, 2381736504, 3264639879, 1532747441, 4107318918, 2685067771}

func vc07Inv32(x uint32) uint32 { // inverse of an odd number mod 2^32 (Newton)
	inv := x
	for i := 0; i < 6; i++ {
		inv *= 2 - x*inv
	}
	return inv
}

func vc07Rotr(x uint32, r uint) uint32 { return x>>r | x<<(32-r) }

// vc07Preimage returns a 64-bit key hash h whose 8 little-endian bytes murmur3-32 (seed ibltHk) to target: first block 0,
// second block solved by inverting the finalizer and the block mix (every step of murmur3_32 is a bijection on uint32)
func vc07Preimage(target uint32) (uint64, bool) {
	const c1, c2 = uint32(0xcc9e2d51), uint32(0x1b873593)
	h := target
	h ^= h >> 16
	h *= vc07Inv32(0xc2b2ae35)
	h ^= h >> 13
	h ^= h >> 26
	h *= vc07Inv32(0x85ebca6b)
	h ^= h >> 16
	h ^= 8 // length
	// state after block 1 (k1 = 0): h1 = rotl(seed,13)*5 + n
	h1 := ibltHk
	h1 = (h1<<13 | h1>>19)
	h1 = h1*5 + 0xe6546b64
	// h = rotl(h1 ^ k, 13)*5 + n
	x := (h - 0xe6546b64) * vc07Inv32(5)
	x = vc07Rotr(x, 13)
	k := x ^ h1
	k *= vc07Inv32(c2)
	k = vc07Rotr(k, 15)
	k *= vc07Inv32(c1)
	res := uint64(k) << 32
	buf := make([]byte, 8)
	byteOrder.PutUint64(buf, res)
	return res, murmur3.SeedSum32(ibltHk, buf) == target
}

func vc07Universe() vc07Op {
	u := vc07Op{Op: "ibltuni", Bits: vc07Bits}
	i := NewIblt(8)
	seen := map[uint32]bool{}
	buf8, buf4 := make([]byte, 8), make([]byte, 4)
	for v := 0; v < 1<<vc07Bits; v++ {
		hk := i.hashKey(vc07Ref(v))
		u.Hk = append(u.Hk, hk)
		byteOrder.PutUint64(buf8, hk)
		next := murmur3.SeedSum32(ibltHk, buf8)
		u.C0 = append(u.C0, next)
		for s := 0; s < ibltMaxChain; s++ {
			if seen[next] {
				break
			}
			seen[next] = true
			byteOrder.PutUint32(buf4, next)
			nn := murmur3.SeedSum32(ibltHk, buf4)
			u.Chain = append(u.Chain, [2]uint32{next, nn})
			next = nn
		}
	}
	// key hashes whose chain starts on a short cycle: bucketIndices must fall back to linear probing
	for _, c := range vc07Cycle {
		if h, ok := vc07Preimage(c); ok {
			u.Xh = append(u.Xh, [2]uint64{h, uint64(c)})
			next := c
			for s := 0; s < 4; s++ {
				if seen[next] {
					break
				}
				seen[next] = true
				byteOrder.PutUint32(buf4, next)
				nn := murmur3.SeedSum32(ibltHk, buf4)
				u.Chain = append(u.Chain, [2]uint32{next, nn})
				next = nn
			}
		}
	}
	return u
}

func vc07List(vs []hash.SHA256Hash) string {
	s := make([]string, len(vs))
	for i, v := range vs {
		s[i] = vc07Val(v)
	}
	return "[" + strings.Join(s, ",") + "]"
}

func vc07Run(op *vc07Op) (line string) {
	defer func() {
		if r := recover(); r != nil {
			line = fmt.Sprintf("%s panic:%v", op.Op, r)
		}
	}()
	switch op.Op {
	case "ibltuni":
		return fmt.Sprintf("ibltuni keys=%d chain=%d", len(op.Hk), len(op.Chain))
	case "bidx":
		i := vc07Table(op.N)
		kh := op.H
		if kh == 0 {
			kh = i.hashKey(vc07Ref(op.V))
		}
		idx := i.bucketIndices(kh)
		s := make([]string, len(idx))
		for j, x := range idx {
			s[j] = strconv.Itoa(int(x))
		}
		return "bidx [" + strings.Join(s, ",") + "]"
	case "iblt":
		local := vc07Table(op.N)
		for _, v := range op.Loc {
			local.Insert(vc07Ref(v))
		}
		peer := vc07Table(op.Pn)
		for _, v := range op.Peer {
			peer.Insert(vc07Ref(v))
		}
		for _, t := range op.Tamper {
			if t.I < len(peer.buckets) {
				b := &peer.buckets[t.I]
				b.count += t.Dc
				b.hashSum ^= t.Hx
				b.keySum = b.keySum.Xor(vc07Ref(t.Kx))
			}
		}
		// over the wire, as handleTransactionSet receives it
		bs, _ := peer.MarshalBinary()
		wire := NewIblt(1024)
		if err := wire.UnmarshalBinary(bs); err != nil {
			return "iblt unmarshal-err"
		}
		head := fmt.Sprintf("iblt enc=%d penc=%d", vc07Digest(local), vc07Digest(wire))
		if err := local.Subtract(wire); err != nil {
			return head + " sub=err"
		}
		rem, mis, err := local.Decode()
		switch {
		case err == nil:
			return head + " sub=ok res=ok rem=" + vc07List(rem) + " mis=" + vc07List(mis)
		case errors.Is(err, ErrDecodeNotPossible):
			return head + " sub=ok res=fail rem=" + vc07List(rem) + " mis=" + vc07List(mis)
		case errors.Is(err, ErrDecodeLoop):
			return head + " sub=ok res=loop rem=[] mis=[]"
		}
		return head + " sub=ok res=err:" + err.Error()
	}
	return "bad-op:" + op.Op
}

func vc07Pick(rng *rand.Rand, k int, from []int) []int {
	p := rng.Perm(len(from))
	if k > len(from) {
		k = len(from)
	}
	out := make([]int, k)
	for i := 0; i < k; i++ {
		out[i] = from[p[i]]
	}
	return out
}

func vc07Gen(rng *rand.Rand, uni *vc07Op, idx int) vc07Op {
	ns := []int{1, 2, 3, 5, 6, 7, 8, 8, 12, 12, 16, 16, 32, 32, 64, 1024, 1024, 1024}
	n := ns[rng.Intn(len(ns))]
	op := vc07Op{Op: "iblt", N: n, Pn: n, Loc: []int{}, Peer: []int{}, Tamper: []vc07Tamper{}}
	all := rng.Perm(1 << vc07Bits)
	maxDiff := 3
	switch {
	case n >= 1024:
		maxDiff = 80
	case n >= 32:
		maxDiff = 12
	case n >= 12:
		maxDiff = 5
	}
	common := all[:rng.Intn(60)]
	rest := all[60:]
	shapes := []string{"equal", "reordered", "disjoint", "peer-superset", "loc-superset", "one-missing", "one-remaining", "mixed", "mixed", "mixed", "large", "empty-loc", "empty-peer", "both-empty"}
	op.Shape = shapes[idx%len(shapes)]
	a := rng.Intn(maxDiff + 1)
	b := rng.Intn(maxDiff + 1)
	switch op.Shape {
	case "equal":
		a, b = 0, 0
	case "reordered":
		a, b = 0, 0
	case "disjoint":
		common = nil
		a, b = 1+rng.Intn(maxDiff), 1+rng.Intn(maxDiff)
	case "peer-superset":
		a = 0
		b = 1 + rng.Intn(maxDiff)
	case "loc-superset":
		b = 0
		a = 1 + rng.Intn(maxDiff)
	case "one-missing":
		a, b = 0, 1
	case "one-remaining":
		a, b = 1, 0
	case "mixed":
		a, b = 1+rng.Intn(maxDiff), 1+rng.Intn(maxDiff)
	case "large":
		a, b = maxDiff+rng.Intn(2*maxDiff+1), maxDiff+rng.Intn(2*maxDiff+1)
	case "empty-loc":
		common = nil
		a = 0
	case "empty-peer":
		common = nil
		b = 0
	case "both-empty":
		common = nil
		a, b = 0, 0
	}
	if a+b > len(rest) {
		a, b = len(rest)/2, len(rest)/2
	}
	op.Loc = append(append(op.Loc, common...), rest[:a]...)
	op.Peer = append(append(op.Peer, common...), rest[a:a+b]...)
	rng.Shuffle(len(op.Loc), func(i, j int) { op.Loc[i], op.Loc[j] = op.Loc[j], op.Loc[i] })
	if op.Shape != "equal" {
		rng.Shuffle(len(op.Peer), func(i, j int) { op.Peer[i], op.Peer[j] = op.Peer[j], op.Peer[i] })
	}
	r := rng.Intn(100)
	switch {
	case r < 5: // different bucket count on the wire
		pns := []int{0, 1, n + 1, n - 1, 6, 1024}
		op.Pn = pns[rng.Intn(len(pns))]
		if op.Pn < 0 {
			op.Pn = 0
		}
		if op.Pn == 0 {
			op.Peer = []int{}
		}
	case r < 8: // duplicates inside a list (never produced by State.IBLT; excluded from the exactness oracle)
		op.Dup = true
		if len(op.Loc) > 0 && rng.Intn(2) == 0 {
			op.Loc = append(op.Loc, op.Loc[rng.Intn(len(op.Loc))])
		} else if len(op.Peer) > 0 {
			op.Peer = append(op.Peer, op.Peer[rng.Intn(len(op.Peer))])
		} else {
			op.Loc = []int{7, 7}
		}
	case r < 16: // forged pure-looking bucket: key v with its true hash in ONE of its buckets only -> peeled, re-appears negated elsewhere
		v := rest[len(rest)-1]
		i := vc07Table(n)
		ix := i.bucketIndices(uni.Hk[v])
		dc := int32(1)
		if rng.Intn(2) == 0 {
			dc = -1
		}
		op.Tamper = append(op.Tamper, vc07Tamper{I: int(ix[rng.Intn(len(ix))]), Dc: dc, Hx: uni.Hk[v], Kx: v})
	case r < 22: // garbage bucket edits
		for k := 0; k <= rng.Intn(2); k++ {
			op.Tamper = append(op.Tamper, vc07Tamper{I: rng.Intn(n + 1), Dc: int32(rng.Intn(5) - 2), Hx: uni.Hk[rng.Intn(len(uni.Hk))] ^ uint64(rng.Intn(2)), Kx: rng.Intn(1 << vc07Bits)})
		}
	}
	return op
}

func TestVerifC07Iblt(t *testing.T) {
	out := os.Getenv("VERIF_OUT")
	if out == "" {
		t.Skip("VERIF_OUT not set")
	}
	seed, _ := strconv.ParseInt(os.Getenv("VERIF_SEED"), 10, 64)
	rng := rand.New(rand.NewSource(seed*7919 + 707))
	uni := vc07Universe()
	var ops []vc07Op
	ops = append(ops, uni)
	addFile := func(p string) {
		f, err := os.Open(p)
		if err != nil {
			return
		}
		defer f.Close()
		sc := bufio.NewScanner(f)
		sc.Buffer(make([]byte, 1<<20), 1<<26)
		for sc.Scan() {
			l := strings.TrimSpace(sc.Text())
			if l == "" {
				continue
			}
			var op vc07Op
			if json.Unmarshal([]byte(l), &op) == nil && (op.Op == "iblt" || op.Op == "bidx") {
				if op.Loc == nil {
					op.Loc = []int{}
				}
				if op.Peer == nil {
					op.Peer = []int{}
				}
				if op.Tamper == nil {
					op.Tamper = []vc07Tamper{}
				}
				ops = append(ops, op)
			}
		}
	}
	if rp := os.Getenv("VERIF_REPLAY"); rp != "" {
		addFile(rp)
	} else {
		if dir := os.Getenv("VERIF_CORPUS"); dir != "" {
			files, _ := filepath.Glob(filepath.Join(dir, "iblt-*.jsonl"))
			for _, f := range files {
				addFile(f)
			}
		}
		nIblt, nIdx := 420, 160
		if os.Getenv("VERIF_TIER") == "thorough" {
			nIblt, nIdx = 3000, 700
		}
		bn := []int{1, 2, 3, 4, 5, 6, 7, 8, 12, 16, 64, 1024}
		for i := 0; i < nIdx; i++ {
			ops = append(ops, vc07Op{Op: "bidx", N: bn[i%len(bn)], V: rng.Intn(1 << vc07Bits), Loc: []int{}, Peer: []int{}, Tamper: []vc07Tamper{}})
		}
		for _, xh := range uni.Xh {
			for _, n := range []int{1, 2, 3, 5, 6, 7, 8, 16, 64, 1024} {
				ops = append(ops, vc07Op{Op: "bidx", N: n, H: xh[0], Loc: []int{}, Peer: []int{}, Tamper: []vc07Tamper{}})
			}
		}
		for i := 0; i < nIblt; i++ {
			ops = append(ops, vc07Gen(rng, &uni, i))
		}
	}
	fo, _ := os.Create(filepath.Join(out, "ops.jsonl"))
	fi, _ := os.Create(filepath.Join(out, "impl.out"))
	wo, wi := bufio.NewWriter(fo), bufio.NewWriter(fi)
	for i := range ops {
		b, _ := json.Marshal(&ops[i])
		wo.Write(b)
		wo.WriteByte('\n')
		wi.WriteString(vc07Run(&ops[i]))
		wi.WriteByte('\n')
	}
	wo.Flush()
	wi.Flush()
	fo.Close()
	fi.Close()
}
