//go:build verif

// C14 correspondence harness (injected with `go test -overlay`; never written into /repo).
// Real `state` + real persistent notifiers on a bbolt file, scripted receivers, deterministic stepping of the
// real retry goroutines (they are parked in a KVStore wrapper right before each shelf read of notifyNow = "the
// timer has not fired yet"), stop injection (failed commit, dropped AfterCommit callbacks, panic inside a
// receiver, failed Finished write), then the generation is killed, the file reopened and Run called.
package dag

import (
	"bufio"
	"bytes"
	"context"
	"encoding/json"
	"errors"
	"fmt"
	"io"
	"math/rand"
	"os"
	"path/filepath"
	"runtime"
	"sort"
	"strconv"
	"strings"
	"sync"
	"testing"
	"time"

	"github.com/nuts-foundation/go-stoabs"
	"github.com/nuts-foundation/go-stoabs/bbolt"
	"github.com/nuts-foundation/nuts-node/crypto/hash"
	"github.com/nuts-foundation/nuts-node/jsonld"
	"github.com/sirupsen/logrus"
)

// ---------------------------------------------------------------- op format

type c14Filter struct {
	Type  string `json:"type,omitempty"` // "tx" | "payload" | ""
	PAL   bool   `json:"pal,omitempty"`
	PType string `json:"ptype,omitempty"`
}
type c14Sub struct {
	Name    string      `json:"name"`
	Filters []c14Filter `json:"filters"`
}
type c14TxAttr struct {
	PAL   bool   `json:"pal"`
	PType string `json:"ptype"`
	PNum  uint32 `json:"pnum"`
	Root  bool   `json:"root"`
}
type c14Beh struct {
	S    int      `json:"s"`
	R    int      `json:"r"`
	O    []string `json:"o"`
	Rest string   `json:"rest"`
}
type c14Op struct {
	Op   string      `json:"op"`
	Subs []c14Sub    `json:"subs,omitempty"`
	Txs  []c14TxAttr `json:"txs,omitempty"`
	// reset
	NSubs int      `json:"nsubs,omitempty"`
	Beh   []c14Beh `json:"beh,omitempty"`
	Hist  int      `json:"hist,omitempty"`
	Kind  string   `json:"kind,omitempty"`
	// add / wp / fin / fire
	Ref        int     `json:"ref"`
	S          int     `json:"s"`
	Payload    bool    `json:"payload,omitempty"`
	Reject     bool    `json:"reject,omitempty"`
	Mismatch   bool    `json:"mismatch,omitempty"`
	CommitFail bool    `json:"commitFail,omitempty"`
	Drop       bool    `json:"drop,omitempty"`
	Fail       bool    `json:"fail,omitempty"`
	FailShelf  *int    `json:"failShelf,omitempty"` // storage fault on THIS subscriber's job shelf inside the write transaction
	Orders     [][]int `json:"orders,omitempty"`
	Order      []int   `json:"order,omitempty"`
	// timing: real sleeping of one retry loop
	DNs    int64   `json:"dNs,omitempty"`
	K      int     `json:"k,omitempty"` // timing: failures already recorded in the job when the node is (re)started
	GapsNs []int64 `json:"gapsNs,omitempty"`
}

var c14Subs = []c14Sub{
	{"nats", []c14Filter{{Type: "payload"}}},
	{"private", []c14Filter{{Type: "tx", PAL: true}}},
	{"vdr", []c14Filter{{Type: "payload", PType: "application/did+json"}}},
	{"vcr_vcs", []c14Filter{{Type: "payload", PType: "application/vc+json"}}},
	{"vcr_revocations", []c14Filter{{Type: "payload", PType: "application/ld+json;type=revocation"}}},
	{"untyped", []c14Filter{{}}}, // hostile extra registration without a type filter (only in nsubs=6 histories)
}

const c14Private = 1

var c14Outcomes = []string{"done", "doneFinishFail", "notDone", "notDoneFin", "fail", "failCtx", "fatal", "crash"}

// ---------------------------------------------------------------- sentinel values

type c14Stop struct{}

var errC14Dead = errors.New("c14: store of a stopped node")
var errC14Probe = errors.New("c14: probe")
var errC14Injected = errors.New("c14: injected storage failure")

func c14Goid() uint64 {
	var buf [64]byte
	n := runtime.Stack(buf[:], false)
	f := strings.Fields(string(buf[:n]))
	id, _ := strconv.ParseUint(f[1], 10, 64)
	return id
}

// ---------------------------------------------------------------- generation = one process incarnation

type c14Park struct {
	s, r    int
	release chan bool
	flight  *c14Flight
}
type c14Flight struct {
	s, r    int
	state   string // "" (running) | "parked" | "ended" | "crashed"
	outcome string
}
type c14Gen struct {
	h         *c14H
	rw        sync.RWMutex // read: an inner store call is in flight; write: kill
	killOnce  sync.Once
	dead      bool
	inner     stoabs.KVStore
	store     *c14Store
	st        *state
	notifiers []Notifier
	parked    []*c14Park
	nParked   int // total number of park events
	failCommit, dropAfter bool
	failShelf    string
	failShelfHit bool
	phaseAfter bool
	orders    [][]int
	lastType  string
	mode      string // "notify" | "run"
	expect    int    // spawns expected by the harness goroutine ops since last sync
}

type c14Store struct{ g *c14Gen }

func (w *c14Store) enter() error {
	w.g.rw.RLock()
	if w.g.dead {
		w.g.rw.RUnlock()
		return errC14Dead
	}
	return nil
}
func (w *c14Store) Close(ctx context.Context) error { return nil }

type c14Tx struct {
	stoabs.WriteTx
	w *c14Store
}

func (t *c14Tx) Store() stoabs.KVStore { return t.w }

// a storage fault on one subscriber's job shelf (armed per op): every access through this writer fails
func (t *c14Tx) GetShelfWriter(shelfName string) stoabs.Writer {
	if t.w.g.failShelf != "" && shelfName == t.w.g.failShelf {
		t.w.g.failShelfHit = true
		return stoabs.NewErrorWriter(errC14Injected)
	}
	return t.WriteTx.GetShelfWriter(shelfName)
}

type c14RTx struct {
	stoabs.ReadTx
	w *c14Store
}

func (t *c14RTx) Store() stoabs.KVStore { return t.w }

func (w *c14Store) Write(ctx context.Context, fn func(stoabs.WriteTx) error, opts ...stoabs.TxOption) error {
	g := w.g
	if err := w.enter(); err != nil {
		return err
	}
	var after, rest []stoabs.TxOption
	for _, o := range opts {
		if _, ok := o.(*stoabs.AfterCommitOption); ok {
			after = append(after, o)
		} else {
			rest = append(rest, o)
		}
	}
	failCommit := g.failCommit
	g.failCommit = false
	err := g.inner.Write(ctx, func(tx stoabs.WriteTx) error {
		if err := fn(&c14Tx{tx, w}); err != nil {
			return err
		}
		if failCommit {
			return errC14Injected
		}
		return nil
	}, rest...)
	g.rw.RUnlock()
	if err != nil {
		return err
	}
	if g.dropAfter {
		g.dropAfter = false
		panic(c14Stop{}) // the node stops between commit and the AfterCommit callbacks
	}
	g.phaseAfter = true
	g.lastType = ""
	defer func() { g.phaseAfter = false }()
	stoabs.AfterCommitOption{}.Invoke(after)
	return nil
}

func (w *c14Store) Read(ctx context.Context, fn func(stoabs.ReadTx) error) error {
	if err := w.enter(); err != nil {
		return err
	}
	defer w.g.rw.RUnlock()
	return w.g.inner.Read(ctx, func(tx stoabs.ReadTx) error { return fn(&c14RTx{tx, w}) })
}

func (w *c14Store) WriteShelf(ctx context.Context, shelfName string, fn func(stoabs.Writer) error) error {
	g := w.g
	g.h.mu.Lock()
	fail := g.h.failNextWrite
	g.h.failNextWrite = false
	fl := g.h.active
	g.h.mu.Unlock()
	if fail {
		return errC14Injected
	}
	if err := w.enter(); err != nil {
		return err
	}
	err := g.inner.WriteShelf(ctx, shelfName, fn)
	g.rw.RUnlock()
	if err == nil && fl != nil && fl.outcome == "done" {
		g.h.mu.Lock()
		fl.state = "ended" // Finished wrote the delete: notifyNow returns nil, retry.Do returns
		g.h.mu.Unlock()
	}
	return err
}

type c14ProbeReader struct {
	stoabs.NilReader
	key []byte
}

func (p *c14ProbeReader) Get(key stoabs.Key) ([]byte, error) {
	p.key = append([]byte{}, key.Bytes()...)
	return nil, errC14Probe
}

type c14WatchReader struct {
	stoabs.Reader
	notFound bool
}

func (p *c14WatchReader) Get(key stoabs.Key) ([]byte, error) {
	d, err := p.Reader.Get(key)
	if errors.Is(err, stoabs.ErrKeyNotFound) {
		p.notFound = true
	}
	return d, err
}

func (w *c14Store) ReadShelf(ctx context.Context, shelfName string, fn func(stoabs.Reader) error) error {
	g := w.g
	g.h.mu.Lock()
	fl := g.h.active
	g.h.mu.Unlock()
	// no timer has been fired: the caller is the harness goroutine (Notify/Run/GetFailedEvents) or a retry goroutine
	// that was just started; a timer has been fired: the harness waits, the caller is that retry goroutine
	if fl == nil && c14Goid() == g.h.gid {
		if g.injectReadFault(ctx, shelfName, fn, nil) {
			return stoabs.DatabaseError(errC14Injected)
		}
		if err := w.enter(); err != nil {
			return err
		}
		defer g.rw.RUnlock()
		return g.inner.ReadShelf(ctx, shelfName, fn)
	}
	// a retry goroutine is about to read its job: find out which one, then park until the harness fires the timer
	probe := &c14ProbeReader{}
	_ = fn(probe)
	s := g.h.subOfShelf(shelfName)
	r := -1
	if probe.key != nil {
		r = g.h.refIndex(hash.FromSlice(probe.key))
	}
	pk := &c14Park{s: s, r: r, release: make(chan bool, 1)}
	g.h.mu.Lock()
	if g.dead {
		g.h.mu.Unlock()
		return errC14Dead
	}
	if fl != nil && g.h.active == fl && fl.state == "" {
		fl.state = "parked"
	}
	g.parked = append(g.parked, pk)
	g.nParked++
	g.h.mu.Unlock()
	if !<-pk.release {
		return errC14Dead
	}
	if g.injectReadFault(ctx, shelfName, fn, pk.flight) {
		return stoabs.DatabaseError(errC14Injected)
	}
	if err := w.enter(); err != nil {
		return err
	}
	wr := &c14WatchReader{}
	err := g.inner.ReadShelf(ctx, shelfName, func(rd stoabs.Reader) error {
		wr.Reader = rd
		return fn(wr)
	})
	g.rw.RUnlock()
	if wr.notFound {
		g.h.mu.Lock()
		if fl := g.h.active; fl != nil && fl.state == "" {
			fl.state = "ended" // job gone: notifyNow returns nil
		}
		g.h.mu.Unlock()
	}
	return err
}

// kill stops the node: nothing of this generation touches the file any more; the file is closed.
// Safe to call from several goroutines (later callers wait for the first to finish).
// injectReadFault: the scripted outcome of the next attempt for this job is "readFault" - notifyNow cannot read its job
// (a transient store fault): the attempt is logged, the receiver is not reached. fl == nil: harness goroutine (Notify/Run).
func (g *c14Gen) injectReadFault(ctx context.Context, shelfName string, fn func(stoabs.Reader) error, fl *c14Flight) bool {
	h := g.h
	s := h.subOfShelf(shelfName)
	if s < 0 || s >= h.nsubs {
		return false
	}
	probe := &c14ProbeReader{}
	_ = fn(probe)
	if probe.key == nil {
		return false // Run / GetFailedEvents iterate
	}
	r := h.refIndex(hash.FromSlice(probe.key))
	if r < 0 {
		return false
	}
	h.mu.Lock()
	k := h.attempt[[2]int{s, r}]
	o := h.outcome(s, r, k)
	h.mu.Unlock()
	if o != "readFault" {
		return false
	}
	// the job as it is on the shelf (for the log); no job: notifyNow would return nil, nothing is consumed
	ev := struct {
		Type    string `json:"type"`
		Retries int    `json:"retries"`
	}{}
	found := false
	if err := g.store.enter(); err != nil {
		return false
	}
	_ = g.inner.ReadShelf(ctx, shelfName, func(rd stoabs.Reader) error {
		v, err := rd.Get(stoabs.BytesKey(probe.key))
		if err == nil && json.Unmarshal(v, &ev) == nil {
			found = true
		}
		return nil
	})
	g.rw.RUnlock()
	if !found {
		return false
	}
	h.mu.Lock()
	h.attempt[[2]int{s, r}] = k + 1
	h.ledger = append(h.ledger, fmt.Sprintf("%d.%d:%s:%d:%s", s, r, c14TypeName(ev.Type), ev.Retries, o))
	h.calls = append(h.calls, [3]int{s, r, k})
	h.callOut = append(h.callOut, o)
	if fl != nil {
		fl.outcome = o
	} else if g.mode != "run" || ev.Retries+1 < maxRetries {
		g.expect++ // Notify reschedules every non-fatal error; Run those with Retries < maxRetries
	}
	h.mu.Unlock()
	return true
}

func (g *c14Gen) kill() {
	g.killOnce.Do(func() {
		g.rw.Lock()
		g.dead = true
		g.rw.Unlock()
		g.h.mu.Lock()
		pk := g.parked
		g.parked = nil
		g.h.mu.Unlock()
		for _, p := range pk {
			p.release <- false
		}
		for _, n := range g.notifiers {
			_ = n.Close()
		}
		_ = g.inner.Close(context.Background())
	})
}

// ---------------------------------------------------------------- harness

type c14Tx0 struct {
	tx      Transaction
	payload []byte
	attr    c14TxAttr
}
type c14H struct {
	t       *testing.T
	mu      sync.Mutex
	active  *c14Flight // the retry goroutine whose timer was fired and that has not parked/ended yet (the harness waits)
	failNextWrite bool // the next WriteShelf fails
	gid     uint64
	pool    []c14Tx0
	refIdx  map[hash.SHA256Hash]int
	dir     string
	dbPath  string
	nsubs   int
	beh     map[[2]int]c14Beh
	attempt map[[2]int]int
	ledger  []string
	g       *c14Gen
	reject  bool
	nDB     int
	timedOut bool
	full    bool
	calls   []([3]int) // (s, r, attempt#) of every receiver call of the current history
	callOut []string
}

func (h *c14H) subOfShelf(shelf string) int {
	for i, s := range c14Subs {
		if shelf == "_"+s.Name+"_jobs" {
			return i
		}
	}
	return -1
}
func (h *c14H) refIndex(ref hash.SHA256Hash) int {
	if i, ok := h.refIdx[ref]; ok {
		return i
	}
	return -1
}

func c14FilterFn(fs []c14Filter) func(Event) bool {
	return func(ev Event) bool {
		for _, f := range fs {
			if f.Type == "tx" && ev.Type != TransactionEventType {
				return false
			}
			if f.Type == "payload" && ev.Type != PayloadEventType {
				return false
			}
			if f.PAL && ev.Transaction.PAL() == nil {
				return false
			}
			if f.PType != "" && ev.Transaction.PayloadType() != f.PType {
				return false
			}
		}
		return true
	}
}

func c14TypeName(t string) string {
	if t == TransactionEventType {
		return "tx"
	}
	if t == PayloadEventType {
		return "payload"
	}
	return "?" + t
}

func (h *c14H) outcome(s, r, k int) string {
	b, ok := h.beh[[2]int{s, r}]
	if !ok {
		return "done"
	}
	if k < len(b.O) {
		return b.O[k]
	}
	return b.Rest
}

// newGen opens the bbolt file and builds state + notifiers the way Network.Configure / the engines do
func (h *c14H) newGen() {
	inner, err := bbolt.CreateBBoltStore(h.dbPath, stoabs.WithNoSync())
	if err != nil {
		h.t.Fatal(err)
	}
	g := &c14Gen{h: h, inner: inner}
	g.store = &c14Store{g}
	st, err := NewState(g.store, func(tx stoabs.ReadTx, transaction Transaction) error {
		if h.reject {
			return errors.New("scripted reject")
		}
		return nil
	})
	if err != nil {
		h.t.Fatal(err)
	}
	g.st = st.(*state)
	g.st.loadState(context.Background())
	for i := 0; i < h.nsubs; i++ {
		i := i
		sub := c14Subs[i]
		f := c14FilterFn(sub.Filters)
		n, err := g.st.Notifier(sub.Name, func(ev Event) (bool, error) { return h.receive(g, i, ev) },
			WithPersistency(g.store), WithRetryDelay(time.Nanosecond),
			WithSelectionFilter(func(ev Event) bool {
				if g.phaseAfter && c14Goid() == h.gid {
					t := c14TypeName(ev.Type)
					if t != g.lastType {
						g.orders = append(g.orders, nil)
						g.lastType = t
					}
					g.orders[len(g.orders)-1] = append(g.orders[len(g.orders)-1], i)
				}
				return f(ev)
			}))
		if err != nil {
			h.t.Fatal(err)
		}
		g.notifiers = append(g.notifiers, n)
	}
	// the volatile gossip registration of protocol v2 (out of the property's scope; always succeeds)
	if _, err := g.st.Notifier("gossip", func(ev Event) (bool, error) { return true, nil },
		WithSelectionFilter(func(ev Event) bool { return ev.Type == TransactionEventType })); err != nil {
		h.t.Fatal(err)
	}
	h.g = g
}

func (h *c14H) receive(g *c14Gen, s int, ev Event) (bool, error) {
	r := h.refIndex(ev.Hash)
	g.h.mu.Lock()
	fl := h.active
	onHarness := fl == nil
	k := h.attempt[[2]int{s, r}]
	h.attempt[[2]int{s, r}] = k + 1
	o := h.outcome(s, r, k)
	// the delivered event must carry the transaction and (payload events) the payload, also when it was read back from
	// the shelf after a restart
	content := ""
	if r < 0 || ev.Transaction == nil || !ev.Transaction.Ref().Equals(ev.Hash) ||
		(ev.Type == PayloadEventType && !bytes.Equal(ev.Payload, h.pool[r].payload)) ||
		(ev.Type == TransactionEventType && len(ev.Payload) != 0 && !bytes.Equal(ev.Payload, h.pool[r].payload)) {
		content = "!content"
	}
	h.ledger = append(h.ledger, fmt.Sprintf("%d.%d:%s:%d:%s%s", s, r, c14TypeName(ev.Type), ev.Retries, o, content))
	h.calls = append(h.calls, [3]int{s, r, k})
	h.callOut = append(h.callOut, o)
	if fl != nil {
		fl.outcome = o
	}
	if onHarness && o != "crash" {
		spawn := false
		if g.mode == "run" {
			spawn = o != "done" && ev.Retries+1 < maxRetries
		} else {
			spawn = o != "done" && o != "fatal"
		}
		if spawn {
			g.expect++
		}
	}
	if o == "doneFinishFail" || o == "notDoneWriteFail" || o == "failWriteFail" {
		h.failNextWrite = true
	}
	g.h.mu.Unlock()
	switch o {
	case "done", "doneFinishFail":
		return true, nil
	case "notDone", "notDoneWriteFail", "readFault":
		// "readFault" reaches the receiver only when the implementation did not read the job before calling (the injected
		// fault sits in that read): behave as "not done"; the line differs from the model and the oracles judge the rest
		return false, nil
	case "failWriteFail":
		return false, errors.New("scripted failure")
	case "notDoneFin":
		// while the receiver runs, another goroutine finishes this very job (protocol v2: the payload reply is handled
		// - WritePayload, private.Finished - before handlePrivateTxRetry has returned)
		_ = g.notifiers[s].Finished(ev.Hash)
		return false, nil
	case "fail":
		return false, errors.New("scripted failure")
	case "failCtx":
		return false, fmt.Errorf("scripted: %w", jsonld.ContextURLNotAllowedErr)
	case "fatal":
		return false, EventFatal{Err: errors.New("scripted fatal")}
	case "crash":
		if onHarness {
			panic(c14Stop{})
		}
		g.kill()
		g.h.mu.Lock()
		fl.state = "crashed"
		g.h.mu.Unlock()
		return false, errC14Dead
	}
	panic("c14: unknown outcome " + o)
}

func (h *c14H) waitFor(what string, pred func() bool) bool {
	deadline := time.Now().Add(8 * time.Second)
	if h.timedOut {
		deadline = time.Now().Add(60 * time.Millisecond) // the implementation already failed to do what was expected once
	}
	for i := 0; ; i++ {
		h.mu.Lock()
		ok := pred()
		h.mu.Unlock()
		if ok {
			return true
		}
		if i < 200 {
			runtime.Gosched()
		} else {
			time.Sleep(50 * time.Microsecond)
		}
		if i%200 == 199 && time.Now().After(deadline) {
			h.timedOut = true
			return false
		}
	}
}

// syncSpawns waits until every retry goroutine the last op must have started is parked
func (h *c14H) syncSpawns(before int) string {
	g := h.g
	g.h.mu.Lock()
	want := before + g.expect
	g.expect = 0
	g.h.mu.Unlock()
	if !h.waitFor("spawn", func() bool { return g.nParked >= want }) {
		return "TIMEOUT-spawn"
	}
	return ""
}

func c14ErrClass(e string) string {
	switch {
	case e == "":
		return "none"
	case e == errEventIncomplete.Error():
		return "incomplete"
	case strings.HasSuffix(e, jsonld.ContextURLNotAllowedErr.Error()):
		return "ctx"
	case e == "scripted fatal":
		return "fatal"
	case e == "scripted failure":
		return "generic"
	}
	return "other(" + e + ")"
}

func (h *c14H) observe(status string, ledgerFrom int) string {
	g := h.g
	var sb strings.Builder
	sb.WriteString(status)
	sb.WriteString("|L:")
	sb.WriteString(strings.Join(h.ledger[ledgerFrom:], ","))
	sb.WriteString("|S:")
	var jobs, failed []string
	full := strings.HasPrefix(status, "end") || strings.HasPrefix(status, "reset") || h.full
	h.full = false
	near := make([]bool, h.nsubs)
	_ = g.inner.Read(context.Background(), func(tx stoabs.ReadTx) error {
		for s := 0; s < h.nsubs; s++ {
			s := s
			_ = tx.GetShelfReader("_"+c14Subs[s].Name+"_jobs").Iterate(func(k stoabs.Key, v []byte) error {
				// light-weight parse (the full Event parse verifies the JWS of the embedded transaction)
				ev := struct {
					Type    string `json:"type"`
					Retries int    `json:"retries"`
					Error   string `json:"error"`
				}{}
				if err := json.Unmarshal(v, &ev); err != nil {
					jobs = append(jobs, fmt.Sprintf("%d.?:unparsable", s))
					return nil
				}
				if ev.Retries >= retriesFailedThreshold-1 {
					near[s] = true
				}
				jobs = append(jobs, fmt.Sprintf("%d.%d:%s:%d:%s", s, h.refIndex(hash.FromSlice(k.Bytes())), c14TypeName(ev.Type), ev.Retries, c14ErrClass(ev.Error)))
				return nil
			}, stoabs.BytesKey{})
		}
		return nil
	})
	// the real GetFailedEvents: whenever a job is at or near the threshold, and on every end/reset/restart line
	for s := 0; s < h.nsubs; s++ {
		if near[s] || full {
			evs, err := g.notifiers[s].GetFailedEvents()
			if err != nil {
				failed = append(failed, fmt.Sprintf("%d:err", s))
			}
			for _, ev := range evs {
				failed = append(failed, fmt.Sprintf("%d.%d", s, h.refIndex(ev.Hash)))
			}
		}
	}
	// what the operator sees: the failed_events count of the state's diagnostics (asked whenever GetFailedEvents was)
	diag := 0
	asked := full
	for _, n := range near {
		asked = asked || n
	}
	if asked {
		diag = -1
		for _, d := range g.st.Diagnostics() {
			if d.Name() == "failed_events" {
				if v, ok := d.Result().(int); ok {
					diag = v
				}
			}
		}
	}
	failed = append(failed, fmt.Sprintf("d=%d", diag))
	sb.WriteString(strings.Join(jobs, ","))
	sb.WriteString("|F:")
	sb.WriteString(strings.Join(failed, ","))
	sb.WriteString("|T:")
	g.h.mu.Lock()
	var tasks []string
	for _, p := range g.parked {
		tasks = append(tasks, fmt.Sprintf("%03d.%03d", p.s, p.r))
	}
	g.h.mu.Unlock()
	sort.Strings(tasks)
	for i, t := range tasks {
		var a, b int
		fmt.Sscanf(t, "%d.%d", &a, &b)
		tasks[i] = fmt.Sprintf("%d.%d", a, b)
	}
	sb.WriteString(strings.Join(tasks, ","))
	return sb.String()
}

// guarded runs fn on the harness goroutine; a c14Stop panic (node stopped) is turned into stopped=true
func (h *c14H) guarded(fn func()) (stopped bool) {
	defer func() {
		if r := recover(); r != nil {
			if _, ok := r.(c14Stop); ok {
				stopped = true
				return
			}
			panic(r)
		}
	}()
	fn()
	return false
}

func (h *c14H) crashNow() {
	h.g.kill()
	h.newGen()
}

func (h *c14H) errStatus(err error) string {
	switch {
	case err == nil:
		return "ok"
	case strings.Contains(err.Error(), "scripted reject"):
		return "err:verify"
	case strings.Contains(err.Error(), "does not match hash of payload"):
		return "err:payloadhash"
	case errors.Is(err, errRootAlreadyExists):
		return "err:root"
	case errors.Is(err, errC14Injected):
		return "err:commit"
	case errors.Is(err, ErrTransactionNotFound):
		return "err:notfound"
	}
	return "err:other(" + err.Error() + ")"
}

func (h *c14H) exec(op *c14Op) string {
	from := len(h.ledger)
	ctx := context.Background()
	switch op.Op {
	case "config":
		if op.Subs != nil && len(op.Subs) > 0 {
			c14Subs = op.Subs
		}
		if h.g != nil {
			h.g.kill()
			h.g = nil
		}
		h.makePool(op.Txs)
		return "config"
	case "reset":
		if h.g != nil {
			h.g.kill()
			os.Remove(h.dbPath)
		}
		h.nDB++
		h.dbPath = filepath.Join(h.dir, fmt.Sprintf("dag%d.db", h.nDB))
		h.nsubs = op.NSubs
		h.beh = map[[2]int]c14Beh{}
		for _, b := range op.Beh {
			h.beh[[2]int{b.S, b.R}] = b
		}
		h.attempt = map[[2]int]int{}
		h.ledger = nil
		h.calls = nil
		h.callOut = nil
		h.newGen()
		return h.observe("reset", 0)
	case "add":
		if op.Ref < 0 || op.Ref >= len(h.pool) {
			return h.observe("invalid", from)
		}
		g := h.g
		p := h.pool[op.Ref]
		var payload []byte
		if op.Payload {
			payload = p.payload
			if op.Mismatch {
				payload = append([]byte{0xff}, payload...)
			}
		}
		h.reject = op.Reject
		g.failCommit, g.dropAfter = op.CommitFail, op.Drop
		g.failShelf, g.failShelfHit = "", false
		if op.FailShelf != nil && *op.FailShelf >= 0 && *op.FailShelf < h.nsubs {
			g.failShelf = "_" + c14Subs[*op.FailShelf].Name + "_jobs"
		}
		g.mode = "notify"
		g.orders = nil
		before := g.nParked
		var err error
		wasPresent, _ := g.st.IsPresent(ctx, p.tx.Ref())
		stopped := h.guarded(func() { err = g.st.Add(ctx, p.tx, payload) })
		h.reject = false
		g.failCommit, g.dropAfter = false, false
		g.failShelf = ""
		op.Orders = g.orders
		if stopped {
			h.crashNow()
			return h.observe("stop", from)
		}
		status := h.errStatus(err)
		if status == "err:commit" && !op.CommitFail && op.FailShelf != nil {
			status = "err:shelf"
		}
		if err == nil && wasPresent {
			status = "present"
		}
		if to := h.syncSpawns(before); to != "" {
			status += "+" + to
		}
		return h.observe(status, from)
	case "wp":
		// the three steps of protocol v2 handleTransactionPayload: GetTransaction, WritePayload, private.Finished
		if op.Ref < 0 || op.Ref >= len(h.pool) {
			return h.observe("invalid", from)
		}
		g := h.g
		p := h.pool[op.Ref]
		g.orders = nil
		tx, err := g.st.GetTransaction(ctx, p.tx.Ref())
		if err != nil {
			return h.observe(h.errStatus(err), from)
		}
		g.failCommit, g.dropAfter = op.CommitFail, op.Drop
		g.failShelf, g.failShelfHit = "", false
		if op.FailShelf != nil && *op.FailShelf >= 0 && *op.FailShelf < h.nsubs {
			g.failShelf = "_" + c14Subs[*op.FailShelf].Name + "_jobs"
		}
		g.mode = "notify"
		before := g.nParked
		stopped := h.guarded(func() { err = g.st.WritePayload(ctx, tx, hash.SHA256Sum(p.payload), p.payload) })
		g.failCommit, g.dropAfter = false, false
		g.failShelf = ""
		op.Orders = g.orders
		if stopped {
			h.crashNow()
			return h.observe("stop", from)
		}
		status := h.errStatus(err)
		if status == "err:commit" && !op.CommitFail && op.FailShelf != nil {
			status = "err:shelf"
		}
		if err == nil && h.nsubs > c14Private {
			if op.Fail {
				h.failNextWrite = true
			}
			if ferr := g.notifiers[c14Private].Finished(p.tx.Ref()); ferr != nil {
				status += "+finerr"
			}
		}
		if to := h.syncSpawns(before); to != "" {
			status += "+" + to
		}
		return h.observe(status, from)
	case "fin":
		g := h.g
		if op.S < 0 || op.S >= h.nsubs || op.Ref < 0 || op.Ref >= len(h.pool) {
			return h.observe("invalid", from)
		}
		if op.Fail {
			h.failNextWrite = true
		}
		status := "ok"
		if err := g.notifiers[op.S].Finished(h.pool[op.Ref].tx.Ref()); err != nil {
			status = "finerr"
		}
		return h.observe(status, from)
	case "fire":
		g := h.g
		g.h.mu.Lock()
		var pk *c14Park
		for i, p := range g.parked {
			if p.s == op.S && p.r == op.Ref {
				pk = p
				g.parked = append(g.parked[:i:i], g.parked[i+1:]...)
				break
			}
		}
		g.h.mu.Unlock()
		if pk == nil {
			return h.observe("notask", from)
		}
		fl := &c14Flight{s: op.S, r: op.Ref}
		pk.flight = fl
		h.mu.Lock()
		h.active = fl
		h.mu.Unlock()
		pk.release <- true
		ok := h.waitFor("fire", func() bool { return fl.state != "" })
		h.mu.Lock()
		h.active = nil
		h.mu.Unlock()
		if !ok {
			return h.observe("TIMEOUT-fire", from)
		}
		if fl.state == "crashed" {
			h.crashNow()
			return h.observe("stop", from)
		}
		return h.observe("fired", from)
	case "crash":
		h.crashNow()
		return h.observe("crashed", from)
	case "restart":
		g := h.g
		g.mode = "run"
		h.full = true
		before := g.nParked
		status := "ok"
		stopped := h.guarded(func() {
			for _, s := range op.Order {
				if s < 0 || s >= h.nsubs {
					continue
				}
				if err := g.notifiers[s].Run(); err != nil {
					status = "err:run"
				}
			}
		})
		if stopped {
			h.crashNow()
			return h.observe("stop", from)
		}
		if to := h.syncSpawns(before); to != "" {
			status += "+" + to
		}
		return h.observe(status, from)
	case "timing":
		return h.timing(op)
	case "end":
		// nothing may still be on its way: give unexpected goroutines a moment to show up
		time.Sleep(300 * time.Microsecond)
		return h.observe("end", from)
	}
	return "bad-op:" + op.Op
}


// timing runs ONE real retry loop with real sleeping (plain bbolt store, no stepping): a receiver that never completes
// records when it is called; the gaps between consecutive attempts of the loop are handed to the model, which checks
// them against its back-off function (lower bounds only: a sleep is never shorter than asked for).
func (h *c14H) timing(op *c14Op) string {
	want := 8
	if op.K > 0 {
		want = 4 // the sleeps after a restart start at retryDelay * 2^(k+1): a few are enough (and long)
	}
	if len(h.pool) == 0 {
		return "timing|no-pool"
	}
	path := filepath.Join(h.dir, fmt.Sprintf("timing%d.db", h.nDB))
	h.nDB++
	db, err := bbolt.CreateBBoltStore(path, stoabs.WithNoSync())
	if err != nil {
		return "timing|err:" + err.Error()
	}
	defer os.Remove(path)
	defer db.Close(context.Background())
	var mu sync.Mutex
	var times []time.Time
	n := NewNotifier("timing", func(ev Event) (bool, error) {
		mu.Lock()
		times = append(times, time.Now())
		mu.Unlock()
		return false, nil
	}, WithPersistency(db), WithRetryDelay(time.Duration(op.DNs)))
	defer n.Close()
	ev := Event{Type: TransactionEventType, Hash: h.pool[0].tx.Ref(), Transaction: h.pool[0].tx, Retries: op.K}
	if err := db.Write(context.Background(), func(tx stoabs.WriteTx) error { return n.Save(tx, ev) }); err != nil {
		return "timing|err:" + err.Error()
	}
	if op.K > 0 {
		// the job carries k recorded failures from before the stop: the node starts, Run resumes it
		if err := n.Run(); err != nil {
			return "timing|err:" + err.Error()
		}
	} else {
		n.Notify(ev)
	}
	deadline := time.Now().Add(20 * time.Second)
	for {
		mu.Lock()
		k := len(times)
		mu.Unlock()
		if k >= want+2 || time.Now().After(deadline) {
			break
		}
		time.Sleep(200 * time.Microsecond)
	}
	mu.Lock()
	defer mu.Unlock()
	op.GapsNs = nil
	// times[0]: Notify (or Run) itself; times[1]: first attempt of retry.Do (no sleep before it); then one sleep per attempt
	for i := 2; i < len(times) && i < want+2; i++ {
		op.GapsNs = append(op.GapsNs, int64(times[i].Sub(times[i-1])))
	}
	return fmt.Sprintf("timing|n=%d", len(op.GapsNs))
}

// ---------------------------------------------------------------- log hook: "Retry failed" = the retry goroutine ended with an error

type c14Hook struct{ h *c14H }

func (k c14Hook) Levels() []logrus.Level { return logrus.AllLevels }
func (k c14Hook) Fire(e *logrus.Entry) error {
	if e.Message != "Retry failed" {
		return nil
	}
	if err, ok := e.Data[logrus.ErrorKey].(error); ok && (errors.Is(err, errC14Dead) || errors.Is(err, context.Canceled)) {
		return nil // a goroutine of a stopped node
	}
	k.h.mu.Lock()
	if fl := k.h.active; fl != nil && fl.state == "" {
		fl.state = "ended"
	}
	k.h.mu.Unlock()
	return nil
}

// ---------------------------------------------------------------- pool of real signed transactions

func (h *c14H) makePool(attrs []c14TxAttr) {
	n := len(attrs)
	dummyRoot := CreateSignedTestTransaction(999999, time.Now(), nil, "foo/bar", true)
	h.pool = make([]c14Tx0, n)
	h.refIdx = map[hash.SHA256Hash]int{}
	for i, a := range attrs {
		lo, hi := i*256/n, (i+1)*256/n
		var pal [][]byte
		if a.PAL {
			pal = [][]byte{{1, 2, 3}}
		}
		var prevs []Transaction
		if !a.Root {
			prevs = []Transaction{dummyRoot}
		}
		for {
			tx := CreateSignedTestTransaction(a.PNum, time.Now(), pal, a.PType, true, prevs...)
			ref := tx.Ref()
			if b := int(ref[0]); b >= lo && b < hi {
				payload := []byte{byte(a.PNum >> 24), byte(a.PNum >> 16), byte(a.PNum >> 8), byte(a.PNum)}
				h.pool[i] = c14Tx0{tx: tx, payload: payload, attr: a}
				h.refIdx[ref] = i
				break
			}
		}
	}
}

func c14DefaultAttrs(rng *rand.Rand) []c14TxAttr {
	did, vc, rev := "application/did+json", "application/vc+json", "application/ld+json;type=revocation"
	a := []c14TxAttr{
		{false, did, 100, true}, {false, vc, 101, true}, {false, did, 102, false}, {true, did, 103, false},
		{false, vc, 104, false}, {true, vc, 105, false}, {false, rev, 106, false}, {true, rev, 107, false},
		{true, "foo/bar", 108, false}, {true, vc, 105, false},
	}
	rng.Shuffle(len(a), func(i, j int) { a[i], a[j] = a[j], a[i] })
	return a
}

// ---------------------------------------------------------------- generators

type c14Run struct {
	h    *c14H
	rng  *rand.Rand
	ops  *bufio.Writer
	impl *bufio.Writer
	nOps int
}

func (r *c14Run) emit(op *c14Op) string {
	line := r.h.exec(op)
	b, _ := json.Marshal(op)
	r.ops.Write(b)
	r.ops.WriteByte('\n')
	r.impl.WriteString(line)
	r.impl.WriteByte('\n')
	r.nOps++
	return line
}

func c14Stopped(line string) bool { return strings.HasPrefix(line, "stop|") }

func (r *c14Run) order() []int {
	o := r.rng.Perm(r.h.nsubs)
	return o
}

// afterStop: the node is down and has been re-created; Network.Start runs the notifiers (possibly stopping again)
func (r *c14Run) restart() {
	for i := 0; i < 6; i++ {
		if !c14Stopped(r.emit(&c14Op{Op: "restart", Order: r.order()})) {
			return
		}
	}
	// still stopping: give up on Run for this history (the behaviour table keeps crashing); leave as is
}

func (r *c14Run) parkedKeys() [][2]int {
	h := r.h
	h.mu.Lock()
	defer h.mu.Unlock()
	var k [][2]int
	for _, p := range h.g.parked {
		k = append(k, [2]int{p.s, p.r})
	}
	sort.Slice(k, func(i, j int) bool { return k[i][0] < k[j][0] || k[i][0] == k[j][0] && k[i][1] < k[j][1] })
	return k
}

func (r *c14Run) drain(limit int) {
	for i := 0; i < limit; i++ {
		k := r.parkedKeys()
		if len(k) == 0 {
			return
		}
		c := k[r.rng.Intn(len(k))]
		if c14Stopped(r.emit(&c14Op{Op: "fire", S: c[0], Ref: c[1]})) {
			r.restart()
		}
	}
}

var c14OutW = []struct {
	o string
	w int
}{{"done", 25}, {"notDone", 18}, {"fail", 25}, {"failCtx", 5}, {"fatal", 8}, {"doneFinishFail", 7}, {"crash", 3}, {"notDoneFin", 4}, {"readFault", 4}, {"notDoneWriteFail", 3}, {"failWriteFail", 3}}

func (r *c14Run) pickOutcome(allowFaults bool) string {
	for {
		t := 0
		for _, x := range c14OutW {
			t += x.w
		}
		v := r.rng.Intn(t)
		for _, x := range c14OutW {
			if v < x.w {
				if !allowFaults && (x.o == "crash" || x.o == "doneFinishFail" || x.o == "readFault" || x.o == "notDoneWriteFail" || x.o == "failWriteFail") {
					break
				}
				return x.o
			}
			v -= x.w
		}
	}
}

func (r *c14Run) genBeh(nsubs int, allowFaults bool) []c14Beh {
	var b []c14Beh
	for s := 0; s < nsubs; s++ {
		for ref := 0; ref < len(r.h.pool); ref++ {
			if r.rng.Intn(100) < 35 {
				continue
			}
			x := c14Beh{S: s, R: ref}
			for i, n := 0, r.rng.Intn(5); i < n; i++ {
				x.O = append(x.O, r.pickOutcome(allowFaults))
			}
			switch v := r.rng.Intn(100); {
			case v < 50:
				x.Rest = "done"
			case v < 70:
				x.Rest = "fail"
			case v < 75:
				// keeps failing with the unknown-json-ld-context text: the job climbs over the failed threshold AND is one
				// of those Run does not replay - it must stay on the shelf (visible as failed) across restarts
				x.Rest = "failCtx"
			case v < 90:
				x.Rest = "notDone"
			default:
				x.Rest = "fatal"
			}
			if x.O == nil {
				x.O = []string{}
			}
			b = append(b, x)
		}
	}
	return b
}

func (r *c14Run) genAdd(added map[int]bool, faults bool) *c14Op {
	h := r.h
	ref := r.rng.Intn(len(h.pool))
	if r.rng.Intn(100) < 70 {
		for i := 0; i < 6 && added[ref]; i++ {
			ref = r.rng.Intn(len(h.pool))
		}
	}
	op := &c14Op{Op: "add", Ref: ref}
	if h.pool[ref].attr.PAL {
		op.Payload = r.rng.Intn(100) < 15
	} else {
		op.Payload = r.rng.Intn(100) < 80
	}
	if faults {
		op.Reject = r.rng.Intn(100) < 5
		op.Mismatch = op.Payload && r.rng.Intn(100) < 5
		op.CommitFail = r.rng.Intn(100) < 5
		op.Drop = r.rng.Intn(100) < 4
		if !op.CommitFail && !op.Drop && r.rng.Intn(100) < 12 {
			f := r.rng.Intn(h.nsubs)
			op.FailShelf = &f
		}
	}
	added[ref] = true
	return op
}

func (r *c14Run) genWp(added map[int]bool, faults bool) *c14Op {
	h := r.h
	ref := r.rng.Intn(len(h.pool))
	for i := 0; i < 8 && !(added[ref] && h.pool[ref].attr.PAL) && r.rng.Intn(100) < 85; i++ {
		ref = r.rng.Intn(len(h.pool))
	}
	op := &c14Op{Op: "wp", Ref: ref}
	if faults {
		op.CommitFail = r.rng.Intn(100) < 5
		op.Drop = r.rng.Intn(100) < 4
		op.Fail = r.rng.Intn(100) < 5
		if !op.CommitFail && !op.Drop && r.rng.Intn(100) < 12 {
			f := r.rng.Intn(h.nsubs)
			op.FailShelf = &f
		}
	}
	return op
}

func (r *c14Run) randomHistory(hist int) {
	h := r.h
	nsubs := 5
	if r.rng.Intn(100) < 15 {
		nsubs = 6
	}
	// temporarily set pool-dependent things before reset
	r.emit(&c14Op{Op: "reset", NSubs: nsubs, Hist: hist, Kind: "random", Beh: r.genBeh(nsubs, true)})
	added := map[int]bool{}
	n := 15 + r.rng.Intn(25)
	for i := 0; i < n; i++ {
		var line string
		switch v := r.rng.Intn(100); {
		case v < 30:
			line = r.emit(r.genAdd(added, true))
		case v < 45:
			line = r.emit(r.genWp(added, true))
		case v < 80:
			k := r.parkedKeys()
			if len(k) > 0 && r.rng.Intn(100) < 92 {
				c := k[r.rng.Intn(len(k))]
				if r.rng.Intn(100) < 12 { // run this loop to its end
					for j := 0; j < 25; j++ {
						line = r.emit(&c14Op{Op: "fire", S: c[0], Ref: c[1]})
						if c14Stopped(line) || strings.HasPrefix(line, "notask") {
							break
						}
					}
				} else {
					line = r.emit(&c14Op{Op: "fire", S: c[0], Ref: c[1]})
				}
			} else {
				line = r.emit(&c14Op{Op: "fire", S: r.rng.Intn(nsubs), Ref: r.rng.Intn(len(h.pool))})
			}
		case v < 85:
			line = r.emit(&c14Op{Op: "fin", S: r.rng.Intn(nsubs), Ref: r.rng.Intn(len(h.pool)), Fail: r.rng.Intn(100) < 20})
		case v < 87:
			// Run on a live node (a second Network.Start, or Run of a notifier registered late): more retry loops per job
			line = r.emit(&c14Op{Op: "restart", Order: r.order()})
		case v < 94:
			r.emit(&c14Op{Op: "crash"})
			if r.rng.Intn(100) < 25 { // transactions arrive before Network.Start reaches the notifiers
				if c14Stopped(r.emit(r.genAdd(added, false))) {
					// cannot happen without faults unless a receiver stops the node
				}
			}
			r.restart()
		default:
			line = r.emit(r.genAdd(added, true))
		}
		if c14Stopped(line) {
			r.restart()
		}
	}
	if r.rng.Intn(100) < 50 {
		r.emit(&c14Op{Op: "crash"})
		r.restart()
	}
	r.drain(600)
	r.emit(&c14Op{Op: "end"})
}

// identicalPayload: two DISTINCT transactions with byte-identical payloads (same payload hash). Each of them must get its
// own payload event, on the Add path and on the WritePayload path, in either order, and duplicates of a payload message
// must not call anybody again - also across a restart.
func (r *c14Run) identicalPayload(hist int) {
	h := r.h
	a, b := -1, -1
	for i := range h.pool {
		for j := i + 1; j < len(h.pool); j++ {
			if h.pool[i].attr.PNum == h.pool[j].attr.PNum {
				a, b = i, j
			}
		}
	}
	if a < 0 {
		return
	}
	scripts := [][]*c14Op{
		// both payloads arrive later
		{{Op: "add", Ref: a}, {Op: "add", Ref: b}, {Op: "wp", Ref: a}, {Op: "wp", Ref: b}, {Op: "wp", Ref: b}, {Op: "wp", Ref: a}},
		// the first transaction brings its payload, the payload of the second arrives later
		{{Op: "add", Ref: a, Payload: true}, {Op: "add", Ref: b}, {Op: "wp", Ref: b}, {Op: "wp", Ref: b}},
		{{Op: "add", Ref: b, Payload: true}, {Op: "add", Ref: a}, {Op: "wp", Ref: a}, {Op: "crash"}, {Op: "restart", Order: []int{0, 1, 2, 3, 4}}, {Op: "wp", Ref: a}},
		// both arrive with their payload (Add path); a payload message for one of them afterwards
		{{Op: "add", Ref: a, Payload: true}, {Op: "add", Ref: b, Payload: true}, {Op: "wp", Ref: b}, {Op: "wp", Ref: a}},
		// the payload arrives, the node stops before the notification, restart, the duplicate arrives
		{{Op: "add", Ref: a}, {Op: "add", Ref: b}, {Op: "wp", Ref: a}, {Op: "wp", Ref: b, Drop: true}, {Op: "restart", Order: []int{4, 3, 2, 1, 0}}, {Op: "wp", Ref: b}},
	}
	for si, sc := range scripts {
		for v := 0; v < 2; v++ {
			var beh []c14Beh
			if v == 1 {
				beh = r.genBeh(5, false)
			}
			r.emit(&c14Op{Op: "reset", NSubs: 5, Hist: hist*100 + si*2 + v, Kind: "identical-payload", Beh: beh})
			for _, op0 := range sc {
				op := *op0
				if c14Stopped(r.emit(&op)) && op.Op != "restart" && !op.Drop {
					r.restart()
				}
			}
			r.drain(600)
			r.emit(&c14Op{Op: "end"})
		}
	}
}

// duplicate payload message: a private transaction whose payload arrives by WritePayload TWICE (two participants answer
// the payload query) while the payload job of a subscriber is (a) ended by a fatal error, (b) out of retry budget,
// (c) finished, (d) still retrying. State.WritePayload notifies after the commit only when it saved the event:
// the duplicate must not call anybody (no call after fatal / after the budget; no second retry loop).
func (r *c14Run) duplicatePayload(hist int) {
	h := r.h
	var private []int
	for i := range h.pool {
		a := h.pool[i].attr
		if a.PAL && !a.Root && a.PType != "foo/bar" {
			private = append(private, i)
		}
	}
	if len(private) == 0 {
		return
	}
	r.rng.Shuffle(len(private), func(i, j int) { private[i], private[j] = private[j], private[i] })
	x := private[0]
	rows := func(o []string, rest string, subs ...int) []c14Beh {
		var b []c14Beh
		for _, s := range subs {
			b = append(b, c14Beh{S: s, R: x, O: append([]string{}, o...), Rest: rest})
		}
		return b
	}
	all := []int{0, 2, 3, 4}
	type variant struct {
		name    string
		beh     []c14Beh
		fires   int  // timer firings between the first and the duplicate payload message
		restart bool // stop + restart before the duplicate
	}
	vs := []variant{
		{"fatal", rows(nil, "fatal", all...), 600, false},
		{"spent", rows(nil, "fail", all...), 600, false},
		{"spent-notDone", rows(nil, "notDone", all...), 600, false},
		{"finished", nil, 600, false},
		{"retrying", rows([]string{"fail", "notDone", "fail", "fail", "fail"}, "done", all...), 1 + r.rng.Intn(3), false},
		{"mixed", append(rows(nil, "fatal", 0), rows(nil, "fail", 2, 3, 4)...), 600, false},
		{"fatal-late", rows([]string{"fail", "fail"}, "fatal", all...), 600, false},
		{"spent-restart", rows(nil, "fail", all...), 600, true},
	}
	quick := os.Getenv("VERIF_TIER") != "thorough"
	for vi, v := range vs {
		if quick && (v.name == "spent-notDone" || v.name == "spent-restart" || v.name == "mixed") {
			continue // the quick tier keeps one budget-spent variant (each costs ~40 stepped timer firings)
		}
		r.emit(&c14Op{Op: "reset", NSubs: 5, Hist: hist*100 + vi, Kind: "duplicate-payload-" + v.name, Beh: v.beh})
		r.emit(&c14Op{Op: "add", Ref: x})
		r.emit(&c14Op{Op: "wp", Ref: x})
		r.drain(v.fires)
		if v.restart {
			r.emit(&c14Op{Op: "crash"})
			r.restart()
			r.drain(600)
		}
		r.emit(&c14Op{Op: "wp", Ref: x})
		r.drain(600)
		r.emit(&c14Op{Op: "wp", Ref: x})
		r.drain(600)
		r.emit(&c14Op{Op: "end"})
	}
}

// enumerated stop positions of one short fault-free base history
func (r *c14Run) enumHistory(hist int, maxVariants int) {
	h := r.h
	nsubs := 5
	beh := r.genBeh(nsubs, false)
	// base: a few admissions, payload arrivals, timer firings
	r.emit(&c14Op{Op: "reset", NSubs: nsubs, Hist: hist, Kind: "enum-base", Beh: beh})
	added := map[int]bool{}
	var base []*c14Op
	n := 5 + r.rng.Intn(4)
	for i := 0; i < n; i++ {
		var op *c14Op
		switch v := r.rng.Intn(100); {
		case v < 45 || i < 2:
			op = r.genAdd(added, false)
		case v < 65:
			op = r.genWp(added, false)
		default:
			k := r.parkedKeys()
			if len(k) == 0 {
				op = r.genAdd(added, false)
			} else {
				c := k[r.rng.Intn(len(k))]
				op = &c14Op{Op: "fire", S: c[0], Ref: c[1]}
			}
		}
		r.emit(op)
		base = append(base, op)
	}
	r.drain(600)
	r.emit(&c14Op{Op: "end"})
	calls := append([][3]int{}, h.calls...)
	outs := append([]string{}, h.callOut...)

	type variant struct {
		kind   string
		pos    int // op position
		call   int // call index
	}
	var vs []variant
	for p := 0; p <= len(base); p++ {
		vs = append(vs, variant{"crash", p, -1})
	}
	for p, op := range base {
		if op.Op == "add" || op.Op == "wp" {
			vs = append(vs, variant{"commitFail", p, -1}, variant{"drop", p, -1})
			for f := 0; f < nsubs; f++ {
				vs = append(vs, variant{"shelfFail", p, -100 - f}) // call = -100-f: storage fault on subscriber f's shelf
			}
		}
	}
	for k := range calls {
		vs = append(vs, variant{"panic", -1, k})
		if outs[k] == "done" {
			vs = append(vs, variant{"finishFail", -1, k})
		}
		// a transient fault of the notifier's own store access at this attempt: reading the job / writing the failure back
		vs = append(vs, variant{"readFault", -1, k})
		if outs[k] == "notDone" || outs[k] == "fail" {
			vs = append(vs, variant{"writeFail", -1, k})
		}
	}
	if len(vs) > maxVariants {
		r.rng.Shuffle(len(vs), func(i, j int) { vs[i], vs[j] = vs[j], vs[i] })
		vs = vs[:maxVariants]
	}
	for vi, v := range vs {
		vb := make([]c14Beh, len(beh))
		copy(vb, beh)
		if v.call >= 0 {
			c := calls[v.call]
			repl := "crash"
			if v.kind == "finishFail" {
				repl = "doneFinishFail"
			}
			if v.kind == "readFault" {
				repl = "readFault"
			}
			if v.kind == "writeFail" {
				repl = outs[v.call] + "WriteFail"
			}
			found := false
			for i := range vb {
				if vb[i].S == c[0] && vb[i].R == c[1] {
					o := append([]string{}, vb[i].O...)
					for len(o) <= c[2] {
						o = append(o, vb[i].Rest)
					}
					o[c[2]] = repl
					vb[i].O = o
					found = true
				}
			}
			if !found {
				o := []string{}
				for len(o) <= c[2] {
					o = append(o, "done")
				}
				o[c[2]] = repl
				vb = append(vb, c14Beh{S: c[0], R: c[1], O: o, Rest: "done"})
			}
		}
		r.emit(&c14Op{Op: "reset", NSubs: nsubs, Hist: hist*1000 + vi + 1, Kind: "enum-" + v.kind, Beh: vb})
		for p, op0 := range base {
			if v.kind == "crash" && v.pos == p {
				r.emit(&c14Op{Op: "crash"})
				r.restart()
			}
			op := *op0
			op.Orders = nil
			if v.pos == p && v.kind == "commitFail" {
				op.CommitFail = true
			}
			if v.pos == p && v.kind == "drop" {
				op.Drop = true
			}
			if v.pos == p && v.kind == "shelfFail" {
				f := -100 - v.call
				op.FailShelf = &f
			}
			before := len(h.calls)
			line := r.emit(&op)
			if c14Stopped(line) {
				r.restart()
			} else if v.kind == "finishFail" && before <= v.call && len(h.calls) > v.call {
				r.emit(&c14Op{Op: "crash"})
				r.restart()
			}
		}
		if v.kind == "crash" && v.pos == len(base) {
			r.emit(&c14Op{Op: "crash"})
			r.restart()
		}
		r.drain(600)
		r.emit(&c14Op{Op: "end"})
	}
}

func (r *c14Run) replayFile(path string, skipConfig bool) error {
	f, err := os.Open(path)
	if err != nil {
		return err
	}
	defer f.Close()
	sc := bufio.NewScanner(f)
	sc.Buffer(make([]byte, 1<<20), 1<<26)
	for sc.Scan() {
		line := bytes.TrimSpace(sc.Bytes())
		if len(line) == 0 {
			continue
		}
		op := &c14Op{}
		if err := json.Unmarshal(line, op); err != nil {
			return fmt.Errorf("%s: %w", path, err)
		}
		if op.Op == "config" && skipConfig {
			continue
		}
		r.emit(op)
	}
	return sc.Err()
}

func TestVerifC14(t *testing.T) {
	outDir := os.Getenv("VERIF_OUT")
	if outDir == "" {
		t.Skip("VERIF_OUT not set")
	}
	seed, _ := strconv.ParseInt(os.Getenv("VERIF_SEED"), 10, 64)
	nHist, _ := strconv.Atoi(os.Getenv("VERIF_HISTS"))
	if nHist == 0 {
		nHist = 200
	}
	nBases, _ := strconv.Atoi(os.Getenv("VERIF_BASES"))
	if nBases == 0 {
		nBases = 20
	}
	maxVar, _ := strconv.Atoi(os.Getenv("VERIF_MAXVAR"))
	if maxVar == 0 {
		maxVar = 40
	}
	logrus.StandardLogger().SetOutput(io.Discard)
	h := &c14H{t: t, gid: c14Goid(), dir: filepath.Join(outDir, "db")}
	logrus.StandardLogger().AddHook(c14Hook{h})
	if err := os.MkdirAll(h.dir, 0o755); err != nil {
		t.Fatal(err)
	}
	defer os.RemoveAll(h.dir)
	opsF, err := os.Create(filepath.Join(outDir, "ops.jsonl"))
	if err != nil {
		t.Fatal(err)
	}
	defer opsF.Close()
	implF, err := os.Create(filepath.Join(outDir, "impl.out"))
	if err != nil {
		t.Fatal(err)
	}
	defer implF.Close()
	r := &c14Run{h: h, rng: rand.New(rand.NewSource(seed*7919 + 14)), ops: bufio.NewWriterSize(opsF, 1<<20), impl: bufio.NewWriterSize(implF, 1<<20)}
	defer r.ops.Flush()
	defer r.impl.Flush()

	if rp := os.Getenv("VERIF_REPLAY"); rp != "" {
		if err := r.replayFile(rp, false); err != nil {
			t.Fatal(err)
		}
		if h.g != nil {
			h.g.kill()
		}
		return
	}
	r.emit(&c14Op{Op: "config", Subs: c14Subs, Txs: c14DefaultAttrs(r.rng)})
	nTiming := 1
	if os.Getenv("VERIF_TIER") == "thorough" {
		nTiming = 4
	}
	for i := 0; i < nTiming; i++ {
		r.emit(&c14Op{Op: "timing", DNs: int64(50000 << uint(i))})
	}
	// the same after a restart with k recorded failures: the sleeps continue at retryDelay * 2^(k+1), not at 2 * retryDelay
	for i := 0; i < nTiming; i++ {
		r.emit(&c14Op{Op: "timing", DNs: 50000, K: 5 + r.rng.Intn(3) + i%2})
	}
	if cd := os.Getenv("VERIF_CORPUS"); cd != "" {
		files, _ := filepath.Glob(filepath.Join(cd, "*.jsonl"))
		sort.Strings(files)
		for _, f := range files {
			if err := r.replayFile(f, false); err != nil {
				t.Fatal(err)
			}
		}
	}
	r.identicalPayload(7)
	r.duplicatePayload(8)
	for i := 0; i < nBases; i++ {
		r.enumHistory(i+1, maxVar)
	}
	for i := 0; i < nHist; i++ {
		r.randomHistory(100000 + i)
	}
	if h.g != nil {
		h.g.kill()
	}
	t.Logf("c14: %d ops", r.nOps)
}

// ---------------------------------------------------------------- resume leg: Finished() lands while Run is resuming
//
// A stop leaves several jobs of ONE persistent notifier on the shelf. After the restart Run resumes them one by one;
// while the receiver is working on job i, Finished() is called for another job j (i < j: not yet resumed; the payload
// reply / operator clean-up does not wait for the resume loop). Run must look at the shelf again for every job: an event
// whose completion was recorded must not be delivered. Plain bbolt store, real notifier, no stepping; the log is checked
// by props/C14.py (no call of an event after its completion record).
func TestVerifC14Resume(t *testing.T) {
	outDir := os.Getenv("VERIF_OUT")
	if outDir == "" {
		t.Skip("VERIF_OUT not set")
	}
	seed, _ := strconv.ParseInt(os.Getenv("VERIF_SEED"), 10, 64)
	rounds, _ := strconv.Atoi(os.Getenv("VERIF_ROUNDS"))
	if rounds == 0 {
		rounds = 12
	}
	logrus.StandardLogger().SetOutput(io.Discard)
	rng := rand.New(rand.NewSource(seed*15485863 + 14))
	dir := filepath.Join(outDir, "db-resume")
	_ = os.MkdirAll(dir, 0o755)
	defer os.RemoveAll(dir)
	var lines []string
	for round := 0; round < rounds; round++ {
		path := filepath.Join(dir, fmt.Sprintf("r%d.db", round))
		nJobs := 2 + rng.Intn(4)
		root := CreateSignedTestTransaction(uint32(5000+100*round), time.Now(), nil, "application/vc+json", true)
		txs := []Transaction{root}
		for i := 1; i < nJobs; i++ {
			txs = append(txs, CreateSignedTestTransaction(uint32(5000+100*round+i), time.Now(), nil, "application/vc+json", true, root))
		}
		// shelf (= resume) order is the byte order of the refs
		sort.Slice(txs, func(i, j int) bool { return bytes.Compare(txs[i].Ref().Slice(), txs[j].Ref().Slice()) < 0 })
		idx := map[hash.SHA256Hash]int{}
		for i, tx := range txs {
			idx[tx.Ref()] = i
		}
		// run 1: the events are committed, the node stops before (or while) notifying: jobs with 0..2 recorded failures
		db, err := bbolt.CreateBBoltStore(path, stoabs.WithNoSync())
		if err != nil {
			t.Fatal(err)
		}
		n1 := NewNotifier("resume", func(ev Event) (bool, error) { return false, nil }, WithPersistency(db), WithRetryDelay(time.Hour))
		if err := db.Write(context.Background(), func(wtx stoabs.WriteTx) error {
			for _, tx := range txs {
				if err := n1.Save(wtx, Event{Type: PayloadEventType, Hash: tx.Ref(), Transaction: tx, Payload: []byte{1}, Retries: rng.Intn(3)}); err != nil {
					return err
				}
			}
			return nil
		}); err != nil {
			t.Fatal(err)
		}
		_ = n1.Close()
		_ = db.Close(context.Background())

		// run 2: restart. Script: while job i is delivered, Finished() is called for job fin[i] (another job, mostly a later one)
		db, err = bbolt.CreateBBoltStore(path, stoabs.WithNoSync())
		if err != nil {
			t.Fatal(err)
		}
		fin := map[int]int{}
		for i := 0; i < nJobs; i++ {
			if rng.Intn(100) < 60 {
				j := rng.Intn(nJobs)
				if j == i {
					j = (i + 1) % nJobs
				}
				if round%3 == 0 && i+1 < nJobs {
					j = i + 1 + rng.Intn(nJobs-i-1) // the sharp case: a job the resume loop has not reached yet
				}
				fin[i] = j
			}
		}
		var mu sync.Mutex
		var log []string
		var n2 Notifier
		n2 = NewNotifier("resume", func(ev Event) (bool, error) {
			i := idx[ev.Hash]
			mu.Lock()
			log = append(log, fmt.Sprintf("call:%d", i))
			j, ok := fin[i]
			mu.Unlock()
			if ok {
				if err := n2.Finished(txs[j].Ref()); err == nil {
					mu.Lock()
					log = append(log, fmt.Sprintf("fin:%d", j))
					mu.Unlock()
				}
			}
			mu.Lock()
			log = append(log, fmt.Sprintf("done:%d", i))
			mu.Unlock()
			return true, nil
		}, WithPersistency(db), WithRetryDelay(time.Hour))
		runErr := n2.Run()
		mu.Lock()
		e := "nil"
		if runErr != nil {
			e = runErr.Error()
		}
		lines = append(lines, fmt.Sprintf("round=%d jobs=%d run=%s log=%s", round, nJobs, e, strings.Join(log, ",")))
		mu.Unlock()
		_ = n2.Close()
		_ = db.Close(context.Background())
		os.Remove(path)
	}
	if err := os.WriteFile(filepath.Join(outDir, "resume.out"), []byte(strings.Join(lines, "\n")+"\n"), 0o644); err != nil {
		t.Fatal(err)
	}
}

// ---------------------------------------------------------------- duplicate-Add leg: two threads admit the SAME transaction
//
// The same transaction arrives twice (e.g. from two peers). Add#1 passes its read phase (not present, verified) and is
// frozen there; Add#2 runs completely: commit, notification, the subscriber completes the event. Then Add#1 continues
// into its write transaction: it must find the transaction present and admit nothing - no job re-created, nobody called
// again (also not after a restart). A gated store freezes Add#1 right after its read transaction.
type c14GateStore struct {
	stoabs.KVStore
	mu       sync.Mutex
	armed    bool
	arrived  chan struct{}
	released chan struct{}
}

func (g *c14GateStore) Read(ctx context.Context, fn func(stoabs.ReadTx) error) error {
	err := g.KVStore.Read(ctx, fn)
	g.mu.Lock()
	hit := g.armed
	g.armed = false
	g.mu.Unlock()
	if hit {
		close(g.arrived)
		<-g.released
	}
	return err
}

func TestVerifC14DuplicateAdd(t *testing.T) {
	outDir := os.Getenv("VERIF_OUT")
	if outDir == "" {
		t.Skip("VERIF_OUT not set")
	}
	seed, _ := strconv.ParseInt(os.Getenv("VERIF_SEED"), 10, 64)
	rounds, _ := strconv.Atoi(os.Getenv("VERIF_ROUNDS"))
	if rounds == 0 {
		rounds = 8
	}
	logrus.StandardLogger().SetOutput(io.Discard)
	rng := rand.New(rand.NewSource(seed*32452843 + 14))
	dir := filepath.Join(outDir, "db-dup")
	_ = os.MkdirAll(dir, 0o755)
	defer os.RemoveAll(dir)
	var lines []string
	for round := 0; round < rounds; round++ {
		path := filepath.Join(dir, fmt.Sprintf("d%d.db", round))
		withPayload := rng.Intn(2) == 0
		restart := rng.Intn(2) == 0
		tx := CreateSignedTestTransaction(uint32(9000+round), time.Now(), nil, "application/vc+json", true)
		payload := []byte{0, 0, byte((9000 + round) >> 8), byte(9000 + round)}
		var mu sync.Mutex
		calls := map[string]int{}
		open := func() (*c14GateStore, *state, []Notifier) {
			inner, err := bbolt.CreateBBoltStore(path, stoabs.WithNoSync())
			if err != nil {
				t.Fatal(err)
			}
			gs := &c14GateStore{KVStore: inner, arrived: make(chan struct{}), released: make(chan struct{})}
			st, err := NewState(gs)
			if err != nil {
				t.Fatal(err)
			}
			s := st.(*state)
			s.loadState(context.Background())
			var ns []Notifier
			for _, sub := range []struct{ name, ty string }{{"nats", PayloadEventType}, {"txsub", TransactionEventType}} {
				sub := sub
				n, err := s.Notifier(sub.name, func(ev Event) (bool, error) {
					mu.Lock()
					calls[sub.name]++
					mu.Unlock()
					return true, nil // the subscriber completes the event at once
				}, WithPersistency(inner), WithRetryDelay(time.Hour), WithSelectionFilter(func(ev Event) bool { return ev.Type == sub.ty }))
				if err != nil {
					t.Fatal(err)
				}
				ns = append(ns, n)
			}
			return gs, s, ns
		}
		gs, s, ns := open()
		var pl []byte
		if withPayload {
			pl = payload
		}
		gs.mu.Lock()
		gs.armed = true
		gs.mu.Unlock()
		done1 := make(chan error, 1)
		go func() { done1 <- s.Add(context.Background(), tx, pl) }() // Add#1: frozen after its read phase
		<-gs.arrived
		err2 := s.Add(context.Background(), tx, pl) // Add#2: complete
		mu.Lock()
		after2 := fmt.Sprintf("nats=%d txsub=%d", calls["nats"], calls["txsub"])
		mu.Unlock()
		close(gs.released)
		err1 := <-done1
		if restart {
			for _, n := range ns {
				_ = n.Close()
			}
			_ = gs.KVStore.Close(context.Background())
			gs, s, ns = open()
			for _, n := range ns {
				_ = n.Run()
			}
		}
		jobs := 0
		for _, name := range []string{"nats", "txsub"} {
			_ = gs.KVStore.ReadShelf(context.Background(), "_"+name+"_jobs", func(r stoabs.Reader) error {
				return r.Iterate(func(k stoabs.Key, v []byte) error { jobs++; return nil }, stoabs.BytesKey{})
			})
		}
		mu.Lock()
		lines = append(lines, fmt.Sprintf("round=%d payload=%v restart=%v err1=%v err2=%v afterAdd2=[%s] final=[nats=%d txsub=%d] jobs=%d",
			round, withPayload, restart, err1 == nil, err2 == nil, after2, calls["nats"], calls["txsub"], jobs))
		mu.Unlock()
		_ = s
		for _, n := range ns {
			_ = n.Close()
		}
		_ = gs.KVStore.Close(context.Background())
		os.Remove(path)
	}
	if err := os.WriteFile(filepath.Join(outDir, "dup.out"), []byte(strings.Join(lines, "\n")+"\n"), 0o644); err != nil {
		t.Fatal(err)
	}
}
