//go:build verif

// C14 deepening leg: the construction side of a notifier against NutsModel.C14.Options —
//   o14new   real state.Notifier / NewNotifier with generated option lists (WithRetryDelay, WithPersistency on two
//            stores, WithSelectionFilter, WithContext, duplicates, duplicate names), then the real Save of one event
//            inside a write transaction of one of the stores (rolled back)
//   o14retry real notifier.retry for hostile int values of Event.Retries (negative, at / over the budget, int64 limits)
//   o14np    real Notify on a NON-persistent notifier with a scripted receiver; then GetFailedEvents / Run / Finished
// Writes ops.jsonl + impl.out (one line per op) into VERIF_OUT.
package dag

import (
	"context"
	"encoding/json"
	"errors"
	"fmt"
	"math"
	"math/rand"
	"os"
	"path/filepath"
	"runtime"
	"sort"
	"strconv"
	"strings"
	"sync"
	"testing"
	"time"

	"github.com/nuts-foundation/go-stoabs"
	"github.com/nuts-foundation/go-stoabs/bbolt"
	"github.com/nuts-foundation/nuts-node/crypto/hash"
)

type c14oOpt struct {
	K string     `json:"k"` // delay | pers | filter | ctx
	V int64      `json:"v,omitempty"`
	F *c14Filter `json:"f,omitempty"`
}
type c14oReg struct {
	Name string    `json:"name"`
	Opts []c14oOpt `json:"opts"`
}
type c14oEv struct {
	PAL   bool   `json:"pal"`
	PType string `json:"ptype"`
	Type  string `json:"type"` // tx | payload
	Tx    int    `json:"tx"`
}
type c14oOp struct {
	Op      string    `json:"op"`
	Regs    []c14oReg `json:"regs,omitempty"`
	TxDB    int       `json:"txdb,omitempty"`
	Ev      *c14oEv   `json:"ev,omitempty"`
	Retries int64     `json:"retries"`
	Beh     []string  `json:"beh,omitempty"`
	Rest    string    `json:"rest,omitempty"`
	Accept  bool      `json:"accept,omitempty"`
}

type c14oCtxKey struct{}

var errC14oRollback = errors.New("c14o rollback")

type c14oEnv struct {
	t    *testing.T
	dbs  [3]stoabs.KVStore // index 1, 2
	txs  []c14oEv
	pool []Transaction
}

// waitQuiet waits until the goroutines started since `base` was sampled are gone (the end of a retry loop, however it ends)
func c14oWaitQuiet(base int) bool {
	deadline := time.Now().Add(120 * time.Second)
	for runtime.NumGoroutine() > base {
		if time.Now().After(deadline) {
			return false
		}
		time.Sleep(50 * time.Microsecond)
	}
	return true
}

func (e *c14oEnv) execNew(op *c14oOp) string {
	st, err := NewState(e.dbs[1])
	if err != nil {
		return "err:newstate:" + err.Error()
	}
	s := st.(*state)
	var status []string
	var names []string
	for _, r := range op.Regs {
		var opts []NotifierOption
		for _, o := range r.Opts {
			switch o.K {
			case "delay":
				opts = append(opts, WithRetryDelay(time.Duration(o.V)))
			case "pers":
				opts = append(opts, WithPersistency(e.dbs[o.V]))
			case "filter":
				opts = append(opts, WithSelectionFilter(c14FilterFn([]c14Filter{*o.F})))
			case "ctx":
				opts = append(opts, WithContext(context.WithValue(context.Background(), c14oCtxKey{}, int(o.V))))
			}
		}
		n, err := s.Notifier(r.Name, func(Event) (bool, error) { return true, nil }, opts...)
		if err != nil {
			if n != nil || !strings.Contains(err.Error(), "duplicate name") {
				status = append(status, "err:"+err.Error())
			} else {
				status = append(status, "dup")
			}
			continue
		}
		status = append(status, "ok")
		names = append(names, r.Name)
	}
	// the event, saved for every registered notifier inside ONE write transaction of store txdb (rolled back)
	tx := e.pool[op.Ev.Tx]
	ev := Event{Type: TransactionEventType, Hash: tx.Ref(), Transaction: tx}
	if op.Ev.Type == "payload" {
		ev.Type = PayloadEventType
		ev.Payload = []byte{1}
	}
	kinds := map[string]string{}
	_ = e.dbs[op.TxDB].Write(context.Background(), func(wtx stoabs.WriteTx) error {
		for _, name := range names {
			v, _ := s.notifiers.Load(name)
			n := v.(*notifier)
			err := n.Save(wtx, ev)
			// raw look at the shelf the property names: "_<name>_jobs", key = the 32 ref bytes
			_, gerr := wtx.GetShelfReader("_" + name + "_jobs").Get(stoabs.BytesKey(ev.Hash.Slice()))
			present := gerr == nil
			switch {
			case err != nil && strings.Contains(err.Error(), "different DB"):
				kinds[name] = "differentDB"
			case err != nil:
				kinds[name] = "err"
			case present:
				kinds[name] = "proceed"
			case !n.isPersistent():
				kinds[name] = "nonPersistent"
			default:
				kinds[name] = "filtered"
			}
			if present && err == nil {
				// undo inside the transaction so that the next notifier's look is its own
				_ = wtx.GetShelfWriter("_" + name + "_jobs").Delete(stoabs.BytesKey(ev.Hash.Slice()))
			}
		}
		return errC14oRollback
	})
	var rows []string
	for _, name := range names {
		v, _ := s.notifiers.Load(name)
		n := v.(*notifier)
		dbid := 0
		for i := 1; i <= 2; i++ {
			if n.db == e.dbs[i] {
				dbid = i
			}
		}
		ctxid := 0
		if x, ok := n.ctx.Value(c14oCtxKey{}).(int); ok {
			ctxid = x
		}
		rows = append(rows, fmt.Sprintf("%s:%v:%d:%d:%d:%s:%v:%d:%s", n.Name(), n.isPersistent(), dbid, int64(n.retryDelay), len(n.filters),
			n.shelfName(), n.notifiedCounter != nil && n.finishedCounter != nil, ctxid, kinds[name]))
		_ = n.Close()
	}
	// Notifiers() lists exactly the accepted registrations
	var listed []string
	for _, n := range s.Notifiers() {
		listed = append(listed, n.Name())
	}
	sort.Strings(listed)
	sorted := append([]string{}, names...)
	sort.Strings(sorted)
	return "new|" + strings.Join(status, ",") + "|" + strings.Join(rows, ";") + "|listed=" + strconv.FormatBool(strings.Join(listed, ",") == strings.Join(sorted, ","))
}

func (e *c14oEnv) execRetry(op *c14oOp) string {
	var mu sync.Mutex
	calls := 0
	n := NewNotifier("c14o-retry", func(Event) (bool, error) {
		mu.Lock()
		calls++
		mu.Unlock()
		return false, errors.New("keeps failing")
	}, WithRetryDelay(time.Nanosecond)).(*notifier)
	defer n.Close()
	base := runtime.NumGoroutine()
	n.retry(Event{Type: TransactionEventType, Hash: hash.SHA256Sum([]byte("c14o")), Retries: int(op.Retries)})
	if !c14oWaitQuiet(base) {
		return "retry|TIMEOUT"
	}
	mu.Lock()
	defer mu.Unlock()
	return fmt.Sprintf("retry|attempts=%d", calls)
}

func (e *c14oEnv) execNP(op *c14oOp) (line string) {
	defer func() {
		if r := recover(); r != nil {
			line = fmt.Sprintf("np|panic:%v", r)
		}
	}()
	var mu sync.Mutex
	calls := 0
	seen := map[int]bool{}
	recv := func(ev Event) (bool, error) {
		mu.Lock()
		k := calls
		calls++
		seen[ev.Retries] = true
		mu.Unlock()
		o := op.Rest
		if k < len(op.Beh) {
			o = op.Beh[k]
		}
		switch o {
		case "done":
			return true, nil
		case "notDone":
			return false, nil
		case "fatal":
			return false, EventFatal{errors.New("fatal")}
		}
		return false, errors.New("keeps failing")
	}
	accept := op.Accept
	n := NewNotifier("c14o-np", recv, WithRetryDelay(time.Nanosecond), WithSelectionFilter(func(Event) bool { return accept })).(*notifier)
	defer n.Close()
	h := hash.SHA256Sum([]byte("c14o-np"))
	base := runtime.NumGoroutine()
	n.Notify(Event{Type: TransactionEventType, Hash: h, Retries: int(op.Retries)})
	if !c14oWaitQuiet(base) {
		return "np|TIMEOUT"
	}
	mu.Lock()
	c1 := calls
	var ss []int
	for k := range seen {
		ss = append(ss, k)
	}
	mu.Unlock()
	sort.Ints(ss)
	// afterwards: nothing visible, nothing to replay, Finished is a no-op
	failed, ferr := n.GetFailedEvents()
	rerr := n.Run()
	finerr := n.Finished(h)
	if !c14oWaitQuiet(base) {
		return "np|TIMEOUT"
	}
	mu.Lock()
	c2 := calls
	mu.Unlock()
	seenS := "-"
	if len(ss) > 0 {
		parts := []string{}
		for _, k := range ss {
			parts = append(parts, strconv.Itoa(k))
		}
		seenS = strings.Join(parts, ",")
	}
	return fmt.Sprintf("np|calls=%d|seen=%s|failed=%d:%v|run=%v:%d|fin=%v", c1, seenS, len(failed), ferr, rerr, c2-c1, finerr)
}

func c14oGenOpts(rng *rand.Rand) []c14oOpt {
	var opts []c14oOpt
	n := rng.Intn(6)
	for i := 0; i < n; i++ {
		switch rng.Intn(5) {
		case 0:
			opts = append(opts, c14oOpt{K: "delay", V: []int64{1, 5, 1000, 1000000000, 3600000000000, 0}[rng.Intn(6)]})
		case 1:
			opts = append(opts, c14oOpt{K: "pers", V: int64(1 + rng.Intn(2))})
		case 2, 3:
			f := c14Filter{}
			switch rng.Intn(4) {
			case 0:
				f.Type = "tx"
			case 1:
				f.Type = "payload"
			case 2:
				f.PAL = true
			case 3:
				f.PType = []string{"application/did+json", "application/vc+json"}[rng.Intn(2)]
			}
			if rng.Intn(4) == 0 {
				f.Type = []string{"tx", "payload"}[rng.Intn(2)]
			}
			opts = append(opts, c14oOpt{K: "filter", F: &f})
		case 4:
			opts = append(opts, c14oOpt{K: "ctx", V: int64(1 + rng.Intn(3))})
		}
	}
	// most notifiers of interest are persistent on the DAG store
	if rng.Intn(100) < 45 {
		at := rng.Intn(len(opts) + 1)
		opts = append(opts[:at], append([]c14oOpt{{K: "pers", V: 1}}, opts[at:]...)...)
	}
	return opts
}

func TestVerifC14Options(t *testing.T) {
	out := os.Getenv("VERIF_OUT")
	if out == "" {
		t.Skip("VERIF_OUT not set")
	}
	seed, _ := strconv.ParseInt(os.Getenv("VERIF_SEED"), 10, 64)
	rng := rand.New(rand.NewSource(seed*7919 + 14))
	nNew, nNP := 120, 90
	if os.Getenv("VERIF_TIER") == "thorough" {
		nNew, nNP = 1500, 1500
	}
	e := &c14oEnv{t: t}
	for i := 1; i <= 2; i++ {
		db, err := bbolt.CreateBBoltStore(filepath.Join(out, fmt.Sprintf("c14o-%d.db", i)), stoabs.WithNoSync())
		if err != nil {
			t.Fatal(err)
		}
		e.dbs[i] = db
		defer db.Close(context.Background())
	}
	e.txs = []c14oEv{{false, "application/did+json", "", 0}, {true, "application/did+json", "", 1}, {false, "application/vc+json", "", 2}, {true, "application/vc+json", "", 3}, {true, "foo/bar", "", 4}}
	for i, a := range e.txs {
		var pal [][]byte
		if a.PAL {
			pal = [][]byte{{1, 2, 3}}
		}
		e.pool = append(e.pool, CreateSignedTestTransaction(uint32(200+i), time.Now(), pal, a.PType, true))
	}

	var ops []c14oOp
	if rp := os.Getenv("VERIF_REPLAY"); rp != "" {
		data, err := os.ReadFile(rp)
		if err != nil {
			t.Fatal(err)
		}
		for _, l := range strings.Split(string(data), "\n") {
			if strings.TrimSpace(l) == "" {
				continue
			}
			var op c14oOp
			if json.Unmarshal([]byte(l), &op) == nil && strings.HasPrefix(op.Op, "o14") {
				ops = append(ops, op)
			}
		}
	} else {
		names := []string{"nats", "vdr", "private", "gossip", "vcr_vcs", "Nats", "a", ""}
		for i := 0; i < nNew; i++ {
			var regs []c14oReg
			k := 1 + rng.Intn(5)
			for j := 0; j < k; j++ {
				name := names[rng.Intn(len(names))]
				if j > 0 && rng.Intn(100) < 30 {
					name = regs[rng.Intn(len(regs))].Name // a duplicate name
				}
				regs = append(regs, c14oReg{Name: name, Opts: c14oGenOpts(rng)})
			}
			ev := e.txs[rng.Intn(len(e.txs))]
			ev.Type = []string{"tx", "payload"}[rng.Intn(2)]
			txdb := 1
			if rng.Intn(100) < 12 {
				txdb = 2
			}
			ops = append(ops, c14oOp{Op: "o14new", Regs: regs, TxDB: txdb, Ev: &ev})
		}
		for k := int64(-4); k <= 24; k++ {
			ops = append(ops, c14oOp{Op: "o14retry", Retries: k})
		}
		for _, k := range []int64{math.MaxInt64, math.MinInt64, math.MaxInt64 - 1, math.MinInt64 + 1, math.MaxInt32, math.MinInt32, 1 << 32, -(1 << 32), 1<<63 - 20, -(1 << 62)} {
			ops = append(ops, c14oOp{Op: "o14retry", Retries: k})
		}
		outs := []string{"done", "notDone", "fail", "fatal"}
		for i := 0; i < nNP; i++ {
			op := c14oOp{Op: "o14np", Accept: rng.Intn(100) < 90, Rest: outs[rng.Intn(4)]}
			switch rng.Intn(10) {
			case 0:
				op.Retries = int64(rng.Intn(30)) - 4
			case 1:
				op.Retries = int64(17 + rng.Intn(4))
			}
			nb := rng.Intn(24)
			if rng.Intn(3) == 0 {
				nb = rng.Intn(3)
			}
			for j := 0; j < nb; j++ {
				o := outs[1+rng.Intn(2)]
				if rng.Intn(100) < 4 {
					o = outs[rng.Intn(4)]
				}
				op.Beh = append(op.Beh, o)
			}
			if rng.Intn(4) == 0 {
				op.Rest = "fail" // exhausts the budget
			}
			ops = append(ops, op)
		}
	}

	fo, err := os.Create(filepath.Join(out, "ops.jsonl"))
	if err != nil {
		t.Fatal(err)
	}
	defer fo.Close()
	fi, err := os.Create(filepath.Join(out, "impl.out"))
	if err != nil {
		t.Fatal(err)
	}
	defer fi.Close()
	for i := range ops {
		op := &ops[i]
		b, _ := json.Marshal(op)
		fo.Write(append(b, '\n'))
		var line string
		switch op.Op {
		case "o14new":
			line = e.execNew(op)
		case "o14retry":
			line = e.execRetry(op)
		case "o14np":
			line = e.execNP(op)
		}
		fi.WriteString(line + "\n")
	}
}
