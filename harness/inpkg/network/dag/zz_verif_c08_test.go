//go:build verif

package dag

// C08 correspondence harness, state level: drives the real `state` on a bbolt file with generated valid DAG histories
// interleaved with rejected adds, injected commit failures (KVStore wrapper), concurrent adds, restarts and corrupted
// XOR leaves + repair. After every op it prints XOR(c)/IBLT(c) for a sweep of c, FindBetweenLC windows, Head, count and
// highest clock (impl.out, compared with the Lean model), and evaluates an independent reference fold over the set of
// stored transactions read back from the transactions shelf (oracle.out).

import (
	"bufio"
	"bytes"
	"context"
	"encoding/binary"
	"encoding/hex"
	"encoding/json"
	"errors"
	"fmt"
	"math/bits"
	"math/rand"
	"os"
	"path/filepath"
	"sort"
	"strconv"
	"strings"
	"sync"
	"testing"
	"time"

	"github.com/lestrrat-go/jwx/v2/jwk"
	"github.com/nuts-foundation/go-stoabs"
	"github.com/nuts-foundation/go-stoabs/bbolt"
	"github.com/nuts-foundation/nuts-node/audit"
	"github.com/nuts-foundation/nuts-node/core"
	nutsCrypto "github.com/nuts-foundation/nuts-node/crypto"
	"github.com/nuts-foundation/nuts-node/crypto/hash"
	"github.com/nuts-foundation/nuts-node/network/dag/tree"
	"github.com/sirupsen/logrus"
)

// ---------------------------------------------------------------- ops

type vc08Tx struct {
	Ref   string   `json:"ref"`
	Clock uint32   `json:"clock"`
	Prevs []string `json:"prevs"`
	Hk    uint64   `json:"hk"`
	Idx   []uint32 `json:"idx"`
}

type vc08Op struct {
	Op      string   `json:"op"`
	Hist    string   `json:"hist,omitempty"`
	I       int      `json:"i"`
	Pi      []int    `json:"pi,omitempty"`
	Clk     uint32   `json:"clk"`
	Payload string   `json:"payload,omitempty"`
	Fail    string   `json:"fail,omitempty"`
	Quiet   bool     `json:"quiet,omitempty"`
	N       int      `json:"n,omitempty"`
	Tx      *vc08Tx  `json:"tx,omitempty"`
	Key     uint32   `json:"key"`
	Clock   uint32   `json:"clock"`
	Val     string   `json:"val,omitempty"`
	Sus     bool     `json:"sus,omitempty"`  // XOR reference check suspended (a leaf is known to be corrupted)
	Dg      bool     `json:"dg,omitempty"`   // also observe Diagnostics()
	Put     int      `json:"put,omitempty"`  // store fault: the k-th Put (1-based) of the write transaction fails
	Save    string   `json:"save,omitempty"` // a notifier's Save fails: "payload" (payload event) or "tx" (transaction event)
	Ref     string   `json:"ref,omitempty"`  // phl: the hash to append
	Mode    string   `json:"mode,omitempty"` // mget: what the stub reader answers
	Xs      []uint32 `json:"xs"`
	Is      []uint32 `json:"is"`
	Ws      []uint32 `json:"ws"`
	// between: the second (inner) transaction, added completely between the read and the write transaction of the first
	I2   int     `json:"i2,omitempty"`
	Pi2  []int   `json:"pi2,omitempty"`
	Clk2 uint32  `json:"clk2,omitempty"`
	Tx2  *vc08Tx `json:"tx2,omitempty"`
	adds    []*vc08Op
	fullObs bool
}

// ---------------------------------------------------------------- digests (same arithmetic as Driver/C08.lean)

const vc08M = (uint64(1) << 61) - 1
const vc08P = uint64(1000003)

func vc08Mix(h uint64, words ...uint64) uint64 {
	var x uint64
	for _, w := range words {
		_, x = bits.Div64(x, w, vc08M)
	}
	hi, lo := bits.Mul64(h, vc08P)
	lo, c := bits.Add64(lo, x, 0)
	hi += c
	_, r := bits.Div64(hi, lo, vc08M)
	return r
}

func vc08Words(b []byte) []uint64 {
	w := make([]uint64, len(b)/8)
	for i := range w {
		w[i] = binary.BigEndian.Uint64(b[i*8:])
	}
	return w
}

type vc08Bucket struct {
	count uint32
	hs    uint64
	ks    hash.SHA256Hash
}

// buckets of an IBLT through its documented wire format (44 bytes little endian: count, hashSum, keySum)
func vc08Buckets(i *tree.Iblt) []vc08Bucket {
	b, _ := i.MarshalBinary()
	n := len(b) / 44
	r := make([]vc08Bucket, n)
	for k := 0; k < n; k++ {
		d := b[k*44:]
		r[k].count = binary.LittleEndian.Uint32(d[0:4])
		r[k].hs = binary.LittleEndian.Uint64(d[4:12])
		copy(r[k].ks[:], d[12:44])
	}
	return r
}

func vc08BucketsDigest(bs []vc08Bucket) uint64 {
	var h uint64
	for k := range bs {
		h = vc08Mix(h, uint64(bs[k].count))
		h = vc08Mix(h, bs[k].hs)
		h = vc08Mix(h, vc08Words(bs[k].ks[:])...)
	}
	return h
}

func vc08ListDigest(refs []hash.SHA256Hash) uint64 {
	h := uint64(len(refs))
	for _, r := range refs {
		h = vc08Mix(h, vc08Words(r[:])...)
	}
	return h
}

// ---------------------------------------------------------------- KVStore wrapper: commit order + injected failures

type vc08CallKey struct{}
type vc08Call struct {
	id     int
	fail   string
	cancel context.CancelFunc
	hold   bool   // hold this call's OnRollback functions until the store's `release` channel is closed
	put    int    // fail the put-th Put of the write transaction (0 = none)
	puts   int    // Puts seen so far
	shelf  string // shelf of the failed Put (for the statistics)
	// run once after the call's next read transaction (the read phase of Add) has finished
	afterRead func()
}

var errVc08Put = errors.New("verif: injected store fault (Put)")

// a write transaction whose shelf writers count the Puts of the call and fail the chosen one
type vc08FaultTx struct {
	stoabs.WriteTx
	call *vc08Call
}

func (t *vc08FaultTx) GetShelfWriter(shelf string) stoabs.Writer {
	return &vc08Writer{Writer: t.WriteTx.GetShelfWriter(shelf), call: t.call, shelf: shelf}
}

type vc08Writer struct {
	stoabs.Writer
	call  *vc08Call
	shelf string
}

func (w *vc08Writer) Put(key stoabs.Key, value []byte) error {
	w.call.puts++
	if w.call.puts == w.call.put {
		w.call.shelf = w.shelf
		return errVc08Put
	}
	return w.Writer.Put(key, value)
}

var errVc08Injected = errors.New("verif: injected write failure")

type vc08Store struct {
	stoabs.KVStore
	mu         sync.Mutex
	order      []int
	rolledBack chan struct{} // closed when a held call's transaction has been rolled back (write lock released)
	release    chan struct{} // closed to let the held OnRollback functions run
	otherDone  chan struct{} // closed when the racing call has returned
	// run once, right before the next write transaction that is not an Add of the harness (the repair's checkPage)
	beforeRepairWrite func()
	// the next write transaction that is not an Add of the harness (the repair's checkPage) does not commit
	failRepairWrite bool
}

func (v *vc08Store) Write(ctx context.Context, fn func(stoabs.WriteTx) error, opts ...stoabs.TxOption) error {
	call, _ := ctx.Value(vc08CallKey{}).(*vc08Call)
	if call == nil {
		if hook := v.beforeRepairWrite; hook != nil {
			v.beforeRepairWrite = nil
			hook()
		}
		if v.failRepairWrite {
			v.failRepairWrite = false
			return v.KVStore.Write(ctx, func(tx stoabs.WriteTx) error {
				if err := fn(tx); err != nil {
					return err
				}
				return errVc08Injected
			}, opts...)
		}
		return v.KVStore.Write(ctx, fn, opts...)
	}
	if call.hold {
		// go-stoabs releases its write lock BEFORE it calls the OnRollback functions: widen that window
		held := make([]stoabs.TxOption, 0, len(opts))
		first := true
		for _, o := range opts {
			if rb, ok := o.(*stoabs.OnRollbackOption); ok {
				orig, isFirst := rb, first
				first = false
				held = append(held, stoabs.OnRollback(func() {
					if isFirst {
						close(v.rolledBack)
						<-v.release
					} else {
						// the window BETWEEN two rollback handlers (e.g. one that releases a lock and the one that
						// reloads): give the racing call the chance to run in it
						select {
						case <-v.otherDone:
						case <-time.After(30 * time.Millisecond):
						}
					}
					stoabs.OnRollbackOption{}.Invoke([]stoabs.TxOption{orig})
				}))
			} else {
				held = append(held, o)
			}
		}
		opts = held
	}
	return v.KVStore.Write(ctx, func(tx stoabs.WriteTx) error {
		if call.put > 0 {
			tx = &vc08FaultTx{WriteTx: tx, call: call}
		}
		err := fn(tx)
		v.mu.Lock()
		v.order = append(v.order, call.id)
		v.mu.Unlock()
		if err == nil && call.fail == "fn" {
			return errVc08Injected
		}
		if call.fail == "ctx" && call.cancel != nil {
			call.cancel() // the caller's context ends just before the commit: go-stoabs rolls back (ErrCommitFailed)
		}
		return err
	}, opts...)
}

// a registered notifier whose Save can be made to fail (a sibling way for the write transaction of Add to roll back)
var errVc08Save = errors.New("verif: injected notifier save failure")

type vc08Notifier struct {
	mu   sync.Mutex
	fail string
}

func (v *vc08Notifier) Name() string { return "verif-c08" }
func (v *vc08Notifier) Save(_ stoabs.WriteTx, event Event) error {
	v.mu.Lock()
	defer v.mu.Unlock()
	if (v.fail == "payload" && event.Type == PayloadEventType) || (v.fail == "tx" && event.Type == TransactionEventType) {
		return errVc08Save
	}
	return nil
}
func (v *vc08Notifier) Notify(Event)                      {}
func (v *vc08Notifier) Finished(hash.SHA256Hash) error    { return nil }
func (v *vc08Notifier) Run() error                        { return nil }
func (v *vc08Notifier) GetFailedEvents() ([]Event, error) { return nil, nil }
func (v *vc08Notifier) Close() error                      { return nil }

// ---------------------------------------------------------------- runner

type vc08Known struct {
	tx    Transaction
	clock uint32
	hk    uint64
	idx   []uint32
}

type vc08Run struct {
	t          *testing.T
	ops        *bufio.Writer
	impl       *bufio.Writer
	orc        *bufio.Writer
	dir        string
	histNo     int
	inner      stoabs.KVStore
	db         *vc08Store
	st         *state
	signer     nutsCrypto.MemoryJWTSigner
	notif      *vc08Notifier
	putShelves map[string]int // which shelf the injected Put faults hit
	txs        map[int]*vc08Known
	byRef      map[hash.SHA256Hash]*vc08Known
	specs      map[int]*vc08Op // structural description of every transaction of the current history
	rng        *rand.Rand
	stats      map[string]int
	opCount    int
	maxClock   uint32
	pagesMax   uint32
	starts     int    // Start() calls on the current state object
	codecOrc   string // oracle verdict of the last byte-layer op
}

func (r *vc08Run) open() {
	var err error
	r.inner, err = bbolt.CreateBBoltStore(filepath.Join(r.dir, fmt.Sprintf("h%d", r.histNo), "dag"), stoabs.WithNoSync())
	if err != nil {
		r.t.Fatal(err)
	}
	r.db = &vc08Store{KVStore: r.inner}
	s, err := NewState(r.db, NewPrevTransactionsVerifier())
	if err != nil {
		r.t.Fatal(err)
	}
	r.st = s.(*state)
	r.starts = 0
	if err := r.st.Configure(core.ServerConfig{}); err != nil {
		r.t.Fatal(err)
	}
	r.notif = &vc08Notifier{}
	r.st.notifiers.Store(r.notif.Name(), r.notif)
}

func (r *vc08Run) close() {
	if r.st != nil {
		_ = r.st.Shutdown()
		_ = r.inner.Close(context.Background())
		r.st = nil
	}
}

// the transaction with index i (created on first use from its structural description)
func (r *vc08Run) tx(op *vc08Op) *vc08Known {
	if k, ok := r.txs[op.I]; ok {
		return k
	}
	if sp, ok := r.specs[op.I]; ok {
		op = sp
	}
	var prevs []hash.SHA256Hash
	for _, p := range op.Pi {
		pk, ok := r.txs[p]
		if !ok {
			sp, ok := r.specs[p]
			if !ok {
				r.t.Fatalf("op refers to unknown prev %d", p)
			}
			pk = r.tx(sp)
		}
		prevs = append(prevs, pk.tx.Ref())
	}
	payload := make([]byte, 8)
	binary.BigEndian.PutUint64(payload, uint64(op.I))
	unsigned, err := NewTransaction(hash.SHA256Sum(payload), "application/did+json", prevs, nil, op.Clk)
	if err != nil {
		r.t.Fatal(err)
	}
	signed, err := NewTransactionSigner(r.signer, "k", nil).Sign(audit.TestContext(), unsigned, time.Now())
	if err != nil {
		r.t.Fatal(err)
	}
	k := &vc08Known{tx: signed, clock: op.Clk}
	k.hk, k.idx = tree.VerifC08Keys(signed.Ref(), IbltNumBuckets)
	r.txs[op.I] = k
	r.byRef[signed.Ref()] = k
	return k
}

func vc08Payload(i int) []byte {
	payload := make([]byte, 8)
	binary.BigEndian.PutUint64(payload, uint64(i))
	return payload
}

func vc08ErrClass(err error) string {
	switch {
	case err == nil:
		return "ok"
	case errors.Is(err, ErrPreviousTransactionMissing):
		return "err:missing-prev"
	case errors.Is(err, ErrInvalidLamportClockValue):
		return "err:bad-clock"
	case errors.Is(err, errRootAlreadyExists):
		return "err:root-exists"
	case errors.Is(err, errVc08Injected), errors.Is(err, stoabs.ErrCommitFailed):
		return "err:commit-failed"
	case errors.Is(err, errVc08Save):
		return "err:save-failed"
	case errors.Is(err, errVc08Put):
		return "err:put-failed"
	case strings.Contains(err.Error(), "tx.PayloadHash does not match"):
		return "err:payload-hash-mismatch"
	}
	return "err:other:" + err.Error()
}

func (r *vc08Run) doAdd(op *vc08Op, id int) string { return r.doAddHold(op, id, false) }

func (r *vc08Run) doAddHold(op *vc08Op, id int, hold bool) string {
	k := r.tx(op)
	var payload []byte
	switch op.Payload {
	case "ok":
		payload = vc08Payload(op.I)
	case "bad":
		payload = []byte("not the payload")
	}
	ctx, cancel := context.WithCancel(context.Background())
	defer cancel()
	call := &vc08Call{id: id, fail: op.Fail, cancel: cancel, hold: hold, put: op.Put}
	ctx = context.WithValue(ctx, vc08CallKey{}, call)
	if op.Put > 0 {
		defer func() {
			if call.shelf != "" {
				r.putShelves[call.shelf]++
			}
		}()
	}
	if op.Save != "" {
		r.notif.mu.Lock()
		r.notif.fail = op.Save
		r.notif.mu.Unlock()
		defer func() {
			r.notif.mu.Lock()
			r.notif.fail = ""
			r.notif.mu.Unlock()
		}()
	}
	return vc08ErrClass(r.st.Add(ctx, k.tx, payload))
}

func (r *vc08Run) fillTx(op *vc08Op) {
	k := r.tx(op)
	t := &vc08Tx{Ref: k.tx.Ref().String(), Clock: k.tx.Clock(), Hk: k.hk, Idx: k.idx, Prevs: []string{}}
	for _, p := range k.tx.Previous() {
		t.Prevs = append(t.Prevs, p.String())
	}
	op.Tx = t
}

// the stored set, read back from the transactions shelf
func (r *vc08Run) stored() ([]*vc08Known, string) {
	var res []*vc08Known
	bad := ""
	_ = r.db.ReadShelf(context.Background(), transactionsShelf, func(reader stoabs.Reader) error {
		return reader.Iterate(func(key stoabs.Key, _ []byte) error {
			k, ok := r.byRef[hash.FromSlice(key.Bytes())]
			if !ok {
				bad = "FAIL:stored-unknown-transaction"
				return nil
			}
			res = append(res, k)
			return nil
		}, stoabs.HashKey{})
	})
	return res, bad
}

func vc08PageEnd(c uint32) uint64 { return (uint64(c)/uint64(PageSize)+1)*uint64(PageSize) - 1 }

func (r *vc08Run) sweeps(op *vc08Op) {
	if op.Xs != nil {
		return
	}
	lc := r.st.lamportClockHigh.Load()
	set := map[uint32]bool{0: true, lc: true, lc + 1: true, 4294967295: true}
	if lc > 0 {
		set[lc-1] = true
	}
	ps := lc / PageSize * PageSize
	set[ps] = true
	if ps > 0 {
		set[ps-1] = true
	}
	set[uint32(r.rng.Intn(int(lc)+3))] = true
	pe := uint32(r.rng.Intn(int(lc/PageSize)+2)) * PageSize
	set[pe] = true
	set[pe+1] = true
	if pe > 0 {
		set[pe-1] = true
	}
	if op.fullObs {
		for p := uint32(0); p <= lc/PageSize+2; p++ {
			set[p*PageSize] = true
			set[p*PageSize+1] = true
			set[p*PageSize+PageSize-1] = true
		}
	}
	for c := range set {
		op.Xs = append(op.Xs, c)
	}
	sort.Slice(op.Xs, func(i, j int) bool { return op.Xs[i] < op.Xs[j] })
	op.Is = []uint32{op.Xs[r.rng.Intn(len(op.Xs))]}
	if op.fullObs || r.rng.Intn(8) == 0 {
		op.Is = append(op.Is, op.Xs[r.rng.Intn(len(op.Xs))], 4294967295)
	}
	op.Dg = op.fullObs || r.rng.Intn(3) == 0
	a := uint32(r.rng.Intn(int(lc) + 2))
	op.Ws = []uint32{a, a + uint32(r.rng.Intn(12))}
	switch r.rng.Intn(10) {
	case 0:
		op.Ws = append(op.Ws, lc, lc+1)
	case 1:
		op.Ws = append(op.Ws, 0, 3)
	case 2:
		if lc > 5 {
			op.Ws = append(op.Ws, lc-5, 4294967295)
		}
	case 3:
		if ps > 3 {
			op.Ws = append(op.Ws, ps-3, ps+3)
		}
	case 4:
		op.Ws = append(op.Ws, a+5, a)
	}
	if op.fullObs && lc < 1500 {
		op.Ws = append(op.Ws, 0, 4294967295)
	}
}

// observe prints the implementation's answers and evaluates the reference fold on them
func (r *vc08Run) observe(op *vc08Op) (string, string) {
	ctx := context.Background()
	var sb strings.Builder
	orc := "ok"
	fail := func(s string) {
		if orc == "ok" {
			orc = s
		}
	}
	S, bad := r.stored()
	if bad != "" {
		fail(bad)
	}
	var maxClock uint32
	for _, k := range S {
		if k.clock > maxClock {
			maxClock = k.clock
		}
	}
	// the stored set is a valid DAG — what the property quantifies over and what every Add must preserve (GInv in the
	// model): at most one root, every prev stored, clock = 1 + the highest clock among the prevs
	{
		inS := make(map[hash.SHA256Hash]*vc08Known, len(S))
		for _, k := range S {
			inS[k.tx.Ref()] = k
		}
		roots := 0
		for _, k := range S {
			prevs := k.tx.Previous()
			if len(prevs) == 0 {
				roots++
				if k.clock != 0 {
					fail(fmt.Sprintf("FAIL:stored-set-not-a-valid-dag:root stored with clock %d", k.clock))
				}
				continue
			}
			var hi uint32
			all := true
			for _, p := range prevs {
				pk, ok := inS[p]
				if !ok {
					all = false
					fail("FAIL:stored-set-not-a-valid-dag:a stored transaction refers to a prev that is not stored")
					break
				}
				if pk.clock+1 > hi {
					hi = pk.clock + 1
				}
			}
			if all && k.clock != hi {
				fail(fmt.Sprintf("FAIL:stored-set-not-a-valid-dag:clock %d stored, prevs imply %d", k.clock, hi))
			}
		}
		if roots > 1 {
			fail(fmt.Sprintf("FAIL:stored-set-not-a-valid-dag:%d root transactions stored", roots))
		}
	}
	var count uint64
	var diskLc uint32
	_ = r.db.Read(ctx, func(tx stoabs.ReadTx) error {
		count = r.st.graph.getNumberOfTransactions(tx)
		diskLc = r.st.graph.getHighestClockValue(tx)
		return nil
	})
	memLc := r.st.lamportClockHigh.Load()
	head, err := r.st.Head(ctx)
	hs := "-"
	if err != nil {
		hs = "err"
	} else if !head.Empty() {
		hs = hex.EncodeToString(head[:8])
	}
	fmt.Fprintf(&sb, "cnt=%d lc=%d/%d head=%s", count, memLc, diskLc, hs)
	if op.Dg {
		// the public diagnostics: dag_xor, dag_lc_high, transaction_count
		var dx hash.SHA256Hash
		var dlc uint32
		var dcnt uint
		seen := 0
		for _, d := range r.st.Diagnostics() {
			switch d.Name() {
			case "dag_xor":
				dx, _ = d.Result().(hash.SHA256Hash)
				seen++
			case "dag_lc_high":
				dlc, _ = d.Result().(uint32)
				seen++
			case TransactionCountDiagnostic:
				dcnt, _ = d.Result().(uint)
				seen++
			}
		}
		fmt.Fprintf(&sb, " diag=%s/%d/%d", hex.EncodeToString(dx[:]), dlc, dcnt)
		if seen != 3 {
			fail("FAIL:diagnostics-missing-entry")
		}
		if !op.Sus {
			var want hash.SHA256Hash
			for _, k := range S {
				ref := k.tx.Ref()
				for i := range want {
					want[i] ^= ref[i]
				}
			}
			if want != dx {
				fail("FAIL:diagnostics-xor-differs-from-reference-fold")
			}
		}
		if dlc != maxClock {
			fail(fmt.Sprintf("FAIL:diagnostics-highest-clock-differs:%d stored-max %d", dlc, maxClock))
		}
		if dcnt != uint(len(S)) {
			fail(fmt.Sprintf("FAIL:diagnostics-count-differs:%d stored %d", dcnt, len(S)))
		}
	}
	sb.WriteString(" |")
	if count != uint64(len(S)) {
		fail(fmt.Sprintf("FAIL:count-differs:count %d stored %d", count, len(S)))
	}
	if memLc != maxClock || diskLc != maxClock {
		fail(fmt.Sprintf("FAIL:highest-clock-differs:mem %d disk %d stored-max %d", memLc, diskLc, maxClock))
	}
	if len(S) == 0 {
		if !head.Empty() {
			fail("FAIL:head-on-empty-dag")
		}
	} else if hk, ok := r.byRef[head]; !ok || hk.clock != maxClock {
		fail("FAIL:head-not-a-highest-clock-transaction")
	} else {
		present := false
		for _, k := range S {
			if k == hk {
				present = true
			}
		}
		if !present {
			fail("FAIL:head-not-stored")
		}
	}
	for _, c := range op.Xs {
		x, lc := r.st.XOR(c)
		fmt.Fprintf(&sb, " X%d=%s@%d", c, hex.EncodeToString(x[:]), lc)
		if !op.Sus {
			var want hash.SHA256Hash // byte-wise, independent of hash.SHA256Hash.Xor
			for _, k := range S {
				if k.clock/PageSize <= c/PageSize {
					ref := k.tx.Ref()
					for i := range want {
						want[i] ^= ref[i]
					}
				}
			}
			if want != x {
				fail(fmt.Sprintf("FAIL:xor-differs-from-reference-fold:XOR(%d)", c))
			}
		}
		wc := uint64(maxClock)
		if pe := vc08PageEnd(c); pe < wc {
			wc = pe
		}
		if uint64(lc) != wc {
			fail(fmt.Sprintf("FAIL:xor-clock:XOR(%d) clock %d want %d", c, lc, wc))
		}
	}
	sb.WriteString(" |")
	for _, c := range op.Is {
		ib, lc := r.st.IBLT(c)
		got := vc08Buckets(&ib)
		fmt.Fprintf(&sb, " I%d=%d@%d", c, vc08BucketsDigest(got), lc)
		want := make([]vc08Bucket, IbltNumBuckets)
		for _, k := range S {
			if k.clock/PageSize <= c/PageSize {
				ref := k.tx.Ref()
				for _, h := range k.idx {
					want[h].count++
					want[h].hs ^= k.hk
					for i := range ref {
						want[h].ks[i] ^= ref[i]
					}
				}
			}
		}
		same := len(got) == len(want)
		for i := 0; same && i < len(got); i++ {
			same = got[i] == want[i]
		}
		if !same {
			fail(fmt.Sprintf("FAIL:iblt-differs-from-reference-fold:IBLT(%d)", c))
		}
		wc := uint64(maxClock)
		if pe := vc08PageEnd(c); pe < wc {
			wc = pe
		}
		if uint64(lc) != wc {
			fail(fmt.Sprintf("FAIL:iblt-clock:IBLT(%d) clock %d want %d", c, lc, wc))
		}
	}
	sb.WriteString(" |")
	for i := 0; i+1 < len(op.Ws); i += 2 {
		a, b := op.Ws[i], op.Ws[i+1]
		txs, err := r.st.FindBetweenLC(ctx, a, b)
		if err != nil {
			fmt.Fprintf(&sb, " W%d-%d=err:%s", a, b, err.Error())
			fail("FAIL:listing-error")
			continue
		}
		refs := make([]hash.SHA256Hash, len(txs))
		for j, t := range txs {
			refs[j] = t.Ref()
			if t.Clock() != r.byRef[t.Ref()].clock {
				fail("FAIL:listing-clock-mismatch")
			}
		}
		fmt.Fprintf(&sb, " W%d-%d=%d:%d", a, b, len(refs), vc08ListDigest(refs))
		var want []*vc08Known
		for _, k := range S {
			if k.clock >= a && k.clock < b {
				want = append(want, k)
			}
		}
		sort.Slice(want, func(x, y int) bool {
			if want[x].clock != want[y].clock {
				return want[x].clock < want[y].clock
			}
			rx, ry := want[x].tx.Ref(), want[y].tx.Ref()
			return bytes.Compare(rx[:], ry[:]) < 0
		})
		same := len(want) == len(refs)
		for j := 0; same && j < len(refs); j++ {
			same = want[j].tx.Ref().Equals(refs[j])
		}
		if !same {
			fail(fmt.Sprintf("FAIL:listing-differs-from-reference:FindBetweenLC(%d,%d) got %d want %d", a, b, len(refs), len(want)))
		}
	}
	return sb.String(), orc
}

func (r *vc08Run) emit(op *vc08Op, line, orc string) {
	b, _ := json.Marshal(op)
	r.ops.Write(b)
	r.ops.WriteByte('\n')
	r.impl.WriteString(line + "\n")
	r.orc.WriteString(orc + "\n")
	r.opCount++
	r.stats[op.Op]++
	if op.Fail != "" && op.Fail != "none" {
		r.stats["add-commit-fails:"+op.Fail]++
	}
	if op.Save != "" {
		r.stats["add-save-fails:"+op.Save]++
	}
	if op.Put > 0 {
		r.stats["add-put-fault"]++
	}
}

// register the structural descriptions of the transactions of the history starting at ops[from] (a "new" op)
func (r *vc08Run) register(ops []*vc08Op, from int) {
	r.specs = map[int]*vc08Op{}
	reg := func(a *vc08Op) {
		if old, ok := r.specs[a.I]; !ok || (len(old.Pi) == 0 && len(a.Pi) > 0) {
			r.specs[a.I] = a
		}
	}
	for i := from + 1; i < len(ops) && ops[i].Op != "new"; i++ {
		if ops[i].Op == "add" || ops[i].Op == "dupadd" || ops[i].Op == "checkRace" || ops[i].Op == "between" {
			reg(ops[i])
		}
		if ops[i].Op == "between" {
			reg(ops[i].inner())
		}
		for _, a := range ops[i].adds {
			reg(a)
		}
	}
}

func (r *vc08Run) run(ops []*vc08Op) {
	for i, op := range ops {
		if op.Op == "new" {
			r.register(ops, i)
		}
		// watchdog: an operation of the real code that does not terminate (e.g. the tree's growth loop on a tree
		// loaded from a damaged shelf) is reported as an outcome instead of hanging the whole run
		done := make(chan struct{})
		go func() {
			defer close(done)
			r.exec(op)
		}()
		select {
		case <-done:
		case <-time.After(90 * time.Second):
			op.Xs, op.Is, op.Ws = []uint32{}, []uint32{}, []uint32{}
			op.Quiet = true
			r.emit(op, "hang:"+op.Op, "FAIL:operation-did-not-terminate:"+op.Op+" did not return within 90s")
			r.ops.Flush()
			r.impl.Flush()
			r.orc.Flush()
			sb, _ := json.Marshal(r.stats)
			os.WriteFile(filepath.Join(filepath.Dir(r.dir), "stats.json"), sb, 0o644)
			os.Exit(0)
		}
	}
}

func (r *vc08Run) exec(op *vc08Op) {
	tag := op.Op
	if vc08IsCodecOp(op.Op) {
		line := "bad"
		func() {
			defer func() {
				if e := recover(); e != nil {
					line = fmt.Sprintf("%s panic:%v", op.Op, e)
				}
			}()
			line = r.codec(op)
		}()
		op.Xs, op.Is, op.Ws = []uint32{}, []uint32{}, []uint32{}
		orc := r.codecOrc
		if orc == "" {
			orc = "ok"
		}
		r.emit(op, line, orc)
		return
	}
	func() {
		defer func() {
			if e := recover(); e != nil {
				tag = fmt.Sprintf("panic:%v", e)
			}
		}()
		switch op.Op {
		case "new":
			r.close()
			os.RemoveAll(filepath.Join(r.dir, fmt.Sprintf("h%d", r.histNo)))
			r.histNo++
			r.txs = map[int]*vc08Known{}
			r.byRef = map[hash.SHA256Hash]*vc08Known{}
			r.open()
		case "add":
			tag = r.doAdd(op, 0)
			r.fillTx(op)
			r.stats["add:"+tag]++
		case "dupadd":
			tag = r.doDupAdd(op)
			r.fillTx(op)
			r.stats["add:"+tag]++
		case "between":
			tag = r.doBetween(op)
		case "batch":
			n := len(op.adds)
			results := make([]string, n)
			r.db.order = nil
			var wg sync.WaitGroup
			for i := range op.adds {
				r.tx(op.adds[i]) // create sequentially (map writes)
			}
			for i := range op.adds {
				wg.Add(1)
				go func(i int) {
					defer wg.Done()
					results[i] = r.doAdd(op.adds[i], i)
				}(i)
			}
			wg.Wait()
			seen := map[int]bool{}
			var order []int
			for _, id := range r.db.order {
				if !seen[id] {
					seen[id] = true
					order = append(order, id)
				}
			}
			for i := 0; i < n; i++ {
				if !seen[i] {
					order = append(order, i)
				}
			}
			op.N = n
			r.emit(&vc08Op{Op: "batch", N: n, Xs: []uint32{}, Is: []uint32{}, Ws: []uint32{}}, "batch", "ok")
			for _, id := range order {
				a := op.adds[id]
				a.Quiet = true
				a.Xs, a.Is, a.Ws = []uint32{}, []uint32{}, []uint32{}
				r.fillTx(a)
				r.emit(a, results[id], "ok")
			}
			op.Op = "obs"
			tag = "obs"
		case "race":
			// Add(a) fails at commit; Add(b) is started after a's transaction was rolled back (write lock free) and
			// BEFORE a's rollback handler has reloaded the trees; the handler is released once b is done or has been
			// blocked for a while. Both orders of "reload" and "b" must give what the stored set implies.
			a, b := op.adds[0], op.adds[1]
			r.tx(a)
			r.tx(b)
			r.db.order = nil
			r.db.rolledBack, r.db.release, r.db.otherDone = make(chan struct{}), make(chan struct{}), make(chan struct{})
			resA, resB := make(chan string, 1), make(chan string, 1)
			go func() { resA <- r.doAddHold(a, 0, true) }()
			select {
			case <-r.db.rolledBack:
			case <-time.After(5 * time.Second):
			}
			otherDone := r.db.otherDone
			go func() { x := r.doAdd(b, 1); close(otherDone); resB <- x }()
			rb, gotB := "", false
			select {
			case rb = <-resB:
				gotB = true
			case <-time.After(30 * time.Millisecond):
			}
			close(r.db.release)
			ra := <-resA
			if !gotB {
				rb = <-resB
			}
			if gotB {
				r.stats["race:b-ran-inside-window"]++
			} else {
				r.stats["race:b-waited-for-reload"]++
			}
			r.emit(&vc08Op{Op: "race", N: 2, Xs: []uint32{}, Is: []uint32{}, Ws: []uint32{}}, "race", "ok")
			for i, x := range []*vc08Op{a, b} {
				x.Quiet = true
				x.Xs, x.Is, x.Ws = []uint32{}, []uint32{}, []uint32{}
				r.fillTx(x)
				r.emit(x, []string{ra, rb}[i], "ok")
			}
			op.Op = "obs"
			tag = "obs"
		case "obs":
		case "restart":
			r.close()
			r.open()
		case "corruptDisk":
			v, _ := hex.DecodeString(op.Val)
			if err := r.db.WriteShelf(context.Background(), xorShelf, func(w stoabs.Writer) error {
				return w.Put(clockToKey(op.Key), v)
			}); err != nil {
				tag = "err:" + err.Error()
			}
		case "corruptMem":
			v, _ := hex.DecodeString(op.Val)
			x := tree.NewXor()
			_ = x.UnmarshalBinary(v)
			r.st.xorTree.mutex.Lock()
			err := r.st.xorTree.tree.Replace(op.Clock, x)
			r.st.xorTree.mutex.Unlock()
			if err != nil {
				tag = "err:" + err.Error()
			}
		case "liveRepair":
			// the real repair loop: Start() launches the goroutine that calls checkPage on every tick (tick shortened),
			// two "incorrect state" signals make the circuit red; wait until the XOR root is the reference again
			S, _ := r.stored()
			var want hash.SHA256Hash
			for _, k := range S {
				ref := k.tx.Ref()
				for i := range want {
					want[i] ^= ref[i]
				}
			}
			r.st.xorTreeRepair.ticker.Stop()
			r.st.xorTreeRepair.ticker = time.NewTicker(2 * time.Millisecond)
			if err := r.st.Start(); err != nil {
				tag = "err:" + err.Error()
				break
			}
			r.starts++
			r.st.IncorrectStateDetected()
			r.st.IncorrectStateDetected()
			deadline := time.Now().Add(25 * time.Second)
			for {
				x, _ := r.st.XOR(MaxLamportClock)
				if x == want {
					break
				}
				if time.Now().After(deadline) {
					tag = "liveRepair:not-repaired-within-25s"
					break
				}
				time.Sleep(time.Millisecond)
			}
			_ = r.st.Shutdown()
			time.Sleep(5 * time.Millisecond)
			r.st.xorTreeRepair.mutex.Lock() // no checkPage is running any more
			r.st.xorTreeRepair.mutex.Unlock()
		case "signal":
			r.st.IncorrectStateDetected()
		case "signalOK":
			r.st.CorrectStateDetected()
		case "checkRace":
			// an Add that commits after checkPage has started (and read the atomic clock) but before its write transaction
			res, fired := "", false
			r.db.beforeRepairWrite = func() { fired = true; res = r.doAdd(op, 0) }
			r.st.xorTreeRepair.checkPage()
			r.db.beforeRepairWrite = nil
			if !fired { // circuit not red: checkPage returned at once
				res = r.doAdd(op, 0)
			}
			r.fillTx(op)
			r.stats["add:"+res]++
			tag = fmt.Sprintf("checkRace %s page=%d", res, r.st.xorTreeRepair.currentPage)
		case "check":
			r.st.xorTreeRepair.checkPage()
			tag = fmt.Sprintf("check page=%d", r.st.xorTreeRepair.currentPage)
		case "checkFail":
			// the repair's own write transaction fails (error after the write function: nothing is committed)
			r.db.failRepairWrite = true
			r.st.xorTreeRepair.checkPage()
			r.db.failRepairWrite = false
			tag = fmt.Sprintf("checkFail page=%d", r.st.xorTreeRepair.currentPage)
		}
	}()
	if op.Quiet {
		r.emit(op, tag, "ok")
		return
	}
	line, orc := tag, "ok"
	func() {
		defer func() {
			if e := recover(); e != nil {
				line = fmt.Sprintf("%s | panic:%v", tag, e)
			}
		}()
		r.sweeps(op)
		o, oc := r.observe(op)
		line, orc = tag+" | "+o, oc
	}()
	r.emit(op, line, orc)
}

// ---------------------------------------------------------------- generator

type vc08Gen struct {
	rng      *rand.Rand
	ops      []*vc08Op
	nextI    int
	clock    map[int]uint32
	added    []int // indices in the DAG, in order of admission
	maxClock uint32
	top      []int // added txs with clock >= maxClock-2
	rare     int   // per-mille weight of the rare events
}

func (g *vc08Gen) newTx(prevs []int, clock uint32) *vc08Op {
	op := &vc08Op{Op: "add", I: g.nextI, Pi: prevs, Clk: clock, Payload: "nil", Fail: "none"}
	g.clock[g.nextI] = clock
	g.nextI++
	return op
}

func (g *vc08Gen) commit(op *vc08Op) {
	g.added = append(g.added, op.I)
	if op.Clk > g.maxClock {
		g.maxClock = op.Clk
	}
	nt := g.top[:0:0]
	for _, i := range append(g.top, op.I) {
		if g.clock[i]+2 >= g.maxClock {
			nt = append(nt, i)
		}
	}
	g.top = nt
}

// a valid next transaction: 1..3 prevs among the recent ones (width controls how often the clock advances)
func (g *vc08Gen) valid(width int) *vc08Op {
	if len(g.added) == 0 {
		return g.newTx(nil, 0)
	}
	var prevs []int
	var hi uint32
	pick := func() int {
		if g.rng.Intn(width) == 0 { // extend the longest chain
			var best []int
			for _, i := range g.top {
				if g.clock[i] == g.maxClock {
					best = append(best, i)
				}
			}
			return best[g.rng.Intn(len(best))]
		}
		if g.rng.Intn(12) == 0 {
			return g.added[g.rng.Intn(len(g.added))]
		}
		return g.top[g.rng.Intn(len(g.top))]
	}
	for n := 1 + g.rng.Intn(3); n > 0; n-- {
		p := pick()
		dup := false
		for _, q := range prevs {
			dup = dup || q == p
		}
		if !dup {
			prevs = append(prevs, p)
			if g.clock[p] > hi {
				hi = g.clock[p]
			}
		}
	}
	return g.newTx(prevs, hi+1)
}

func vc08RandHex(rng *rand.Rand) string {
	b := make([]byte, 32)
	rng.Read(b)
	return hex.EncodeToString(b)
}

func (g *vc08Gen) payloadMode() string {
	if g.rng.Intn(3) == 0 {
		return "ok"
	}
	return "nil"
}

func (g *vc08Gen) repairCycle(pages int) {
	g.ops = append(g.ops, &vc08Op{Op: "signal", Sus: true}, &vc08Op{Op: "signal", Sus: true})
	raceAt := -1
	if g.rng.Intn(3) == 0 {
		raceAt = g.rng.Intn(2*pages + 1)
	}
	for k := 0; k < 2*pages+1; k++ {
		if k == raceAt { // an Add slips in between the start of this check and its write transaction
			op := g.valid(1 + g.rng.Intn(2))
			op.Op = "checkRace"
			op.Sus, op.fullObs = k < 2*pages, true
			g.ops = append(g.ops, op)
			g.commit(op)
			continue
		}
		g.ops = append(g.ops, &vc08Op{Op: "check", Sus: k < 2*pages, fullObs: k == 2*pages})
	}
	if g.rng.Intn(2) == 0 { // is the repaired page what a restart reads back?
		g.ops = append(g.ops, &vc08Op{Op: "restart", fullObs: true}, &vc08Op{Op: "signal"}, &vc08Op{Op: "signal"})
	}
	if g.rng.Intn(2) == 0 {
		g.ops = append(g.ops, &vc08Op{Op: "signalOK"}, &vc08Op{Op: "check"})
	}
}

// history generates `n` admitted transactions plus the rejected / failing / restarting / corrupting events around them
func (g *vc08Gen) history(label string, n, width int) {
	g.ops = append(g.ops, &vc08Op{Op: "new", Hist: label})
	g.clock = map[int]uint32{}
	g.added, g.top, g.maxClock, g.nextI = nil, nil, 0, 0
	for len(g.added) < n {
		x := g.rng.Intn(1000)
		rare := func(w int) bool { x -= w * g.rare; return x < 0 }
		pages := int(g.maxClock/PageSize) + 1
		switch {
		case rare(3): // commit failure, then the same transaction again
			op := g.valid(width)
			f := *op
			f.Fail = []string{"fn", "ctx"}[g.rng.Intn(2)]
			f.Payload = g.payloadMode()
			g.ops = append(g.ops, &f)
			if g.rng.Intn(4) > 0 {
				op.Payload = g.payloadMode()
				g.ops = append(g.ops, op)
				g.commit(op)
			}
		case rare(2): // missing prev: child before parent
			if len(g.added) == 0 {
				continue
			}
			parent := g.valid(width)
			child := g.newTx([]int{parent.I}, parent.Clk+1)
			early := *child
			g.ops = append(g.ops, &early, parent)
			g.commit(parent)
			if g.rng.Intn(2) == 0 {
				g.ops = append(g.ops, child)
				g.commit(child)
			}
		case rare(1): // wrong clock
			if len(g.added) == 0 {
				continue
			}
			op := g.valid(width)
			right := op.Clk
			op.Clk = right + uint32(1+g.rng.Intn(2))
			if g.rng.Intn(2) == 0 {
				op.Clk = right - 1 // right >= 1: the DAG is not empty
				if right >= 2 && g.rng.Intn(2) == 0 {
					op.Clk = uint32(g.rng.Intn(int(right - 1)))
				}
			}
			g.clock[op.I] = op.Clk
			g.ops = append(g.ops, op)
		case rare(1): // second root
			if len(g.added) == 0 {
				continue
			}
			g.ops = append(g.ops, g.newTx(nil, 0))
		case rare(3): // a store fault at the k-th Put of the write transaction (k up to beyond the last put), then the retry
			op := g.valid(width)
			f := *op
			f.Payload = g.payloadMode()
			f.Put = 1 + g.rng.Intn(10)
			g.ops = append(g.ops, &f)
			total := 6 // clock index, transaction, lc_high, tx_num, IBLT leaf, XOR leaf
			if f.Payload != "nil" {
				total += 2 // payload, "payload event saved" mark
			}
			if op.Clk > g.maxClock || op.Clk == 0 {
				total++ // head_ref
			}
			if f.Put > total {
				g.commit(op) // no such put: the transaction was admitted
			} else if g.rng.Intn(5) > 0 {
				g.ops = append(g.ops, op)
				g.commit(op)
			}
			if g.rng.Intn(4) == 0 {
				g.ops = append(g.ops, &vc08Op{Op: "restart", fullObs: true})
			}
		case rare(2): // a failing Add racing with the next Add (rollback handler runs after the write lock is released)
			if len(g.added) == 0 {
				continue
			}
			a := g.valid(width)
			b := g.valid(width)
			if g.rng.Intn(2) == 0 { // same prevs, same clock, same page
				b = g.newTx(a.Pi, a.Clk)
			}
			fa := *a
			switch g.rng.Intn(3) {
			case 0:
				fa.Fail = "fn"
			case 1:
				fa.Fail = "ctx"
			default: // the XOR leaf put fails: memory already holds the transaction in both trees
				fa.Payload = "nil"
				fa.Put = 6
				if fa.Clk > g.maxClock {
					fa.Put = 7
				}
			}
			g.ops = append(g.ops, &vc08Op{Op: "race", adds: []*vc08Op{&fa, b}, fullObs: true})
			g.commit(b)
			if g.rng.Intn(2) == 0 {
				g.ops = append(g.ops, a)
				g.commit(a)
			}
			if g.rng.Intn(3) == 0 {
				g.ops = append(g.ops, &vc08Op{Op: "restart", fullObs: true})
			}
		case rare(2): // a notifier's Save fails inside the write transaction (before or after graph.add), then the retry
			op := g.valid(width)
			f := *op
			f.Save = []string{"payload", "tx"}[g.rng.Intn(2)]
			f.Payload = "ok"
			g.ops = append(g.ops, &f)
			if g.rng.Intn(4) > 0 {
				op.Payload = g.payloadMode()
				g.ops = append(g.ops, op)
				g.commit(op)
			}
		case rare(1): // many transactions on one clock value (long hash list in the clock shelf)
			if len(g.added) == 0 {
				continue
			}
			first := g.valid(width)
			g.ops = append(g.ops, first)
			g.commit(first)
			for k := 12 + g.rng.Intn(30); k > 0; k-- {
				op := g.newTx(first.Pi, first.Clk)
				op.Payload = g.payloadMode()
				g.ops = append(g.ops, op)
				g.commit(op)
			}
		case rare(2): // payload does not match, then the right one
			op := g.valid(width)
			f := *op
			f.Payload = "bad"
			g.ops = append(g.ops, &f)
			if g.rng.Intn(3) > 0 {
				op.Payload = "ok"
				g.ops = append(g.ops, op)
				g.commit(op)
			}
		case rare(2): // already present
			if len(g.added) == 0 {
				continue
			}
			i := g.added[g.rng.Intn(len(g.added))]
			g.ops = append(g.ops, &vc08Op{Op: "add", I: i, Clk: g.clock[i], Payload: g.payloadMode(), Fail: []string{"none", "none", "fn"}[g.rng.Intn(3)]})
		case rare(2):
			g.ops = append(g.ops, &vc08Op{Op: "restart", fullObs: true})
		case rare(1): // corrupted XOR leaf on disk, loaded by a restart, repaired
			if len(g.added) == 0 {
				continue
			}
			p := uint32(g.rng.Intn(pages))
			g.ops = append(g.ops, &vc08Op{Op: "corruptDisk", Key: p*PageSize + PageSize/2, Val: vc08RandHex(g.rng)},
				&vc08Op{Op: "restart", Sus: true, fullObs: true})
			if g.rng.Intn(3) == 0 { // repaired by the real background loop instead of direct checkPage calls
				g.ops = append(g.ops, &vc08Op{Op: "liveRepair", fullObs: true}, &vc08Op{Op: "restart", fullObs: true})
			} else {
				g.repairCycle(pages)
			}
		case rare(1): // corrupted XOR leaf in memory, repaired
			if len(g.added) == 0 {
				continue
			}
			p := uint32(g.rng.Intn(pages))
			g.ops = append(g.ops, &vc08Op{Op: "corruptMem", Clock: p*PageSize + uint32(g.rng.Intn(int(PageSize))), Val: vc08RandHex(g.rng), Sus: true, fullObs: true})
			g.repairCycle(pages)
		case rare(2): // concurrent adds: all valid against the current DAG, some duplicated
			if len(g.added) == 0 {
				continue
			}
			b := &vc08Op{Op: "batch"}
			for k := 2 + g.rng.Intn(5); k > 0; k-- {
				op := g.valid(width)
				op.Payload = g.payloadMode()
				b.adds = append(b.adds, op)
				if g.rng.Intn(4) == 0 {
					d := *op
					b.adds = append(b.adds, &d)
				}
			}
			g.ops = append(g.ops, b)
			for _, a := range b.adds {
				dup := false
				for _, i := range g.added {
					dup = dup || i == a.I
				}
				if !dup {
					g.commit(a)
				}
			}
		case rare(3): // the repair loop is active on a healthy DAG and Adds slip in before its write transactions
			if len(g.added) == 0 {
				continue
			}
			g.ops = append(g.ops, &vc08Op{Op: "signal"}, &vc08Op{Op: "signal"})
			for k := 1 + g.rng.Intn(3); k > 0; k-- {
				op := g.valid(width)
				op.Op = "checkRace"
				op.Payload = g.payloadMode()
				op.fullObs = true
				g.ops = append(g.ops, op)
				g.commit(op)
			}
			g.ops = append(g.ops, &vc08Op{Op: "signalOK"})
			if g.rng.Intn(3) == 0 {
				g.ops = append(g.ops, &vc08Op{Op: "restart", fullObs: true})
			}
		case rare(1):
			if g.rng.Intn(2) == 0 { // one signal only: the circuit is yellow
				g.ops = append(g.ops, &vc08Op{Op: "signal"}, &vc08Op{Op: "check"}, &vc08Op{Op: "signalOK"})
			} else {
				g.ops = append(g.ops, &vc08Op{Op: "signal"}, &vc08Op{Op: "signal"}, &vc08Op{Op: "check"}, &vc08Op{Op: "signalOK"})
			}
		default:
			op := g.valid(width)
			op.Payload = g.payloadMode()
			op.fullObs = g.rng.Intn(64) == 0
			if op.Clk > 0 && op.Clk%PageSize == 0 && op.Clk > g.maxClock {
				// the first transaction of a new page (new leaf, possibly a new root): fail its commit first, so that
				// the rollback has to shrink the in-memory trees again; then admit it and restart
				op.fullObs = true
				if g.rng.Intn(3) > 0 {
					f := *op
					f.Fail = []string{"fn", "ctx"}[g.rng.Intn(2)]
					g.ops = append(g.ops, &f)
				}
				g.ops = append(g.ops, op)
				g.commit(op)
				if g.rng.Intn(2) == 0 {
					g.ops = append(g.ops, &vc08Op{Op: "restart", fullObs: true})
				}
				continue
			}
			g.ops = append(g.ops, op)
			g.commit(op)
		}
	}
	g.ops = append(g.ops, &vc08Op{Op: "restart", fullObs: true})
}

// exhaustive enumerates, for one short valid history, every position at which the write fails at commit (both ways) or
// the process restarts: one history per (position, fault)
func (g *vc08Gen) exhaustive(label string, n, width int) {
	type spec struct {
		pi  []int
		clk uint32
	}
	// the base history (shapes only)
	g.clock = map[int]uint32{}
	g.added, g.top, g.maxClock, g.nextI = nil, nil, 0, 0
	var base []spec
	for i := 0; i < n; i++ {
		op := g.valid(width)
		base = append(base, spec{op.Pi, op.Clk})
		g.commit(op)
	}
	for pos := 0; pos < n; pos++ {
		for _, fault := range []string{"fn", "ctx", "restart", "bad-payload", "save-payload", "save-tx", "race",
			"put1", "put2", "put3", "put4", "put5", "put6", "put7", "put8", "put9"} {
			g.ops = append(g.ops, &vc08Op{Op: "new", Hist: fmt.Sprintf("%s-pos%d-%s", label, pos, fault)})
			for i, b := range base {
				op := &vc08Op{Op: "add", I: i, Pi: b.pi, Clk: b.clk, Payload: "ok", Fail: "none"}
				if i == pos {
					switch fault {
					case "fn", "ctx":
						f := *op
						f.Fail = fault
						g.ops = append(g.ops, &f)
					case "bad-payload":
						f := *op
						f.Payload = "bad"
						g.ops = append(g.ops, &f)
					case "put1", "put2", "put3", "put4", "put5", "put6", "put7", "put8", "put9":
						// payload given: payload, payload-event mark, clock index, tx, lc_high, [head_ref], tx_num, IBLT leaf, XOR leaf
						f := *op
						f.Put = int(fault[3] - '0')
						g.ops = append(g.ops, &f) // (a 9th put exists only when the head changes; else this call succeeds)
					case "race":
						f := *op
						f.Fail = "fn"
						sib := &vc08Op{Op: "add", I: 1000 + i, Pi: b.pi, Clk: b.clk, Payload: "nil", Fail: "none"}
						g.ops = append(g.ops, &vc08Op{Op: "race", adds: []*vc08Op{&f, sib}, fullObs: true})
					case "save-payload", "save-tx":
						f := *op
						f.Save = strings.TrimPrefix(fault, "save-")
						g.ops = append(g.ops, &f)
					}
				}
				g.ops = append(g.ops, op)
				if i == pos && fault == "restart" {
					g.ops = append(g.ops, &vc08Op{Op: "restart", fullObs: true})
				}
			}
			g.ops = append(g.ops, &vc08Op{Op: "restart", fullObs: true})
		}
	}
}

// boundary: a chain whose highest clock stops exactly at k*PageSize-1, k*PageSize and k*PageSize+1; at each stop the
// LAST page (which at k*PageSize holds a single clock value) is corrupted — on disk + restart, and in memory — and must
// be restored both by direct checkPage cycles and by the real background loop; the page walk of checkPage wraps
// around exactly there
func (g *vc08Gen) boundary(label string, k uint32) {
	g.ops = append(g.ops, &vc08Op{Op: "new", Hist: label})
	g.clock = map[int]uint32{}
	g.added, g.top, g.maxClock, g.nextI = nil, nil, 0, 0
	chainTo := func(clock uint32) {
		for len(g.added) == 0 || g.maxClock < clock {
			var op *vc08Op
			if len(g.added) == 0 {
				op = g.newTx(nil, 0)
			} else {
				last := g.added[len(g.added)-1]
				op = g.newTx([]int{last}, g.clock[last]+1)
			}
			g.ops = append(g.ops, op)
			g.commit(op)
		}
	}
	for _, stop := range []uint32{k*PageSize - 1, k * PageSize, k*PageSize + 1} {
		chainTo(stop)
		pages := int(stop/PageSize) + 1
		lastPage := stop / PageSize
		// on disk, loaded by a restart, repaired by direct checkPage calls
		g.ops = append(g.ops, &vc08Op{Op: "corruptDisk", Key: lastPage*PageSize + PageSize/2, Val: vc08RandHex(g.rng)},
			&vc08Op{Op: "restart", Sus: true, fullObs: true})
		g.ops = append(g.ops, &vc08Op{Op: "signal", Sus: true}, &vc08Op{Op: "signal", Sus: true})
		for c := 0; c < 2*pages+1; c++ {
			g.ops = append(g.ops, &vc08Op{Op: "check", Sus: c < 2*pages, fullObs: c == 2*pages})
		}
		g.ops = append(g.ops, &vc08Op{Op: "signalOK"}, &vc08Op{Op: "restart", fullObs: true})
		// in memory, repaired by direct checkPage calls (the page counter is wherever the previous round left it)
		g.ops = append(g.ops, &vc08Op{Op: "corruptMem", Clock: stop, Val: vc08RandHex(g.rng), Sus: true, fullObs: true},
			&vc08Op{Op: "signal", Sus: true}, &vc08Op{Op: "signal", Sus: true})
		for c := 0; c < 2*pages+1; c++ {
			g.ops = append(g.ops, &vc08Op{Op: "check", Sus: c < 2*pages, fullObs: c == 2*pages})
		}
		g.ops = append(g.ops, &vc08Op{Op: "signalOK"})
		// on disk, loaded by a restart, repaired by the real background loop
		g.ops = append(g.ops, &vc08Op{Op: "corruptDisk", Key: lastPage*PageSize + PageSize/2, Val: vc08RandHex(g.rng)},
			&vc08Op{Op: "restart", Sus: true, fullObs: true}, &vc08Op{Op: "liveRepair", fullObs: true},
			&vc08Op{Op: "restart", fullObs: true})
	}
}

// the first write ever fails at commit (empty disk): the reload must leave empty trees behind
func (g *vc08Gen) firstWriteFails(label, mode string) {
	g.ops = append(g.ops, &vc08Op{Op: "new", Hist: label})
	g.clock = map[int]uint32{}
	g.added, g.top, g.maxClock, g.nextI = nil, nil, 0, 0
	root := g.newTx(nil, 0)
	f := *root
	f.Fail = mode
	g.ops = append(g.ops, &f, root)
	g.commit(root)
	for k := 0; k < 3; k++ {
		op := g.valid(1)
		g.ops = append(g.ops, op)
		g.commit(op)
	}
}

func TestVerifC08(t *testing.T) {
	out := os.Getenv("VERIF_OUT")
	if out == "" {
		t.Skip("VERIF_OUT not set")
	}
	logrus.SetLevel(logrus.PanicLevel)
	if devnull, err := os.OpenFile(os.DevNull, os.O_WRONLY, 0); err == nil {
		os.Stderr = devnull // the audit logger (created on first use) writes one line per signature
	}
	seed, _ := strconv.ParseInt(os.Getenv("VERIF_SEED"), 10, 64)
	thorough := os.Getenv("VERIF_TIER") == "thorough"
	of, _ := os.Create(filepath.Join(out, "ops.jsonl"))
	imf, _ := os.Create(filepath.Join(out, "impl.out"))
	orf, _ := os.Create(filepath.Join(out, "oracle.out"))
	defer of.Close()
	defer imf.Close()
	defer orf.Close()
	key, _ := nutsCrypto.GenerateJWK()
	_ = key.Set(jwk.KeyIDKey, "k")
	rng := rand.New(rand.NewSource(seed*104729 + 8))
	r := &vc08Run{t: t, ops: bufio.NewWriterSize(of, 1<<20), impl: bufio.NewWriterSize(imf, 1<<20), orc: bufio.NewWriter(orf),
		dir: filepath.Join(out, "db"), signer: nutsCrypto.MemoryJWTSigner{Key: key}, rng: rng, stats: map[string]int{}, putShelves: map[string]int{}}
	defer r.ops.Flush()
	defer r.impl.Flush()
	defer r.orc.Flush()
	defer func() {
		r.close()
		os.RemoveAll(r.dir)
		for k, v := range r.putShelves {
			r.stats["put-fault-on:"+k] = v
		}
		sb, _ := json.Marshal(r.stats)
		os.WriteFile(filepath.Join(out, "stats.json"), sb, 0o644)
	}()

	replayFile := func(p string) {
		f, err := os.Open(p)
		if err != nil {
			t.Fatal(err)
		}
		defer f.Close()
		sc := bufio.NewScanner(f)
		sc.Buffer(make([]byte, 1<<20), 1<<26)
		var ops []*vc08Op
		for sc.Scan() {
			if strings.TrimSpace(sc.Text()) == "" {
				continue
			}
			op := &vc08Op{}
			if err := json.Unmarshal(sc.Bytes(), op); err != nil {
				t.Fatal(err)
			}
			if strings.HasPrefix(op.Op, "t") {
				continue
			}
			op.Tx, op.Tx2 = nil, nil
			ops = append(ops, op)
		}
		if len(ops) > 0 && ops[0].Op != "new" {
			ops = append([]*vc08Op{{Op: "new", Hist: "replay"}}, ops...)
		}
		var flat []*vc08Op
		for i := 0; i < len(ops); i++ {
			op := ops[i]
			flat = append(flat, op)
			if op.Op == "batch" || op.Op == "race" { // the next N quiet adds ran concurrently; the following obs line is re-emitted
				for k := 0; k < op.N && i+1 < len(ops); k++ {
					i++
					a := ops[i]
					a.Quiet = false
					op.adds = append(op.adds, a)
				}
				if i+1 < len(ops) && ops[i+1].Op == "obs" {
					i++
					op.Xs, op.Is, op.Ws = ops[i].Xs, ops[i].Is, ops[i].Ws
				}
			}
		}
		r.run(flat)
	}
	if p := os.Getenv("VERIF_REPLAY"); p != "" {
		replayFile(p)
		return
	}
	if d := os.Getenv("VERIF_CORPUS"); d != "" {
		files, _ := filepath.Glob(filepath.Join(d, "state-*.jsonl"))
		sort.Strings(files)
		for _, f := range files {
			replayFile(f)
		}
	}

	g := &vc08Gen{rng: rng}
	envInt := func(name string, def int) int {
		if v, err := strconv.Atoi(os.Getenv(name)); err == nil {
			return v
		}
		return def
	}
	small := envInt("VERIF_C08_SMALL", 24)
	medium := envInt("VERIF_C08_MEDIUM", 5)
	large := envInt("VERIF_C08_LARGE", 1)
	if thorough {
		small, medium, large = envInt("VERIF_C08_SMALL", 300), envInt("VERIF_C08_MEDIUM", 40), envInt("VERIF_C08_LARGE", 6)
	}
	g.codecBlock(envInt("VERIF_C08_CODEC", 120))
	g.firstWriteFails("first-write-fails-fn", "fn")
	g.firstWriteFails("first-write-fails-ctx", "ctx")
	exh, exhN := 1, 7
	if thorough {
		exh, exhN = 8, 14
	}
	for i := 0; i < exh; i++ { // every commit-failure / restart position of a short history
		g.exhaustive(fmt.Sprintf("exhaustive-%d", i), exhN+rng.Intn(3), 1+rng.Intn(3))
	}
	g.boundary("boundary-1", 1) // highest clock exactly 511 / 512 / 513 with the last page corrupted
	if thorough {
		g.boundary("boundary-2", 2)
		g.boundary("boundary-4", 4)
	}
	for i := 0; i < small; i++ { // short histories dense in rare events, 1..3 transactions per clock value
		g.rare = 12
		g.history(fmt.Sprintf("small-%d", i), 20+rng.Intn(120), 1+rng.Intn(3))
	}
	for i := 0; i < medium; i++ { // cross the first page boundary (clock 511/512), several refs per clock
		g.rare = 2
		g.history(fmt.Sprintf("medium-%d", i), 560+rng.Intn(500), 1+rng.Intn(2))
	}
	for i := 0; i < large; i++ { // chains: tree growth 1 -> 2 -> 4 -> 8 pages (clock >= 2048), thorough: sometimes 16
		g.rare = 1
		n := 2100 + rng.Intn(150)
		if thorough && i%3 == 2 {
			n = 4150
		}
		g.history(fmt.Sprintf("large-%d", i), n, 1)
	}
	nb := 6
	if thorough {
		nb = 40
	}
	for i := 0; i < nb; i++ { // the repair's write transaction fails: memory repaired, store untouched, corruption back after restart
		g.repairFault(fmt.Sprintf("repairfault-%d", i))
	}
	for i := 0; i < nb; i++ { // forced schedules: a whole Add between the read and the write transaction of another Add
		g.between(fmt.Sprintf("between-%d", i))
	}
	g.addRaw(40, envInt("VERIF_C08_RAW", 60))
	r.run(g.ops)
}
