//go:build verif

// C06 correspondence harness, test entry for package dag (library: zz_verif_c06_lib.go).
package dag

import (
	"encoding/base64"
	"encoding/json"
	"fmt"
	"math/rand"
	"os"
	"path/filepath"
	"sort"
	"strconv"
	"strings"
	"testing"
	"time"

	"github.com/sirupsen/logrus"
)

// ---------------------------------------------------------------- the test

func TestVerifC06(t *testing.T) {
	out := os.Getenv("VERIF_OUT")
	if out == "" {
		t.Skip("VERIF_OUT not set")
	}
	logrus.SetLevel(logrus.PanicLevel)
	seed, _ := strconv.ParseInt(os.Getenv("VERIF_SEED"), 10, 64)
	thorough := os.Getenv("VERIF_TIER") == "thorough"
	envInt := func(k string, d int) int {
		if v, err := strconv.Atoi(os.Getenv(k)); err == nil {
			return v
		}
		return d
	}
	readOps := func(p string) []v6Op {
		var ops []v6Op
		b, err := os.ReadFile(p)
		if err != nil {
			t.Fatal(err)
		}
		for _, l := range strings.Split(string(b), "\n") {
			if strings.TrimSpace(l) == "" {
				continue
			}
			var op v6Op
			if err := json.Unmarshal([]byte(l), &op); err != nil {
				t.Fatalf("bad op line: %v", err)
			}
			// the description is a function of the bytes: recompute it, so that stored witnesses stay valid when it gains fields
			redescribe := func(c *v6Call) {
				if in, err := base64.StdEncoding.DecodeString(c.In); err == nil {
					c.Jws = v6Describe(in)
				}
			}
			if op.Call != nil {
				redescribe(op.Call)
			}
			for i := range op.Calls {
				redescribe(&op.Calls[i])
			}
			if op.Op == "meta" {
				continue
			}
			ops = append(ops, op)
		}
		return ops
	}
	v6Main(t, out, func(sink func(op v6Op) string) {
		if rp := os.Getenv("VERIF_REPLAY"); rp != "" {
			for _, op := range readOps(rp) {
				sink(op)
			}
			return
		}
		if cd := os.Getenv("VERIF_CORPUS"); cd != "" {
			files, _ := filepath.Glob(filepath.Join(cd, "*.jsonl"))
			sort.Strings(files)
			for _, f := range files {
				for _, op := range readOps(f) {
					sink(op)
				}
			}
		}
		g := &v6Gen{rnd: rand.New(rand.NewSource(seed*7919 + 6)), sink: sink}
		for i := 0; i < 4; i++ {
			g.keys = append(g.keys, v6NewKey())
		}
		nBases := envInt("VERIF_PARSE_BASES", map[bool]int{true: 120, false: 8}[thorough])
		for i := 0; i < nBases; i++ {
			g.parserMutants(0)
		}
		nFr := envInt("VERIF_FRAMINGS", map[bool]int{true: 40, false: 4}[thorough])
		for i := 0; i < nFr; i++ {
			g.framingMutants(i == 0)
		}
		g.algFitOps()
		g.hashListOps(envInt("VERIF_HASHLISTS", map[bool]int{true: 2000, false: 200}[thorough]))
		g.newTxOps(envInt("VERIF_NEWTX", map[bool]int{true: 3000, false: 300}[thorough]))
		nHist := envInt("VERIF_HISTORIES", map[bool]int{true: 400, false: 40}[thorough])
		for i := 0; i < nHist; i++ {
			g.history(20+g.rnd.Intn(40), true)
		}
		g.genSchedules(2, envInt("VERIF_SCHED2", map[bool]int{true: 64, false: 24}[thorough]))
		g.genSchedules(3, envInt("VERIF_SCHED3", map[bool]int{true: 24, false: 4}[thorough]))
	})
}

func v6Main(t *testing.T, out string, body func(sink func(op v6Op) string)) {
	fo, err := os.Create(filepath.Join(out, "ops.jsonl"))
	if err != nil {
		t.Fatal(err)
	}
	fi, err := os.Create(filepath.Join(out, "impl.out"))
	if err != nil {
		t.Fatal(err)
	}
	defer fo.Close()
	defer fi.Close()
	fs, err := os.Create(filepath.Join(out, "impl.side"))
	if err != nil {
		t.Fatal(err)
	}
	defer fs.Close()
	x := &v6Exec{base: out}
	var current []byte
	v6Hang = func(msg string) {
		// the op in progress is the last line of ops.jsonl: the ops written so far are the replay
		fmt.Fprintf(os.Stderr, "HANG: %s\nop in progress: %.600s\n", msg, current)
		fi.WriteString("hang:" + msg + "\n")
		fi.Sync()
		fo.Sync()
		os.Exit(97)
	}
	body(func(op v6Op) string {
		b, _ := json.Marshal(op)
		fo.Write(b)
		fo.Write([]byte("\n"))
		current = b
		done := make(chan struct{})
		defer close(done)
		go func() { // per-op watchdog
			select {
			case <-done:
			case <-time.After(v6OpLimit):
				v6Hang(fmt.Sprintf("op did not return within %v", v6OpLimit))
			}
		}()
		var line string
		func() {
			defer func() {
				if r := recover(); r != nil {
					line = fmt.Sprintf("panic:harness:%v", r)
				}
			}()
			line = x.run(op)
		}()
		fi.WriteString(line + "\n")
		if x.node != nil && op.Op != "parse" {
			fs.WriteString(x.node.side() + "\n")
		} else {
			fs.WriteString("-\n")
		}
		return line
	})
	if x.node != nil {
		x.node.close()
	}
}
