//go:build verif

// C14 deepening leg: the REAL api/v1 ListEvents (REST view of undelivered events) over real dag notifiers on a bbolt
// store, against NutsModel.C14.Api.listEvents. Jobs are created by the real Notifier.Save and then given generated
// retry counts / error texts directly on the shelf `_<name>_jobs`. Writes ops.jsonl + impl.out into VERIF_OUT.
package v1

import (
	"context"
	"encoding/json"
	"errors"
	"fmt"
	"math/rand"
	"os"
	"path/filepath"
	"strconv"
	"strings"
	"testing"
	"time"

	"github.com/nuts-foundation/go-stoabs"
	"github.com/nuts-foundation/go-stoabs/bbolt"
	"github.com/nuts-foundation/nuts-node/network"
	"github.com/nuts-foundation/nuts-node/network/dag"
)

type c14aSvc struct {
	network.Transactions
	subs []dag.Notifier
}

func (s *c14aSvc) Subscribers() []dag.Notifier { return s.subs }

type c14aJob struct {
	S       int    `json:"s"`
	R       int    `json:"r"`
	Type    string `json:"type"`
	Retries int    `json:"retries"`
	Err     string `json:"err"`
}

var c14aTexts = map[string]string{"generic": "keeps failing", "incomplete": "receiver did not finish or fail", "fatal": "fatal: invalid", "ctx": "x: context URL not allowed", "none": ""}

func TestVerifC14ListEvents(t *testing.T) {
	out := os.Getenv("VERIF_OUT")
	if out == "" {
		t.Skip("VERIF_OUT not set")
	}
	seed, _ := strconv.ParseInt(os.Getenv("VERIF_SEED"), 10, 64)
	rng := rand.New(rand.NewSource(seed*7919 + 1414))
	rounds := 40
	if os.Getenv("VERIF_TIER") == "thorough" {
		rounds = 400
	}
	var pool []dag.Transaction
	refIdx := map[string]int{}
	for i := 0; i < 6; i++ {
		tx := dag.CreateSignedTestTransaction(uint32(300+i), time.Now(), nil, "application/did+json", true)
		pool = append(pool, tx)
	}
	// the model indexes refs in key order of the shelf
	for i := range pool {
		for j := i + 1; j < len(pool); j++ {
			if strings.Compare(pool[j].Ref().String(), pool[i].Ref().String()) < 0 {
				pool[i], pool[j] = pool[j], pool[i]
			}
		}
	}
	for i, tx := range pool {
		refIdx[tx.Ref().String()] = i
	}
	labels := []string{"generic", "incomplete", "fatal", "ctx"}
	textLabel := map[string]string{}
	for k, v := range c14aTexts {
		textLabel[v] = k
	}
	var opsL, implL []string
	for round := 0; round < rounds; round++ {
		path := filepath.Join(out, fmt.Sprintf("c14a-%d.db", round))
		db, err := bbolt.CreateBBoltStore(path, stoabs.WithNoSync())
		if err != nil {
			t.Fatal(err)
		}
		allNames := []string{"nats", "vdr", "private", "gossip", "vcr_vcs", "vcr_revocations"}
		rng.Shuffle(len(allNames), func(i, j int) { allNames[i], allNames[j] = allNames[j], allNames[i] })
		k := 1 + rng.Intn(5)
		names := allNames[:k]
		var subs []dag.Notifier
		pers := make([]bool, k)
		for i, name := range names {
			opts := []dag.NotifierOption{dag.WithRetryDelay(time.Hour)}
			pers[i] = rng.Intn(100) < 80
			if pers[i] {
				opts = append(opts, dag.WithPersistency(db))
			}
			subs = append(subs, dag.NewNotifier(name, func(dag.Event) (bool, error) { return false, errors.New("not called") }, opts...))
		}
		var jobs []c14aJob
		now := time.Now()
		for si := range subs {
			if !pers[si] {
				continue
			}
			for ri, tx := range pool {
				if rng.Intn(100) < 50 {
					continue
				}
				j := c14aJob{S: si, R: ri, Type: []string{"tx", "payload"}[rng.Intn(2)], Err: labels[rng.Intn(len(labels))]}
				switch rng.Intn(6) {
				case 0:
					j.Retries, j.Err = 0, "none"
				case 1:
					j.Retries = 9 + rng.Intn(3) // around the threshold
				case 2:
					j.Retries = 19 + rng.Intn(3) // around the budget
				default:
					j.Retries = rng.Intn(25)
				}
				ev := dag.Event{Type: dag.TransactionEventType, Hash: tx.Ref(), Transaction: tx}
				if j.Type == "payload" {
					ev.Type, ev.Payload = dag.PayloadEventType, []byte{1, 2}
				}
				if err := db.Write(context.Background(), func(wtx stoabs.WriteTx) error { return subs[si].Save(wtx, ev) }); err != nil {
					t.Fatal(err)
				}
				// the recorded attempts: retries / error / latest, as notifyNow's write-back leaves them
				err := db.WriteShelf(context.Background(), "_"+names[si]+"_jobs", func(w stoabs.Writer) error {
					key := stoabs.BytesKey(tx.Ref().Slice())
					raw, err := w.Get(key)
					if err != nil {
						return err
					}
					m := map[string]interface{}{}
					if err := json.Unmarshal(raw, &m); err != nil {
						return err
					}
					m["retries"] = j.Retries
					m["latest"] = now.Format(time.RFC3339Nano)
					if c14aTexts[j.Err] != "" {
						m["error"] = c14aTexts[j.Err]
					}
					b, _ := json.Marshal(m)
					return w.Put(key, b)
				})
				if err != nil {
					t.Fatal(err)
				}
				jobs = append(jobs, j)
			}
		}
		order := rng.Perm(k)
		svc := &c14aSvc{}
		for _, i := range order {
			svc.subs = append(svc.subs, subs[i])
		}
		line := func() (line string) {
			defer func() {
				if r := recover(); r != nil {
					line = fmt.Sprintf("list|panic:%v", r)
				}
			}()
			resp, err := Wrapper{Service: svc}.ListEvents(context.Background(), ListEventsRequestObject{})
			if err != nil {
				return "list|err:" + err.Error()
			}
			r200, ok := resp.(ListEvents200JSONResponse)
			if !ok {
				return fmt.Sprintf("list|err:response %T", resp)
			}
			var rows []string
			for _, es := range r200 {
				var evs []string
				for _, e := range es.Events {
					ty, et := "?", "?"
					if e.Type != nil {
						ty = map[string]string{dag.TransactionEventType: "tx", dag.PayloadEventType: "payload"}[*e.Type]
					}
					if e.Error != nil {
						et = textLabel[*e.Error]
					}
					mark := ""
					if e.Transaction != e.Hash || e.LatestNotificationAttempt == nil || *e.LatestNotificationAttempt != now.Format(time.RFC3339) {
						mark = "!content"
					}
					evs = append(evs, fmt.Sprintf("%d:%s:%d:%s%s", refIdx[e.Hash], ty, e.Retries, et, mark))
				}
				rows = append(rows, es.Name+"=["+strings.Join(evs, ",")+"]")
			}
			return "list|" + strings.Join(rows, ";")
		}()
		if jobs == nil {
			jobs = []c14aJob{}
		}
		opj, _ := json.Marshal(map[string]interface{}{"op": "o14list", "names": names, "pers": pers, "order": order, "jobs": jobs})
		opsL = append(opsL, string(opj))
		implL = append(implL, line)
		for _, s := range subs {
			_ = s.Close()
		}
		_ = db.Close(context.Background())
		_ = os.Remove(path)
	}
	_ = os.WriteFile(filepath.Join(out, "ops.jsonl"), []byte(strings.Join(opsL, "\n")+"\n"), 0o644)
	_ = os.WriteFile(filepath.Join(out, "impl.out"), []byte(strings.Join(implL, "\n")+"\n"), 0o644)
}
