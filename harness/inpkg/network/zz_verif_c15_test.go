//go:build verif

// C15: which node-DID authenticator does the REAL Network.Configure install for the four combinations
// TLS configured x strict mode, and does it refuse a peer whose certificate does not cover the NutsComm host of the DID
// it claims?
package network

import (
	"context"
	"crypto/ecdsa"
	"crypto/elliptic"
	"crypto/rand"
	"crypto/x509"
	"time"
	"encoding/json"
	"fmt"
	"os"
	"path/filepath"
	"strings"
	"testing"

	ssi "github.com/nuts-foundation/go-did"
	"github.com/nuts-foundation/go-did/did"
	"github.com/nuts-foundation/nuts-node/audit"
	"github.com/nuts-foundation/nuts-node/core"
	nutsCrypto "github.com/nuts-foundation/nuts-node/crypto"
	"github.com/nuts-foundation/nuts-node/crypto/hash"
	"github.com/nuts-foundation/nuts-node/network/dag"
	"github.com/nuts-foundation/nuts-node/network/transport"
	"github.com/nuts-foundation/nuts-node/network/transport/grpc"
	"github.com/nuts-foundation/nuts-node/test/io"
	testPKI "github.com/nuts-foundation/nuts-node/test/pki"
	"github.com/nuts-foundation/nuts-node/vdr/resolver"
	"github.com/sirupsen/logrus"
	"go.uber.org/mock/gomock"
)

func TestVerifC15Configure(t *testing.T) {
	logrus.SetLevel(logrus.PanicLevel)
	outDir := os.Getenv("VERIF_OUT")
	if outDir == "" {
		t.Skip("VERIF_OUT not set")
	}
	_ = os.MkdirAll(outDir, 0o755)
	ops, _ := os.Create(filepath.Join(outDir, "ops.jsonl"))
	impl, _ := os.Create(filepath.Join(outDir, "impl.out"))
	defer ops.Close()
	defer impl.Close()
	certFile := testPKI.CertificateFile(t)
	truststoreFile := testPKI.TruststoreFile(t)
	victim := did.MustParseDID("did:nuts:victim")
	victimDoc := &did.Document{ID: victim, Service: []did.Service{{
		ID: ssi.MustParseURI(victim.String() + "#nutscomm"), Type: transport.NutsCommServiceType, ServiceEndpoint: "grpc://victim.example.org:5555"}}}
	// both orders of the two flags, with and without a configured node DID
	for _, nodeDID := range []string{"", "did:nuts:self"} {
		for _, tlsOn := range []bool{true, false} {
			for _, strict := range []bool{true, false} {
				ctrl := gomock.NewController(t)
				ctx := createNetwork(t, ctrl, func(config *Config) { config.NodeDID = nodeDID })
				ctx.protocol.EXPECT().Configure(gomock.Any()).AnyTimes()
				ctx.pkiValidator.EXPECT().AddTruststore(gomock.Any()).AnyTimes()
				ctx.pkiValidator.EXPECT().SetVerifyPeerCertificateFunc(gomock.Any()).AnyTimes()
				ctx.pkiValidator.EXPECT().SubscribeDenied(gomock.Any()).AnyTimes()
				ctx.didStore.EXPECT().Resolve(gomock.Any(), gomock.Any()).AnyTimes().Return(victimDoc, &resolver.DocumentMetadata{}, nil)
				ctx.network.connectionManager = nil
				cfg := *core.NewServerConfig()
				cfg.Datadir = io.TestDirectory(t)
				cfg.Strictmode = strict
				if tlsOn {
					cfg.TLS = core.TLSConfig{TrustStoreFile: truststoreFile, CertFile: certFile, CertKeyFile: certFile}
				}
				err := ctx.network.Configure(cfg)
				op, _ := json.Marshal(map[string]interface{}{"op": "configure", "tls": tlsOn, "strict": strict, "nodedid": nodeDID})
				line := ""
				if err != nil {
					cls := "err:other:" + strings.ReplaceAll(err.Error(), " ", "_")
					if err.Error() == "disabling TLS in strict mode is not allowed" {
						cls = "err:tls-disabled-strict"
					}
					line = "configure " + cls
				} else {
					auth := grpc.VerifAuthenticator(ctx.network.connectionManager)
					kind := "other:" + fmt.Sprintf("%T", auth)
					switch fmt.Sprintf("%T", auth) {
					case "*grpc.tlsAuthenticator":
						kind = "tls"
					case "*grpc.dummyAuthenticator":
						kind = "dummy"
					}
					// behaviour: a peer with a valid certificate for attacker.example claims the victim's DID
					peer := transport.Peer{ID: "eve", Address: "eve:5555", Certificate: &x509.Certificate{DNSNames: []string{"attacker.example"}}}
					got, aerr := auth.Authenticate(victim, peer)
					line = fmt.Sprintf("configure auth=%s liar-refused=%v liar-auth=%v", kind, aerr != nil, got.Authenticated)
				}
				fmt.Fprintln(ops, string(op))
				fmt.Fprintln(impl, line)
				ctrl.Finish()
			}
		}
	}
	vCreateCases(t, ops, impl)
}

// the REAL Network.CreateTransaction with participant lists whose key agreement keys resolve / are deactivated / are
// unknown: a transaction requested with participants either fails or carries a PAL header with one entry per participant
func vCreateCases(t *testing.T, ops, impl *os.File) {
	key, _ := ecdsa.GenerateKey(elliptic.P256(), rand.Reader)
	cases := [][]string{{}, {"ok"}, {"ok", "ok"}, {"deactivated"}, {"deactivated", "deactivated"}, {"ok", "deactivated"}, {"deactivated", "ok"},
		{"notfound"}, {"ok", "notfound"}, {"deactivated", "deactivated", "deactivated"}, {"ok", "ok", "deactivated"}, {"badkey"}}
	for _, withDID := range []bool{true, false} {
		for _, parts := range cases {
			ctrl := gomock.NewController(t)
			cxt := createNetwork(t, ctrl)
			_, _, _ = cxt.keyStore.New(audit.TestContext(), nutsCrypto.StringNamingFunc("signing-key"))
			if withDID {
				cxt.network.nodeDID = did.MustParseDID("did:nuts:self")
			}
			cxt.state.EXPECT().Head(gomock.Any()).AnyTimes().Return(hash.EmptyHash(), nil)
			var created dag.Transaction
			cxt.state.EXPECT().Add(gomock.Any(), gomock.Any(), gomock.Any()).AnyTimes().DoAndReturn(func(_ context.Context, tx dag.Transaction, _ []byte) error {
				created = tx
				return nil
			})
			var dids []did.DID
			situation := map[string]string{}
			for i, p := range parts {
				d := did.MustParseDID(fmt.Sprintf("did:nuts:p%d", i))
				dids = append(dids, d)
				situation[d.String()] = p
			}
			cxt.keyResolver.EXPECT().ResolveKey(gomock.Any(), gomock.Any(), resolver.KeyAgreement).AnyTimes().DoAndReturn(
				func(id did.DID, _ *time.Time, _ resolver.RelationType) (string, interface{}, error) {
					switch situation[id.String()] {
					case "ok":
						return id.String() + "#k", key.Public(), nil
					case "deactivated":
						return "", nil, resolver.ErrDeactivated
					case "badkey":
						return id.String() + "#k", "not an EC key", nil
					}
					return "", nil, resolver.ErrKeyNotFound
				})
			tpl := TransactionTemplate("application/did+json", []byte("private payload of the create leg"), "signing-key")
			if len(dids) > 0 {
				tpl = tpl.WithPrivate(dids)
			}
			_, err := cxt.network.CreateTransaction(audit.TestContext(), tpl)
			op, _ := json.Marshal(map[string]interface{}{"op": "createtx", "parts": parts, "nodedid": withDID})
			fmt.Fprintln(ops, string(op))
			if err != nil || created == nil {
				fmt.Fprintln(impl, "createtx err")
			} else {
				fmt.Fprintf(impl, "createtx ok pal=%d\n", len(created.PAL()))
			}
			ctrl.Finish()
		}
	}
}
