//go:build verif

package grpc

// VerifAuthenticator returns the Authenticator a connection manager built by NewGRPCConnectionManager was given
// (add-only export for the C15 check: which authenticator does Network.Configure install?).
func VerifAuthenticator(cm interface{}) Authenticator {
	if c, ok := cm.(*grpcConnectionManager); ok {
		return c.authenticator
	}
	return nil
}
