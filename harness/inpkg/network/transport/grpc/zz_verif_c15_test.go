//go:build verif

// C15: the server side TLS configuration the connection manager listens with (newServerTLSConfig): a client certificate
// that does not chain to the trust store must never complete the handshake — the certificate tlsAuthenticator later
// matches against the NutsComm host is only meaningful if it was verified.
package grpc

import (
	"context"
	"crypto/ecdsa"
	"crypto/elliptic"
	"crypto/rand"
	"crypto/tls"
	"crypto/x509"
	"crypto/x509/pkix"
	"encoding/json"
	"encoding/pem"
	"net/url"
	"fmt"
	"math/big"
	"net"
	"os"
	"path/filepath"
	"testing"
	"time"

	ssi "github.com/nuts-foundation/go-did"
	"github.com/nuts-foundation/go-did/did"
	"github.com/nuts-foundation/nuts-node/network/transport"
	"github.com/nuts-foundation/nuts-node/pki"
	"go.uber.org/mock/gomock"
	"google.golang.org/grpc/credentials"
	grpcLib "google.golang.org/grpc"
	"google.golang.org/grpc/metadata"
	grpcPeer "google.golang.org/grpc/peer"
)

type vStream struct {
	grpcLib.ServerStream
	ctx context.Context
}

func (s *vStream) Context() context.Context { return s.ctx }

// TLS offloading: the client certificate comes from a header set by the TLS terminator. The REAL interceptor is run with
// 0 / 1 / 2+ header values (a proxy that APPENDS its header after an attacker-supplied one yields two values, hostile first)
func vOffloading(t *testing.T, ops, impl *os.File, validator pki.Validator) {
	mk := func(cn string, dns []string) string {
		c, _, _ := vMkCert(t, cn, dns, false, nil, nil)
		return url.QueryEscape(string(pem.EncodeToMemory(&pem.Block{Type: "CERTIFICATE", Bytes: c.Raw})))
	}
	vals := map[string]string{"victim": mk("victim", []string{"victim.example.org"}), "proxy": mk("attacker", []string{"attacker.example"}), "garbage": "!!!not a certificate"}
	unescapedTwo, _ := url.QueryUnescape(vals["victim"])
	unescapedTwo2, _ := url.QueryUnescape(vals["proxy"])
	vals["two-in-one"] = url.QueryEscape(unescapedTwo + unescapedTwo2)
	cases := [][]string{{}, {"victim"}, {"proxy"}, {"garbage"}, {"two-in-one"}, {"victim", "proxy"}, {"proxy", "victim"}, {"victim", "victim"}, {"victim", "proxy", "proxy"}, {"garbage", "proxy"}}
	icpt := newAuthenticationInterceptor("x-ssl-client-cert", validator)
	for _, c := range cases {
		md := metadata.MD{}
		for _, k := range c {
			md.Append("x-ssl-client-cert", vals[k])
		}
		ctx := metadata.NewIncomingContext(context.Background(), md)
		got := "-"
		err := icpt(nil, &vStream{ctx: ctx}, nil, func(_ interface{}, stream grpcLib.ServerStream) error {
			p, _ := grpcPeer.FromContext(stream.Context())
			if p != nil {
				if cert := extractCertificate(p); cert != nil && len(cert.DNSNames) > 0 {
					got = cert.DNSNames[0]
				}
			}
			return nil
		})
		op, _ := json.Marshal(map[string]interface{}{"op": "offload", "values": c})
		fmt.Fprintln(ops, string(op))
		if err != nil {
			fmt.Fprintln(impl, "offload refused")
		} else {
			fmt.Fprintf(impl, "offload cert=%s\n", got)
		}
	}
}

// TLS offloading with SEVERAL streams on ONE transport: grpc-go creates one *peer.Peer per HTTP/2 connection
// (server.go serveStreams: peer.NewContext(ctx, st.Peer())), so peer.FromContext returns the SAME pointer for every stream a
// multiplexing reverse proxy sends over that connection. The REAL interceptor runs for each stream in order on contexts that
// share one *peer.Peer; what the stream's handler sees (extractCertificate, as handleInboundStream does) is recorded per stream.
func vOffloadingShared(t *testing.T, ops, impl *os.File, validator pki.Validator) {
	mkc := func(cn string, dns []string) (*x509.Certificate, string) {
		c, _, _ := vMkCert(t, cn, dns, false, nil, nil)
		return c, url.QueryEscape(string(pem.EncodeToMemory(&pem.Block{Type: "CERTIFICATE", Bytes: c.Raw})))
	}
	victimCert, victimHdr := mkc("victim", []string{"victim.example.org"})
	_, proxyHdr := mkc("attacker", []string{"attacker.example"})
	_, thirdHdr := mkc("third", []string{"third.example"})
	vals := map[string]string{"victim": victimHdr, "proxy": proxyHdr, "third": thirdHdr, "garbage": "!!!not a certificate"}
	type sc struct {
		pre     string
		streams [][]string
	}
	cases := []sc{
		{"", [][]string{{"victim"}, {"proxy"}}},
		{"", [][]string{{"proxy"}, {"victim"}}},
		{"", [][]string{{"victim"}, {"proxy"}, {"third"}}},
		{"", [][]string{{"victim"}, {"garbage"}, {"proxy"}}},
		{"", [][]string{{"victim"}, {}, {"proxy"}, {"victim"}}},
		{"", [][]string{{"victim"}, {"victim", "proxy"}, {"third"}}},
		{"", [][]string{{"garbage"}, {"proxy"}, {"victim"}}},
		{"victim", [][]string{{"proxy"}}},
		{"victim", [][]string{{"proxy"}, {"third"}, {"victim"}}},
		{"other-authinfo", [][]string{{"victim"}, {"proxy"}}},
		{"no-peer", [][]string{{"victim"}, {"proxy"}}},
	}
	icpt := newAuthenticationInterceptor("x-ssl-client-cert", validator)
	for _, c := range cases {
		shared := &grpcPeer.Peer{}
		switch c.pre {
		case "victim": // AuthInfo already holds TLS info (e.g. of an earlier stream, or of a TLS listener)
			shared.AuthInfo = credentials.TLSInfo{State: tls.ConnectionState{PeerCertificates: []*x509.Certificate{victimCert}}}
		case "other-authinfo":
			shared.AuthInfo = vOtherAuthInfo{}
		}
		var seen []string
		for _, st := range c.streams {
			md := metadata.MD{}
			for _, k := range st {
				md.Append("x-ssl-client-cert", vals[k])
			}
			ctx := metadata.NewIncomingContext(context.Background(), md)
			if c.pre != "no-peer" {
				ctx = grpcPeer.NewContext(ctx, shared)
			}
			got := "-"
			err := icpt(nil, &vStream{ctx: ctx}, nil, func(_ interface{}, stream grpcLib.ServerStream) error {
				p, _ := grpcPeer.FromContext(stream.Context())
				if p != nil {
					if cert := extractCertificate(p); cert != nil && len(cert.DNSNames) > 0 {
						got = cert.DNSNames[0]
					}
				}
				return nil
			})
			if err != nil {
				got = "refused"
			}
			seen = append(seen, got)
		}
		op, _ := json.Marshal(map[string]interface{}{"op": "offloadseq", "pre": c.pre, "streams": c.streams})
		fmt.Fprintln(ops, string(op))
		fmt.Fprintf(impl, "offloadseq %v\n", seen)
	}
}

type vOtherAuthInfo struct{}

func (vOtherAuthInfo) AuthType() string { return "other" }


type vSvc struct{ endpoint string }

func (r vSvc) Resolve(_ ssi.URI, _ int) (did.Service, error) {
	return did.Service{Type: transport.NutsCommServiceType, ServiceEndpoint: r.endpoint}, nil
}
func (r vSvc) ResolveEx(_ ssi.URI, _ int, _ int, _ map[string]*did.Document) (did.Service, error) {
	return r.Resolve(ssi.URI{}, 0)
}

// the connection manager's own wrapper around the authenticator (called at inbound and outbound stream set-up) and the
// choice of the certificate it authenticates: the LEAF of the verified peer certificates
func vCMAuthenticate(t *testing.T, ops, impl *os.File) {
	victim := did.MustParseDID("did:nuts:victim")
	cm := &grpcConnectionManager{authenticator: NewTLSAuthenticator(vSvc{"grpc://victim.example.org:5555"})}
	leafOK := &x509.Certificate{DNSNames: []string{"victim.example.org"}}
	leafBad := &x509.Certificate{DNSNames: []string{"attacker.example"}}
	caLike := &x509.Certificate{DNSNames: []string{"victim.example.org"}, IsCA: true}
	caOther := &x509.Certificate{DNSNames: []string{"ca.example"}, IsCA: true}
	cases := []struct {
		name    string
		claimed did.DID
		chain   []*x509.Certificate
	}{
		{"covering-leaf", victim, []*x509.Certificate{leafOK}},
		{"other-leaf", victim, []*x509.Certificate{leafBad}},
		{"other-leaf-covering-issuer", victim, []*x509.Certificate{leafBad, caLike}},
		{"covering-leaf-other-issuer", victim, []*x509.Certificate{leafOK, leafBad}},
		// the TLS handshake proves possession of the key of PeerCertificates[0] only: anything the peer appends is unproven
		{"attacker-leaf-then-victim-leaf", victim, []*x509.Certificate{leafBad, leafOK}},
		{"attacker-leaf-ca-victim-leaf", victim, []*x509.Certificate{leafBad, caLike, leafOK}},
		{"attacker-leaf-victim-leaf-ca", victim, []*x509.Certificate{leafBad, leafOK, caLike}},
		{"covering-leaf-ca-attacker-leaf", victim, []*x509.Certificate{leafOK, caLike, leafBad}},
		{"ca-first-then-attacker-leaf", victim, []*x509.Certificate{caOther, leafBad}},
		{"no-certificate", victim, nil},
		{"no-did-claimed", did.DID{}, []*x509.Certificate{leafBad}},
	}
	for _, c := range cases {
		var p *grpcPeer.Peer
		if c.chain != nil {
			p = &grpcPeer.Peer{AuthInfo: credentials.TLSInfo{State: tls.ConnectionState{PeerCertificates: c.chain}}}
		} else {
			p = &grpcPeer.Peer{}
		}
		cert := extractCertificate(p)
		peer := transport.Peer{ID: "x", Address: "x:1", Certificate: cert}
		got, err := cm.authenticate(c.claimed, peer)
		leafCovers := len(c.chain) > 0 && c.chain[0].VerifyHostname("victim.example.org") == nil
		op, _ := json.Marshal(map[string]interface{}{"op": "cmauth", "case": c.name, "claimed": c.claimed.String(), "cert": len(c.chain) > 0, "leaf_covers": leafCovers})
		fmt.Fprintln(ops, string(op))
		fmt.Fprintf(impl, "cmauth err=%v auth=%v did=%s\n", err != nil, got.Authenticated, got.NodeDID.String())
	}
}


func vMkCert(t *testing.T, cn string, dns []string, isCA bool, parent *x509.Certificate, parentKey *ecdsa.PrivateKey) (*x509.Certificate, *ecdsa.PrivateKey, tls.Certificate) {
	key, err := ecdsa.GenerateKey(elliptic.P256(), rand.Reader)
	if err != nil {
		t.Fatal(err)
	}
	tmpl := &x509.Certificate{SerialNumber: big.NewInt(time.Now().UnixNano()), Subject: pkix.Name{CommonName: cn}, DNSNames: dns,
		NotBefore: time.Now().Add(-time.Hour), NotAfter: time.Now().Add(24 * time.Hour), IsCA: isCA, BasicConstraintsValid: true,
		KeyUsage: x509.KeyUsageDigitalSignature | x509.KeyUsageCertSign, ExtKeyUsage: []x509.ExtKeyUsage{x509.ExtKeyUsageClientAuth, x509.ExtKeyUsageServerAuth}}
	if parent == nil {
		parent, parentKey = tmpl, key
	}
	der, err := x509.CreateCertificate(rand.Reader, tmpl, parent, &key.PublicKey, parentKey)
	if err != nil {
		t.Fatal(err)
	}
	cert, _ := x509.ParseCertificate(der)
	return cert, key, tls.Certificate{Certificate: [][]byte{der}, PrivateKey: key, Leaf: cert}
}

func TestVerifC15ServerTLS(t *testing.T) {
	outDir := os.Getenv("VERIF_OUT")
	if outDir == "" {
		t.Skip("VERIF_OUT not set")
	}
	_ = os.MkdirAll(outDir, 0o755)
	ops, _ := os.Create(filepath.Join(outDir, "ops.jsonl"))
	impl, _ := os.Create(filepath.Join(outDir, "impl.out"))
	defer ops.Close()
	defer impl.Close()

	vCMAuthenticate(t, ops, impl)
	ca, caKey, _ := vMkCert(t, "Trusted CA", nil, true, nil, nil)
	_, _, serverCert := vMkCert(t, "server", []string{"server.example.org"}, false, ca, caKey)
	_, _, goodClient := vMkCert(t, "good", []string{"victim.example.org"}, false, ca, caKey)
	_, _, selfSigned := vMkCert(t, "self", []string{"victim.example.org"}, false, nil, nil)
	otherCA, otherKey, _ := vMkCert(t, "Other CA", nil, true, nil, nil)
	_, _, otherClient := vMkCert(t, "other", []string{"victim.example.org"}, false, otherCA, otherKey)
	pool := x509.NewCertPool()
	pool.AddCert(ca)

	ctrl := gomock.NewController(t)
	validator := pki.NewMockValidator(ctrl)
	// the real validator's hook only walks the verified chains (revocation); it accepts when there are none
	validator.EXPECT().SetVerifyPeerCertificateFunc(gomock.Any()).AnyTimes().DoAndReturn(func(cfg *tls.Config) error {
		cfg.VerifyPeerCertificate = func(_ [][]byte, _ [][]*x509.Certificate) error { return nil }
		return nil
	})
	validator.EXPECT().Validate(gomock.Any()).AnyTimes().Return(nil)
	vOffloading(t, ops, impl, validator)
	vOffloadingShared(t, ops, impl, validator)
	vInbound(t, ops, impl)
	vOutbound(t, ops, impl)
	vMixed(t, ops, impl)
	serverCfg, err := newServerTLSConfig(Config{serverCert: &serverCert, trustStore: pool, pkiValidator: validator})
	if err != nil {
		t.Fatal(err)
	}
	cases := []struct {
		name   string
		cert   *tls.Certificate
		chains bool
	}{{"trusted-chain", &goodClient, true}, {"self-signed", &selfSigned, false}, {"other-ca", &otherClient, false}, {"no-certificate", nil, false}}
	for _, c := range cases {
		for _, maxVer := range []uint16{tls.VersionTLS12, tls.VersionTLS13} {
			c1, c2 := net.Pipe()
			clientCfg := &tls.Config{InsecureSkipVerify: true, MaxVersion: maxVer}
			if c.cert != nil {
				cert := *c.cert
				// present the certificate regardless of the CAs the server advertises
				clientCfg.GetClientCertificate = func(*tls.CertificateRequestInfo) (*tls.Certificate, error) { return &cert, nil }
			}
			srv := tls.Server(c1, serverCfg)
			cli := tls.Client(c2, clientCfg)
			_ = c1.SetDeadline(time.Now().Add(5 * time.Second))
			_ = c2.SetDeadline(time.Now().Add(5 * time.Second))
			done := make(chan error, 1)
			go func() {
				e := cli.Handshake()
				if e == nil {
					// TLS 1.3: the client finishes first; read to learn the server's verdict
					buf := make([]byte, 1)
					_, _ = cli.Read(buf)
				}
				done <- e
			}()
			serr := srv.Handshake()
			accepted := serr == nil && len(srv.ConnectionState().PeerCertificates) > 0
			if serr == nil {
				_, _ = srv.Write([]byte{1})
			}
			_ = c1.Close()
			_ = c2.Close()
			<-done
			op, _ := json.Marshal(map[string]interface{}{"op": "tlsclient", "case": c.name, "presented": c.cert != nil, "chains": c.chains, "tls13": maxVer == tls.VersionTLS13})
			fmt.Fprintln(ops, string(op))
			fmt.Fprintf(impl, "tlsclient accepted=%v\n", accepted)
		}
	}
}
