//go:build verif

// C15: how the peer identity on a connection comes about for INBOUND streams. The REAL handleInboundStream (readMetadata,
// extractCertificate, authenticate with the real TLS authenticator, connections.getOrRegister, registerStream, remove on
// disconnect) is run on histories of streams; after every event the connection list is dumped together with which of the
// streams sits on which connection. The v2 handlers decide on connection.Peer(): a stream must only ever sit on a connection
// whose identity its OWN set-up established.
package grpc

import (
	"bufio"
	"context"
	"crypto/x509"
	"encoding/json"
	"errors"
	"fmt"
	"math/rand"
	"net"
	"os"
	"sort"
	"strconv"
	"strings"
	"testing"
	"time"

	ssi "github.com/nuts-foundation/go-did"
	"github.com/nuts-foundation/go-did/did"
	"github.com/nuts-foundation/nuts-node/network/transport"
	grpcLib "google.golang.org/grpc"
	"google.golang.org/grpc/credentials"
	"google.golang.org/grpc/metadata"
	grpcPeer "google.golang.org/grpc/peer"

	"crypto/tls"
)

type vInEvent struct {
	E       string   `json:"e"` // open | close
	Sid     int      `json:"sid"`
	Pids    []string `json:"pids,omitempty"`
	Dids    []string `json:"dids,omitempty"`
	HasCert bool     `json:"hascert,omitempty"`
	Cert    []string `json:"cert,omitempty"`
	Proto   string   `json:"proto,omitempty"`
}

type vInOp struct {
	Op        string      `json:"op"`
	Kind      string      `json:"kind"`
	Didtab    [][2]string `json:"didtab"`
	Endpoints [][2]string `json:"endpoints"`
	Events    []vInEvent  `json:"events"`
}

type vProto struct {
	*TestProtocol
	name string
}

func (p *vProto) MethodName() string { return p.name }

// NutsComm resolution per DID: host table; a DID without entry does not resolve
type vSvcTab map[string]string

func (r vSvcTab) Resolve(ref ssi.URI, _ int) (did.Service, error) {
	s := ref.String()
	if i := strings.Index(s, "/serviceEndpoint"); i >= 0 {
		s = s[:i]
	}
	host, ok := r[s]
	if !ok {
		return did.Service{}, errors.New("service not found")
	}
	return did.Service{Type: transport.NutsCommServiceType, ServiceEndpoint: "grpc://" + host + ":5555"}, nil
}
func (r vSvcTab) ResolveEx(ref ssi.URI, _ int, _ int, _ map[string]*did.Document) (did.Service, error) {
	return r.Resolve(ref, 0)
}

var vInHosts = map[string]string{"did:nuts:victim": "victim.example.org", "did:nuts:attacker": "attacker.example"}
var vInDIDs = []string{"did:nuts:victim", "did:nuts:attacker", "did:nuts:third", "did:nuts:Victim", "notadid", "did:nuts:"}

func vInStream(ev vInEvent, port int) *stubServerStream {
	md := metadata.MD{}
	for _, v := range ev.Pids {
		md.Append(peerIDHeader, v)
	}
	for _, v := range ev.Dids {
		md.Append(nodeDIDHeader, v)
	}
	p := &grpcPeer.Peer{Addr: &net.TCPAddr{IP: net.ParseIP("127.0.0.1"), Port: port}}
	if ev.HasCert {
		p.AuthInfo = credentials.TLSInfo{State: tls.ConnectionState{PeerCertificates: []*x509.Certificate{{DNSNames: ev.Cert}}}}
	}
	ctx := metadata.NewIncomingContext(context.Background(), md)
	ctx = grpcPeer.NewContext(ctx, p)
	ctx = grpcLib.NewContextWithServerTransportStream(ctx, &stubServerTransportStream{method: "/unit/test"})
	ctx, cancel := context.WithCancel(ctx)
	return &stubServerStream{ctx: ctx, cancelFunc: cancel}
}

func vInSnapshot(cm *grpcConnectionManager, streams map[int]*stubServerStream) (string, map[int]*conn) {
	cm.connections.mux.Lock()
	defer cm.connections.mux.Unlock()
	var parts []string
	where := map[int]*conn{}
	for _, c := range cm.connections.list {
		mc := c.(*conn)
		p := mc.Peer()
		dns := "-"
		if p.Certificate != nil {
			dns = strings.Join(p.Certificate.DNSNames, "+")
		}
		var sids []int
		mc.mux.RLock()
		for _, s := range mc.streams {
			if w, ok := s.(prometheusStreamWrapper); ok {
				for sid, st := range streams {
					if w.stream == Stream(st) {
						sids = append(sids, sid)
						where[sid] = mc
					}
				}
			}
		}
		mc.mux.RUnlock()
		sort.Ints(sids)
		var ss []string
		for _, s := range sids {
			ss = append(ss, strconv.Itoa(s))
		}
		parts = append(parts, fmt.Sprintf("%s~%s~%v~%s~%s", p.ID, p.NodeDID.String(), p.Authenticated, dns, strings.Join(ss, "+")))
	}
	return strings.Join(parts, ","), where
}

func vInRun(t *testing.T, op vInOp) string {
	var auth Authenticator = NewTLSAuthenticator(vSvcTab(vInHosts))
	if op.Kind == "dummy" {
		auth = NewDummyAuthenticator(nil)
	}
	cm, err := NewGRPCConnectionManager(Config{peerID: "server"}, nil, did.MustParseDID("did:nuts:server"), auth)
	if err != nil {
		t.Fatal(err)
	}
	gcm := cm
	defer gcm.Stop()
	connected := make(chan struct{}, 64)
	gcm.RegisterObserver(func(_ transport.Peer, st transport.StreamState, _ transport.Protocol) {
		if st == transport.StateConnected {
			connected <- struct{}{}
		}
	})
	protos := map[string]*vProto{}
	streams := map[int]*stubServerStream{}
	done := map[int]chan error{}
	var outs []string
	for _, ev := range op.Events {
		res := ""
		if ev.E == "close" {
			st := streams[ev.Sid]
			_, where := vInSnapshot(gcm, streams)
			mc := where[ev.Sid]
			if st != nil {
				st.cancelFunc()
			}
			for sid, c := range where {
				if mc != nil && c == mc {
					select {
					case <-done[sid]:
					case <-time.After(30 * time.Second):
						res = "timeout"
					}
					delete(streams, sid)
				}
			}
			if res == "" {
				res = "closed"
			}
		} else {
			pr := protos[ev.Proto]
			if pr == nil {
				pr = &vProto{TestProtocol: &TestProtocol{}, name: "/verif/" + ev.Proto}
				protos[ev.Proto] = pr
			}
			st := vInStream(ev, 10000+ev.Sid)
			ch := make(chan error, 1)
			go func() { ch <- gcm.handleInboundStream(pr, st) }()
			select {
			case e := <-ch:
				switch {
				case e == nil:
					res = "returned"
				case errors.Is(e, ErrAlreadyConnected):
					res = "already"
				case errors.Is(e, ErrNodeDIDAuthFailed):
					res = "auth"
				case e.Error() == "unable to read peer ID":
					res = "meta"
				default:
					res = "err:" + e.Error()
				}
				st.cancelFunc()
			case <-connected:
				streams[ev.Sid] = st
				done[ev.Sid] = ch
				_, where := vInSnapshot(gcm, streams)
				res = "joined?"
				gcm.connections.mux.Lock()
				for i, c := range gcm.connections.list {
					if c.(*conn) == where[ev.Sid] {
						res = "joined" + strconv.Itoa(i)
					}
				}
				gcm.connections.mux.Unlock()
			case <-time.After(30 * time.Second):
				res = "timeout"
			}
		}
		snap, _ := vInSnapshot(gcm, streams)
		outs = append(outs, res+"|"+snap)
	}
	for _, st := range streams {
		st.cancelFunc()
	}
	return "inbound " + strings.Join(outs, " ; ")
}

func vInGen(rng *rand.Rand, n int) []vInOp {
	open := func(sid int, pids, dids []string, cert string, proto string) vInEvent {
		ev := vInEvent{E: "open", Sid: sid, Pids: pids, Dids: dids, Proto: proto}
		switch cert {
		case "victim":
			ev.HasCert, ev.Cert = true, []string{"victim.example.org"}
		case "attacker":
			ev.HasCert, ev.Cert = true, []string{"attacker.example"}
		case "both":
			ev.HasCert, ev.Cert = true, []string{"attacker.example", "victim.example.org"}
		}
		return ev
	}
	cl := func(sid int) vInEvent { return vInEvent{E: "close", Sid: sid} }
	V, A := []string{"did:nuts:victim"}, []string{"did:nuts:attacker"}
	P1, P2 := []string{"P1"}, []string{"P2"}
	fixed := [][]vInEvent{
		// an authenticated connection, then a stream announcing the same peer ID without / with another / with a failing identity
		{open(0, P1, V, "victim", "p1"), open(1, P1, nil, "attacker", "p2"), open(2, P1, A, "attacker", "p2"), open(3, P1, V, "attacker", "p2"), open(4, P1, V, "victim", "p2")},
		{open(0, P1, nil, "attacker", "p1"), open(1, P1, V, "victim", "p2"), open(2, P1, nil, "none", "p2"), cl(1), open(3, P1, nil, "none", "p1")},
		{open(0, P1, V, "victim", "p1"), open(1, P1, V, "victim", "p1"), open(2, P2, V, "victim", "p1"), cl(0), open(3, P1, nil, "attacker", "p1"), open(4, P1, V, "victim", "p2")},
		// header multiplicity / trimming / DID parsing
		{open(0, []string{"P1", "P2"}, V, "victim", "p1"), open(1, P1, []string{"did:nuts:victim", "did:nuts:attacker"}, "victim", "p1"), open(2, nil, V, "victim", "p1"),
			open(3, []string{" "}, V, "victim", "p1"), open(4, []string{" P1\t"}, []string{" did:nuts:victim "}, "victim", "p1"), open(5, P1, []string{"notadid"}, "victim", "p2"),
			open(6, P1, []string{" "}, "victim", "p2"), open(7, P1, []string{"did:nuts:Victim"}, "victim", "p2"), open(8, P1, []string{"did:nuts:third"}, "victim", "p2")},
		{open(0, P1, V, "none", "p1"), open(1, P1, V, "both", "p1"), open(2, P1, A, "both", "p2"), open(3, P2, A, "both", "p1"), cl(1), cl(3), open(4, P1, A, "victim", "p1")},
	}
	var out []vInOp
	mk := func(kind string, evs []vInEvent) {
		op := vInOp{Op: "inbound", Kind: kind, Events: evs}
		for _, d := range vInDIDs {
			if p, err := did.ParseDID(d); err == nil {
				op.Didtab = append(op.Didtab, [2]string{d, p.String()})
			}
		}
		for _, d := range []string{"did:nuts:victim", "did:nuts:attacker"} {
			op.Endpoints = append(op.Endpoints, [2]string{d, vInHosts[d]})
		}
		out = append(out, op)
	}
	for _, f := range fixed {
		mk("tls", f)
	}
	mk("dummy", fixed[0])
	pad := func(s string) string {
		switch rng.Intn(6) {
		case 0:
			return " " + s
		case 1:
			return s + "\t "
		}
		return s
	}
	for k := 0; k < n; k++ {
		var evs []vInEvent
		var live []int
		ln := 3 + rng.Intn(6)
		for sid := 0; sid < ln; sid++ {
			if len(live) > 0 && rng.Intn(5) == 0 {
				i := rng.Intn(len(live))
				evs = append(evs, cl(live[i]))
				// every stream on the same connection goes with it: the model says which; keep only streams we know are independent
				live = nil
				continue
			}
			var pids, dids []string
			switch rng.Intn(12) {
			case 0:
			case 1:
				pids = []string{"P1", "P1"}
			case 2:
				pids = []string{pad("")}
			default:
				pids = []string{pad([]string{"P1", "P1", "P2"}[rng.Intn(3)])}
			}
			switch rng.Intn(10) {
			case 0, 1, 2:
			case 3:
				dids = []string{pad(vInDIDs[rng.Intn(len(vInDIDs))]), "did:nuts:victim"}
			case 4:
				dids = []string{pad(vInDIDs[rng.Intn(len(vInDIDs))])}
			default:
				dids = []string{pad(vInDIDs[rng.Intn(2)])}
			}
			cert := []string{"victim", "victim", "attacker", "attacker", "none", "both"}[rng.Intn(6)]
			evs = append(evs, open(sid, pids, dids, cert, []string{"p1", "p2", "p3"}[rng.Intn(3)]))
			live = append(live, sid)
		}
		kind := "tls"
		if rng.Intn(8) == 0 {
			kind = "dummy"
		}
		mk(kind, evs)
	}
	return out
}

func vInbound(t *testing.T, ops, impl *os.File) {
	seed, _ := strconv.ParseInt(os.Getenv("VERIF_SEED"), 10, 64)
	n := 40
	if os.Getenv("VERIF_TIER") == "thorough" {
		n = 600
	}
	var list []vInOp
	if rp := os.Getenv("VERIF_REPLAY"); rp != "" {
		f, err := os.Open(rp)
		if err == nil {
			sc := bufio.NewScanner(f)
			sc.Buffer(make([]byte, 1<<20), 1<<24)
			for sc.Scan() {
				var op vInOp
				if json.Unmarshal(sc.Bytes(), &op) == nil && op.Op == "inbound" {
					list = append(list, op)
				}
			}
			f.Close()
		}
	} else {
		list = vInGen(rand.New(rand.NewSource(seed*7919+15)), n)
	}
	for _, op := range list {
		// a close of a stream that never got attached is a no-op in both worlds; the generator may produce it
		b, _ := json.Marshal(op)
		fmt.Fprintln(ops, string(b))
		fmt.Fprintln(impl, vInRun(t, op))
	}
}
