//go:build verif

// C15: how the peer identity on a connection comes about for OUTBOUND connections. The REAL connections.getOrRegister(outbound),
// openOutboundStreams / openOutboundStream (readMetadata, verifyOrSetPeerID, extractCertificate, authenticate with the real TLS
// authenticator, setPeer, registerStream) and conn.disconnect are run against a scripted server: per protocol what the server's
// response headers and certificate are. The connection is dumped before every stream set-up, at the end and after disconnect.
package grpc

import (
	"bufio"
	"context"
	"crypto/tls"
	"crypto/x509"
	"encoding/json"
	"errors"
	"fmt"
	"io"
	"math/rand"
	"os"
	"sort"
	"strconv"
	"strings"
	"testing"

	"github.com/nuts-foundation/go-did/did"
	"github.com/nuts-foundation/nuts-node/network/transport"
	grpcLib "google.golang.org/grpc"
	"google.golang.org/grpc/credentials"
	"google.golang.org/grpc/credentials/insecure"
	"google.golang.org/grpc/metadata"
	grpcPeer "google.golang.org/grpc/peer"
)

type vOutSpec struct {
	Sid         int      `json:"sid"`
	Proto       string   `json:"proto"`
	CreateFails bool     `json:"createfails,omitempty"`
	HeaderFails bool     `json:"headerfails,omitempty"`
	Pids        []string `json:"pids,omitempty"`
	Dids        []string `json:"dids,omitempty"`
	Other       bool     `json:"other,omitempty"`
	HasCert     bool     `json:"hascert,omitempty"`
	Cert        []string `json:"cert,omitempty"`
}

type vOutOp struct {
	Op        string      `json:"op"`
	Kind      string      `json:"kind"`
	Expected  string      `json:"expected"`
	Didtab    [][2]string `json:"didtab"`
	Endpoints [][2]string `json:"endpoints"`
	Streams   []vOutSpec  `json:"streams"`
}

type vOutClientStream struct {
	ctx    context.Context
	cancel context.CancelFunc
	md     metadata.MD
	hdrErr bool
}

func (s *vOutClientStream) Header() (metadata.MD, error) {
	if s.hdrErr {
		return nil, errors.New("verif: header failure")
	}
	return s.md, nil
}
func (s *vOutClientStream) Trailer() metadata.MD         { return nil }
func (s *vOutClientStream) CloseSend() error             { return nil }
func (s *vOutClientStream) Context() context.Context     { return s.ctx }
func (s *vOutClientStream) SendMsg(m interface{}) error  { return nil }
func (s *vOutClientStream) RecvMsg(m interface{}) error  { <-s.ctx.Done(); return io.EOF }

type vOutProto struct {
	*TestProtocol
	spec   vOutSpec
	stream *vOutClientStream
	before func()
}

func (p *vOutProto) MethodName() string { return "/verif/" + p.spec.Proto }
func (p *vOutProto) CreateClientStream(_ context.Context, _ grpcLib.ClientConnInterface) (grpcLib.ClientStream, error) {
	p.before()
	if p.spec.CreateFails {
		return nil, errors.New("verif: create failure")
	}
	md := metadata.MD{}
	for _, v := range p.spec.Pids {
		md.Append(peerIDHeader, v)
	}
	for _, v := range p.spec.Dids {
		md.Append(nodeDIDHeader, v)
	}
	if p.spec.Other {
		md.Append("x-verif-other", "1")
	}
	gp := &grpcPeer.Peer{}
	if p.spec.HasCert {
		gp.AuthInfo = credentials.TLSInfo{State: tls.ConnectionState{PeerCertificates: []*x509.Certificate{{DNSNames: p.spec.Cert}}}}
	}
	ctx, cancel := context.WithCancel(grpcPeer.NewContext(context.Background(), gp))
	p.stream = &vOutClientStream{ctx: ctx, cancel: cancel, md: md, hdrErr: p.spec.HeaderFails}
	return p.stream, nil
}

func vOutSnapshot(mc *conn, protos []*vOutProto) string {
	p := mc.Peer()
	dns := "-"
	if p.Certificate != nil {
		dns = strings.Join(p.Certificate.DNSNames, "+")
	}
	var sids []int
	mc.mux.RLock()
	for _, s := range mc.streams {
		if w, ok := s.(prometheusStreamWrapper); ok {
			for _, pr := range protos {
				if pr.stream != nil && w.stream == Stream(pr.stream) {
					sids = append(sids, pr.spec.Sid)
				}
			}
		}
	}
	mc.mux.RUnlock()
	sort.Ints(sids)
	var ss []string
	for _, s := range sids {
		ss = append(ss, strconv.Itoa(s))
	}
	return fmt.Sprintf("%s~%s~%v~%s~%s", p.ID, p.NodeDID.String(), p.Authenticated, dns, strings.Join(ss, "+"))
}

func vOutRun(t *testing.T, op vOutOp) string {
	var auth Authenticator = NewTLSAuthenticator(vSvcTab(vInHosts))
	if op.Kind == "dummy" {
		auth = NewDummyAuthenticator(nil)
	}
	cm, err := NewGRPCConnectionManager(Config{peerID: "client"}, nil, did.MustParseDID("did:nuts:client"), auth)
	if err != nil {
		t.Fatal(err)
	}
	defer cm.Stop()
	contact := transport.Peer{Address: "server.example:5555"}
	if op.Expected != "" {
		contact.NodeDID = did.MustParseDID(op.Expected)
	}
	connection, isNew := cm.connections.getOrRegister(cm.ctx, contact, true)
	if !isNew {
		return "outbound not-new"
	}
	mc := connection.(*conn)
	// the set-up decisions do not depend on the connection's context; cancelling it up front only keeps
	// waitUntilDisconnected from blocking once streams are up
	mc.cancelCtx()
	var protos []*vOutProto
	var trace []string
	for _, sp := range op.Streams {
		pr := &vOutProto{TestProtocol: &TestProtocol{}, spec: sp}
		protos = append(protos, pr)
	}
	for _, pr := range protos {
		pr.before = func() { trace = append(trace, vOutSnapshot(mc, protos)) }
		cm.protocols = append(cm.protocols, pr)
	}
	gc, err := grpcLib.NewClient("passthrough:///verif", grpcLib.WithTransportCredentials(insecure.NewCredentials()))
	if err != nil {
		t.Fatal(err)
	}
	defer gc.Close()
	res := ""
	func() {
		defer func() {
			if r := recover(); r != nil {
				res = fmt.Sprintf("panic:%v", r)
			}
		}()
		e := cm.openOutboundStreams(connection, gc)
		switch {
		case e == nil:
			res = "blocked"
		case errors.Is(e, ErrUnexpectedNodeDID):
			res = "unexpected"
		case errors.Is(e, ErrNodeDIDAuthFailed):
			res = "authfailed"
		case errors.Is(e, ErrAlreadyConnected):
			res = "already"
		case strings.Contains(e.Error(), "could not use any of the supported protocols"):
			res = "noproto"
		case strings.Contains(e.Error(), "failed to read peer ID header"):
			res = "metadata"
		case strings.Contains(e.Error(), "peer sent invalid ID"):
			res = "peerid"
		case strings.Contains(e.Error(), "failed to read gRPC headers"):
			res = "header"
		case strings.Contains(e.Error(), "verif: create failure"):
			res = "create"
		default:
			res = "err:" + e.Error()
		}
	}()
	end := vOutSnapshot(mc, protos)
	// what connect's deferred function does when openOutboundStreams returns
	connection.disconnect()
	cm.connections.remove(connection)
	after := vOutSnapshot(mc, protos)
	for _, pr := range protos {
		if pr.stream != nil {
			pr.stream.cancel()
		}
	}
	return "outbound " + res + " [" + strings.Join(trace, " ") + "] end=" + end + " after=" + after + " listed=" + strconv.Itoa(len(cm.connections.All()))
}

func vOutGen(rng *rand.Rand, n int) []vOutOp {
	sp := func(proto string, pids, dids []string, cert string) vOutSpec {
		s := vOutSpec{Proto: proto, Pids: pids, Dids: dids}
		switch cert {
		case "victim":
			s.HasCert, s.Cert = true, []string{"victim.example.org"}
		case "attacker":
			s.HasCert, s.Cert = true, []string{"attacker.example"}
		case "both":
			s.HasCert, s.Cert = true, []string{"attacker.example", "victim.example.org"}
		}
		return s
	}
	V, A := []string{"did:nuts:victim"}, []string{"did:nuts:attacker"}
	S, T := []string{"S"}, []string{"T"}
	hdrFail := sp("p1", S, V, "victim")
	hdrFail.HeaderFails = true
	crFail := sp("p2", S, V, "victim")
	crFail.CreateFails = true
	otherOnly := sp("p1", nil, nil, "victim")
	otherOnly.Other = true
	type fx struct {
		kind, expected string
		streams        []vOutSpec
	}
	fixed := []fx{
		// the dialled DID proved on two protocols
		{"tls", "did:nuts:victim", []vOutSpec{sp("p1", S, V, "victim"), sp("p2", S, V, "victim")}},
		// the server at the victim's address answers with the attacker's certificate / no certificate / both names
		{"tls", "did:nuts:victim", []vOutSpec{sp("p1", S, V, "attacker")}},
		{"tls", "did:nuts:victim", []vOutSpec{sp("p1", S, V, "none")}},
		{"tls", "did:nuts:victim", []vOutSpec{sp("p1", S, V, "both")}},
		// first protocol proves it, the second stream arrives with another certificate / another DID / no DID / another peer ID
		{"tls", "did:nuts:victim", []vOutSpec{sp("p1", S, V, "victim"), sp("p2", S, V, "attacker")}},
		{"tls", "did:nuts:victim", []vOutSpec{sp("p1", S, V, "victim"), sp("p2", S, A, "attacker")}},
		{"tls", "did:nuts:victim", []vOutSpec{sp("p1", S, V, "victim"), sp("p2", S, nil, "victim")}},
		{"tls", "did:nuts:victim", []vOutSpec{sp("p1", S, V, "victim"), sp("p2", T, V, "victim")}},
		// the server names another DID (its own, proven) / a near miss / an unparsable one / two values
		{"tls", "did:nuts:victim", []vOutSpec{sp("p1", S, A, "attacker")}},
		{"tls", "did:nuts:victim", []vOutSpec{sp("p1", S, []string{"did:nuts:Victim"}, "victim")}},
		{"tls", "did:nuts:victim", []vOutSpec{sp("p1", S, []string{"notadid"}, "victim")}},
		{"tls", "did:nuts:victim", []vOutSpec{sp("p1", S, []string{"did:nuts:victim", "did:nuts:victim"}, "victim")}},
		{"tls", "did:nuts:victim", []vOutSpec{sp("p1", S, []string{" did:nuts:victim\t"}, "victim")}},
		// no headers on the first protocol (non-fatal), then the second one / none at all / other headers only
		{"tls", "did:nuts:victim", []vOutSpec{sp("p1", nil, nil, "victim"), sp("p2", S, V, "victim")}},
		{"tls", "did:nuts:victim", []vOutSpec{sp("p1", nil, nil, "victim"), sp("p2", S, V, "attacker")}},
		{"tls", "did:nuts:victim", []vOutSpec{sp("p1", nil, nil, "victim")}},
		{"tls", "did:nuts:victim", []vOutSpec{otherOnly, sp("p2", S, V, "victim")}},
		{"tls", "did:nuts:victim", []vOutSpec{hdrFail, sp("p2", S, V, "victim")}},
		{"tls", "did:nuts:victim", []vOutSpec{sp("p1", S, V, "victim"), crFail}},
		// the same protocol twice
		{"tls", "did:nuts:victim", []vOutSpec{sp("p1", S, V, "victim"), sp("p1", S, V, "victim")}},
		// a DID without NutsComm endpoint
		{"tls", "did:nuts:third", []vOutSpec{sp("p1", S, []string{"did:nuts:third"}, "victim")}},
		// bootstrap connections: whatever the server claims and proves, never authenticated
		{"tls", "", []vOutSpec{sp("p1", S, V, "victim"), sp("p2", S, A, "attacker")}},
		{"tls", "", []vOutSpec{sp("p1", S, nil, "none"), sp("p2", T, nil, "none")}},
		{"tls", "", []vOutSpec{sp("p1", S, []string{"notadid"}, "victim")}},
		{"dummy", "did:nuts:victim", []vOutSpec{sp("p1", S, V, "none"), sp("p2", S, A, "none")}},
		{"dummy", "", []vOutSpec{sp("p1", S, V, "none")}},
		{"tls", "did:nuts:victim", nil},
	}
	var out []vOutOp
	mk := func(kind, expected string, streams []vOutSpec) {
		op := vOutOp{Op: "outbound", Kind: kind, Expected: expected}
		for i := range streams {
			streams[i].Sid = i
		}
		op.Streams = streams
		for _, d := range vInDIDs {
			if p, err := did.ParseDID(d); err == nil {
				op.Didtab = append(op.Didtab, [2]string{d, p.String()})
			}
		}
		for _, d := range []string{"did:nuts:victim", "did:nuts:attacker"} {
			op.Endpoints = append(op.Endpoints, [2]string{d, vInHosts[d]})
		}
		out = append(out, op)
	}
	for _, f := range fixed {
		mk(f.kind, f.expected, f.streams)
	}
	pad := func(s string) string {
		switch rng.Intn(6) {
		case 0:
			return " " + s
		case 1:
			return s + "\t "
		}
		return s
	}
	for k := 0; k < n; k++ {
		expected := []string{"did:nuts:victim", "did:nuts:victim", "did:nuts:victim", "did:nuts:attacker", "did:nuts:third", ""}[rng.Intn(6)]
		var streams []vOutSpec
		ln := 1 + rng.Intn(4)
		// two thirds of the connections meet a mostly well-behaved server (long set-ups, the interesting second and third streams)
		clean := rng.Intn(3) != 0
		own := map[string]string{"did:nuts:victim": "victim", "did:nuts:attacker": "attacker"}[expected]
		for i := 0; i < ln; i++ {
			var pids, dids []string
			if clean {
				pids = []string{pad("S")}
				if rng.Intn(10) == 0 {
					pids = []string{"T"}
				}
				switch {
				case expected != "" && rng.Intn(8) != 0:
					dids = []string{pad(expected)}
				case rng.Intn(3) != 0:
					dids = []string{vInDIDs[rng.Intn(3)]}
				}
				cert := []string{"victim", "attacker", "none", "both"}[rng.Intn(4)]
				if own != "" && rng.Intn(4) != 0 {
					cert = own
				}
				s := sp([]string{"p1", "p2", "p3", "p4"}[(i+rng.Intn(5)/4)%4], pids, dids, cert)
				if rng.Intn(12) == 0 {
					s.Pids, s.Dids = nil, nil
				}
				streams = append(streams, s)
				continue
			}
			switch rng.Intn(14) {
			case 0:
			case 1:
				pids = []string{"S", "S"}
			case 2:
				pids = []string{pad("")}
			case 3:
				pids = []string{pad("T")}
			default:
				pids = []string{pad("S")}
			}
			switch rng.Intn(12) {
			case 0, 1:
			case 2:
				dids = []string{pad(vInDIDs[rng.Intn(len(vInDIDs))]), "did:nuts:victim"}
			case 3, 4:
				dids = []string{pad(vInDIDs[rng.Intn(len(vInDIDs))])}
			case 5:
				dids = []string{pad(vInDIDs[rng.Intn(2)])}
			default:
				if expected != "" {
					dids = []string{pad(expected)}
				} else {
					dids = []string{pad(vInDIDs[rng.Intn(2)])}
				}
			}
			cert := []string{"victim", "victim", "victim", "attacker", "attacker", "none", "both"}[rng.Intn(7)]
			s := sp([]string{"p1", "p2", "p3"}[rng.Intn(3)], pids, dids, cert)
			switch rng.Intn(16) {
			case 0:
				s.CreateFails = true
			case 1:
				s.HeaderFails = true
			case 2:
				s.Pids, s.Dids = nil, nil
			case 3:
				s.Pids, s.Dids, s.Other = nil, nil, true
			}
			streams = append(streams, s)
		}
		kind := "tls"
		if rng.Intn(8) == 0 {
			kind = "dummy"
		}
		mk(kind, expected, streams)
	}
	return out
}

func vOutbound(t *testing.T, ops, impl *os.File) {
	seed, _ := strconv.ParseInt(os.Getenv("VERIF_SEED"), 10, 64)
	n := 120
	if os.Getenv("VERIF_TIER") == "thorough" {
		n = 2000
	}
	var list []vOutOp
	if rp := os.Getenv("VERIF_REPLAY"); rp != "" {
		f, err := os.Open(rp)
		if err == nil {
			sc := bufio.NewScanner(f)
			sc.Buffer(make([]byte, 1<<20), 1<<24)
			for sc.Scan() {
				var op vOutOp
				if json.Unmarshal(sc.Bytes(), &op) == nil && op.Op == "outbound" {
					list = append(list, op)
				}
			}
			f.Close()
		}
	} else {
		list = vOutGen(rand.New(rand.NewSource(seed*104729+15)), n)
	}
	for _, op := range list {
		b, _ := json.Marshal(op)
		fmt.Fprintln(ops, string(b))
		fmt.Fprintln(impl, vOutRun(t, op))
	}
}
