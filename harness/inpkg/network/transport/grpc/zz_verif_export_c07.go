//go:build verif

package grpc

// VerifC07ConnectionList wraps the given connections in the REAL connectionList (Get / get / AllMatching of
// connection_list.go run unchanged). Add-only export for the C07 addressing leg.
func VerifC07ConnectionList(conns ...Connection) ConnectionList {
	return &connectionList{list: conns}
}
