//go:build verif

// C15: inbound streams and outbound connections on ONE connection list. Forced interleavings on the REAL code: connect's
// getOrRegister(outbound), openOutboundStream per protocol, disconnect+remove, and handleInboundStream in between — an inbound
// stream may join a connection this node dialled (peer ID + node DID equal). After every event the whole list is dumped.
package grpc

import (
	"bufio"
	"encoding/json"
	"errors"
	"fmt"
	"math/rand"
	"os"
	"sort"
	"strconv"
	"strings"
	"testing"
	"time"

	"github.com/nuts-foundation/go-did/did"
	"github.com/nuts-foundation/nuts-node/network/transport"
	grpcLib "google.golang.org/grpc"
	"google.golang.org/grpc/credentials/insecure"
	"google.golang.org/grpc/metadata"
)

type vMixEvent struct {
	E           string   `json:"e"` // inopen | close | dial | outstream | outend
	Sid         int      `json:"sid"`
	Pids        []string `json:"pids,omitempty"`
	Dids        []string `json:"dids,omitempty"`
	HasCert     bool     `json:"hascert,omitempty"`
	Cert        []string `json:"cert,omitempty"`
	Proto       string   `json:"proto,omitempty"`
	Addr        string   `json:"addr,omitempty"`
	X           string   `json:"x"`
	I           int      `json:"i"`
	CreateFails bool     `json:"createfails,omitempty"`
	HeaderFails bool     `json:"headerfails,omitempty"`
	Other       bool     `json:"other,omitempty"`
}

type vMixOp struct {
	Op        string      `json:"op"`
	Kind      string      `json:"kind"`
	Didtab    [][2]string `json:"didtab"`
	Endpoints [][2]string `json:"endpoints"`
	Events    []vMixEvent `json:"events"`
}

func vMixSnapshot(cm *grpcConnectionManager, streams map[int]Stream) (string, map[int]*conn) {
	cm.connections.mux.Lock()
	defer cm.connections.mux.Unlock()
	var parts []string
	where := map[int]*conn{}
	for _, c := range cm.connections.list {
		mc := c.(*conn)
		p := mc.Peer()
		dns := "-"
		if p.Certificate != nil {
			dns = strings.Join(p.Certificate.DNSNames, "+")
		}
		var sids []int
		mc.mux.RLock()
		for _, s := range mc.streams {
			if w, ok := s.(prometheusStreamWrapper); ok {
				for sid, st := range streams {
					if w.stream == st {
						sids = append(sids, sid)
						where[sid] = mc
					}
				}
			}
		}
		mc.mux.RUnlock()
		sort.Ints(sids)
		var ss []string
		for _, s := range sids {
			ss = append(ss, strconv.Itoa(s))
		}
		parts = append(parts, fmt.Sprintf("%s~%s~%v~%s~%s", p.ID, p.NodeDID.String(), p.Authenticated, dns, strings.Join(ss, "+")))
	}
	return strings.Join(parts, ","), where
}

func vMixRun(t *testing.T, op vMixOp) string {
	var auth Authenticator = NewTLSAuthenticator(vSvcTab(vInHosts))
	if op.Kind == "dummy" {
		auth = NewDummyAuthenticator(nil)
	}
	cm, err := NewGRPCConnectionManager(Config{peerID: "me"}, nil, did.MustParseDID("did:nuts:me"), auth)
	if err != nil {
		t.Fatal(err)
	}
	defer cm.Stop()
	connected := make(chan struct{}, 64)
	cm.RegisterObserver(func(_ transport.Peer, st transport.StreamState, _ transport.Protocol) {
		if st == transport.StateConnected {
			connected <- struct{}{}
		}
	})
	gc, err := grpcLib.NewClient("passthrough:///verif", grpcLib.WithTransportCredentials(insecure.NewCredentials()))
	if err != nil {
		t.Fatal(err)
	}
	defer gc.Close()
	protos := map[string]*vProto{}
	streams := map[int]Stream{}
	cancels := map[int]func(){}
	done := map[int]chan error{}
	connAt := func(i int) *conn {
		cm.connections.mux.Lock()
		defer cm.connections.mux.Unlock()
		if i < 0 || i >= len(cm.connections.list) {
			return nil
		}
		return cm.connections.list[i].(*conn)
	}
	// every stream of a connection that goes away: wait for the inbound handlers, forget the streams
	drop := func(mc *conn) string {
		res := ""
		_, where := vMixSnapshot(cm, streams)
		for sid, c := range where {
			if c == mc {
				if ch := done[sid]; ch != nil {
					select {
					case <-ch:
					case <-time.After(30 * time.Second):
						res = "timeout"
					}
				}
				delete(streams, sid)
			}
		}
		return res
	}
	var outs []string
	for _, ev := range op.Events {
		res := ""
		switch ev.E {
		case "close":
			_, where := vMixSnapshot(cm, streams)
			mc := where[ev.Sid]
			if c := cancels[ev.Sid]; c != nil && done[ev.Sid] != nil {
				c()
			}
			if mc != nil && done[ev.Sid] != nil {
				res = drop(mc)
			}
			if res == "" {
				res = "closed"
			}
		case "dial":
			contact := transport.Peer{Address: ev.Addr}
			if ev.X != "" {
				contact.NodeDID = did.MustParseDID(ev.X)
			}
			if _, isNew := cm.connections.getOrRegister(cm.ctx, contact, true); isNew {
				res = "dialled"
			} else {
				res = "exists"
			}
		case "outend":
			if mc := connAt(ev.I); mc == nil {
				res = "noconn"
			} else {
				_, where := vMixSnapshot(cm, streams)
				mc.disconnect()
				cm.connections.remove(mc)
				for sid, c := range where {
					if c == mc {
						if ch := done[sid]; ch != nil {
							select {
							case <-ch:
							case <-time.After(30 * time.Second):
								res = "timeout"
							}
						}
						delete(streams, sid)
					}
				}
				if res == "" {
					res = "ended"
				}
			}
		case "outstream":
			mc := connAt(ev.I)
			if mc == nil {
				res = "noconn"
				break
			}
			pr := &vOutProto{TestProtocol: &TestProtocol{}, before: func() {}, spec: vOutSpec{Sid: ev.Sid, Proto: ev.Proto, CreateFails: ev.CreateFails,
				HeaderFails: ev.HeaderFails, Pids: ev.Pids, Dids: ev.Dids, Other: ev.Other, HasCert: ev.HasCert, Cert: ev.Cert}}
			_, e := cm.openOutboundStream(mc, pr, gc, metadata.MD{})
			switch {
			case e == nil:
				res = "opened"
				streams[ev.Sid] = pr.stream
				cancels[ev.Sid] = pr.stream.cancel
			case !errors.As(e, new(fatalError)):
				res = "skipped"
			case errors.Is(e, ErrUnexpectedNodeDID):
				res = "unexpected"
			case errors.Is(e, ErrNodeDIDAuthFailed):
				res = "authfailed"
			case errors.Is(e, ErrAlreadyConnected):
				res = "already"
			case strings.Contains(e.Error(), "failed to read peer ID header"):
				res = "metadata"
			case strings.Contains(e.Error(), "peer sent invalid ID"):
				res = "peerid"
			case strings.Contains(e.Error(), "failed to read gRPC headers"):
				res = "header"
			case strings.Contains(e.Error(), "verif: create failure"):
				res = "create"
			default:
				res = "err:" + e.Error()
			}
		default: // inopen
			pr := protos[ev.Proto]
			if pr == nil {
				pr = &vProto{TestProtocol: &TestProtocol{}, name: "/verif/" + ev.Proto}
				protos[ev.Proto] = pr
			}
			st := vInStream(vInEvent{E: "open", Sid: ev.Sid, Pids: ev.Pids, Dids: ev.Dids, HasCert: ev.HasCert, Cert: ev.Cert, Proto: ev.Proto}, 10000+ev.Sid)
			ch := make(chan error, 1)
			go func() { ch <- cm.handleInboundStream(pr, st) }()
			select {
			case e := <-ch:
				switch {
				case e == nil:
					res = "returned"
				case errors.Is(e, ErrAlreadyConnected):
					res = "already"
				case errors.Is(e, ErrNodeDIDAuthFailed):
					res = "auth"
				case e.Error() == "unable to read peer ID":
					res = "meta"
				default:
					res = "err:" + e.Error()
				}
				st.cancelFunc()
			case <-connected:
				streams[ev.Sid] = st
				cancels[ev.Sid] = st.cancelFunc
				done[ev.Sid] = ch
				_, where := vMixSnapshot(cm, streams)
				res = "joined?"
				cm.connections.mux.Lock()
				for i, c := range cm.connections.list {
					if c.(*conn) == where[ev.Sid] {
						res = "joined" + strconv.Itoa(i)
					}
				}
				cm.connections.mux.Unlock()
			case <-time.After(30 * time.Second):
				res = "timeout"
			}
		}
		snap, _ := vMixSnapshot(cm, streams)
		outs = append(outs, res+"|"+snap)
	}
	for _, c := range cancels {
		c()
	}
	return "mixed " + strings.Join(outs, " ; ")
}

func vMixGen(rng *rand.Rand, n int) []vMixOp {
	in := func(sid int, pids, dids []string, cert, proto string) vMixEvent {
		ev := vMixEvent{E: "inopen", Sid: sid, Pids: pids, Dids: dids, Proto: proto}
		switch cert {
		case "victim":
			ev.HasCert, ev.Cert = true, []string{"victim.example.org"}
		case "attacker":
			ev.HasCert, ev.Cert = true, []string{"attacker.example"}
		}
		return ev
	}
	outS := func(i, sid int, pids, dids []string, cert, proto string) vMixEvent {
		ev := in(sid, pids, dids, cert, proto)
		ev.E, ev.I = "outstream", i
		return ev
	}
	dial := func(addr, x string) vMixEvent { return vMixEvent{E: "dial", Addr: addr, X: x} }
	end := func(i int) vMixEvent { return vMixEvent{E: "outend", I: i} }
	cl := func(sid int) vMixEvent { return vMixEvent{E: "close", Sid: sid} }
	V, A := []string{"did:nuts:victim"}, []string{"did:nuts:attacker"}
	S := []string{"S"}
	fixed := [][]vMixEvent{
		// the node dials the victim; while the connection is being set up (peer ID known, not yet / already authenticated) inbound streams
		// with the same peer ID arrive: proving the victim's DID (joins), claiming it with the attacker's certificate (refused), anonymous (own connection)
		{dial("victim:5555", "did:nuts:victim"), outS(0, 0, S, V, "victim", "p1"), in(1, S, V, "victim", "p2"), in(2, S, V, "attacker", "p3"), in(3, S, nil, "attacker", "p2"),
			dial("victim:5555", "did:nuts:victim"), outS(0, 4, S, V, "attacker", "p4"), end(0), in(5, S, V, "victim", "p2")},
		// the attacker's server answers at the victim's address: the failed set-up leaves the peer ID on the still unauthenticated connection
		{dial("victim:5555", "did:nuts:victim"), outS(0, 0, S, V, "attacker", "p1"), in(1, S, V, "victim", "p2"), in(2, S, V, "attacker", "p2"), end(0), dial("victim:5555", "did:nuts:victim")},
		// inbound first: connect does not dial a DID it already has a connection with; a bootstrap contact is matched by address
		{in(0, S, V, "victim", "p1"), dial("victim:5555", "did:nuts:victim"), dial("boot:5555", ""), dial("boot:5555", ""), dial("other:5555", ""),
			outS(1, 1, S, A, "attacker", "p1"), in(2, S, nil, "none", "p2"), in(3, []string{"S-bootstrap"}, nil, "none", "p2"), cl(0), dial("victim:5555", "did:nuts:victim")},
		{dial("victim:5555", "did:nuts:victim"), outS(0, 0, S, V, "victim", "p1"), in(1, S, V, "victim", "p1"), in(2, S, V, "victim", "p2"), cl(2), outS(0, 3, S, V, "victim", "p3"), end(0), end(0)},
	}
	var out []vMixOp
	mk := func(kind string, evs []vMixEvent) {
		op := vMixOp{Op: "mixed", Kind: kind, Events: evs}
		for _, d := range vInDIDs {
			if p, err := did.ParseDID(d); err == nil {
				op.Didtab = append(op.Didtab, [2]string{d, p.String()})
			}
		}
		for _, d := range []string{"did:nuts:victim", "did:nuts:attacker"} {
			op.Endpoints = append(op.Endpoints, [2]string{d, vInHosts[d]})
		}
		out = append(out, op)
	}
	for _, f := range fixed {
		mk("tls", f)
	}
	mk("dummy", fixed[0])
	for k := 0; k < n; k++ {
		var evs []vMixEvent
		inbound := map[int]bool{}
		approx := 0 // rough number of connections in the list (indexes beyond it are no-ops in both worlds)
		idx := func() int {
			if approx <= 0 {
				return 0
			}
			if rng.Intn(8) == 0 {
				return approx
			}
			return rng.Intn(approx)
		}
		ln := 4 + rng.Intn(8)
		for sid := 0; sid < ln; sid++ {
			dids := [][]string{V, V, A, nil, {"did:nuts:third"}}[rng.Intn(5)]
			cert := []string{"victim", "victim", "attacker", "none"}[rng.Intn(4)]
			pids := [][]string{S, S, S, {"T"}, {" S"}}[rng.Intn(5)]
			proto := []string{"p1", "p2", "p3", "p4"}[rng.Intn(4)]
			switch rng.Intn(10) {
			case 0, 1:
				evs = append(evs, dial([]string{"victim:5555", "boot:5555"}[rng.Intn(2)], []string{"did:nuts:victim", "did:nuts:victim", "did:nuts:attacker", ""}[rng.Intn(4)]))
				approx++
			case 2, 3, 4:
				evs = append(evs, outS(idx(), sid, pids, dids, cert, proto))
			case 5:
				evs = append(evs, end(idx()))
				if approx > 0 {
					approx--
				}
			case 6:
				var live []int
				for s := range inbound {
					live = append(live, s)
				}
				sort.Ints(live)
				if len(live) > 0 {
					evs = append(evs, cl(live[rng.Intn(len(live))]))
					// streams sharing the connection go with it; a later close of one of them is a no-op in both worlds
					inbound = map[int]bool{}
					break
				}
				fallthrough
			default:
				evs = append(evs, in(sid, pids, dids, cert, proto))
				inbound[sid] = true
				if rng.Intn(2) == 0 {
					approx++
				}
			}
		}
		kind := "tls"
		if rng.Intn(10) == 0 {
			kind = "dummy"
		}
		mk(kind, evs)
	}
	return out
}

func vMixed(t *testing.T, ops, impl *os.File) {
	seed, _ := strconv.ParseInt(os.Getenv("VERIF_SEED"), 10, 64)
	n := 60
	if os.Getenv("VERIF_TIER") == "thorough" {
		n = 800
	}
	var list []vMixOp
	if rp := os.Getenv("VERIF_REPLAY"); rp != "" {
		f, err := os.Open(rp)
		if err == nil {
			sc := bufio.NewScanner(f)
			sc.Buffer(make([]byte, 1<<20), 1<<24)
			for sc.Scan() {
				var op vMixOp
				if json.Unmarshal(sc.Bytes(), &op) == nil && op.Op == "mixed" {
					list = append(list, op)
				}
			}
			f.Close()
		}
	} else {
		list = vMixGen(rand.New(rand.NewSource(seed*15485863+15)), n)
	}
	for _, op := range list {
		b, _ := json.Marshal(op)
		fmt.Fprintln(ops, string(b))
		fmt.Fprintln(impl, vMixRun(t, op))
	}
}
