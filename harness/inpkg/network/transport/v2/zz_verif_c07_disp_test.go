//go:build verif

package v2

// C07 deepening round 2: the REAL dispatcher (protocol.Handle -> protocol.handle -> handleASync / the bounded
// TransactionList channel -> transactionListHandler.start) against NutsModel/C07/Dispatch.lean.
//
// One op = a list of groups: ["L",k] k TransactionList envelopes arrive (ids count up over the op), ["U",k] k envelopes of
// no known type, ["D",k] k DiagnosticsBroadcasts (handleASync goroutine; the harness waits until the handler ran),
// ["R",0] the list handler goroutine (`start`) runs until the channel is empty. While `start` is not running the
// arrivals are deterministic; `start` is stopped (context cancelled, goroutine joined) before the next group.

import (
	"bufio"
	"context"
	"encoding/binary"
	"encoding/json"
	"errors"
	"fmt"
	"math/rand"
	"os"
	"path/filepath"
	"strconv"
	"strings"
	"sync"
	"testing"
	"time"

	"github.com/nuts-foundation/nuts-node/network/transport"
	"github.com/nuts-foundation/nuts-node/network/transport/grpc"
	"github.com/sirupsen/logrus"
)

type vDispOp struct {
	Op  string          `json:"op"`
	Evs [][]interface{} `json:"evs"`
}

type vDispConn struct {
	grpc.Connection
	peer transport.Peer
}

func (c *vDispConn) Peer() transport.Peer { return c.peer }

func vDispRanges(ids []uint64) string {
	if len(ids) == 0 {
		return "-"
	}
	var parts []string
	start, prev := ids[0], ids[0]
	flush := func() {
		if start == prev {
			parts = append(parts, strconv.FormatUint(start, 10))
		} else {
			parts = append(parts, fmt.Sprintf("%d..%d", start, prev))
		}
	}
	for _, x := range ids[1:] {
		if x == prev+1 {
			prev = x
			continue
		}
		flush()
		start, prev = x, x
	}
	flush()
	return strings.Join(parts, ",")
}

func vDispRet(err error) string {
	switch {
	case err == nil:
		return "nil"
	case err == errMessageNotSupported:
		return "notsup"
	case err == errInternalError:
		return "internal"
	case errors.Is(err, context.Canceled):
		return "canceled"
	}
	return "other"
}

func vDispRun(op vDispOp) (line string) {
	defer func() {
		if r := recover(); r != nil {
			line = fmt.Sprintf("disp panic:%v", r)
		}
	}()
	root, cancelRoot := context.WithCancel(context.Background())
	defer cancelRoot()
	p := &protocol{}
	p.ctx = root
	p.diagnosticsMan = newPeerDiagnosticsManager(func() transport.Diagnostics { return transport.Diagnostics{} }, func(transport.Diagnostics) {})
	var mu sync.Mutex
	var handled []uint64
	fn := func(_ context.Context, _ grpc.Connection, envelope *Envelope) error {
		mu.Lock()
		defer mu.Unlock()
		handled = append(handled, binary.BigEndian.Uint64(envelope.GetTransactionList().ConversationID))
		return nil
	}
	p.listHandler = newTransactionListHandler(root, fn)
	conn := &vDispConn{peer: transport.Peer{ID: "disp-peer", Address: "disp:1"}}
	var sb strings.Builder
	fmt.Fprintf(&sb, "disp cap=%d", cap(p.listHandler.ch))
	next := uint64(0)
	rets := func(code string, k int, mk func() *Envelope) map[string]int {
		m := map[string]int{}
		for i := 0; i < k; i++ {
			m[vDispRet(p.Handle(conn, mk()))]++
		}
		return m
	}
	retStr := func(m map[string]int) string {
		var ks []string
		for _, c := range []string{"nil", "notsup", "internal", "canceled", "other"} {
			if m[c] > 0 {
				ks = append(ks, fmt.Sprintf("%s*%d", c, m[c]))
			}
		}
		if len(ks) == 0 {
			return "-"
		}
		return strings.Join(ks, "|")
	}
	for gi, g := range op.Evs {
		code, _ := g[0].(string)
		kf, _ := g[1].(float64)
		k := int(kf)
		switch code {
		case "L":
			m := rets(code, k, func() *Envelope {
				id := make([]byte, 8)
				binary.BigEndian.PutUint64(id, next)
				next++
				return &Envelope{Message: &Envelope_TransactionList{TransactionList: &TransactionList{ConversationID: id, MessageNumber: 1, TotalMessages: 1}}}
			})
			fmt.Fprintf(&sb, " g%d=L%d:%s:chan=%d", gi, k, retStr(m), len(p.listHandler.ch))
		case "U":
			m := rets(code, k, func() *Envelope { return &Envelope{} })
			fmt.Fprintf(&sb, " g%d=U%d:%s:chan=%d", gi, k, retStr(m), len(p.listHandler.ch))
		case "D":
			done := 0
			m := map[string]int{}
			for i := 0; i < k; i++ {
				p.diagnosticsMan.mux.Lock()
				delete(p.diagnosticsMan.received, conn.peer.ID)
				p.diagnosticsMan.mux.Unlock()
				m[vDispRet(p.Handle(conn, &Envelope{Message: &Envelope_DiagnosticsBroadcast{DiagnosticsBroadcast: &Diagnostics{Uptime: uint32(i + 1)}}}))]++
				// the handler runs on its own goroutine: wait for its effect (bounded only to turn a lost handler into an outcome)
				for w := 0; w < 20000; w++ {
					p.diagnosticsMan.mux.RLock()
					_, ok := p.diagnosticsMan.received[conn.peer.ID]
					p.diagnosticsMan.mux.RUnlock()
					if ok {
						done++
						break
					}
					time.Sleep(500 * time.Microsecond)
				}
			}
			fmt.Fprintf(&sb, " g%d=D%d:%s:ran=%d", gi, k, retStr(m), done)
		case "R":
			want := len(p.listHandler.ch)
			mu.Lock()
			before := len(handled)
			mu.Unlock()
			ctx, cancel := context.WithCancel(root)
			p.listHandler.ctx = ctx
			fin := make(chan struct{})
			go func() { p.listHandler.start(); close(fin) }()
			ok := false
			for w := 0; w < 60000; w++ {
				mu.Lock()
				n := len(handled) - before
				mu.Unlock()
				if n >= want && len(p.listHandler.ch) == 0 {
					ok = true
					break
				}
				time.Sleep(500 * time.Microsecond)
			}
			cancel()
			select {
			case <-fin:
			case <-time.After(30 * time.Second):
				ok = false
			}
			p.listHandler.ctx = root
			mu.Lock()
			got := append([]uint64(nil), handled[before:]...)
			mu.Unlock()
			st := "drained"
			if !ok {
				st = "stuck"
			}
			fmt.Fprintf(&sb, " g%d=R:%s:%s:chan=%d", gi, st, vDispRanges(got), len(p.listHandler.ch))
		default:
			fmt.Fprintf(&sb, " g%d=?", gi)
		}
	}
	return sb.String()
}

func TestVerifC07Disp(t *testing.T) {
	out := os.Getenv("VERIF_OUT")
	if out == "" {
		t.Skip("VERIF_OUT not set")
	}
	logrus.SetLevel(logrus.PanicLevel)
	seed, _ := strconv.ParseInt(os.Getenv("VERIF_SEED"), 10, 64)
	rng := rand.New(rand.NewSource(seed*104729 + 77))
	var ops []vDispOp
	addFile := func(path string) {
		f, err := os.Open(path)
		if err != nil {
			return
		}
		defer f.Close()
		sc := bufio.NewScanner(f)
		sc.Buffer(make([]byte, 1<<20), 1<<24)
		for sc.Scan() {
			var op vDispOp
			if json.Unmarshal(sc.Bytes(), &op) == nil && op.Op == "disp" {
				ops = append(ops, op)
			}
		}
	}
	if rp := os.Getenv("VERIF_REPLAY"); rp != "" {
		addFile(rp)
	} else {
		if dir := os.Getenv("VERIF_CORPUS"); dir != "" {
			files, _ := filepath.Glob(filepath.Join(dir, "disp-*.jsonl"))
			for _, f := range files {
				addFile(f)
			}
		}
		c := cap(newTransactionListHandler(context.Background(), nil).ch)
		n := 14
		if os.Getenv("VERIF_TIER") == "thorough" {
			n = 60
		}
		g := func(code string, k int) []interface{} { return []interface{}{code, k} }
		// fixed shapes: burst over the capacity, exactly the capacity, refill after a drain, unknown envelopes, diagnostics
		ops = append(ops,
			vDispOp{"disp", [][]interface{}{g("U", 2), g("L", c+3), g("R", 0), g("L", 2), g("U", 1), g("R", 0), g("R", 0)}},
			vDispOp{"disp", [][]interface{}{g("L", c), g("L", 1), g("R", 0), g("L", c-1), g("L", 1), g("L", 1), g("R", 0)}},
			vDispOp{"disp", [][]interface{}{g("D", 2), g("L", 1), g("D", 1), g("R", 0), g("U", 1)}},
			vDispOp{"disp", [][]interface{}{g("R", 0), g("L", 0), g("U", 0)}},
		)
		sizes := []int{0, 1, 2, 3, 7, 40, c - 1, c, c + 1, c + 1 + rng.Intn(60)}
		for i := 0; i < n; i++ {
			var evs [][]interface{}
			for j, k := 0, 2+rng.Intn(6); j < k; j++ {
				switch r := rng.Intn(10); {
				case r < 5:
					sz := sizes[rng.Intn(len(sizes))]
					if rng.Intn(3) > 0 {
						sz = sizes[rng.Intn(6)]
					}
					evs = append(evs, g("L", sz))
				case r < 7:
					evs = append(evs, g("R", 0))
				case r < 9:
					evs = append(evs, g("U", 1+rng.Intn(3)))
				default:
					evs = append(evs, g("D", 1+rng.Intn(2)))
				}
			}
			evs = append(evs, g("R", 0))
			ops = append(ops, vDispOp{"disp", evs})
		}
	}
	if err := os.MkdirAll(out, 0o755); err != nil {
		t.Fatal(err)
	}
	fo, _ := os.Create(filepath.Join(out, "ops.jsonl"))
	fi, _ := os.Create(filepath.Join(out, "impl.out"))
	defer fo.Close()
	defer fi.Close()
	for _, op := range ops {
		b, _ := json.Marshal(op)
		fo.Write(append(b, '\n'))
		var rt vDispOp // what a replay of this line would run
		_ = json.Unmarshal(b, &rt)
		fi.WriteString(vDispRun(rt) + "\n")
	}
}
