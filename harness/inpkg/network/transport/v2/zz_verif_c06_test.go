//go:build verif

// C06 leg 2: the REAL transport/v2 handlers that feed state.Add and the payload store — handleTransactionList (parse all,
// payload required for public transactions, list order, stop at first error, payload paired by index) and
// handleTransactionPayload (hash check before WritePayload) — on a REAL dag.State (bbolt) with the node's verifiers.
// Library: network/dag/zz_verif_c06_lib.go (overlay). Ops go to ops.jsonl, one line per op to impl.out.
package v2

import (
	"context"
	"encoding/json"
	"fmt"
	"os"
	"path/filepath"
	"strconv"
	"strings"
	"testing"
	"time"

	"github.com/nuts-foundation/go-did/did"
	"github.com/nuts-foundation/go-stoabs"
	"github.com/nuts-foundation/go-stoabs/bbolt"
	"github.com/nuts-foundation/nuts-node/crypto"
	"github.com/nuts-foundation/nuts-node/crypto/hash"
	"github.com/nuts-foundation/nuts-node/network/dag"
	"github.com/nuts-foundation/nuts-node/network/transport"
	"github.com/nuts-foundation/nuts-node/network/transport/grpc"
	"github.com/nuts-foundation/nuts-node/vdr/resolver"
	"github.com/sirupsen/logrus"
	"go.uber.org/mock/gomock"
)

type v6Leg struct {
	t      *testing.T
	out    string
	fo, fi *os.File
	b      *dag.VerifC06Builder
	st     dag.State
	store  stoabs.KVStore
	p      *protocol
	ctrl   *gomock.Controller
	sent   int
	peerN  int
	refs   []string
	phs    []string
}

func (l *v6Leg) fresh() {
	if l.store != nil {
		_ = l.st.Shutdown()
		_ = l.store.Close(context.Background())
	}
	dir, _ := os.MkdirTemp(l.out, "v2db")
	lg := logrus.New()
	lg.SetLevel(logrus.PanicLevel)
	store, err := bbolt.CreateBBoltStore(filepath.Join(dir, "dag"), stoabs.WithNoSync(), stoabs.WithLogger(lg))
	if err != nil {
		l.t.Fatal(err)
	}
	st, err := dag.NewState(store, dag.NewPrevTransactionsVerifier(), dag.NewTransactionSignatureVerifier(nil))
	if err != nil {
		l.t.Fatal(err)
	}
	l.store, l.st = store, st
	l.ctrl = gomock.NewController(l.t)
	p := New(DefaultConfig(), did.DID{}, st, resolver.NewMockDIDResolver(l.ctrl), crypto.NewMockDecrypter(l.ctrl), nil, store).(*protocol)
	p.cMan = newConversationManager(time.Minute)
	sender := NewMockmessageSender(l.ctrl)
	sender.EXPECT().sendState(gomock.Any(), gomock.Any(), gomock.Any()).DoAndReturn(func(_ grpc.Connection, _ hash.SHA256Hash, _ uint32) error {
		l.sent++
		return nil
	}).AnyTimes()
	p.sender = sender
	l.p = p
	l.refs, l.phs = nil, nil
	l.emit(map[string]any{"op": "new", "lite": true, "subs": []any{}, "keys": l.b.KeysHex()}, "new "+dag.VerifC06Observe(l.st, nil, nil))
}

func (l *v6Leg) emit(op map[string]any, line string) {
	b, _ := json.Marshal(op)
	l.fo.Write(append(b, '\n'))
	l.fi.WriteString(line + "\n")
}

func (l *v6Leg) probe(c dag.VerifC06Call) {
	add := func(list *[]string, v string) {
		for _, x := range *list {
			if x == v {
				return
			}
		}
		*list = append(*list, v)
	}
	add(&l.refs, c.Jws["ref"].(string))
	for _, p := range c.Phs {
		add(&l.phs, strings.ToLower(p))
	}
}

func (l *v6Leg) conn() grpc.Connection {
	l.peerN++
	c := grpc.NewMockConnection(l.ctrl)
	c.EXPECT().Peer().Return(transport.Peer{ID: transport.PeerID("peer" + strconv.Itoa(l.peerN))}).AnyTimes()
	return c
}

// one TransactionList message through the real handler
func (l *v6Leg) list(calls []dag.VerifC06Call, note string) string {
	for _, c := range calls {
		l.probe(c)
	}
	connection := l.conn()
	conv := l.p.cMan.startConversation(&Envelope_TransactionRangeQuery{TransactionRangeQuery: &TransactionRangeQuery{Start: 0, End: dag.MaxLamportClock}}, connection.Peer())
	var txs []*Transaction
	for _, c := range calls {
		txs = append(txs, &Transaction{Data: dag.VerifC06Input(c), Payload: dag.VerifC06Payload(c.Pid)})
	}
	env := &Envelope{Message: &Envelope_TransactionList{TransactionList: &TransactionList{ConversationID: conv.conversationID.slice(), Transactions: txs, TotalMessages: 1, MessageNumber: 1}}}
	before := l.sent
	res := ""
	func() {
		defer func() {
			if r := recover(); r != nil {
				res = "panic:list"
			}
		}()
		defer dag.VerifC06Watch("list " + note)()
		err := l.p.handleTransactionList(context.Background(), connection, env)
		switch {
		case err == nil && l.sent > before:
			res = "ok:missing-prevs"
		case err == nil:
			res = "ok"
		case strings.Contains(err.Error(), "peer did not provide payload"):
			res = "err:no-payload"
		case strings.Contains(err.Error(), "received transaction is invalid"):
			res = dag.VerifC06ParseClass(err)
		default:
			res = dag.VerifC06AddClass(err)
		}
	}()
	line := "r=" + res + " | " + dag.VerifC06Observe(l.st, l.refs, l.phs)
	l.emit(map[string]any{"op": "list", "calls": calls, "note": note}, line)
	return line
}

// one TransactionPayload message through the real handler
func (l *v6Leg) payload(ref string, pid int, note string) string {
	data := dag.VerifC06Payload(&pid)
	sha := dag.VerifC06Sha(data)
	found := false
	for _, x := range l.phs {
		found = found || x == sha
	}
	if !found {
		l.phs = append(l.phs, sha)
	}
	h, _ := hash.ParseHex(ref)
	env := &Envelope{Message: &Envelope_TransactionPayload{TransactionPayload: &TransactionPayload{TransactionRef: h.Slice(), Data: data}}}
	res := ""
	func() {
		defer func() {
			if r := recover(); r != nil {
				res = "panic:payload"
			}
		}()
		defer dag.VerifC06Watch("payload " + note)()
		err := l.p.handleTransactionPayload(context.Background(), l.conn(), env)
		switch {
		case err == nil:
			res = "ok"
		case strings.Contains(err.Error(), "non-existing transaction"):
			res = "err:unknown-tx"
		case strings.Contains(err.Error(), "doesn't match payload hash"):
			res = "err:payload-mismatch"
		default:
			res = "err:?" + err.Error()
		}
	}()
	line := "r=" + res + " | " + dag.VerifC06Observe(l.st, l.refs, l.phs)
	l.emit(map[string]any{"op": "payload", "ref": ref, "pid": pid, "sha": sha, "phs": []string{sha}, "note": note}, line)
	return line
}

type v6T struct {
	ref   string
	lc    int
	priv  bool
	pid   int
	call  dag.VerifC06Call
}

func (l *v6Leg) present(ref string) bool {
	h, _ := hash.ParseHex(ref)
	p, _ := l.st.IsPresent(context.Background(), h)
	return p
}

func TestVerifC06V2(t *testing.T) {
	out := os.Getenv("VERIF_OUT")
	if out == "" {
		t.Skip("VERIF_OUT not set")
	}
	logrus.SetLevel(logrus.PanicLevel)
	seed, _ := strconv.ParseInt(os.Getenv("VERIF_SEED"), 10, 64)
	n := 40
	if os.Getenv("VERIF_TIER") == "thorough" {
		n = 400
	}
	if v, err := strconv.Atoi(os.Getenv("VERIF_V2_SCENARIOS")); err == nil {
		n = v
	}
	fo, _ := os.Create(filepath.Join(out, "ops.jsonl"))
	fi, _ := os.Create(filepath.Join(out, "impl.out"))
	defer fo.Close()
	defer fi.Close()
	l := &v6Leg{t: t, out: out, fo: fo, fi: fi, b: dag.NewVerifC06Builder(seed*104729+2, 3)}
	rnd := l.b.Rnd()
	if rp := os.Getenv("VERIF_REPLAY"); rp != "" {
		// re-run recorded list / payload ops on a fresh state
		raw, err := os.ReadFile(rp)
		if err != nil {
			t.Fatal(err)
		}
		for _, line := range strings.Split(string(raw), "\n") {
			if strings.TrimSpace(line) == "" {
				continue
			}
			var op struct {
				Op    string
				Calls []dag.VerifC06Call
				Ref   string
				Pid   int
				Note  string
			}
			if err := json.Unmarshal([]byte(line), &op); err != nil {
				t.Fatal(err)
			}
			switch op.Op {
			case "new":
				l.fresh()
			case "list":
				l.list(op.Calls, op.Note)
			case "payload":
				l.payload(op.Ref, op.Pid, op.Note)
			}
		}
		n = 0
	}
	for sc := 0; sc < n; sc++ {
		l.fresh()
		var dagTxs []v6T
		mk := func(prevs []v6T, signer int, priv bool, wp int, tamper, other bool, lcDelta int, note string) v6T {
			var ps []string
			hi := -1
			for _, p := range prevs {
				ps = append(ps, p.ref)
				if p.lc > hi {
					hi = p.lc
				}
			}
			pid := l.b.NewPid()
			c := l.b.Tx(ps, strconv.Itoa(hi+1+lcDelta), signer, priv, pid, wp, tamper, other, note)
			return v6T{ref: c.Jws["ref"].(string), lc: hi + 1 + lcDelta, priv: priv, pid: pid, call: c}
		}
		tips := func() []v6T {
			if len(dagTxs) == 0 {
				return nil
			}
			k := 1 + rnd.Intn(2)
			var r []v6T
			for i := 0; i < k; i++ {
				r = append(r, dagTxs[len(dagTxs)-1-rnd.Intn(min(3, len(dagTxs)))])
			}
			return r
		}
		settle := func(items []v6T) {
			for _, it := range items {
				dup := false
				for _, d := range dagTxs {
					dup = dup || d.ref == it.ref
				}
				if !dup && l.present(it.ref) {
					dagTxs = append(dagTxs, it)
				}
			}
		}
		steps := 6 + rnd.Intn(8)
		for s := 0; s < steps; s++ {
			// a chain/branch of 1..5 new valid transactions on top of the current DAG
			k := 1 + rnd.Intn(5)
			var items []v6T
			cur := tips()
			for i := 0; i < k; i++ {
				priv := rnd.Intn(4) == 0
				wp := 1
				if priv && rnd.Intn(2) == 0 {
					wp = 0 // private transaction: payload fetched later
				}
				it := mk(cur, rnd.Intn(3), priv, wp, false, false, 0, "valid")
				items = append(items, it)
				if rnd.Intn(3) > 0 {
					cur = []v6T{it}
				}
			}
			calls := func(its []v6T) []dag.VerifC06Call {
				var cs []dag.VerifC06Call
				for _, it := range its {
					cs = append(cs, it.call)
				}
				return cs
			}
			kind := rnd.Intn(12)
			if len(dagTxs) == 0 {
				kind = 0
			}
			switch kind {
			case 0, 1, 2:
				l.list(calls(items), "valid-in-order")
			case 3: // reversed: the first item misses its prev -> list ends quietly, nothing of it is added
				rev := append([]v6T{}, items...)
				for i, j := 0, len(rev)-1; i < j; i, j = i+1, j-1 {
					rev[i], rev[j] = rev[j], rev[i]
				}
				l.list(calls(rev), "reversed")
				l.list(calls(items), "valid-in-order(after reversed)")
			case 4: // payloads of two items swapped (index pairing)
				if len(items) >= 2 {
					cs := calls(items)
					i, j := 0, len(cs)-1
					cs[i].Pid, cs[j].Pid = cs[j].Pid, cs[i].Pid
					cs[i].Sha, cs[j].Sha = cs[j].Sha, cs[i].Sha
					l.list(cs, "payloads-swapped")
				}
				l.list(calls(items), "valid-in-order(after swapped)")
			case 5: // a public transaction in the middle comes without payload
				cs := calls(items)
				m := rnd.Intn(len(cs))
				if !items[m].priv {
					cs[m].Pid, cs[m].Sha = nil, ""
				}
				l.list(cs, "public-without-payload@"+strconv.Itoa(m))
			case 6: // defective item in the middle: earlier items stay, later ones are not looked at
				m := rnd.Intn(len(items))
				var prevs []v6T
				if m > 0 {
					prevs = []v6T{items[m-1]}
				} else {
					prevs = tips()
				}
				bad := []v6T{
					mk(prevs, 0, false, 1, true, false, 0, "tampered"),
					mk(prevs, 0, false, 1, false, true, 0, "other-signer"),
					mk(prevs, 0, false, 1, false, false, 1, "clock+1"),
					mk(prevs, 0, false, 2, false, false, 0, "wrong-payload"),
				}[rnd.Intn(4)]
				cs := append(append(calls(items[:m]), bad.call), calls(items[m:])...)
				l.list(cs, "defect-in-the-middle:"+bad.call.Note)
			case 7: // one unparseable transaction anywhere refuses the WHOLE message
				cs := calls(items)
				junk := l.b.CallOf([]byte("bm90IGEgandz.e30.c2ln"))
				junk.Note = "junk"
				m := rnd.Intn(len(cs) + 1)
				cs = append(append(append([]dag.VerifC06Call{}, cs[:m]...), junk), cs[m:]...)
				l.list(cs, "unparseable@"+strconv.Itoa(m))
			case 8: // duplicates inside the list and re-delivery of the list
				cs := calls(items)
				cs = append(cs, cs[0])
				l.list(cs, "duplicate-in-list")
				l.list(calls(items), "re-delivery")
			case 9: // payload for a transaction that is not on the DAG
				l.payload(items[0].ref, items[0].pid, "payload-for-unknown-tx")
				l.list(calls(items), "valid-in-order")
			default:
				l.list(calls(items), "valid-in-order")
			}
			settle(items)
			// late payloads for private transactions that came without: wrong bytes first, then the right ones, then again
			for _, it := range dagTxs {
				if it.priv && it.call.Pid == nil && rnd.Intn(6) == 0 {
					l.payload(it.ref, l.b.NewPid(), "late-payload:wrong-bytes")
					if rnd.Intn(3) > 0 {
						l.payload(it.ref, it.pid, "late-payload:right-bytes")
					}
				}
			}
			// a payload with other bytes for a transaction whose payload is already stored
			if len(dagTxs) > 0 && rnd.Intn(4) == 0 {
				it := dagTxs[rnd.Intn(len(dagTxs))]
				l.payload(it.ref, l.b.NewPid(), "payload-overwrite-attempt")
			}
		}
	}
	if l.store != nil {
		_ = l.st.Shutdown()
		_ = l.store.Close(context.Background())
	}
	_ = fmt.Sprint
}
