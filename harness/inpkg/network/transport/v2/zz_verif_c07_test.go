//go:build verif

// Deterministic in-process network simulator for C07 (convergence) and C15 (private payloads).
// Real `protocol` values with real dag.State on bbolt files, a fake grpc.Connection whose Send puts the
// marshalled envelope into the simulator's log, handlers invoked directly and synchronously, the real
// senders, the gossip tick and conversation expiry driven by the schedule.
package v2

import (
	"bytes"
	"context"
	"crypto/ecdsa"
	"crypto/elliptic"
	crand "crypto/rand"
	"encoding/binary"
	"encoding/hex"
	"encoding/json"
	"errors"
	"fmt"
	"math/rand"
	"os"
	"path/filepath"
	"runtime"
	"sort"
	"strings"
	"sync"
	"testing"
	"time"

	"github.com/lestrrat-go/jwx/v2/jwa"
	"github.com/lestrrat-go/jwx/v2/jwk"
	ssi "github.com/nuts-foundation/go-did"
	"github.com/nuts-foundation/go-did/did"
	"github.com/nuts-foundation/go-stoabs"
	"github.com/nuts-foundation/go-stoabs/bbolt"
	"github.com/nuts-foundation/nuts-node/audit"
	"github.com/nuts-foundation/nuts-node/core"
	nutsCrypto "github.com/nuts-foundation/nuts-node/crypto"
	"github.com/nuts-foundation/nuts-node/crypto/hash"
	"github.com/nuts-foundation/nuts-node/network/dag"
	"github.com/nuts-foundation/nuts-node/network/dag/tree"
	"github.com/nuts-foundation/nuts-node/network/transport"
	"github.com/nuts-foundation/nuts-node/network/transport/grpc"
	"github.com/nuts-foundation/nuts-node/network/transport/v2/gossip"
	"github.com/nuts-foundation/nuts-node/vdr/resolver"
	"github.com/sirupsen/logrus"
	"google.golang.org/protobuf/proto"
)

var _ = ssi.URI{}

// ---------------------------------------------------------------------------------------------
// deterministic "randomness" for key generation, ECDSA and ECIES: a constant byte stream is invariant
// under the random 0/1-byte read Go inserts to defeat determinism.

type vConstReader struct{ b byte }

func (r vConstReader) Read(p []byte) (int, error) {
	for i := range p {
		p[i] = r.b
	}
	return len(p), nil
}

func vWithRand(b byte, f func()) {
	old := crand.Reader
	crand.Reader = vConstReader{b}
	defer func() { crand.Reader = old }()
	f()
}

func vKey(b byte) *ecdsa.PrivateKey {
	var k *ecdsa.PrivateKey
	vWithRand(b, func() {
		var err error
		k, err = ecdsa.GenerateKey(elliptic.P256(), crand.Reader)
		if err != nil {
			panic(err)
		}
	})
	return k
}

// ---------------------------------------------------------------------------------------------
// universe of transactions

type vPal struct {
	dids    []string // true plaintext participant list ("" entries are not produced)
	ciphers []int    // cipher ids, one per ciphertext in the header
	mixed   bool     // the header reuses entries of another transaction: `dids` is what the entries the AUTHOR added decrypt to
}

type vCipher struct {
	id    int
	kid   string   // key id able to decrypt ("" = nobody)
	plain []string // plaintext entries; entries starting with "!" are not DIDs
	bytes []byte
}

type vTx struct {
	idx     int
	data    []byte
	tx      dag.Transaction // nil when data does not parse
	ref     hash.SHA256Hash
	clock   uint32
	prevs   []hash.SHA256Hash
	payload []byte
	ph      hash.SHA256Hash
	pal     *vPal
	sigOK   bool
	tag     string
}

type vUniverse struct {
	txs      []*vTx
	byRef    map[hash.SHA256Hash]*vTx
	payloads map[string][]byte // payload id -> bytes
	payID    map[hash.SHA256Hash]string
	ciphers  []*vCipher
	signKey  jwk.Key
	signPub  *ecdsa.PublicKey
	kakKeys  map[string]*ecdsa.PrivateKey // kid -> private key
	ops      []string                     // universe op lines
	canaries map[int][]byte               // tx idx -> private payload bytes
}

func r16(h hash.SHA256Hash) string { return hex.EncodeToString(h[:8]) }

func vDigest(refs []hash.SHA256Hash) string {
	x := hash.EmptyHash()
	for _, r := range refs {
		x = x.Xor(r)
	}
	return fmt.Sprintf("#%d:%s", len(refs), r16(x))
}

func newUniverse() *vUniverse {
	u := &vUniverse{byRef: map[hash.SHA256Hash]*vTx{}, payloads: map[string][]byte{}, payID: map[hash.SHA256Hash]string{},
		kakKeys: map[string]*ecdsa.PrivateKey{}, canaries: map[int][]byte{}}
	priv := vKey(0x42)
	k, err := jwk.FromRaw(priv)
	if err != nil {
		panic(err)
	}
	_ = k.Set(jwk.AlgorithmKey, jwa.ES256)
	_ = k.Set(jwk.KeyIDKey, "verif-key")
	u.signKey = k
	u.signPub = &priv.PublicKey
	return u
}

func (u *vUniverse) addPayload(id string, b []byte) {
	if _, ok := u.payloads[id]; ok {
		return
	}
	u.payloads[id] = b
	h := hash.SHA256Sum(b)
	if _, ok := u.payID[h]; !ok {
		u.payID[h] = id
	}
	u.ops = append(u.ops, vJSON(map[string]interface{}{"op": "payload", "id": id, "len": len(b), "sha": r16(h)}))
}

func (u *vUniverse) payloadName(b []byte) string {
	if len(b) == 0 {
		return "-"
	}
	if id, ok := u.payID[hash.SHA256Sum(b)]; ok {
		return id
	}
	return "?" + r16(hash.SHA256Sum(b))
}

// kak returns (creating on first use) the key agreement key of a DID
func (u *vUniverse) kak(didStr string) (string, *ecdsa.PrivateKey) {
	kid := didStr + "#kak"
	if k, ok := u.kakKeys[kid]; ok {
		return kid, k
	}
	k := vKey(byte(0x50 + len(u.kakKeys)))
	u.kakKeys[kid] = k
	return kid, k
}

// cipher encrypts `plain` (joined with "\n") for the key agreement key of `forDid` ("" = a key nobody holds)
func (u *vUniverse) cipher(forDid string, plain []string) int {
	var pub *ecdsa.PublicKey
	kid := ""
	if forDid == "" {
		pub = &vKey(0x4f).PublicKey
	} else {
		var k *ecdsa.PrivateKey
		kid, k = u.kak(forDid)
		pub = &k.PublicKey
	}
	clean := make([]string, len(plain))
	for i, p := range plain {
		clean[i] = strings.TrimPrefix(p, "!")
	}
	var ct []byte
	vWithRand(byte(0x61+len(u.ciphers)%64), func() {
		var err error
		ct, err = nutsCrypto.EciesEncrypt(pub, []byte(strings.Join(clean, "\n")))
		if err != nil {
			panic(err)
		}
	})
	c := &vCipher{id: len(u.ciphers), kid: kid, plain: plain, bytes: ct}
	u.ciphers = append(u.ciphers, c)
	pl := make([]interface{}, len(plain))
	for i, p := range plain {
		if strings.HasPrefix(p, "!") {
			pl[i] = nil
		} else {
			pl[i] = p
		}
	}
	u.ops = append(u.ops, vJSON(map[string]interface{}{"op": "cipher", "id": c.id, "kid": kid, "plain": pl}))
	return c.id
}

type vTxSpec struct {
	prevs     []int             // universe indices
	extraPrev []hash.SHA256Hash // dangling refs
	payload   []byte            // nil = derive from index
	pal       *vPal
	clock     int // -1 = correct clock
	badSig    bool
	garbage   bool
	tag       string
}

var vSignTime = time.Unix(1700000000, 0).UTC()

func (u *vUniverse) add(s vTxSpec) int {
	idx := len(u.txs)
	t := &vTx{idx: idx, pal: s.pal, sigOK: !s.badSig, tag: s.tag}
	if s.garbage {
		t.data = []byte(fmt.Sprintf("garbage-%d", idx))
		t.ref = hash.SHA256Sum(t.data)
		t.sigOK = false
		u.txs = append(u.txs, t)
		u.byRef[t.ref] = t
		u.ops = append(u.ops, vJSON(map[string]interface{}{"op": "tx", "i": idx, "parse": false, "ref": r16(t.ref), "sz": len(t.data)}))
		return idx
	}
	payload := s.payload
	if payload == nil {
		payload = []byte(fmt.Sprintf("payload-%06d", idx))
		if s.pal != nil {
			payload = []byte(fmt.Sprintf("CANARY-private-payload-%06d-%x", idx, hash.SHA256Sum([]byte{byte(idx), byte(idx >> 8)}).Slice()[:6]))
		}
	}
	t.payload = payload
	t.ph = hash.SHA256Sum(payload)
	pid := fmt.Sprintf("p%d", idx)
	if known, ok := u.payID[t.ph]; ok {
		pid = known
	}
	u.addPayload(pid, payload)
	if s.pal != nil {
		u.canaries[idx] = payload
	}
	var prevs []hash.SHA256Hash
	clock := uint32(0)
	for _, p := range s.prevs {
		prevs = append(prevs, u.txs[p].ref)
		if u.txs[p].clock+1 > clock {
			clock = u.txs[p].clock + 1
		}
	}
	prevs = append(prevs, s.extraPrev...)
	if s.clock >= 0 {
		clock = uint32(s.clock)
	}
	var epal [][]byte
	if s.pal != nil {
		for _, c := range s.pal.ciphers {
			epal = append(epal, u.ciphers[c].bytes)
		}
	}
	unsigned, err := dag.NewTransaction(t.ph, "application/did+json", prevs, epal, clock)
	if err != nil {
		panic(err)
	}
	var signed dag.Transaction
	vWithRand(0x42, func() {
		signed, err = dag.NewTransactionSigner(nutsCrypto.MemoryJWTSigner{Key: u.signKey}, "verif-key", u.signPub).Sign(audit.TestContext(), unsigned, vSignTime)
	})
	if err != nil {
		panic(err)
	}
	t.data = signed.Data()
	if s.badSig {
		// flip one character of the signature part: still parses, no longer verifies
		d := append([]byte{}, t.data...)
		i := len(d) - 5
		if d[i] == 'A' {
			d[i] = 'B'
		} else {
			d[i] = 'A'
		}
		t.data = d
	}
	parsed, err := dag.ParseTransaction(t.data)
	if err != nil {
		panic(fmt.Sprintf("universe tx %d does not parse: %v", idx, err))
	}
	t.tx = parsed
	t.ref = parsed.Ref()
	t.clock = parsed.Clock()
	t.prevs = parsed.Previous()
	u.txs = append(u.txs, t)
	u.byRef[t.ref] = t
	pr := make([]string, len(t.prevs))
	for i, p := range t.prevs {
		pr[i] = r16(p)
	}
	var pal []int
	if s.pal != nil {
		pal = s.pal.ciphers
	}
	if pal == nil {
		pal = []int{}
	}
	u.ops = append(u.ops, vJSON(map[string]interface{}{"op": "tx", "i": idx, "parse": true, "ref": r16(t.ref), "lc": t.clock, "prevs": pr,
		"pal": pal, "ph": r16(t.ph), "sig": t.sigOK, "sz": len(t.data), "pl": pid}))
	return idx
}

func vJSON(v interface{}) string {
	b, err := json.Marshal(v)
	if err != nil {
		panic(err)
	}
	return string(b)
}

// ---------------------------------------------------------------------------------------------
// nodes, connections

type vConn struct {
	grpc.Connection // nil: the unexported methods are never called by the protocol
	sim             *vSim
	owner           int
	peerID          int
	peer            transport.Peer
	connected       bool
}

func (c *vConn) Send(_ grpc.Protocol, envelope interface{}, _ bool) error {
	return c.sim.send(c.owner, c.peerID, envelope.(*Envelope))
}
func (c *vConn) Peer() transport.Peer  { return c.peer }
func (c *vConn) IsConnected() bool     { return c.connected }
func (c *vConn) IsAuthenticated() bool { return c.peer.Authenticated }

type vConnList struct{ conns []*vConn }

func (l *vConnList) Get(query ...grpc.Predicate) grpc.Connection {
	if len(query) == 0 {
		return nil
	}
	for _, c := range l.conns {
		ok := true
		for _, q := range query {
			if !q.Match(c) {
				ok = false
				break
			}
		}
		if ok {
			return c
		}
	}
	return nil
}
func (l *vConnList) All() []grpc.Connection {
	var r []grpc.Connection
	for _, c := range l.conns {
		r = append(r, c)
	}
	return r
}
func (l *vConnList) AllMatching(query ...grpc.Predicate) []grpc.Connection {
	var r []grpc.Connection
outer:
	for _, c := range l.conns {
		for _, q := range query {
			if !q.Match(c) {
				continue outer
			}
		}
		r = append(r, c)
	}
	return r
}

type vResolver struct {
	doc *did.Document
	err error
}

func (r vResolver) Resolve(_ did.DID, _ *resolver.ResolveMetadata) (*did.Document, *resolver.DocumentMetadata, error) {
	if r.err != nil {
		return nil, nil, r.err
	}
	return r.doc, &resolver.DocumentMetadata{}, nil
}

type vDecrypter struct{ keys map[string]*ecdsa.PrivateKey }

func (d vDecrypter) Decrypt(_ context.Context, kid string, ciphertext []byte) ([]byte, error) {
	k, ok := d.keys[kid]
	if !ok {
		return nil, nutsCrypto.ErrPrivateKeyNotFound
	}
	return nutsCrypto.EciesDecrypt(k, ciphertext)
}

// vStateWrap hands the protocol the real dag.State but wraps the receiver the protocol registers for the
// "private" notifier: attempts made on a notifier retry goroutine (dag/notifier.go `retry`: retry-go calls the
// function immediately, then sleeps) are parked and run by the simulator at the end of the current step, in a
// deterministic order, on the simulator goroutine.
type vStateWrap struct {
	dag.State
	n *vNode
	s *vSim
}

// vFaultStore: a transient "database busy" fault. While armed, the Write of the next State.Add of a RECEIVED transaction
// fails the way go-stoabs' bbolt store does when the write lock can not be obtained in time: before a transaction exists,
// so neither the function nor the OnRollback / AfterCommit hooks run
type vFaultAt struct {
	node int
	mode string // "busy" | "cancel"
}

type vFaultStore struct {
	stoabs.KVStore
	armed       int    // the next Write inside Add fails before a transaction exists
	cancelArmed int    // the context of the next Add is cancelled while its write transaction runs (rollback at commit)
	cancel      func() // cancels the context of the Add that is running
	inAdd       bool
	fired       int
	kind        string
}

func (f *vFaultStore) Write(ctx context.Context, fn func(stoabs.WriteTx) error, opts ...stoabs.TxOption) error {
	if f.armed > 0 && f.inAdd {
		f.armed--
		f.fired++
		f.kind = "busy"
		return fmt.Errorf("unable to obtain BBolt write lock: %w", context.DeadlineExceeded)
	}
	if f.cancelArmed > 0 && f.inAdd {
		return f.KVStore.Write(ctx, func(tx stoabs.WriteTx) error {
			err := fn(tx)
			if err == nil {
				// the caller goes away (request context cancelled / expired) while the transaction is being written
				f.cancelArmed--
				f.fired++
				f.kind = "cancel"
				f.cancel()
			}
			return err
		}, opts...)
	}
	return f.KVStore.Write(ctx, fn, opts...)
}

func (w *vStateWrap) Add(ctx context.Context, tx dag.Transaction, payload []byte) error {
	f := w.n.fstore
	before := f.fired
	cctx, cancel := context.WithCancel(ctx)
	defer cancel()
	f.inAdd, f.cancel = true, cancel
	err := w.State.Add(cctx, tx, payload)
	f.inAdd = false
	if f.fired != before {
		if t := w.s.u.byRef[tx.Ref()]; t != nil {
			idx := t.idx
			w.s.faultTx, w.s.faultKind = &idx, f.kind
		}
	}
	return err
}

type vAsyncReq struct {
	n    *vNode
	ev   dag.Event
	orig dag.ReceiverFn
	done chan vAsyncRes
}

type vAsyncRes struct {
	finished bool
	err      error
}

func vGoID() string {
	b := make([]byte, 64)
	b = b[:runtime.Stack(b, false)]
	return strings.Fields(string(b))[1]
}

func (w *vStateWrap) Notifier(name string, receiver dag.ReceiverFn, options ...dag.NotifierOption) (dag.Notifier, error) {
	if name == "private" {
		orig := receiver
		receiver = func(ev dag.Event) (bool, error) {
			if vGoID() == w.s.goid {
				fin, err := orig(ev)
				if !fin && !errors.As(err, new(dag.EventFatal)) {
					w.s.expectAsync++ // Notify() will start one retry goroutine whose first attempt is immediate
				}
				return fin, err
			}
			req := vAsyncReq{n: w.n, ev: ev, orig: orig, done: make(chan vAsyncRes, 1)}
			w.s.asyncCh <- req
			res := <-req.done
			return res.finished, res.err
		}
	}
	return w.State.Notifier(name, receiver, options...)
}

// drainAsync runs the parked immediate re-attempts (exactly one per unfinished synchronous attempt)
func (s *vSim) drainAsync() {
	var reqs []vAsyncReq
	for s.expectAsync > 0 {
		reqs = append(reqs, <-s.asyncCh)
		s.expectAsync--
	}
	sort.Slice(reqs, func(i, j int) bool {
		if reqs[i].n.id != reqs[j].n.id {
			return reqs[i].n.id < reqs[j].n.id
		}
		return reqs[i].ev.Hash.Compare(reqs[j].ev.Hash) < 0
	})
	for _, r := range reqs {
		fin, err := r.orig(r.ev)
		r.done <- vAsyncRes{fin, err}
	}
}

type vKak struct {
	Kid  string `json:"kid"`
	Held bool   `json:"held"`
}

type vNodeCfg struct {
	Did        string   `json:"did"`
	Resolvable bool     `json:"resolvable"`
	Kaks       []vKak   `json:"kaks"`
	Dag        [][2]int `json:"dag"`       // universe index ranges [lo,hi), added in this order
	Priv       []int    `json:"priv"`      // private transactions whose payload this node holds
	NoPayload  []int    `json:"nopayload"` // public transactions stored without payload
}

type vConnCfg struct {
	At     int    `json:"at"`
	Peer   int    `json:"peer"`
	Auth   bool   `json:"auth"`
	Did    string `json:"did"`
	PeerID string `json:"peerid,omitempty"` // self-asserted (unverified) peer ID announced on this connection; default node<peer>
}

type vScenario struct {
	Name     string     `json:"name"`
	MaxMsg   int        `json:"maxmsg"`
	Validity int        `json:"validity"`
	Nodes    []vNodeCfg `json:"nodes"`
	Conns    []vConnCfg `json:"conns"`
}

type vNode struct {
	dir    string
	id     int
	cfg    vNodeCfg
	p      *protocol
	st     dag.State
	store  stoabs.KVStore
	fstore *vFaultStore
	ticker map[string]bool // gossip queue objects (of the current manager) whose ticker goroutine is alive
	conns  map[int]*vConn
	list   *vConnList
	added  map[hash.SHA256Hash]bool
	addSeq []hash.SHA256Hash
}

const vTickUnit = 1000 * time.Hour

func (n *vNode) xorLC() (hash.SHA256Hash, uint32) { return n.st.XOR(dag.MaxLamportClock) }

func (n *vNode) stLine() string {
	x, lc := n.xorLC()
	return fmt.Sprintf("st=%s,%d,%d", r16(x), lc, len(n.added))
}

func (s *vSim) newNode(id int, cfg vNodeCfg, dir string) *vNode {
	n := &vNode{id: id, cfg: cfg, dir: dir, conns: map[int]*vConn{}, list: &vConnList{}, added: map[hash.SHA256Hash]bool{}}
	s.open(n)
	return n
}

// open (re)opens the node's bbolt file and builds state + protocol on it, as a process start does: NewState, Configure
// (loads the clock and the XOR/IBLT trees from disk), protocol New + Configure
func (s *vSim) open(n *vNode) {
	id, cfg, dir := n.id, n.cfg, n.dir
	n.ticker = nil // a new process: new gossip manager, no ticker goroutines yet
	path := filepath.Join(dir, fmt.Sprintf("node%d.db", id))
	inner, err := bbolt.CreateBBoltStore(path, stoabs.WithNoSync())
	if err != nil {
		panic(err)
	}
	// the state works on the fault-injecting wrapper; the persistent notifiers are given the store itself (they insist on
	// being handed transactions of the very store object they were created with)
	n.fstore = &vFaultStore{KVStore: inner}
	var store stoabs.KVStore = inner
	st, err := dag.NewState(n.fstore, dag.NewPrevTransactionsVerifier(), dag.NewTransactionSignatureVerifier(nil))
	if err != nil {
		panic(err)
	}
	if err := st.Configure(core.ServerConfig{}); err != nil {
		panic(err)
	}
	n.st, n.store = st, store
	_, err = st.Notifier("verif", func(ev dag.Event) (bool, error) {
		if !n.added[ev.Hash] {
			n.added[ev.Hash] = true
			n.addSeq = append(n.addSeq, ev.Hash)
		}
		return true, nil
	}, dag.WithSelectionFilter(func(ev dag.Event) bool { return ev.Type == dag.TransactionEventType }))
	if err != nil {
		panic(err)
	}
	nodeDID := did.DID{}
	if cfg.Did != "" {
		nodeDID = did.MustParseDID(cfg.Did)
	}
	var res vResolver
	if !cfg.Resolvable {
		res.err = resolver.ErrNotFound
	} else {
		doc := &did.Document{ID: nodeDID}
		for _, k := range cfg.Kaks {
			doc.KeyAgreement = append(doc.KeyAgreement, did.VerificationRelationship{VerificationMethod: &did.VerificationMethod{ID: did.MustParseDIDURL(k.Kid)}})
		}
		res.doc = doc
	}
	dec := vDecrypter{keys: map[string]*ecdsa.PrivateKey{}}
	for _, k := range cfg.Kaks {
		if k.Held {
			dec.keys[k.Kid] = s.u.kakKeys[k.Kid]
		}
	}
	pcfg := Config{Datadir: dir, PayloadRetryDelay: vTickUnit, GossipInterval: 1000000000, DiagnosticsInterval: 0}
	p := New(pcfg, nodeDID, &vStateWrap{State: st, n: n, s: s}, res, dec, nil, store).(*protocol)
	if err := p.Configure(transport.PeerID(fmt.Sprintf("node%d", id))); err != nil {
		panic(err)
	}
	p.cMan = newConversationManager(time.Duration(s.sc.Validity) * vTickUnit)
	p.routines = new(sync.WaitGroup)
	p.connectionList = n.list
	n.p = p
}

// restart: stop the process (volatile state is lost), start it again on the same database, re-establish the connections
func (s *vSim) restart(n *vNode) string {
	n.close()
	s.open(n)
	for _, cc := range s.sc.Conns {
		if cc.At == n.id {
			if c := n.conns[cc.Peer]; c != nil && c.connected {
				s.peerEvent(n, c.peer, transport.StateConnected)
			}
		}
	}
	// the digests loaded from disk must be those of the stored set
	x := hash.EmptyHash()
	var lc uint32
	for r := range n.added {
		x = x.Xor(r)
		if t := s.u.byRef[r]; t != nil && t.clock > lc {
			lc = t.clock
		}
	}
	gx, glc := n.xorLC()
	tag := ""
	if !gx.Equals(x) || glc != lc {
		tag = " !digest-differs-from-stored-set"
	}
	return "restart " + n.stLine() + tag
}

func (n *vNode) close() {
	n.p.Stop()
	_ = n.st.Shutdown()
	_ = n.store.Close(context.Background())
}

// ---------------------------------------------------------------------------------------------
// simulator

type vPacket struct {
	id      int
	src     int
	dst     int
	wire    []byte
	kind    string
	canon   string
	ibltSet map[hash.SHA256Hash]bool // for TransactionSet: the refs the sender's IBLT was built from
	env     *Envelope                // the POINTER handed to Send: the real connection only queues it, marshalling happens later
	changed bool
}

type vLeak struct {
	Scenario string   `json:"scenario"`
	Msg      int      `json:"msg"`
	Kind     string   `json:"kind"`
	Src      int      `json:"src"`
	Dst      int      `json:"dst"`
	Tx       int      `json:"tx"`
	PeerAuth bool     `json:"peer_auth"`
	PeerDid  string   `json:"peer_did"`
	SrcDid   string   `json:"src_did"`
	Pal      []string `json:"pal"`
	Allowed  bool     `json:"allowed"`
	RefTx    int      `json:"ref_tx"` // for TransactionPayload messages: the transaction the reply is for (-1 unknown)
	RefPal   []string `json:"ref_pal"`
	When     string   `json:"when"` // "send" = bytes at Send time; otherwise the bytes the queued message marshals to LATER
}

type vSim struct {
	t           *testing.T
	u           *vUniverse
	sc          vScenario
	nodes       []*vNode
	sent        []*vPacket
	pending     []int
	cidName     map[string][2]int
	cidReal     map[[2]int]string
	cidNext     map[int]int
	rnd         *rand.Rand
	out         *vOut
	curSent     []*vPacket // packets sent during the current op
	leaks       []vLeak
	dc          map[string]*[3]int       // bucket -> [attempts, success, exact-when-success]
	injected    map[hash.SHA256Hash]bool // refs of invalid transactions shown to any node
	deliveries  int
	restartAt   map[int]int        // fair-suffix round -> node to restart before it
	faultAt     map[int][]vFaultAt // fair-suffix round -> faults armed before it
	faults      int                // "database busy" faults armed in this scenario (switches the per-step watchdog on)
	faultTx     *int               // the transaction whose Add hit the fault in the current step
	faultKind   string
	scFirst     int      // index of the scenario op
	changed     []string // queued messages whose bytes changed between Send and the moment the stream writes them
	oversize    []string // messages the real senders produced that exceed the gRPC message size limit
	goid        string
	asyncCh     chan vAsyncReq
	expectAsync int
}

type vOut struct {
	ops    *os.File
	impl   *os.File
	oracle *os.File
	nOps   int
}

func (o *vOut) emit(op string, line string) {
	fmt.Fprintln(o.ops, op)
	fmt.Fprintln(o.impl, line)
	o.nOps++
}

func (s *vSim) cidCanon(owner int, cid []byte) string {
	k := string(cid)
	if c, ok := s.cidName[k]; ok {
		return fmt.Sprintf("c%d.%d", c[0], c[1])
	}
	c := [2]int{owner, s.cidNext[owner]}
	s.cidNext[owner]++
	s.cidName[k] = c
	s.cidReal[c] = k
	return fmt.Sprintf("c%d.%d", c[0], c[1])
}

func (s *vSim) cidKnown(cid []byte) string {
	if c, ok := s.cidName[string(cid)]; ok {
		return fmt.Sprintf("c%d.%d", c[0], c[1])
	}
	return "c?"
}

func vRefs(bs [][]byte) []hash.SHA256Hash {
	r := make([]hash.SHA256Hash, len(bs))
	for i, b := range bs {
		r[i] = hash.FromSlice(b)
	}
	return r
}

// canonical rendering of an envelope sent by node src
func (s *vSim) canon(src int, env *Envelope) (kind, text string) {
	switch m := env.Message.(type) {
	case *Envelope_Gossip:
		return "gossip", fmt.Sprintf("gossip(x=%s,lc=%d,refs=%s)", r16(hash.FromSlice(m.Gossip.XOR)), m.Gossip.LC, vDigest(vRefs(m.Gossip.Transactions)))
	case *Envelope_State:
		return "state", fmt.Sprintf("state(%s,x=%s,lc=%d)", s.cidCanon(src, m.State.ConversationID), r16(hash.FromSlice(m.State.XOR)), m.State.LC)
	case *Envelope_TransactionSet:
		return "set", fmt.Sprintf("set(%s,req=%d,lc=%d,iblt=%s)", s.cidKnown(m.TransactionSet.ConversationID), m.TransactionSet.LCReq, m.TransactionSet.LC, "%IBLT%")
	case *Envelope_TransactionListQuery:
		return "lq", fmt.Sprintf("lq(%s,refs=%s)", s.cidCanon(src, m.TransactionListQuery.ConversationID), vDigest(vRefs(m.TransactionListQuery.Refs)))
	case *Envelope_TransactionRangeQuery:
		return "rq", fmt.Sprintf("rq(%s,%d,%d)", s.cidCanon(src, m.TransactionRangeQuery.ConversationID), m.TransactionRangeQuery.Start, m.TransactionRangeQuery.End)
	case *Envelope_TransactionList:
		var refs []hash.SHA256Hash
		npl, sz := 0, 0
		for _, t := range m.TransactionList.Transactions {
			refs = append(refs, hash.SHA256Sum(t.Data))
			if len(t.Payload) > 0 {
				npl++
			}
			sz += len(t.Data) + len(t.Payload)
		}
		return "tl", fmt.Sprintf("tl(%s,%d/%d,%s,pl=%d,sz=%d)", s.cidKnown(m.TransactionList.ConversationID), m.TransactionList.MessageNumber, m.TransactionList.TotalMessages, vDigest(refs), npl, sz)
	case *Envelope_TransactionPayloadQuery:
		return "pq", fmt.Sprintf("pq(%s)", r16(hash.FromSlice(m.TransactionPayloadQuery.TransactionRef)))
	case *Envelope_TransactionPayload:
		return "pl", fmt.Sprintf("pl(%s,%s)", r16(hash.FromSlice(m.TransactionPayload.TransactionRef)), s.u.payloadName(m.TransactionPayload.Data))
	case *Envelope_DiagnosticsBroadcast:
		return "diag", "diag"
	}
	return "other", "other"
}

// refs of node n on pages <= page(lc)
func (n *vNode) pageSet(lc uint32, u *vUniverse) map[hash.SHA256Hash]bool {
	r := map[hash.SHA256Hash]bool{}
	pg := lc / dag.PageSize
	for ref := range n.added {
		if t := u.byRef[ref]; t != nil && t.clock/dag.PageSize <= pg {
			r[ref] = true
		}
	}
	return r
}

func vSetDigest(m map[hash.SHA256Hash]bool) string {
	x := hash.EmptyHash()
	for r := range m {
		x = x.Xor(r)
	}
	return fmt.Sprintf("#%d:%s", len(m), r16(x))
}

func (s *vSim) send(src, dst int, env *Envelope) error {
	wire, err := proto.Marshal(env)
	if err != nil {
		panic(err)
	}
	// what gRPC does with the limit the real client/server are configured with (MaxSendMsgSize / MaxRecvMsgSize =
	// grpc.MaxMessageSizeInBytes): an oversized message is refused, the sender gets an error (and the stream is reset)
	if len(wire) > grpc.MaxMessageSizeInBytes {
		k, _ := s.canon(src, env)
		s.oversize = append(s.oversize, fmt.Sprintf("%s:%d>%d:%d-bytes(limit %d)", k, src, dst, len(wire), grpc.MaxMessageSizeInBytes))
		return fmt.Errorf("trying to send message larger than max (%d vs. %d)", len(wire), grpc.MaxMessageSizeInBytes)
	}
	kind, text := s.canon(src, env)
	pk := &vPacket{id: len(s.sent), src: src, dst: dst, wire: wire, kind: kind}
	if kind == "set" {
		// tie the IBLT bytes to the set they claim to digest: rebuild from the sender's refs
		m := env.GetTransactionSet()
		set := s.nodes[src].pageSet(m.LCReq, s.u)
		fresh := tree.NewIblt(dag.IbltNumBuckets)
		for r := range set {
			fresh.Insert(r)
		}
		fb, _ := fresh.MarshalBinary()
		d := vSetDigest(set)
		if !bytes.Equal(fb, m.IBLT) {
			d = "MISMATCH-" + d
		}
		pk.ibltSet = set
		text = strings.Replace(text, "%IBLT%", d, 1)
	}
	pk.canon = fmt.Sprintf("m%d:%d>%d:%s", pk.id, src, dst, text)
	pk.env = env
	s.scanLeaks(pk, wire, "send")
	s.sent = append(s.sent, pk)
	s.pending = append(s.pending, pk.id)
	s.curSent = append(s.curSent, pk)
	return nil
}

// C15 oracle: scan the wire bytes of EVERY envelope for private payload bytes
func (s *vSim) scanLeaks(pk *vPacket, wire []byte, when string) {
	src, dst, kind, env := pk.src, pk.dst, pk.kind, pk.env
	for idx, canary := range s.u.canaries {
		if bytes.Contains(wire, canary) {
			c := s.nodes[src].conns[dst]
			t := s.u.txs[idx]
			pal := s.decryptedBy(src, t)
			onList := func(d string) bool {
				for _, x := range pal {
					if x == d && d != "" {
						return true
					}
				}
				return false
			}
			allowed := kind == "pl" && c.peer.Authenticated && onList(c.peer.NodeDID.String()) && onList(s.nodes[src].cfg.Did)
			refTx := -1
			var refPal []string
			if m := env.GetTransactionPayload(); m != nil {
				if rt := s.u.byRef[hash.FromSlice(m.TransactionRef)]; rt != nil {
					refTx = rt.idx
					if rt.pal != nil {
						refPal = s.decryptedBy(src, rt)
					}
				}
			}
			s.leaks = append(s.leaks, vLeak{Scenario: s.sc.Name, Msg: pk.id, Kind: kind, Src: src, Dst: dst, Tx: idx, PeerAuth: c.peer.Authenticated,
				PeerDid: c.peer.NodeDID.String(), SrcDid: s.nodes[src].cfg.Did, Pal: pal, Allowed: allowed, RefTx: refTx, RefPal: refPal, When: when})
		}
	}
}

// the participant list as the SENDING node decrypts it from the header (what the property speaks about). For headers whose
// entries all carry the same list this is the transaction's list; headers that mix copied entries of other transactions
// with own entries decrypt to different lists at different nodes
func (s *vSim) decryptedBy(node int, t *vTx) []string {
	if !t.pal.mixed {
		return t.pal.dids
	}
	cfg := s.nodes[node].cfg
	if cfg.Did == "" || !cfg.Resolvable {
		return nil
	}
	for _, cid := range t.pal.ciphers {
		for _, k := range cfg.Kaks {
			if !k.Held {
				return nil
			}
			if c := s.u.ciphers[cid]; c.kid == k.Kid && c.kid != "" {
				return c.plain
			}
		}
	}
	return nil
}

// what the sender goroutine of the real connection does LATER with the queued pointer: marshal it. The bytes must be the
// bytes the message had when the handler called Send
func (s *vSim) lateMarshal(pk *vPacket, when string) []byte {
	late, err := proto.Marshal(pk.env)
	if err != nil {
		panic(err)
	}
	if !bytes.Equal(late, pk.wire) {
		if !pk.changed {
			pk.changed = true
			_, now := s.canon(pk.src, pk.env)
			s.changed = append(s.changed, fmt.Sprintf("%s became %s (%s)", pk.canon, now, when))
		}
		s.scanLeaks(pk, late, when)
	}
	return late
}

func (s *vSim) sentLine() string {
	parts := make([]string, len(s.curSent))
	for i, p := range s.curSent {
		parts[i] = p.canon
	}
	return "sent=[" + strings.Join(parts, " ") + "]"
}

func vClassify(err error) string {
	if err == nil {
		return "ok"
	}
	m := err.Error()
	switch {
	case strings.Contains(m, "unable to obtain BBolt write lock"):
		return "err:db-busy"
	case errors.Is(err, context.Canceled):
		return "err:ctx-cancelled"
	case strings.Contains(m, "unknown or expired conversation"):
		return "err:unknown-conv"
	case errors.Is(err, errIncorrectEnvelopeType):
		return "err:wrong-type"
	case strings.Contains(m, "response contains non-requested transaction"):
		return "err:not-requested"
	case strings.Contains(m, "TX is not within the requested range"):
		return "err:out-of-range"
	case strings.Contains(m, "received transaction is invalid"):
		return "err:parse"
	case strings.Contains(m, "TransactionSet.LCReq is not equal"):
		return "err:lcreq"
	case strings.Contains(m, "invalid range query"):
		return "err:invalid-range"
	case strings.Contains(m, "peer did not provide payload"):
		return "err:no-payload"
	case errors.Is(err, dag.ErrPreviousTransactionMissing):
		return "prev-missing"
	case errors.Is(err, dag.ErrInvalidLamportClockValue):
		return "err:add-clock"
	case strings.Contains(m, "tx.PayloadHash does not match"):
		return "err:add-payload-hash"
	case strings.Contains(m, "root transaction already exists"):
		return "err:add-root"
	case strings.Contains(m, "transaction verification failed"):
		return "err:add-sig"
	case strings.Contains(m, "transaction is missing payload"):
		return "err:missing-payload"
	case strings.Contains(m, "invalid data length"), strings.Contains(m, "unmarshalling failed"), strings.Contains(m, "number of buckets do not match"), errors.Is(err, tree.ErrDecodeLoop):
		return "err:iblt"
	case strings.Contains(m, "msg is missing transaction reference"):
		return "err:empty-ref"
	case strings.Contains(m, "peer does not have transaction payload"):
		return "err:no-data"
	case strings.Contains(m, "non-existing transaction"):
		return "err:unknown-tx"
	case strings.Contains(m, "doesn't match payload hash"):
		return "err:hash-mismatch"
	case errors.Is(err, dag.ErrPayloadNotFound):
		return "err:payload-not-found"
	case errors.Is(err, errMessageNotSupported):
		return "err:not-supported"
	}
	return "err:other:" + strings.ReplaceAll(m, " ", "_")
}

// run the handler for env on node n as received from peer src, synchronously
func (s *vSim) handle(n *vNode, src int, env *Envelope) (ret string) {
	conn := n.conns[src]
	defer func() {
		if r := recover(); r != nil {
			if _, ok := env.Message.(*Envelope_TransactionPayload); ok && strings.Contains(fmt.Sprint(r), "nil pointer") {
				ret = "panic:privatePayloadReceiver-nil"
			} else {
				ret = "panic:other:" + strings.ReplaceAll(fmt.Sprint(r), " ", "_")
			}
		}
	}()
	ctx := n.p.ctx
	var err error
	switch env.Message.(type) {
	case *Envelope_Gossip:
		err = n.p.handleGossip(ctx, conn, env)
	case *Envelope_State:
		err = n.p.handleState(ctx, conn, env)
	case *Envelope_TransactionSet:
		err = n.p.handleTransactionSet(ctx, conn, env)
	case *Envelope_TransactionListQuery:
		err = n.p.handleTransactionListQuery(ctx, conn, env)
	case *Envelope_TransactionRangeQuery:
		err = n.p.handleTransactionRangeQuery(ctx, conn, env)
	case *Envelope_TransactionList:
		err = n.p.handleTransactionList(ctx, conn, env)
	case *Envelope_TransactionPayloadQuery:
		err = n.p.handleTransactionPayloadQuery(ctx, conn, env)
	case *Envelope_TransactionPayload:
		err = n.p.handleTransactionPayload(ctx, conn, env)
	case *Envelope_DiagnosticsBroadcast:
		err = nil
	default:
		err = errMessageNotSupported
	}
	return vClassify(err)
}

func vBucket(d int) string {
	switch {
	case d == 0:
		return "0"
	case d <= 1:
		return "1"
	case d <= 10:
		return "2-10"
	case d <= 100:
		return "11-100"
	case d <= 300:
		return "101-300"
	case d <= 500:
		return "301-500"
	case d <= 700:
		return "501-700"
	case d <= 1000:
		return "701-1000"
	}
	return ">1000"
}

// measure the IBLT decode contract on the real tree.Iblt: local set vs peer set
func (s *vSim) decodeOracle(n *vNode, lcReq, lc uint32, peerBytes []byte, peerSet map[hash.SHA256Hash]bool) (res string, missing []hash.SHA256Hash) {
	minLC := lcReq
	if lc < minLC {
		minLC = lc
	}
	peer := tree.NewIblt(dag.IbltNumBuckets)
	if err := peer.UnmarshalBinary(peerBytes); err != nil {
		return "err", nil
	}
	local, _ := n.st.IBLT(minLC)
	if err := local.Subtract(peer); err != nil {
		return "err", nil
	}
	_, missing, err := local.Decode()
	res = "ok"
	if err != nil {
		if errors.Is(err, tree.ErrDecodeNotPossible) {
			res = "fail"
		} else {
			res = "err"
		}
		missing = nil
	}
	if peerSet != nil && res != "err" {
		localSet := n.pageSet(minLC, s.u)
		trueMissing := map[hash.SHA256Hash]bool{}
		diff := 0
		for r := range peerSet {
			if !localSet[r] {
				trueMissing[r] = true
				diff++
			}
		}
		for r := range localSet {
			if !peerSet[r] {
				diff++
			}
		}
		b := s.dc[vBucket(diff)]
		if b == nil {
			b = &[3]int{}
			s.dc[vBucket(diff)] = b
		}
		b[0]++
		if res == "ok" {
			b[1]++
			exact := len(missing) == len(trueMissing)
			for _, r := range missing {
				if !trueMissing[r] {
					exact = false
				}
			}
			if exact {
				b[2]++
			}
		}
	}
	return res, missing
}

type vNetTx struct {
	I     int    `json:"i"`
	Pl    string `json:"pl,omitempty"`    // payload id, "" = none
	Empty bool   `json:"empty,omitempty"` // payload field PRESENT but empty (proto `optional bytes`: non-nil empty slice after unmarshal)
}

type vMsg struct {
	T        string   `json:"t"`
	C        *[2]int  `json:"c,omitempty"`
	XSet     [][2]int `json:"xset,omitempty"`
	LC       uint32   `json:"lc,omitempty"`
	LCReq    uint32   `json:"lcreq,omitempty"`
	Refs     []int    `json:"refs,omitempty"`
	ISet     [][2]int `json:"iset,omitempty"`
	IGarbage bool     `json:"igarbage,omitempty"`
	A        uint32   `json:"a,omitempty"`
	B        uint32   `json:"b,omitempty"`
	Num      uint32   `json:"num,omitempty"`
	Total    uint32   `json:"total,omitempty"`
	Txs      []vNetTx `json:"txs,omitempty"`
	Ref      int      `json:"ref"` // universe index, -1 = empty ref
	Data     string   `json:"data,omitempty"`
}

type vOp struct {
	Op      string     `json:"op"`
	Seed    int64      `json:"seed,omitempty"`
	Tier    string     `json:"tier,omitempty"`
	Kind    string     `json:"kind,omitempty"`
	Sc      *vScenario `json:"sc,omitempty"`
	N       int        `json:"n"`
	Peer    int        `json:"peer"`
	M       int        `json:"m"`
	From    int        `json:"from"`
	To      int        `json:"to"`
	Msg     *vMsg      `json:"msg,omitempty"`
	Dt      int        `json:"dt,omitempty"`
	Tx      int        `json:"tx"`
	Dec     string     `json:"dec,omitempty"`
	Missing []string   `json:"missing,omitempty"`
	Order   []string   `json:"order,omitempty"`
	Note    string     `json:"note,omitempty"`
	Case    string     `json:"case,omitempty"`
	Mode    string     `json:"mode,omitempty"`
	Fault   *int       `json:"fault,omitempty"` // observed: the Add of this transaction hit the armed fault (no effect, error returned)
	FaultK  string     `json:"faultkind,omitempty"`
	MaxMsg  int        `json:"maxmsg,omitempty"`
	Runs    [][3]int   `json:"runs,omitempty"`
}

func (s *vSim) rangesRefs(rs [][2]int) []hash.SHA256Hash {
	var r []hash.SHA256Hash
	for _, ab := range rs {
		for i := ab[0]; i < ab[1] && i < len(s.u.txs); i++ {
			r = append(r, s.u.txs[i].ref)
		}
	}
	return r
}

func (s *vSim) cidBytes(c *[2]int) []byte {
	if c == nil {
		return nil
	}
	if real, ok := s.cidReal[*c]; ok {
		return []byte(real)
	}
	f := fmt.Sprintf("forged-%d-%d", c[0], c[1])
	s.cidName[f] = *c
	return []byte(f)
}

func (s *vSim) buildMsg(m *vMsg) *Envelope {
	xor := func() []byte {
		x := hash.EmptyHash()
		for _, r := range s.rangesRefs(m.XSet) {
			x = x.Xor(r)
		}
		return x.Slice()
	}
	refBytes := func(idx []int) [][]byte {
		r := make([][]byte, len(idx))
		for i, k := range idx {
			r[i] = s.u.txs[k].ref.Slice()
		}
		return r
	}
	switch m.T {
	case "gossip":
		return &Envelope{Message: &Envelope_Gossip{Gossip: &Gossip{XOR: xor(), LC: m.LC, Transactions: refBytes(m.Refs)}}}
	case "state":
		return &Envelope{Message: &Envelope_State{State: &State{ConversationID: s.cidBytes(m.C), XOR: xor(), LC: m.LC}}}
	case "set":
		var ib []byte
		if m.IGarbage {
			ib = []byte("this is not an iblt")
		} else {
			t := tree.NewIblt(dag.IbltNumBuckets)
			for _, r := range s.rangesRefs(m.ISet) {
				t.Insert(r)
			}
			ib, _ = t.MarshalBinary()
		}
		return &Envelope{Message: &Envelope_TransactionSet{TransactionSet: &TransactionSet{ConversationID: s.cidBytes(m.C), LCReq: m.LCReq, LC: m.LC, IBLT: ib}}}
	case "lq":
		return &Envelope{Message: &Envelope_TransactionListQuery{TransactionListQuery: &TransactionListQuery{ConversationID: s.cidBytes(m.C), Refs: refBytes(m.Refs)}}}
	case "rq":
		return &Envelope{Message: &Envelope_TransactionRangeQuery{TransactionRangeQuery: &TransactionRangeQuery{ConversationID: s.cidBytes(m.C), Start: m.A, End: m.B}}}
	case "tl":
		var txs []*Transaction
		for _, t := range m.Txs {
			nt := &Transaction{Data: s.u.txs[t.I].data}
			if t.Pl != "" {
				nt.Payload = s.u.payloads[t.Pl]
			} else if t.Empty {
				nt.Payload = []byte{}
			}
			txs = append(txs, nt)
		}
		return &Envelope{Message: &Envelope_TransactionList{TransactionList: &TransactionList{ConversationID: s.cidBytes(m.C), Transactions: txs, MessageNumber: m.Num, TotalMessages: m.Total}}}
	case "pq":
		var ref []byte
		if m.Ref >= 0 {
			ref = s.u.txs[m.Ref].ref.Slice()
		}
		return &Envelope{Message: &Envelope_TransactionPayloadQuery{TransactionPayloadQuery: &TransactionPayloadQuery{TransactionRef: ref}}}
	case "pl":
		var ref []byte
		if m.Ref >= 0 {
			ref = s.u.txs[m.Ref].ref.Slice()
		}
		var data []byte
		if m.Data != "" {
			data = s.u.payloads[m.Data]
		}
		return &Envelope{Message: &Envelope_TransactionPayload{TransactionPayload: &TransactionPayload{TransactionRef: ref, Data: data}}}
	case "diag":
		return &Envelope{Message: &Envelope_DiagnosticsBroadcast{DiagnosticsBroadcast: &Diagnostics{}}}
	}
	return &Envelope{}
}

func (s *vSim) noteInvalid(env *Envelope) {
	if tl := env.GetTransactionList(); tl != nil {
		for _, t := range tl.Transactions {
			ref := hash.SHA256Sum(t.Data)
			if ut := s.u.byRef[ref]; ut == nil || !ut.sigOK || ut.tag == "invalid" {
				s.injected[ref] = true
			}
		}
	}
}

// receive: common part of deliver and inject; fills op.Dec / op.Missing / op.Order
func (s *vSim) receive(op *vOp, src, dst int, wire []byte, peerSet map[hash.SHA256Hash]bool) string {
	n := s.nodes[dst]
	if n.conns[src] == nil {
		return "no-connection"
	}
	env := &Envelope{}
	if err := proto.Unmarshal(wire, env); err != nil {
		panic(err)
	}
	s.noteInvalid(env)
	if ts := env.GetTransactionSet(); ts != nil {
		res, missing := s.decodeOracle(n, ts.LCReq, ts.LC, ts.IBLT, peerSet)
		op.Dec = res
		op.Missing = []string{}
		for _, r := range missing {
			op.Missing = append(op.Missing, r16(r))
		}
	}
	ret := s.handle(n, src, env)
	s.drainAsync()
	s.deliveries++
	if env.GetTransactionListQuery() != nil {
		op.Order = []string{}
		for _, pk := range s.curSent {
			if pk.kind == "tl" {
				e := &Envelope{}
				_ = proto.Unmarshal(pk.wire, e)
				for _, t := range e.GetTransactionList().Transactions {
					op.Order = append(op.Order, r16(hash.SHA256Sum(t.Data)))
				}
			}
		}
	}
	return fmt.Sprintf("ret=%s %s %s", ret, s.sentLine(), n.stLine())
}

// a step that does not finish: a handler (or the transaction creation) is blocked for ever. Reported with the prefix as
// replay; the process can not go on (the simulator goroutine is the one that is blocked)
const vHangTimeout = 30 * time.Second

func (s *vSim) reportHang(op *vOp) {
	s.out.emit(vJSON(op), "HANG step does not return")
	fmt.Fprintln(s.out.oracle, vJSON(map[string]interface{}{"kind": "hang", "scenario": s.sc.Name, "first_op": s.scFirst, "last_op": s.out.nOps - 1,
		"what": fmt.Sprintf("step %s does not return within %s: the handler is blocked", vJSON(op), vHangTimeout)}))
	s.out.close()
	os.Exit(0)
}

// peerEvent runs the protocol's connection state callback (-> real gossip manager PeerConnected / PeerDisconnected) and keeps
// track of which queue objects have a LIVE ticker goroutine: PeerConnected starts one exactly when it creates a queue object,
// PeerDisconnected stops the one of the object it finds under the peer's key - whether or not it then removes the object
func (s *vSim) peerEvent(n *vNode, peer transport.Peer, state transport.StreamState) {
	before := gossip.VerifEntry(n.p.gManager, peer)
	n.p.connectionStateCallback(peer, state, n.p)
	after := gossip.VerifEntry(n.p.gManager, peer)
	if n.ticker == nil {
		n.ticker = map[string]bool{}
	}
	switch state {
	case transport.StateConnected:
		if after != "" && after != before {
			n.ticker[after] = true
		}
	case transport.StateDisconnected:
		if before != "" {
			delete(n.ticker, before)
		}
	}
}

// the peer has a gossip queue whose ticker goroutine is running
func (s *vSim) tickerLive(n *vNode, peer transport.Peer) bool {
	e := gossip.VerifEntry(n.p.gManager, peer)
	return e != "" && n.ticker[e]
}

func (s *vSim) exec(op *vOp) {
	if s.faults > 0 {
		wd := time.AfterFunc(vHangTimeout, func() { s.reportHang(op) })
		defer wd.Stop()
	}
	s.curSent = nil
	s.faultTx, s.faultKind = nil, ""
	op.Fault, op.FaultK = nil, ""
	line := ""
	switch op.Op {
	case "fault":
		s.faults++
		if op.Mode == "cancel" {
			s.nodes[op.N].fstore.cancelArmed = 1
		} else {
			s.nodes[op.N].fstore.armed = 1
		}
		line = "fault armed"
	case "tick":
		n := s.nodes[op.N]
		c := n.conns[op.Peer]
		if c == nil || !s.tickerLive(n, c.peer) || !gossip.VerifTick(n.p.gManager, c.peer) {
			line = "no-queue"
		} else {
			line = s.sentLine() + " " + n.stLine()
		}
		if c != nil {
			if q, _, _, _, ok := gossip.VerifQueue(n.p.gManager, c.peer); ok && s.tickerLive(n, c.peer) {
				line += fmt.Sprintf(" q=%d", len(q))
			}
		}
	case "deliver":
		if op.M < 0 || op.M >= len(s.sent) {
			line = "no-message"
			break
		}
		pk := s.sent[op.M]
		for i, id := range s.pending {
			if id == op.M {
				s.pending = append(s.pending[:i:i], s.pending[i+1:]...)
				break
			}
		}
		line = s.receive(op, pk.src, pk.dst, s.lateMarshal(pk, "written-to-stream-later"), pk.ibltSet)
	case "inject":
		env := s.buildMsg(op.Msg)
		wire, err := proto.Marshal(env)
		if err != nil {
			panic(err)
		}
		line = s.receive(op, op.From, op.To, wire, nil)
	case "advance":
		n := s.nodes[op.N]
		n.p.cMan.mutex.Lock()
		for _, c := range n.p.cMan.conversations {
			c.expiry = c.expiry.Add(-time.Duration(op.Dt) * vTickUnit)
		}
		n.p.cMan.mutex.Unlock()
		line = fmt.Sprintf("convs=%d", len(n.p.cMan.conversations))
	case "evict":
		n := s.nodes[op.N]
		n.p.cMan.evict()
		line = fmt.Sprintf("convs=%d", len(n.p.cMan.conversations))
	case "create":
		n := s.nodes[op.N]
		t := s.u.txs[op.Tx]
		var err error
		if t.tx == nil {
			err = errors.New("received transaction is invalid")
		} else {
			err = n.st.Add(context.Background(), t.tx, t.payload)
		}
		s.drainAsync()
		line = fmt.Sprintf("ret=%s %s %s", vClassify(err), s.sentLine(), n.stLine())
	case "conn":
		// down/up: the connection object flips (the state callback has not run yet); disconnect/connect: the callback runs
		n := s.nodes[op.N]
		c := n.conns[op.Peer]
		if c == nil {
			line = "no-connection"
			break
		}
		switch op.Mode {
		case "down":
			c.connected = false
		case "up":
			c.connected = true
		case "disconnect":
			c.connected = false
			s.peerEvent(n, c.peer, transport.StateDisconnected)
		case "connect":
			c.connected = true
			s.peerEvent(n, c.peer, transport.StateConnected)
		}
		line = fmt.Sprintf("conn connected=%v queue=%v", c.connected, s.tickerLive(n, c.peer))
	case "restart":
		line = s.restart(s.nodes[op.N])
	case "observe":
		line = s.observe()
	default:
		line = "bad-op:" + op.Op
	}
	op.Fault, op.FaultK = s.faultTx, s.faultKind
	s.out.emit(vJSON(op), line)
}

// full listing of every node from the real store, cross-checked against the incremental view
func (s *vSim) observe() string {
	var parts []string
	for _, n := range s.nodes {
		txs, err := n.st.FindBetweenLC(context.Background(), 0, dag.MaxLamportClock)
		if err != nil {
			panic(err)
		}
		set := map[hash.SHA256Hash]bool{}
		for _, t := range txs {
			set[t.Ref()] = true
		}
		x, lc := n.xorLC()
		tag := ""
		if len(set) != len(n.added) {
			tag = "!listing-differs-from-added"
		}
		npl := 0
		var priv []string
		for idx := range s.u.canaries {
			t := s.u.txs[idx]
			if set[t.ref] {
				if ok, _ := n.st.IsPayloadPresent(context.Background(), t.ph); ok {
					priv = append(priv, fmt.Sprint(idx))
				}
			}
		}
		sort.Strings(priv)
		_ = npl
		n.p.cMan.mutex.Lock()
		nc := len(n.p.cMan.conversations)
		n.p.cMan.mutex.Unlock()
		parts = append(parts, fmt.Sprintf("n%d=%s,x=%s,lc=%d,convs=%d,priv=[%s]%s", n.id, vSetDigest(set), r16(x), lc, nc, strings.Join(priv, ","), tag))
	}
	return "obs " + strings.Join(parts, " ")
}

func (s *vSim) startScenario(sc vScenario, dir string) {
	s.sc = sc
	s.nodes = nil
	s.sent = nil
	s.pending = nil
	s.cidName = map[string][2]int{}
	s.cidReal = map[[2]int]string{}
	s.cidNext = map[int]int{}
	s.injected = map[hash.SHA256Hash]bool{}
	s.curSent = nil
	s.restartAt = nil
	s.faultAt = nil
	s.faults = 0
	s.scFirst = s.out.nOps
	s.oversize = nil
	s.changed = nil
	s.deliveries = 0
	grpc.MaxMessageSizeInBytes = sc.MaxMsg
	_ = os.MkdirAll(dir, 0o755)
	initErrs := 0
	for i, nc := range sc.Nodes {
		n := s.newNode(i, nc, dir)
		s.nodes = append(s.nodes, n)
		priv := map[int]bool{}
		for _, k := range nc.Priv {
			priv[k] = true
		}
		nopl := map[int]bool{}
		for _, k := range nc.NoPayload {
			nopl[k] = true
		}
		for _, ab := range nc.Dag {
			for k := ab[0]; k < ab[1]; k++ {
				t := s.u.txs[k]
				var payload []byte
				if (t.pal == nil && !nopl[k]) || (t.pal != nil && priv[k]) {
					payload = t.payload
				}
				if t.tx == nil {
					initErrs++
					continue
				}
				if err := n.st.Add(context.Background(), t.tx, payload); err != nil {
					initErrs++
				}
			}
		}
		s.drainAsync()
	}
	for _, cc := range sc.Conns {
		n := s.nodes[cc.At]
		peer := transport.Peer{ID: transport.PeerID(fmt.Sprintf("node%d", cc.Peer)), Address: fmt.Sprintf("node%d:5555", cc.Peer), Authenticated: cc.Auth}
		if cc.PeerID != "" {
			peer.ID = transport.PeerID(cc.PeerID)
		}
		if cc.Did != "" {
			peer.NodeDID = did.MustParseDID(cc.Did)
		}
		c := &vConn{sim: s, owner: cc.At, peerID: cc.Peer, peer: peer, connected: true}
		n.conns[cc.Peer] = c
		n.list.conns = append(n.list.conns, c)
		s.peerEvent(n, peer, transport.StateConnected)
	}
	var parts []string
	for _, n := range s.nodes {
		parts = append(parts, fmt.Sprintf("n%d:%s", n.id, n.stLine()))
	}
	s.out.emit(vJSON(vOp{Op: "scenario", Sc: &sc}), fmt.Sprintf("scenario %s init-errors=%d %s", sc.Name, initErrs, strings.Join(parts, " ")))
}

func (s *vSim) endScenario() {
	for _, n := range s.nodes {
		n.close()
	}
	s.nodes = nil
}

// ---------------------------------------------------------------------------------------------
// oracle helpers on the implementation's own state

func (s *vSim) allEqual() bool {
	x0, _ := s.nodes[0].xorLC()
	for _, n := range s.nodes[1:] {
		x, _ := n.xorLC()
		if !x.Equals(x0) {
			return false
		}
	}
	return true
}

func (s *vSim) unionOfAdded() map[hash.SHA256Hash]bool {
	u := map[hash.SHA256Hash]bool{}
	for _, n := range s.nodes {
		for r := range n.added {
			u[r] = true
		}
	}
	return u
}

type vVerdict struct {
	Scenario     string   `json:"scenario"`
	Kind         string   `json:"kind"`
	FirstOp      int      `json:"first_op"`
	LastOp       int      `json:"last_op"`
	Converged    bool     `json:"converged"`
	Rounds       int      `json:"rounds"`
	MaxRounds    int      `json:"max_rounds"`
	UnionSize    int      `json:"union"`
	StartDiff    int      `json:"start_diff"`
	Shrunk       []string `json:"shrunk"`
	InvalidIn    []string `json:"invalid_in"`
	NotUnion     []string `json:"not_union"`
	Deliveries   int      `json:"deliveries"`
	InjectedSeen int      `json:"injected_seen"`
	Features     []string `json:"features"`
	PostTraffic  int      `json:"post_traffic"`
	Oversize     []string `json:"oversize"`
	Changed      []string `json:"changed"`
}

// fair suffix: expire stale conversations, then loss-free gossip rounds in every direction until all
// nodes agree; bounded by maxRounds
func (s *vSim) fairSuffix(maxRounds int, expireEvery int) (rounds int) {
	for rounds = 0; rounds < maxRounds; rounds++ {
		if node, ok := s.restartAt[rounds]; ok {
			// a node restart between rounds: volatile state gone, digests reloaded from disk
			delete(s.restartAt, rounds)
			s.exec(&vOp{Op: "restart", N: node})
		}
		if s.allEqual() && len(s.pending) == 0 {
			return rounds
		}
		for _, f := range s.faultAt[rounds] {
			s.exec(&vOp{Op: "fault", N: f.node, Mode: f.mode})
		}
		delete(s.faultAt, rounds)
		if expireEvery > 0 && rounds%expireEvery == 0 {
			for _, n := range s.nodes {
				s.exec(&vOp{Op: "advance", N: n.id, Dt: s.sc.Validity + 1})
				s.exec(&vOp{Op: "evict", N: n.id})
			}
		}
		// drop everything still in flight from the hostile prefix
		s.pending = nil
		for _, cc := range s.sc.Conns {
			s.exec(&vOp{Op: "tick", N: cc.At, Peer: cc.Peer})
			guard := 0
			for len(s.pending) > 0 && guard < 400 {
				id := s.pending[0]
				s.exec(&vOp{Op: "deliver", M: id})
				guard++
			}
		}
	}
	return rounds
}

func (s *vSim) verdict(kind string, firstOp int, rounds, maxRounds, startDiff int, startSets []map[hash.SHA256Hash]bool, feats []string) vVerdict {
	v := vVerdict{Scenario: s.sc.Name, Kind: kind, FirstOp: firstOp, LastOp: s.out.nOps - 1, Rounds: rounds, MaxRounds: maxRounds, StartDiff: startDiff,
		Deliveries: s.deliveries, InjectedSeen: len(s.injected), Features: feats, Oversize: append([]string{}, s.oversize...), Changed: []string{}, Shrunk: []string{}, InvalidIn: []string{}, NotUnion: []string{}}
	// whatever is still queued gets written to its stream eventually (a peer can keep the window open by not reading)
	for _, id := range s.pending {
		s.lateMarshal(s.sent[id], "still-queued-at-end")
	}
	v.Changed = append(v.Changed, s.changed...)
	union := map[hash.SHA256Hash]bool{}
	listings := make([]map[hash.SHA256Hash]bool, len(s.nodes))
	for i, n := range s.nodes {
		txs, err := n.st.FindBetweenLC(context.Background(), 0, dag.MaxLamportClock)
		if err != nil {
			panic(err)
		}
		listings[i] = map[hash.SHA256Hash]bool{}
		for _, t := range txs {
			listings[i][t.Ref()] = true
			union[t.Ref()] = true
		}
	}
	// the union the nodes must reach: everything any node held at the start or created since (= everything ever added anywhere)
	for r := range s.unionOfAdded() {
		union[r] = true
	}
	v.UnionSize = len(union)
	v.Converged = true
	for i := range s.nodes {
		for r := range startSets[i] {
			if !listings[i][r] {
				v.Shrunk = append(v.Shrunk, fmt.Sprintf("n%d:%s", i, r16(r)))
			}
		}
		for r := range listings[i] {
			if t := s.u.byRef[r]; t == nil || !t.sigOK || t.tag == "invalid" || s.injected[r] {
				v.InvalidIn = append(v.InvalidIn, fmt.Sprintf("n%d:%s", i, r16(r)))
			}
		}
		if len(listings[i]) != len(union) {
			v.Converged = false
			v.NotUnion = append(v.NotUnion, fmt.Sprintf("n%d:%d/%d", i, len(listings[i]), len(union)))
		}
	}
	return v
}

func (s *vSim) startSets() ([]map[hash.SHA256Hash]bool, int) {
	sets := make([]map[hash.SHA256Hash]bool, len(s.nodes))
	union := map[hash.SHA256Hash]bool{}
	for i, n := range s.nodes {
		sets[i] = map[hash.SHA256Hash]bool{}
		for r := range n.added {
			sets[i][r] = true
			union[r] = true
		}
	}
	diff := 0
	for i := range s.nodes {
		diff += len(union) - len(sets[i])
	}
	return sets, diff
}

func vU32(b []byte) uint32 { return binary.BigEndian.Uint32(b) }

var _ = vU32

func vQuiet() {
	logrus.SetLevel(logrus.PanicLevel)
	// the audit logger is a separate logrus instance writing to whatever os.Stderr is when it is first used
	if f, err := os.OpenFile(os.DevNull, os.O_WRONLY, 0); err == nil {
		os.Stderr = f
	}
}
