//go:build verif

package v2

// C07 deepening round 3: the REAL conversationManager called directly (startConversation with blocking and non-blocking
// requests, done, resetTimeout, evict, check of an unknown conversation), with a lock probe after EVERY call:
// `cMan.mutex.TryLock()` must succeed once the method returned. Results (accepted / refused, number of conversations)
// are compared with the model's conversation functions (NutsModel/C07/Dag.lean) and the lock token with the regenerated
// lock discipline (NutsModel/C07/ConvLock.lean).
//
// `valid=false` runs the manager with a negative validity: every conversation is expired at once (hasActiveConversation
// false, evict removes everything).

import (
	"bufio"
	"encoding/json"
	"fmt"
	"math/rand"
	"os"
	"path/filepath"
	"strconv"
	"strings"
	"testing"
	"time"

	"github.com/nuts-foundation/nuts-node/network/transport"
	"github.com/sirupsen/logrus"
)

type vConvLockOp struct {
	Op    string          `json:"op"`
	Valid bool            `json:"valid"`
	Calls [][]interface{} `json:"calls"`
}

func vConvLockRun(op vConvLockOp) (line string) {
	var sb strings.Builder
	defer func() {
		if r := recover(); r != nil {
			line = sb.String() + fmt.Sprintf(" panic:%v", r)
		}
	}()
	validity := time.Hour
	if !op.Valid {
		validity = -time.Hour
	}
	cMan := newConversationManager(validity)
	var started []conversationID
	sb.WriteString("convlock")
	for _, c := range op.Calls {
		if len(c) != 2 {
			sb.WriteString(" ?")
			continue
		}
		name, _ := c[0].(string)
		kf, _ := c[1].(float64)
		k := int(kf)
		peer := transport.Peer{ID: transport.PeerID(fmt.Sprintf("p%d", k)), Address: fmt.Sprintf("h%d:5555", k)}
		tok := name
		// a leading "x" runs the call with a NEGATIVE validity (the conversation it creates / resets is expired at once),
		// so that live and expired conversations are mixed in one manager
		cMan.validity = validity
		if strings.HasPrefix(name, "x") {
			name = name[1:]
			cMan.validity = -time.Hour
		}
		pick := func() (conversationID, bool) {
			if len(started) == 0 {
				return "", false
			}
			return started[k%len(started)], true
		}
		switch name {
		case "startR", "startL", "startS":
			var msg checkable
			switch name {
			case "startR":
				msg = &Envelope_TransactionRangeQuery{TransactionRangeQuery: &TransactionRangeQuery{}}
			case "startL":
				msg = &Envelope_TransactionListQuery{TransactionListQuery: &TransactionListQuery{}}
			default:
				msg = &Envelope_State{State: &State{}}
			}
			if conv := cMan.startConversation(msg, peer); conv == nil {
				tok += fmt.Sprintf(":p%d:refused", k)
			} else {
				started = append(started, conv.conversationID)
				tok += fmt.Sprintf(":p%d:ok", k)
			}
		case "done":
			if cid, ok := pick(); ok {
				cMan.done(cid)
				tok += ":" + strconv.Itoa(k%len(started))
			} else {
				tok += ":skip"
			}
		case "reset":
			if cid, ok := pick(); ok {
				cMan.resetTimeout(cid)
				tok += ":" + strconv.Itoa(k%len(started))
			} else {
				tok += ":skip"
			}
		case "evict":
			cMan.evict()
		case "check":
			_, err := cMan.check(&Envelope_TransactionSet{TransactionSet: &TransactionSet{ConversationID: newConversationID().slice()}}, handlerData{})
			if err != nil {
				tok += ":unknown"
			} else {
				tok += ":known"
			}
		default:
			tok += ":?"
		}
		free := cMan.mutex.TryLock()
		n := -1
		if free {
			n = len(cMan.conversations)
			cMan.mutex.Unlock()
		}
		if !free {
			fmt.Fprintf(&sb, " %s:held STOP", tok)
			return sb.String()
		}
		fmt.Fprintf(&sb, " %s:free:n=%d", tok, n)
	}
	return sb.String()
}

func TestVerifC07ConvLock(t *testing.T) {
	out := os.Getenv("VERIF_OUT")
	if out == "" {
		t.Skip("VERIF_OUT not set")
	}
	logrus.SetLevel(logrus.PanicLevel)
	seed, _ := strconv.ParseInt(os.Getenv("VERIF_SEED"), 10, 64)
	rng := rand.New(rand.NewSource(seed*15485863 + 5))
	var ops []vConvLockOp
	addFile := func(path string) {
		f, err := os.Open(path)
		if err != nil {
			return
		}
		defer f.Close()
		sc := bufio.NewScanner(f)
		sc.Buffer(make([]byte, 1<<20), 1<<24)
		for sc.Scan() {
			var op vConvLockOp
			if json.Unmarshal(sc.Bytes(), &op) == nil && op.Op == "convlock" {
				ops = append(ops, op)
			}
		}
	}
	if rp := os.Getenv("VERIF_REPLAY"); rp != "" {
		addFile(rp)
	} else {
		if dir := os.Getenv("VERIF_CORPUS"); dir != "" {
			files, _ := filepath.Glob(filepath.Join(dir, "convlock-*.jsonl"))
			for _, f := range files {
				addFile(f)
			}
		}
		n := 120
		if os.Getenv("VERIF_TIER") == "thorough" {
			n = 800
		}
		c := func(name string, k int) []interface{} { return []interface{}{name, k} }
		ops = append(ops,
			// refused blocking request, then everything else must still work
			vConvLockOp{"convlock", true, [][]interface{}{c("startR", 1), c("startL", 1), c("startS", 1), c("startR", 2), c("done", 0), c("startL", 1), c("check", 0), c("evict", 0), c("reset", 1)}},
			// expired at once: never refused
			vConvLockOp{"convlock", false, [][]interface{}{c("startR", 1), c("startR", 1), c("evict", 0), c("startL", 1), c("reset", 0), c("startL", 1)}},
			vConvLockOp{"convlock", true, [][]interface{}{c("check", 0), c("done", 0), c("reset", 0), c("evict", 0)}},
			// mixed expiry: the last blocking conversation of p1 is expired (no refusal), evict removes exactly the expired ones, reset revives / kills
			vConvLockOp{"convlock", true, [][]interface{}{c("startR", 1), c("xstartL", 2), c("xstartS", 1), c("startL", 2), c("startL", 2), c("evict", 0), c("xreset", 0), c("startR", 1), c("evict", 0), c("xstartR", 0), c("reset", 4), c("startL", 0), c("evict", 0)}},
		)
		names := []string{"startR", "startL", "startS", "startR", "startL", "done", "reset", "evict", "check", "xstartR", "xstartL", "xstartS", "xreset", "evict"}
		for i := 0; i < n; i++ {
			var calls [][]interface{}
			for j, k := 0, 3+rng.Intn(12); j < k; j++ {
				calls = append(calls, c(names[rng.Intn(len(names))], rng.Intn(3)))
			}
			ops = append(ops, vConvLockOp{"convlock", rng.Intn(5) > 0, calls})
		}
	}
	if err := os.MkdirAll(out, 0o755); err != nil {
		t.Fatal(err)
	}
	fo, _ := os.Create(filepath.Join(out, "ops.jsonl"))
	fi, _ := os.Create(filepath.Join(out, "impl.out"))
	defer fo.Close()
	defer fi.Close()
	for _, op := range ops {
		b, _ := json.Marshal(op)
		fo.Write(append(b, '\n'))
		var rt vConvLockOp
		_ = json.Unmarshal(b, &rt)
		fi.WriteString(vConvLockRun(rt) + "\n")
	}
}
