//go:build verif

package v2

// C07 deepening round 3: the REAL (*protocol).sendGossip on the REAL grpc.connectionList with the REAL predicates
// (ByConnected / ByPeer / ...) and transport.Peer.Key, against NutsModel/C07/Addr.lean.
//
// One op = a connection list (2..7 fake connections: peer ID, node DID, address, connected, authenticated, whether Send
// succeeds) and the peer whose gossip queue ticks. The line says which connection got the Gossip envelope, what
// sendGossip returned (true = the gossip manager clears the queue) and — computed by the harness WITHOUT the
// predicates — which connected connections carry the queue peer's key (`owners`).

import (
	"bufio"
	"encoding/json"
	"errors"
	"fmt"
	"math/rand"
	"os"
	"path/filepath"
	"strconv"
	"strings"
	"testing"

	"github.com/nuts-foundation/go-did/did"
	"github.com/nuts-foundation/nuts-node/crypto/hash"
	"github.com/nuts-foundation/nuts-node/network/transport"
	"github.com/nuts-foundation/nuts-node/network/transport/grpc"
	"github.com/sirupsen/logrus"
)

type vAddrPeer struct {
	ID   string `json:"id"`
	DID  string `json:"did"`
	Addr string `json:"addr"`
	Conn bool   `json:"conn"`
	Auth bool   `json:"auth"`
	OK   bool   `json:"ok"`
}

type vAddrOp struct {
	Op    string      `json:"op"`
	Peer  vAddrPeer   `json:"peer"`
	Conns []vAddrPeer `json:"conns"`
}

func (a vAddrPeer) peer() transport.Peer {
	p := transport.Peer{ID: transport.PeerID(a.ID), Address: a.Addr, Authenticated: a.Auth}
	if a.DID != "" {
		p.NodeDID = did.MustParseDID(a.DID)
	}
	return p
}

type vAddrConn struct {
	grpc.Connection // nil: the unexported methods are never called
	idx             int
	spec            vAddrPeer
	log             *[]string
}

func (c *vAddrConn) Peer() transport.Peer  { return c.spec.peer() }
func (c *vAddrConn) IsConnected() bool     { return c.spec.Conn }
func (c *vAddrConn) IsAuthenticated() bool { return c.spec.Auth }
func (c *vAddrConn) Send(_ grpc.Protocol, envelope interface{}, _ bool) error {
	e, _ := envelope.(*Envelope)
	kind := "notgossip"
	if e != nil && e.GetGossip() != nil {
		kind = fmt.Sprintf("gossip%d", len(e.GetGossip().Transactions))
	}
	*c.log = append(*c.log, fmt.Sprintf("%d:%s:%s", c.idx, c.Peer().Key(), kind))
	if !c.spec.OK {
		return errors.New("outbox full")
	}
	return nil
}

func vAddrRun(op vAddrOp) (line string) {
	defer func() {
		if r := recover(); r != nil {
			line = fmt.Sprintf("addr panic:%v", r)
		}
	}()
	var log []string
	conns := make([]grpc.Connection, len(op.Conns))
	for i, s := range op.Conns {
		conns[i] = &vAddrConn{idx: i, spec: s, log: &log}
	}
	p := &protocol{}
	p.connectionList = grpc.VerifC07ConnectionList(conns...)
	peer := op.Peer.peer()
	ret := p.sendGossip(peer, []hash.SHA256Hash{hash.SHA256Sum([]byte("x"))}, hash.EmptyHash(), 7)
	var owners []string
	for i, s := range op.Conns {
		if s.Conn && s.peer().Key() == peer.Key() {
			owners = append(owners, strconv.Itoa(i))
		}
	}
	target := "none"
	switch len(log) {
	case 0:
	case 1:
		target = strings.TrimSuffix(log[0], ":gossip1")
	default:
		target = "multi[" + strings.Join(log, "|") + "]"
	}
	return fmt.Sprintf("addr pk=%s target=%s cleared=%v owners=[%s]", peer.Key(), target, ret, strings.Join(owners, ","))
}

func TestVerifC07Addr(t *testing.T) {
	out := os.Getenv("VERIF_OUT")
	if out == "" {
		t.Skip("VERIF_OUT not set")
	}
	logrus.SetLevel(logrus.PanicLevel)
	seed, _ := strconv.ParseInt(os.Getenv("VERIF_SEED"), 10, 64)
	rng := rand.New(rand.NewSource(seed*7919 + 13))
	var ops []vAddrOp
	addFile := func(path string) {
		f, err := os.Open(path)
		if err != nil {
			return
		}
		defer f.Close()
		sc := bufio.NewScanner(f)
		sc.Buffer(make([]byte, 1<<20), 1<<24)
		for sc.Scan() {
			var op vAddrOp
			if json.Unmarshal(sc.Bytes(), &op) == nil && op.Op == "addr" {
				ops = append(ops, op)
			}
		}
	}
	if rp := os.Getenv("VERIF_REPLAY"); rp != "" {
		addFile(rp)
	} else {
		if dir := os.Getenv("VERIF_CORPUS"); dir != "" {
			files, _ := filepath.Glob(filepath.Join(dir, "addr-*.jsonl"))
			for _, f := range files {
				addFile(f)
			}
		}
		n := 300
		if os.Getenv("VERIF_TIER") == "thorough" {
			n = 2000
		}
		ids := []string{"a", "b", "c", "d"}
		dids := []string{"", "", "did:nuts:x", "did:nuts:y"}
		addrs := []string{"h1:5555", "h2:5555", "", "h1:5556"}
		mk := func() vAddrPeer {
			return vAddrPeer{ID: ids[rng.Intn(len(ids))], DID: dids[rng.Intn(len(dids))], Addr: addrs[rng.Intn(len(addrs))],
				Conn: rng.Intn(4) > 0, Auth: rng.Intn(2) == 0, OK: rng.Intn(5) > 0}
		}
		// fixed shapes: two unauthenticated peers (empty DID), the second one's queue; two peers of one DID (clustering);
		// a stale disconnected entry before the live one; the only candidate disconnected; the address changed on reconnect
		A := vAddrPeer{ID: "a", DID: "", Addr: "h1:5555", Conn: true, OK: true}
		B := vAddrPeer{ID: "b", DID: "", Addr: "h2:5555", Conn: true, OK: true}
		X1 := vAddrPeer{ID: "a", DID: "did:nuts:x", Addr: "h1:5555", Conn: true, Auth: true, OK: true}
		X2 := vAddrPeer{ID: "b", DID: "did:nuts:x", Addr: "h2:5555", Conn: true, Auth: true, OK: true}
		down := func(p vAddrPeer) vAddrPeer { p.Conn = false; return p }
		fail := func(p vAddrPeer) vAddrPeer { p.OK = false; return p }
		moved := func(p vAddrPeer) vAddrPeer { p.Addr = "h1:5556"; return p }
		ops = append(ops,
			vAddrOp{"addr", B, []vAddrPeer{A, B}}, vAddrOp{"addr", A, []vAddrPeer{A, B}},
			vAddrOp{"addr", X2, []vAddrPeer{X1, X2}}, vAddrOp{"addr", X2, []vAddrPeer{fail(X1), X2, A}},
			vAddrOp{"addr", X2, []vAddrPeer{down(X2), X1, X2}}, vAddrOp{"addr", X2, []vAddrPeer{X1, down(X2)}},
			vAddrOp{"addr", X1, []vAddrPeer{moved(X1), X2}}, vAddrOp{"addr", X2, []vAddrPeer{X1, fail(X2), X2}},
			vAddrOp{"addr", A, nil},
		)
		for i := 0; i < n; i++ {
			var conns []vAddrPeer
			for j, k := 0, 2+rng.Intn(6); j < k; j++ {
				c := mk()
				if j > 0 && rng.Intn(3) == 0 { // same DID as an earlier entry, other peer ID / address
					c.DID = conns[rng.Intn(j)].DID
				}
				if j > 0 && rng.Intn(6) == 0 { // the same peer twice (stale + live entry)
					c = conns[rng.Intn(j)]
					c.Conn = rng.Intn(3) > 0
					c.OK = rng.Intn(4) > 0
				}
				conns = append(conns, c)
			}
			var peer vAddrPeer
			switch r := rng.Intn(20); {
			case r < 13: // a listed peer, preferably not the first
				peer = conns[rng.Intn(len(conns))]
				if rng.Intn(2) == 0 {
					peer = conns[1+rng.Intn(len(conns)-1)]
				}
			case r < 16: // one component differs
				peer = conns[rng.Intn(len(conns))]
				switch rng.Intn(3) {
				case 0:
					peer.Addr = addrs[rng.Intn(len(addrs))]
				case 1:
					peer.DID = dids[rng.Intn(len(dids))]
				default:
					peer.ID = ids[rng.Intn(len(ids))]
				}
			default:
				peer = mk()
			}
			ops = append(ops, vAddrOp{"addr", peer, conns})
		}
	}
	if err := os.MkdirAll(out, 0o755); err != nil {
		t.Fatal(err)
	}
	fo, _ := os.Create(filepath.Join(out, "ops.jsonl"))
	fi, _ := os.Create(filepath.Join(out, "impl.out"))
	defer fo.Close()
	defer fi.Close()
	for _, op := range ops {
		b, _ := json.Marshal(op)
		fo.Write(append(b, '\n'))
		var rt vAddrOp
		_ = json.Unmarshal(b, &rt)
		fi.WriteString(vAddrRun(rt) + "\n")
	}
}
