//go:build verif

package v2

import (
	"crypto"
	"crypto/x509"
	"errors"
	"fmt"
	"net"
	"net/url"
	"os"
	"path/filepath"
	"strings"
	"testing"
	"time"

	ssi "github.com/nuts-foundation/go-did"
	"github.com/nuts-foundation/go-did/did"
	"github.com/nuts-foundation/nuts-node/network/dag"
	"github.com/nuts-foundation/nuts-node/network/transport"
	"github.com/nuts-foundation/nuts-node/network/transport/grpc"
	"github.com/nuts-foundation/nuts-node/vdr/resolver"
	"google.golang.org/protobuf/proto"
)

// ---------------------------------------------------------------------------------------------
// C15 universe: a short trunk and private transactions with every kind of PAL header

type vC15Layout struct {
	pubReuse int // a PUBLIC transaction (validly signed by its author) whose payload hash is that of the private "honest-AB"
	trunk, L int
	priv     []int          // private transaction indices
	kind     map[int]string // idx -> kind of PAL
	mism     string         // a payload id that matches no private transaction
	reuse    [][2]int       // (attacker transaction whose header reuses an entry, victim transaction the entry was copied from)
}

// vKakResolver resolves the key agreement key of a DID (what PAL.Encrypt asks the VDR for)
type vKakResolver struct{ u *vUniverse }

func (r vKakResolver) ResolveKeyByID(string, *resolver.ResolveMetadata, resolver.RelationType) (crypto.PublicKey, error) {
	return nil, resolver.ErrKeyNotFound
}
func (r vKakResolver) ResolveKey(id did.DID, _ *time.Time, rel resolver.RelationType) (string, crypto.PublicKey, error) {
	if rel != resolver.KeyAgreement {
		return "", nil, resolver.ErrKeyNotFound
	}
	kid, k := r.u.kak(id.String())
	return kid, &k.PublicKey, nil
}

// encryptPAL runs the REAL dag.PAL.Encrypt and registers ciphertext i as decryptable by participant i's key to the whole list
func (u *vUniverse) encryptPAL(dids []string) []int {
	var pal dag.PAL
	for _, d := range dids {
		pal = append(pal, did.MustParseDID(d))
	}
	var epal dag.EncryptedPAL
	vWithRand(byte(0x61+len(u.ciphers)%64), func() {
		var err error
		epal, err = pal.Encrypt(vKakResolver{u})
		if err != nil {
			panic(err)
		}
	})
	var ids []int
	for i, ct := range epal {
		kid := ""
		if i < len(dids) {
			kid, _ = u.kak(dids[i])
		}
		c := &vCipher{id: len(u.ciphers), kid: kid, plain: dids, bytes: ct}
		u.ciphers = append(u.ciphers, c)
		pl := make([]interface{}, len(dids))
		for k, d := range dids {
			pl[k] = d
		}
		u.ops = append(u.ops, vJSON(map[string]interface{}{"op": "cipher", "id": c.id, "kid": kid, "plain": pl}))
		ids = append(ids, c.id)
	}
	return ids
}

func buildC15Universe(u *vUniverse) *vC15Layout {
	ly := &vC15Layout{L: 24, kind: map[int]string{}}
	ly.trunk = len(u.txs)
	for i := 0; i < ly.L; i++ {
		if i == 0 {
			u.add(vTxSpec{clock: -1, tag: "trunk"})
		} else {
			u.add(vTxSpec{prevs: []int{ly.trunk + i - 1}, clock: -1, tag: "trunk"})
		}
	}
	A, B, C := "did:nuts:A", "did:nuts:B", "did:nuts:C"
	mk := func(kind string, at int, dids []string, ciphers []int) {
		p := &vPal{dids: dids, ciphers: ciphers}
		idx := u.add(vTxSpec{prevs: []int{ly.trunk + at}, clock: -1, pal: p, tag: "priv"})
		ly.priv = append(ly.priv, idx)
		ly.kind[idx] = kind
	}
	ab := []string{A, B}
	// headers produced by the real PAL.Encrypt
	mk("honest-AB", 2, ab, u.encryptPAL(ab))
	mk("honest-A", 3, []string{A}, u.encryptPAL([]string{A}))
	mk("honest-BC", 4, []string{B, C}, u.encryptPAL([]string{B, C}))
	mk("nonmember-cipher", 5, ab, []int{u.cipher(A, ab), u.cipher(B, ab), u.cipher(C, ab)}) // author also encrypted the list to C
	mk("garbage-plain", 6, nil, []int{u.cipher(A, []string{"!not a did"}), u.cipher(B, []string{"!not a did"})})
	mk("nobody", 7, nil, []int{u.cipher("", ab)})
	mk("dup-dids", 9, []string{A, A, B}, []int{u.cipher(B, []string{A, A, B}), u.cipher(A, []string{A, A, B})})
	mk("second-cipher-ours", 10, ab, []int{u.cipher("", ab), u.cipher(B, ab), u.cipher(A, ab)})
	// a private transaction for [A, B] whose payload hash is the (public) payload hash of the FOREIGN private transaction
	// "honest-BC" (list [B, C]): crafted by A, who is not on that list
	mkp := func(kind string, at int, dids []string, ciphers []int, payload []byte) {
		p := &vPal{dids: dids, ciphers: ciphers}
		idx := u.add(vTxSpec{prevs: []int{ly.trunk + at}, clock: -1, pal: p, payload: payload, tag: "priv"})
		ly.priv = append(ly.priv, idx)
		ly.kind[idx] = kind
	}
	for idx, k := range ly.kind {
		if k == "honest-BC" {
			mkp("hash-reuse-of-BC", 11, ab, []int{u.cipher(A, ab), u.cipher(B, ab)}, u.txs[idx].payload)
		}
	}
	// attacker transactions whose headers REUSE ciphertext entries of existing private transactions (headers are public) mixed
	// with entries the attacker encrypted itself: C (on none of the victims' lists) names itself next to the holder
	byKind := func(k string) int {
		for idx, kk := range ly.kind {
			if kk == k {
				return idx
			}
		}
		panic(k)
	}
	ac, bc := []string{A, C}, []string{B, C}
	mkr := func(kind string, at int, dids []string, victim int, ciphers []int) {
		p := &vPal{dids: dids, ciphers: ciphers, mixed: true}
		idx := u.add(vTxSpec{prevs: []int{ly.trunk + at}, clock: -1, pal: p, tag: "priv"})
		ly.priv = append(ly.priv, idx)
		ly.kind[idx] = kind
		ly.reuse = append(ly.reuse, [2]int{idx, victim})
	}
	v1, v2, v3 := byKind("second-cipher-ours"), byKind("honest-AB"), byKind("dup-dids")
	// first entry copied from a header whose first entry nobody can decrypt
	mkr("reuse-first(undecryptable)-of-second-cipher-ours", 13, ac, v1, []int{u.txs[v1].pal.ciphers[0], u.cipher(A, ac), u.cipher(C, ac)})
	// first entry copied from an honest header (decrypts, at A, to the victim's list)
	mkr("reuse-first-of-honest-AB", 14, bc, v2, []int{u.txs[v2].pal.ciphers[0], u.cipher(B, bc), u.cipher(C, bc)})
	// last entry copied
	mkr("reuse-last-of-honest-AB", 15, ac, v2, []int{u.cipher(C, ac), u.cipher(A, ac), u.txs[v2].pal.ciphers[1]})
	// first entry copied from a header that lists the holder A second
	mkr("reuse-first-of-dup-dids", 16, ac, v3, []int{u.txs[v3].pal.ciphers[0], u.cipher(A, ac), u.cipher(C, ac)})
	u.addPayload("mismatch", []byte("this payload matches no transaction"))
	for idx, k := range ly.kind {
		if k == "honest-AB" {
			ly.pubReuse = u.add(vTxSpec{prevs: []int{ly.trunk + 12}, clock: -1, payload: u.txs[idx].payload, tag: "pub-hash-reuse"})
		}
	}
	ly.mism = "mismatch"
	return ly
}

// holder node variants (key situations) and requester connection variants
func (ly *vC15Layout) scenarios(u *vUniverse) []vScenario {
	kidA, _ := u.kak("did:nuts:A")
	kidB, _ := u.kak("did:nuts:B")
	kidC, _ := u.kak("did:nuts:C")
	all := [][2]int{{ly.trunk, ly.trunk + ly.L}, {ly.priv[0], ly.priv[len(ly.priv)-1] + 1}}
	holder := func(didStr string, kaks []vKak, resolvable bool) vNodeCfg {
		return vNodeCfg{Did: didStr, Resolvable: resolvable, Kaks: kaks, Dag: all, Priv: ly.priv, NoPayload: []int{}}
	}
	holders := map[string]vNodeCfg{
		"A":            holder("did:nuts:A", []vKak{{kidA, true}}, true),
		"B":            holder("did:nuts:B", []vKak{{kidB, true}}, true),
		"C-unlisted":   holder("did:nuts:C", []vKak{{kidC, true}}, true),
		"no-did":       holder("", []vKak{}, true),
		"key-missing":  holder("did:nuts:A", []vKak{{kidA, false}}, true),
		"unresolvable": holder("did:nuts:A", []vKak{{kidA, true}}, false),
		"two-keys":     holder("did:nuts:A", []vKak{{kidC, true}, {kidA, true}}, true),
		"no-kak":       holder("did:nuts:A", []vKak{}, true),
	}
	order := []string{"A", "B", "C-unlisted", "no-did", "key-missing", "unresolvable", "two-keys", "no-kak"}
	var r []vScenario
	for _, h := range order {
		// node 0 = holder; nodes 1..4 = requesters that hold the transactions but no private payloads
		req := func(didStr string, kaks []vKak) vNodeCfg {
			return vNodeCfg{Did: didStr, Resolvable: true, Kaks: kaks, Dag: all, Priv: []int{}, NoPayload: []int{}}
		}
		sc := vScenario{Name: "c15-holder-" + h, MaxMsg: 512 * 1024, Validity: 3}
		sc.Nodes = []vNodeCfg{holders[h], req("did:nuts:B", []vKak{{kidB, true}}), req("did:nuts:C", []vKak{{kidC, true}}), req("did:nuts:B", []vKak{{kidB, true}}), req("", []vKak{}),
			{Did: "did:nuts:A", Resolvable: true, Kaks: []vKak{{kidA, true}}, Dag: [][2]int{{ly.trunk, ly.trunk + 2}}, Priv: []int{}, NoPayload: []int{}},
			req("did:nuts:Bb", []vKak{}), req("did:web:B", []vKak{}), req("did:nuts:b", []vKak{})}
		// how the holder sees them: 1 = authenticated listed B, 2 = authenticated unlisted C, 3 = UNauthenticated claiming B, 4 = authenticated with empty DID,
		// 5 = authenticated listed A that lacks most of the DAG
		sc.Conns = []vConnCfg{{At: 0, Peer: 1, Auth: true, Did: "did:nuts:B"}, {At: 0, Peer: 2, Auth: true, Did: "did:nuts:C", PeerID: "node1"}, {At: 0, Peer: 3, Auth: false, Did: "did:nuts:B"},
			{At: 0, Peer: 4, Auth: true, Did: "", PeerID: "node5"}, {At: 0, Peer: 5, Auth: true, Did: "did:nuts:A"},
			// 6..8 = authenticated near-misses of the listed DID B: longer id, other method, other case
			{At: 0, Peer: 6, Auth: true, Did: "did:nuts:Bb"}, {At: 0, Peer: 7, Auth: true, Did: "did:web:B"}, {At: 0, Peer: 8, Auth: true, Did: "did:nuts:b"}}
		for p := 1; p <= 8; p++ {
			d := holders[h].Did
			sc.Conns = append(sc.Conns, vConnCfg{At: p, Peer: 0, Auth: d != "", Did: d})
		}
		r = append(r, sc)
	}
	return r
}

type vStoreCheck struct {
	Scenario string `json:"scenario"`
	Op       int    `json:"op"`
	Node     int    `json:"node"`
	Tx       int    `json:"tx"`
	Data     string `json:"data"`
	TxKnown  bool   `json:"tx_known"`
	Matches  bool   `json:"matches"`
	Before   bool   `json:"before"`
	After    bool   `json:"after"`
	Other    bool   `json:"other_changed"`
	Via      string `json:"via,omitempty"`
}

func (s *vSim) privPresent(n *vNode, ly *vC15Layout) map[int]bool {
	r := map[int]bool{}
	for _, idx := range append(append([]int{}, ly.priv...), ly.trunk+3) {
		ok, _ := n.st.IsPayloadPresent(s.nodes[0].p.ctx, s.u.txs[idx].ph)
		r[idx] = ok
	}
	return r
}

func (s *vSim) runC15Scenario(sc vScenario, ly *vC15Layout, dir string, checks *[]vStoreCheck) vVerdict {
	first := s.out.nOps
	s.startScenario(sc, dir)
	defer s.endScenario()
	startSets, startDiff := s.startSets()
	r := s.rnd
	nPeers := len(sc.Nodes) - 1
	// 0. the attacker's transactions with reused header entries are handled FIRST (anybody may ask for them; the attacker C = peer 2,
	// authenticated, does), then the attacker and the other unlisted/unauthenticated peers ask for the victim transactions
	for _, fv := range ly.reuse {
		s.exec(&vOp{Op: "inject", From: 2, To: 0, Msg: &vMsg{T: "pq", Ref: fv[0]}})
		for _, p := range []int{2, 3, 6} {
			s.exec(&vOp{Op: "inject", From: p, To: 0, Msg: &vMsg{T: "pq", Ref: fv[1]}})
		}
	}
	// 0a. refusals that are STILL QUEUED (the peer does not read its stream) while a listed peer is served; the refused peers read later
	for _, idx := range []int{ly.priv[0], ly.priv[1], ly.priv[3]} {
		var held []int
		for _, p := range []int{2, 3, 4, 6} {
			before := len(s.sent)
			s.exec(&vOp{Op: "inject", From: p, To: 0, Msg: &vMsg{T: "pq", Ref: idx}})
			for _, pk := range s.sent[before:] {
				held = append(held, pk.id)
			}
			for _, listed := range []int{1, 5} {
				s.exec(&vOp{Op: "inject", From: listed, To: 0, Msg: &vMsg{T: "pq", Ref: idx}})
			}
		}
		for _, id := range held {
			s.exec(&vOp{Op: "deliver", M: id})
		}
	}
	// 1. every peer variant asks for every private payload (and a public one, an unknown one, the empty ref)
	for p := 1; p <= nPeers; p++ {
		for _, idx := range append(append([]int{}, ly.priv...), ly.trunk+3, -1) {
			s.exec(&vOp{Op: "inject", From: p, To: 0, Msg: &vMsg{T: "pq", Ref: idx}})
		}
	}
	// 2. every other message type, addressed at ranges / refs that include the private transactions
	for p := 1; p <= nPeers; p++ {
		forged := [2]int{7, p}
		s.exec(&vOp{Op: "inject", From: p, To: 0, Msg: &vMsg{T: "lq", C: &forged, Refs: append(append([]int{}, ly.priv...), ly.trunk+1)}})
		s.exec(&vOp{Op: "inject", From: p, To: 0, Msg: &vMsg{T: "rq", C: &forged, A: 0, B: 4294967295}})
		s.exec(&vOp{Op: "inject", From: p, To: 0, Msg: &vMsg{T: "rq", C: &forged, A: 3, B: 9}})
		s.exec(&vOp{Op: "inject", From: p, To: 0, Msg: &vMsg{T: "state", C: &forged, XSet: [][2]int{{ly.trunk, ly.trunk + 3}}, LC: 5}})
		s.exec(&vOp{Op: "inject", From: p, To: 0, Msg: &vMsg{T: "gossip", XSet: [][2]int{{ly.trunk, ly.trunk + 3}}, LC: 50, Refs: ly.priv[:2]}})
		s.exec(&vOp{Op: "inject", From: p, To: 0, Msg: &vMsg{T: "gossip", XSet: [][2]int{{ly.trunk, ly.trunk + 3}}, LC: 1, Refs: []int{}}})
		s.exec(&vOp{Op: "inject", From: p, To: 0, Msg: &vMsg{T: "set", C: &forged, LCReq: 5, LC: 5, ISet: [][2]int{{ly.trunk, ly.trunk + 3}}}})
		s.exec(&vOp{Op: "inject", From: p, To: 0, Msg: &vMsg{T: "diag"}})
	}
	s.exec(&vOp{Op: "tick", N: 0, Peer: 1})
	// deliver everything the holder produced so far, so the protocol runs on (state -> set -> queries -> lists)
	guard := 0
	for len(s.pending) > 0 && guard < 300 {
		s.exec(&vOp{Op: "deliver", M: s.pending[0]})
		guard++
	}
	// 2b. a private transaction that is ALREADY on the DAG of a node which lacks its payload (every private transaction until a
	// listed participant answers the payload query; for ever at non-participants) is offered AGAIN inside a TransactionList, now with
	// bytes that are not its payload. Node 5 (lacks most of the DAG) asks the holder for [trunk+2, honest-AB] after a gossip; the
	// answer comes in three chunks on that live conversation: 1/3 the transactions (private one without payload), 2/3 the known
	// private transaction + made-up bytes, 3/3 the same + the payload of ANOTHER private transaction. Nothing may be stored.
	{
		pAB := ly.priv[0]
		n5 := s.nodes[5]
		before := len(s.sent)
		s.exec(&vOp{Op: "inject", From: 0, To: 5, Msg: &vMsg{T: "gossip", LC: 60, XSet: [][2]int{{ly.trunk, ly.trunk + 3}, {pAB, pAB + 1}}, Refs: []int{ly.trunk + 2, pAB}}})
		var cid *[2]int
		for _, pk := range s.sent[before:] {
			if pk.kind == "lq" && pk.src == 5 {
				e := &Envelope{}
				_ = proto.Unmarshal(pk.wire, e)
				if c, ok := s.cidName[string(e.GetTransactionListQuery().ConversationID)]; ok {
					cc := c
					cid = &cc
				}
			}
		}
		if cid == nil {
			cid = &[2]int{7, 97}
		}
		s.exec(&vOp{Op: "inject", From: 0, To: 5, Msg: &vMsg{T: "tl", C: cid, Num: 1, Total: 3,
			Txs: []vNetTx{{I: ly.trunk + 2, Pl: s.u.payID[s.u.txs[ly.trunk+2].ph]}, {I: pAB}}}})
		other := s.u.payID[s.u.txs[ly.priv[2]].ph]
		for k, d := range []string{ly.mism, other} {
			bf := s.privPresent(n5, ly)
			opIdx := s.out.nOps
			s.exec(&vOp{Op: "inject", From: 0, To: 5, Msg: &vMsg{T: "tl", C: cid, Num: uint32(2 + k), Total: 3, Txs: []vNetTx{{I: pAB, Pl: d}}}})
			af := s.privPresent(n5, ly)
			c := vStoreCheck{Scenario: sc.Name, Op: opIdx, Node: 5, Tx: pAB, Data: d, Via: "tl", TxKnown: n5.added[s.u.txs[pAB].ref], Matches: false, Before: bf[pAB], After: af[pAB]}
			for kk := range bf {
				if kk != pAB && bf[kk] != af[kk] && s.u.txs[kk].ph != s.u.txs[pAB].ph {
					c.Other = true
				}
			}
			*checks = append(*checks, c)
		}
	}
	// 3. payloads received: solicited/unsolicited, matching, mismatching, for unknown transactions, empty
	for _, to := range []int{1, 2, 4, 5} {
		for _, idx := range append(append([]int{}, ly.priv[:4]...), ly.trunk+3, -1) {
			for _, data := range []string{"own", ly.mism, "", "other"} {
				d := data
				if data == "own" && idx >= 0 {
					d = s.u.payID[s.u.txs[idx].ph]
				} else if data == "own" {
					d = ly.mism
				}
				if data == "other" {
					d = s.u.payID[s.u.txs[ly.priv[(r.Intn(3)+5)%len(ly.priv)]].ph]
				}
				n := s.nodes[to]
				before := s.privPresent(n, ly)
				opIdx := s.out.nOps
				s.exec(&vOp{Op: "inject", From: 0, To: to, Msg: &vMsg{T: "pl", Ref: idx, Data: d}})
				after := s.privPresent(n, ly)
				c := vStoreCheck{Scenario: sc.Name, Op: opIdx, Node: to, Tx: idx, Data: d}
				if idx >= 0 {
					t := s.u.txs[idx]
					c.TxKnown = n.added[t.ref]
					c.Matches = d != "" && s.u.payID[t.ph] == d
					c.Before, c.After = before[idx], after[idx]
				}
				for k := range before {
					if k != idx && before[k] != after[k] && (idx < 0 || s.u.txs[k].ph != s.u.txs[idx].ph) {
						c.Other = true
					}
				}
				*checks = append(*checks, c)
			}
		}
	}
	// 3a. a forged PUBLIC transaction with the payload hash of a private one, offered WITHOUT the payload: field absent and field
	// present-but-empty (on a live list conversation the holder itself started); then anybody asks for it
	for _, empty := range []bool{false, true} {
		before := len(s.sent)
		s.exec(&vOp{Op: "inject", From: 2, To: 0, Msg: &vMsg{T: "gossip", LC: 60,
			XSet: [][2]int{{ly.trunk, ly.trunk + ly.L}, {ly.priv[0], ly.priv[len(ly.priv)-1] + 1}, {ly.pubReuse, ly.pubReuse + 1}}, Refs: []int{ly.pubReuse}}})
		var cid *[2]int
		for _, pk := range s.sent[before:] {
			if pk.kind == "lq" && pk.src == 0 {
				e := &Envelope{}
				_ = proto.Unmarshal(pk.wire, e)
				if c, ok := s.cidName[string(e.GetTransactionListQuery().ConversationID)]; ok {
					cc := c
					cid = &cc
				}
			}
		}
		if cid == nil {
			cid = &[2]int{7, 99}
		}
		s.exec(&vOp{Op: "inject", From: 2, To: 0, Msg: &vMsg{T: "tl", C: cid, Num: 1, Total: 1, Txs: []vNetTx{{I: ly.pubReuse, Empty: empty}}}})
		s.exec(&vOp{Op: "inject", From: 3, To: 0, Msg: &vMsg{T: "pq", Ref: ly.pubReuse}})
		f := [2]int{7, 98}
		s.exec(&vOp{Op: "inject", From: 2, To: 0, Msg: &vMsg{T: "lq", C: &f, Refs: []int{ly.pubReuse}}})
		s.exec(&vOp{Op: "inject", From: 3, To: 0, Msg: &vMsg{T: "rq", C: &f, A: 10, B: 20}})
		s.exec(&vOp{Op: "advance", N: 0, Dt: 4})
		s.exec(&vOp{Op: "evict", N: 0})
	}
	// 3b. seed-dependent traffic: random queries of every type from random peers, random payload deliveries
	for i := 0; i < 40; i++ {
		p := 1 + r.Intn(nPeers)
		forged := [2]int{7, 10 + i}
		switch r.Intn(6) {
		case 0:
			s.exec(&vOp{Op: "inject", From: p, To: 0, Msg: &vMsg{T: "pq", Ref: ly.priv[r.Intn(len(ly.priv))]}})
		case 1:
			refs := []int{ly.priv[r.Intn(len(ly.priv))], ly.trunk + r.Intn(ly.L), ly.priv[r.Intn(len(ly.priv))]}
			s.exec(&vOp{Op: "inject", From: p, To: 0, Msg: &vMsg{T: "lq", C: &forged, Refs: refs}})
		case 2:
			a := uint32(r.Intn(12))
			s.exec(&vOp{Op: "inject", From: p, To: 0, Msg: &vMsg{T: "rq", C: &forged, A: a, B: a + 1 + uint32(r.Intn(40))}})
		case 3:
			s.exec(&vOp{Op: "inject", From: p, To: 0, Msg: &vMsg{T: "state", C: &forged, XSet: [][2]int{{ly.trunk, ly.trunk + r.Intn(ly.L)}}, LC: uint32(r.Intn(30))}})
		case 4:
			to := []int{1, 2, 4, 5}[r.Intn(4)]
			idx := ly.priv[r.Intn(len(ly.priv))]
			d := s.u.payID[s.u.txs[ly.priv[r.Intn(len(ly.priv))]].ph]
			s.exec(&vOp{Op: "inject", From: 0, To: to, Msg: &vMsg{T: "pl", Ref: idx, Data: d}})
		default:
			if len(s.pending) > 0 {
				s.exec(&vOp{Op: "deliver", M: s.pending[r.Intn(len(s.pending))]})
			}
		}
	}
	// 4. a listed node creates / receives a private transaction: the payload query broadcast
	s.exec(&vOp{Op: "observe"})
	return s.verdict("c15", first, 0, 0, startDiff, startSets, []string{sc.Name})
}

// ---------------------------------------------------------------------------------------------
// tlsAuthenticator

type vSvcResolver struct {
	endpoint interface{}
	err      error
}

func (r vSvcResolver) Resolve(_ ssi.URI, _ int) (did.Service, error) {
	if r.err != nil {
		return did.Service{}, r.err
	}
	return did.Service{Type: transport.NutsCommServiceType, ServiceEndpoint: r.endpoint}, nil
}
func (r vSvcResolver) ResolveEx(_ ssi.URI, _ int, _ int, _ map[string]*did.Document) (did.Service, error) {
	return r.Resolve(ssi.URI{}, 0)
}

type vMutableSvc struct{ endpoint interface{} }

func (r *vMutableSvc) Resolve(_ ssi.URI, _ int) (did.Service, error) {
	if r.endpoint == nil {
		return did.Service{}, errors.New("service not found")
	}
	return did.Service{Type: transport.NutsCommServiceType, ServiceEndpoint: r.endpoint}, nil
}
func (r *vMutableSvc) ResolveEx(_ ssi.URI, _ int, _ int, _ map[string]*did.Document) (did.Service, error) {
	return r.Resolve(ssi.URI{}, 0)
}

func (s *vSim) authnCases(only string) {
	certs := map[string]*x509.Certificate{
		"none":     nil,
		"node":     {DNSNames: []string{"node.example.com"}},
		"wildcard": {DNSNames: []string{"*.example.com"}},
		"two":      {DNSNames: []string{"a.example.com", "b.example.org"}},
		"empty":    {},
		"ip":       {IPAddresses: []net.IP{net.ParseIP("127.0.0.1")}, DNSNames: []string{"localhost"}},
	}
	certOrder := []string{"none", "node", "wildcard", "two", "empty", "ip"}
	endpoints := []interface{}{"grpc://node.example.com:5555", "grpc://evil.example.net:5555", "grpc://b.example.org:5555", "grpc://x.y.example.com:5555",
		"grpc://NODE.example.com:5555", "node.example.com:5555", "grpc://%zz", "", map[string]interface{}{"a": "b"}, "grpc://a.example.com", nil,
		"grpc://sub.node.example.com:5555", "grpc://x.y.node.example.com:5555", "grpc://node.example.com.:5555", "grpc://127.0.0.1:5555", "grpc://[::1]:5555",
		"grpc://localhost:5555", "grpc://example.com:5555", "node.example.com"}
	for _, cn := range certOrder {
		for ei, ep := range endpoints {
			var res vSvcResolver
			if ep == nil {
				res.err = errors.New("service not found")
			} else {
				res.endpoint = ep
			}
			if only != "" && only != fmt.Sprintf("%s/%d", cn, ei) {
				continue
			}
			claimed := did.MustParseDID("did:nuts:claimed")
			peer := transport.Peer{ID: "p", Address: "addr", Certificate: certs[cn]}
			got, err := grpc.NewTLSAuthenticator(res).Authenticate(claimed, peer)
			// the oracles the model is given: url.Parse + Hostname, x509 VerifyHostname
			op := map[string]interface{}{"op": "authn", "claimed": claimed.String(), "cert": certs[cn] != nil, "resolve": ep != nil}
			host, parsed, covers := "", false, false
			if ep != nil {
				str, _ := ep.(string)
				if u, perr := url.Parse(str); perr == nil {
					parsed = true
					host = u.Hostname()
					if certs[cn] != nil {
						covers = certs[cn].VerifyHostname(host) == nil
					}
				}
			}
			op["parsed"], op["host"], op["covers"], op["case"] = parsed, host, covers, fmt.Sprintf("%s/%d", cn, ei)
			line := ""
			if err != nil {
				cls := "err:other"
				switch {
				case err.Error() == "missing TLS info":
					cls = "err:no-cert"
				case len(err.Error()) > 13 && err.Error()[:13] == "can't resolve":
					cls = "err:resolve"
				case err.Error() == "none of the DNS names in the peer's TLS certificate match the NutsComm endpoint":
					cls = "err:hostname"
				}
				line = fmt.Sprintf("authn %s auth=%v did=%s", cls, got.Authenticated, got.NodeDID.String())
			} else {
				line = fmt.Sprintf("authn ok auth=%v did=%s", got.Authenticated, got.NodeDID.String())
			}
			s.out.emit(vJSON(op), line)
		}
	}
	// HISTORIES on ONE authenticator instance: the DID document changes between calls (endpoint moved / removed / restored);
	// every call must be judged against the document as it is NOW
	if only == "" || strings.HasPrefix(only, "history") {
		res := &vMutableSvc{}
		auth := grpc.NewTLSAuthenticator(res)
		certH1 := &x509.Certificate{DNSNames: []string{"old.example.org"}}
		certH2 := &x509.Certificate{DNSNames: []string{"new.example.org"}}
		steps := []struct {
			endpoint interface{}
			cert     *x509.Certificate
		}{
			{"grpc://old.example.org:5555", certH1}, {"grpc://old.example.org:5555", certH1}, {"grpc://new.example.org:5555", certH1},
			{"grpc://new.example.org:5555", certH2}, {"grpc://new.example.org:5555", certH1}, {nil, certH1}, {nil, certH2},
			{"grpc://old.example.org:5555", certH2}, {"grpc://old.example.org:5555", certH1}, {"", certH1}, {"grpc://new.example.org:5555", certH1},
		}
		claimed := did.MustParseDID("did:nuts:moving")
		for k, st := range steps {
			res.endpoint = st.endpoint
			got, err := auth.Authenticate(claimed, transport.Peer{ID: "p", Address: "addr", Certificate: st.cert})
			op := map[string]interface{}{"op": "authn", "claimed": claimed.String(), "cert": true, "resolve": st.endpoint != nil, "case": fmt.Sprintf("history/%d", k)}
			host, parsed, covers := "", false, false
			if st.endpoint != nil {
				str, _ := st.endpoint.(string)
				if u, perr := url.Parse(str); perr == nil {
					parsed, host = true, u.Hostname()
					covers = st.cert.VerifyHostname(host) == nil
				}
			}
			op["parsed"], op["host"], op["covers"] = parsed, host, covers
			line := ""
			if err != nil {
				cls := "err:other"
				switch {
				case strings.HasPrefix(err.Error(), "can't resolve"):
					cls = "err:resolve"
				case strings.HasPrefix(err.Error(), "none of the DNS names"):
					cls = "err:hostname"
				}
				line = fmt.Sprintf("authn %s auth=%v did=%s", cls, got.Authenticated, got.NodeDID.String())
			} else {
				line = fmt.Sprintf("authn ok auth=%v did=%s", got.Authenticated, got.NodeDID.String())
			}
			s.out.emit(vJSON(op), line)
		}
	}
}

func TestVerifC15(t *testing.T) {
	vQuiet()
	outDir := os.Getenv("VERIF_OUT")
	if outDir == "" {
		t.Skip("VERIF_OUT not set")
	}
	seed := int64(vEnvInt("VERIF_SEED", 1))
	var ly *vC15Layout
	build := func(s *vSim, kind string, th bool) { ly = buildC15Universe(s.u) }
	if rp := os.Getenv("VERIF_REPLAY"); rp != "" {
		vReplay(t, rp, outDir, build)
		return
	}
	out := vOpen(outDir)
	defer out.close()
	s := vNewSim(t, out, seed)
	build(s, "c15", false)
	tier := os.Getenv("VERIF_TIER")
	s.emitUniverse("c15", seed, tier)
	s.authnCases("")
	var checks []vStoreCheck
	scs := ly.scenarios(s.u)
	reps := 1
	if tier == "thorough" {
		reps = 3
	}
	for rep := 0; rep < reps; rep++ {
		for i, sc := range scs {
			sc.Name = fmt.Sprintf("%s-r%d", sc.Name, rep)
			v := s.runC15Scenario(sc, ly, filepath.Join(outDir, fmt.Sprintf("c15-%d-%d", rep, i)), &checks)
			fmt.Fprintln(out.oracle, vJSON(v))
		}
	}
	for _, c := range checks {
		fmt.Fprintln(out.oracle, vJSON(map[string]interface{}{"kind": "store", "check": c}))
	}
	for _, l := range s.leaks {
		fmt.Fprintln(out.oracle, vJSON(map[string]interface{}{"kind": "leak", "leak": l}))
	}
	kinds := map[string]string{}
	for idx, k := range ly.kind {
		kinds[fmt.Sprint(idx)] = k
	}
	fmt.Fprintln(out.oracle, vJSON(map[string]interface{}{"kind": "palkinds", "kinds": kinds}))
}
