//go:build verif

package gossip

import (
	"fmt"

	"github.com/nuts-foundation/nuts-node/crypto/hash"
	"github.com/nuts-foundation/nuts-node/network/transport"
)

// VerifTick runs exactly what the per-peer ticker goroutine runs on a tick (callSenders), synchronously.
// Add-only export for the C07/C15 simulator; returns false when the manager has no queue for the peer.
func VerifTick(m Manager, peer transport.Peer) bool {
	mm := m.(*manager)
	mm.mutex.RLock()
	pq := mm.peers[peer.Key()]
	senders := mm.messageSenders
	mm.mutex.RUnlock()
	if pq == nil {
		return false
	}
	callSenders(peer, pq, senders)
	return true
}

// VerifQueue returns the queue, the log, the cached xor and clock of the peer's gossip queue.
func VerifQueue(m Manager, peer transport.Peer) (queue []hash.SHA256Hash, log []hash.SHA256Hash, xor hash.SHA256Hash, clock uint32, ok bool) {
	mm := m.(*manager)
	mm.mutex.RLock()
	pq := mm.peers[peer.Key()]
	mm.mutex.RUnlock()
	if pq == nil {
		return nil, nil, hash.EmptyHash(), 0, false
	}
	pq.do(func() {
		queue, xor, clock = pq.enqueued()
		log = pq.log.Values()
	})
	return queue, log, xor, clock, true
}

// VerifEntry identifies the queue object the manager holds for the peer ("" = none). The ticker goroutine of a queue is started
// when PeerConnected creates the object and stopped (for good) when PeerDisconnected finds it: the simulator, which runs the
// ticks itself, uses the identity to tick only queues whose ticker goroutine is alive.
func VerifEntry(m Manager, peer transport.Peer) string {
	mm := m.(*manager)
	mm.mutex.RLock()
	defer mm.mutex.RUnlock()
	pq := mm.peers[peer.Key()]
	if pq == nil {
		return ""
	}
	return fmt.Sprintf("%p", pq)
}
