//go:build verif

// C19 exploration harness (crash/timeout oracle) for network/transport/v2/handlers.go:handleTransactionPayload on a protocol
// instance configured the way a node WITHOUT a node DID configures it (New + Configure: no private-payload scheduler).
// The envelope model of the other handlers belongs to C07/C15.
package v2

import (
	"context"
	"encoding/json"
	"os"
	"testing"

	"github.com/nuts-foundation/go-did/did"
	"github.com/nuts-foundation/go-stoabs"
	"github.com/nuts-foundation/nuts-node/crypto"
	"github.com/nuts-foundation/nuts-node/crypto/hash"
	"github.com/nuts-foundation/nuts-node/network/dag"
	"github.com/nuts-foundation/nuts-node/network/transport/grpc"
	"github.com/nuts-foundation/nuts-node/test/io"
	"github.com/nuts-foundation/nuts-node/vdr/resolver"
	"go.uber.org/mock/gomock"
)

func TestVerifC19(t *testing.T) {
	dir := os.Getenv("VERIF_OUT")
	if dir == "" {
		t.Skip("VERIF_OUT not set")
	}
	o := c19Open(dir)
	defer o.close(dir)

	payload := []byte("Hello, World!")
	tx, _, _ := dag.CreateTestTransactionEx(0, hash.SHA256Sum(payload), nil)
	nodeDID := did.MustParseDID("did:nuts:node")

	mk := func(withDID bool) *protocol {
		ctrl := gomock.NewController(t)
		state := dag.NewMockState(ctrl)
		state.EXPECT().CorrectStateDetected().AnyTimes()
		state.EXPECT().Notifier(gomock.Any(), gomock.Any(), gomock.Any()).Return(dag.NewMockNotifier(ctrl), nil).AnyTimes()
		state.EXPECT().GetTransaction(gomock.Any(), tx.Ref()).Return(tx, nil).AnyTimes()
		state.EXPECT().GetTransaction(gomock.Any(), gomock.Any()).Return(nil, dag.ErrTransactionNotFound).AnyTimes()
		state.EXPECT().WritePayload(gomock.Any(), gomock.Any(), gomock.Any(), gomock.Any()).Return(nil).AnyTimes()
		cfg := DefaultConfig()
		cfg.Datadir = io.TestDirectory(t)
		id := did.DID{}
		if withDID {
			id = nodeDID
		}
		p := New(cfg, id, state, resolver.NewMockDIDResolver(ctrl), crypto.NewMockDecrypter(ctrl), nil, stoabs.NewMockKVStore(ctrl)).(*protocol)
		if err := p.Configure(""); err != nil {
			t.Fatal(err)
		}
		if withDID {
			n := dag.NewMockNotifier(ctrl)
			n.EXPECT().Finished(gomock.Any()).Return(nil).AnyTimes()
			p.privatePayloadReceiver = n
		}
		return p
	}
	protos := map[bool]*protocol{false: mk(false), true: mk(true)}
	conn := grpc.NewStubConnection(peer)

	handler := func(in string) string {
		var c struct {
			NodeDID bool
			Ref     string // "known" | "unknown" | "empty" | "short"
			Data    string // "match" | "mismatch" | "empty"
			NilMsg  bool
		}
		if json.Unmarshal([]byte(in), &c) != nil {
			return "err:harness"
		}
		msg := &TransactionPayload{}
		switch c.Ref {
		case "known":
			msg.TransactionRef = tx.Ref().Slice()
		case "unknown":
			msg.TransactionRef = hash.SHA256Sum([]byte("x")).Slice()
		case "short":
			msg.TransactionRef = []byte{1, 2, 3}
		}
		switch c.Data {
		case "match":
			msg.Data = payload
		case "mismatch":
			msg.Data = []byte("Hello, victim!")
		}
		env := &Envelope{Message: &Envelope_TransactionPayload{msg}}
		if c.NilMsg {
			env = &Envelope{Message: &Envelope_TransactionPayload{}}
		}
		if err := protos[c.NodeDID].handleTransactionPayload(context.Background(), conn, env); err != nil {
			return "err"
		}
		return "ok"
	}

	replay, isReplay := c19ReadOps()
	for _, op := range replay {
		if op["op"] == "x.v2.handleTransactionPayload" {
			in, _ := op["input"].(string)
			o.explore("v2.handleTransactionPayload", in, func() string { return handler(in) })
		}
	}
	if isReplay {
		return
	}
	for _, withDID := range []bool{true, false} {
		for _, ref := range []string{"known", "unknown", "empty", "short"} {
			for _, data := range []string{"match", "mismatch", "empty"} {
				// (an Envelope_TransactionPayload with a nil inner message cannot come off the wire: protobuf decodes a present
				// empty field to an empty message; not generated)
				for _, nilMsg := range []bool{false} {
					b, _ := json.Marshal(map[string]any{"NodeDID": withDID, "Ref": ref, "Data": data, "NilMsg": nilMsg})
					in := string(b)
					o.dist["v2-payload:case-table"]++
					o.explore("v2.handleTransactionPayload", in, func() string { return handler(in) })
				}
			}
		}
	}
}
