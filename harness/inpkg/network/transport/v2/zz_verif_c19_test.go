//go:build verif

// C19 exploration harness (crash/timeout oracle) for network/transport/v2/handlers.go:handleTransactionPayload on a protocol
// instance configured the way a node WITHOUT a node DID configures it (New + Configure: no private-payload scheduler).
// The envelope model of the other handlers belongs to C07/C15.
package v2

import (
	"context"
	"encoding/json"
	"os"
	"testing"
	"time"

	"github.com/nuts-foundation/go-did/did"
	"github.com/nuts-foundation/go-stoabs"
	"github.com/nuts-foundation/nuts-node/crypto"
	"github.com/nuts-foundation/nuts-node/crypto/hash"
	"github.com/nuts-foundation/nuts-node/network/dag"
	"github.com/nuts-foundation/nuts-node/network/dag/tree"
	"github.com/nuts-foundation/nuts-node/network/transport/v2/gossip"
	"github.com/nuts-foundation/nuts-node/network/transport/grpc"
	"github.com/nuts-foundation/nuts-node/test/io"
	"github.com/nuts-foundation/nuts-node/vdr/resolver"
	"go.uber.org/mock/gomock"
)

func TestVerifC19(t *testing.T) {
	dir := os.Getenv("VERIF_OUT")
	if dir == "" {
		t.Skip("VERIF_OUT not set")
	}
	o := c19Open(dir)
	defer o.close(dir)

	payload := []byte("Hello, World!")
	tx, _, _ := dag.CreateTestTransactionEx(0, hash.SHA256Sum(payload), nil)
	nodeDID := did.MustParseDID("did:nuts:node")

	mk := func(withDID bool) *protocol {
		ctrl := gomock.NewController(t)
		state := dag.NewMockState(ctrl)
		state.EXPECT().CorrectStateDetected().AnyTimes()
		state.EXPECT().Notifier(gomock.Any(), gomock.Any(), gomock.Any()).Return(dag.NewMockNotifier(ctrl), nil).AnyTimes()
		state.EXPECT().GetTransaction(gomock.Any(), tx.Ref()).Return(tx, nil).AnyTimes()
		state.EXPECT().GetTransaction(gomock.Any(), gomock.Any()).Return(nil, dag.ErrTransactionNotFound).AnyTimes()
		state.EXPECT().WritePayload(gomock.Any(), gomock.Any(), gomock.Any(), gomock.Any()).Return(nil).AnyTimes()
		cfg := DefaultConfig()
		cfg.Datadir = io.TestDirectory(t)
		id := did.DID{}
		if withDID {
			id = nodeDID
		}
		p := New(cfg, id, state, resolver.NewMockDIDResolver(ctrl), crypto.NewMockDecrypter(ctrl), nil, stoabs.NewMockKVStore(ctrl)).(*protocol)
		if err := p.Configure(""); err != nil {
			t.Fatal(err)
		}
		if withDID {
			n := dag.NewMockNotifier(ctrl)
			n.EXPECT().Finished(gomock.Any()).Return(nil).AnyTimes()
			p.privatePayloadReceiver = n
		}
		return p
	}
	protos := map[bool]*protocol{false: mk(false), true: mk(true)}
	conn := grpc.NewStubConnection(peer)

	handler := func(in string) string {
		var c struct {
			NodeDID bool
			Ref     string // "known" | "unknown" | "empty" | "short"
			Data    string // "match" | "mismatch" | "empty"
			NilMsg  bool
		}
		if json.Unmarshal([]byte(in), &c) != nil {
			return "err:harness"
		}
		msg := &TransactionPayload{}
		switch c.Ref {
		case "known":
			msg.TransactionRef = tx.Ref().Slice()
		case "unknown":
			msg.TransactionRef = hash.SHA256Sum([]byte("x")).Slice()
		case "short":
			msg.TransactionRef = []byte{1, 2, 3}
		}
		switch c.Data {
		case "match":
			msg.Data = payload
		case "mismatch":
			msg.Data = []byte("Hello, victim!")
		}
		env := &Envelope{Message: &Envelope_TransactionPayload{msg}}
		if c.NilMsg {
			env = &Envelope{Message: &Envelope_TransactionPayload{}}
		}
		if err := protos[c.NodeDID].handleTransactionPayload(context.Background(), conn, env); err != nil {
			return "err"
		}
		return "ok"
	}

	// ---- every handler × wire-reachable field combinations (empty / short / oversized byte fields, zero numbers, unknown or
	// LIVE conversation ids, Start >= End, garbage IBLT/transactions). Handlers are called synchronously (Handle would start
	// goroutines whose panics cannot be observed). The state/sender/gossip collaborators are permissive mocks.
	envCtrl := gomock.NewController(t)
	est := dag.NewMockState(envCtrl)
	est.EXPECT().CorrectStateDetected().AnyTimes()
	est.EXPECT().IncorrectStateDetected().AnyTimes()
	est.EXPECT().Notifier(gomock.Any(), gomock.Any(), gomock.Any()).Return(dag.NewMockNotifier(envCtrl), nil).AnyTimes()
	est.EXPECT().GetTransaction(gomock.Any(), tx.Ref()).Return(tx, nil).AnyTimes()
	est.EXPECT().GetTransaction(gomock.Any(), gomock.Any()).Return(nil, dag.ErrTransactionNotFound).AnyTimes()
	est.EXPECT().WritePayload(gomock.Any(), gomock.Any(), gomock.Any(), gomock.Any()).Return(nil).AnyTimes()
	est.EXPECT().ReadPayload(gomock.Any(), gomock.Any()).Return(payload, nil).AnyTimes()
	est.EXPECT().IsPresent(gomock.Any(), tx.Ref()).Return(true, nil).AnyTimes()
	est.EXPECT().IsPresent(gomock.Any(), gomock.Any()).Return(false, nil).AnyTimes()
	est.EXPECT().FindBetweenLC(gomock.Any(), gomock.Any(), gomock.Any()).Return([]dag.Transaction{tx}, nil).AnyTimes()
	est.EXPECT().XOR(gomock.Any()).Return(hash.SHA256Sum([]byte("xor")), uint32(7)).AnyTimes()
	est.EXPECT().IBLT(gomock.Any()).DoAndReturn(func(uint32) (tree.Iblt, uint32) { return *tree.NewIblt(dag.IbltNumBuckets), 7 }).AnyTimes()
	snd := NewMockmessageSender(envCtrl)
	snd.EXPECT().sendState(gomock.Any(), gomock.Any(), gomock.Any()).Return(nil).AnyTimes()
	snd.EXPECT().sendTransactionList(gomock.Any(), gomock.Any(), gomock.Any()).Return(nil).AnyTimes()
	snd.EXPECT().sendTransactionListQuery(gomock.Any(), gomock.Any()).Return(nil).AnyTimes()
	snd.EXPECT().sendTransactionRangeQuery(gomock.Any(), gomock.Any(), gomock.Any()).Return(nil).AnyTimes()
	snd.EXPECT().sendTransactionSet(gomock.Any(), gomock.Any(), gomock.Any(), gomock.Any(), gomock.Any()).Return(nil).AnyTimes()
	snd.EXPECT().sendGossipMsg(gomock.Any(), gomock.Any(), gomock.Any(), gomock.Any()).Return(nil).AnyTimes()
	gm := gossip.NewMockManager(envCtrl)
	gm.EXPECT().GossipReceived(gomock.Any(), gomock.Any()).AnyTimes()
	ecfg := DefaultConfig()
	ecfg.Datadir = io.TestDirectory(t)
	ep := New(ecfg, did.DID{}, est, resolver.NewMockDIDResolver(envCtrl), crypto.NewMockDecrypter(envCtrl), nil, stoabs.NewMockKVStore(envCtrl)).(*protocol)
	ep.sender, ep.gManager = snd, gm
	ep.cMan = newConversationManager(time.Minute)
	ep.listHandler = newTransactionListHandler(context.Background(), ep.handleTransactionList)
	bytesOf := func(k string) []byte {
		switch k {
		case "nil":
			return nil
		case "empty":
			return []byte{}
		case "short":
			return []byte{1, 2, 3}
		case "ref":
			return tx.Ref().Slice()
		case "other":
			return hash.SHA256Sum([]byte("x")).Slice()
		case "long":
			return make([]byte, 33)
		case "txdata":
			return tx.Data()
		case "iblt-empty":
			b, _ := tree.NewIblt(dag.IbltNumBuckets).MarshalBinary()
			return b
		case "iblt-6":
			b, _ := tree.NewIblt(6).MarshalBinary()
			return b
		case "garbage":
			return []byte("\x00\xff garbage \x7f")
		}
		return []byte(k)
	}
	envelopeHandler := func(in string) string {
		var c struct {
			Msg                    string
			Req                    string // which request of this node opened the live conversation: "" (the matching one) | "State" | "TransactionListQuery" | "TransactionRangeQuery"
			Cid                    string // "live" (a conversation started by this node) | "unknown" | "empty"
			A, B, C2               string // byte-field selectors
			N1, N2, N3             uint32
			List                   []string
		}
		if json.Unmarshal([]byte(in), &c) != nil {
			return "err:harness"
		}
		var list [][]byte
		for _, l := range c.List {
			list = append(list, bytesOf(l))
		}
		cid := func(req checkable) []byte {
			// type confusion: the peer answers ANOTHER request of this node with this envelope type, reusing that conversation's id
			switch c.Req {
			case "State":
				req = &Envelope_State{State: &State{XOR: bytesOf("ref"), LC: c.N1}}
			case "TransactionListQuery":
				req = &Envelope_TransactionListQuery{TransactionListQuery: &TransactionListQuery{Refs: [][]byte{tx.Ref().Slice()}}}
			case "TransactionRangeQuery":
				req = &Envelope_TransactionRangeQuery{TransactionRangeQuery: &TransactionRangeQuery{Start: 0, End: 10}}
			}
			switch c.Cid {
			case "live":
				conv := ep.cMan.startConversation(req, peer)
				if conv == nil {
					return nil
				}
				return conv.conversationID.slice()
			case "unknown":
				return newConversationID().slice()
			}
			return nil
		}
		var err error
		bg := context.Background()
		switch c.Msg {
		case "Gossip":
			err = ep.handleGossip(bg, conn, &Envelope{Message: &Envelope_Gossip{&Gossip{XOR: bytesOf(c.A), LC: c.N1, Transactions: list}}})
		case "State":
			err = ep.handleState(bg, conn, &Envelope{Message: &Envelope_State{&State{ConversationID: bytesOf(c.B), XOR: bytesOf(c.A), LC: c.N1}}})
		case "TransactionSet":
			id := cid(&Envelope_State{State: &State{XOR: bytesOf("ref"), LC: c.N1}})
			err = ep.handleTransactionSet(bg, conn, &Envelope{Message: &Envelope_TransactionSet{&TransactionSet{ConversationID: id, LCReq: c.N1, LC: c.N2, IBLT: bytesOf(c.A)}}})
		case "TransactionListQuery":
			err = ep.handleTransactionListQuery(bg, conn, &Envelope{Message: &Envelope_TransactionListQuery{&TransactionListQuery{ConversationID: bytesOf(c.B), Refs: list}}})
		case "TransactionRangeQuery":
			err = ep.handleTransactionRangeQuery(bg, conn, &Envelope{Message: &Envelope_TransactionRangeQuery{&TransactionRangeQuery{ConversationID: bytesOf(c.B), Start: c.N1, End: c.N2}}})
		case "TransactionList":
			var txs []*Transaction
			for _, l := range list {
				txs = append(txs, &Transaction{Data: l, Payload: bytesOf(c.A)})
			}
			if c.C2 == "niltx" {
				txs = append(txs, &Transaction{})
			}
			id := cid(&Envelope_TransactionListQuery{TransactionListQuery: &TransactionListQuery{Refs: [][]byte{tx.Ref().Slice()}}})
			err = ep.handleTransactionList(bg, conn, &Envelope{Message: &Envelope_TransactionList{&TransactionList{ConversationID: id, Transactions: txs, TotalMessages: c.N1, MessageNumber: c.N2}}})
		case "TransactionListFromRange":
			var txs []*Transaction
			for _, l := range list {
				txs = append(txs, &Transaction{Data: l})
			}
			id := cid(&Envelope_TransactionRangeQuery{TransactionRangeQuery: &TransactionRangeQuery{Start: 0, End: 10}})
			err = ep.handleTransactionList(bg, conn, &Envelope{Message: &Envelope_TransactionList{&TransactionList{ConversationID: id, Transactions: txs, TotalMessages: c.N1, MessageNumber: c.N2}}})
		case "TransactionPayloadQuery":
			err = ep.handleTransactionPayloadQuery(bg, conn, &Envelope{Message: &Envelope_TransactionPayloadQuery{&TransactionPayloadQuery{ConversationID: bytesOf(c.B), TransactionRef: bytesOf(c.A)}}})
		case "Diagnostics":
			err = ep.handleDiagnostics(bg, conn, &Envelope{Message: &Envelope_DiagnosticsBroadcast{&Diagnostics{}}})
		default:
			return "err:harness"
		}
		if err != nil {
			return "err"
		}
		return "ok"
	}

	replay, isReplay := c19ReadOps()
	for _, op := range replay {
		if op["op"] == "x.v2.envelope" {
			in, _ := op["input"].(string)
			o.explore("v2.envelope", in, func() string { return envelopeHandler(in) })
		}
		if op["op"] == "x.v2.handleTransactionPayload" {
			in, _ := op["input"].(string)
			o.explore("v2.handleTransactionPayload", in, func() string { return handler(in) })
		}
	}
	if isReplay {
		return
	}
	for _, withDID := range []bool{true, false} {
		for _, ref := range []string{"known", "unknown", "empty", "short"} {
			for _, data := range []string{"match", "mismatch", "empty"} {
				// (an Envelope_TransactionPayload with a nil inner message cannot come off the wire: protobuf decodes a present
				// empty field to an empty message; not generated)
				for _, nilMsg := range []bool{false} {
					b, _ := json.Marshal(map[string]any{"NodeDID": withDID, "Ref": ref, "Data": data, "NilMsg": nilMsg})
					in := string(b)
					o.dist["v2-payload:case-table"]++
					o.explore("v2.handleTransactionPayload", in, func() string { return handler(in) })
				}
			}
		}
	}
	// envelope case table
	sel := []string{"nil", "empty", "short", "ref", "other", "long", "garbage"}
	nums := []uint32{0, 1, 7, 511, 512, 4294967295}
	runE := func(m map[string]any, kind string) {
		b, _ := json.Marshal(m)
		in := string(b)
		o.dist["v2-envelope:"+kind]++
		o.explore("v2.envelope", in, func() string { return envelopeHandler(in) })
	}
	lists := [][]string{nil, {}, {"ref"}, {"short"}, {"empty"}, {"nil"}, {"ref", "ref"}, {"ref", "other", "long", "short"}, {"txdata"}, {"garbage"}, {"txdata", "txdata"}}
	for _, a := range sel {
		for _, n := range nums {
			for _, l := range lists {
				runE(map[string]any{"Msg": "Gossip", "A": a, "N1": n, "List": l}, "Gossip")
			}
			for _, b := range []string{"nil", "short", "ref"} {
				runE(map[string]any{"Msg": "State", "A": a, "B": b, "N1": n}, "State")
			}
		}
		for _, b := range []string{"nil", "short", "ref"} {
			runE(map[string]any{"Msg": "TransactionPayloadQuery", "A": a, "B": b}, "TransactionPayloadQuery")
		}
	}
	for _, cidK := range []string{"live", "unknown", "empty"} {
		for _, ib := range []string{"nil", "empty", "short", "iblt-empty", "iblt-6", "garbage"} {
			for _, n1 := range nums {
				for _, n2 := range []uint32{0, 7, 4294967295} {
					runE(map[string]any{"Msg": "TransactionSet", "Cid": cidK, "A": ib, "N1": n1, "N2": n2}, "TransactionSet")
				}
			}
		}
		for _, l := range lists {
			for _, tot := range []uint32{0, 1, 2} {
				for _, num := range []uint32{0, 1, 2, 3} {
					for _, c2 := range []string{"", "niltx"} {
						runE(map[string]any{"Msg": "TransactionList", "Cid": cidK, "A": "nil", "List": l, "N1": tot, "N2": num, "C2": c2}, "TransactionList")
					}
					runE(map[string]any{"Msg": "TransactionListFromRange", "Cid": cidK, "List": l, "N1": tot, "N2": num}, "TransactionList(range)")
				}
			}
		}
	}
	// type-confusion matrix: every request type the node sends × every reply handler that looks the conversation up by the peer-supplied id
	for _, req := range []string{"State", "TransactionListQuery", "TransactionRangeQuery"} {
		for _, l := range [][]string{nil, {"txdata"}, {"garbage"}} {
			for _, tot := range []uint32{0, 1} {
				runE(map[string]any{"Msg": "TransactionList", "Req": req, "Cid": "live", "A": "nil", "List": l, "N1": tot, "N2": tot}, "reply-type-confusion")
			}
		}
		for _, ib := range []string{"iblt-empty", "garbage", "nil"} {
			for _, n1 := range []uint32{0, 7} {
				runE(map[string]any{"Msg": "TransactionSet", "Req": req, "Cid": "live", "A": ib, "N1": n1, "N2": n1}, "reply-type-confusion")
			}
		}
	}
	for _, l := range lists {
		for _, b := range []string{"nil", "short", "ref"} {
			runE(map[string]any{"Msg": "TransactionListQuery", "B": b, "List": l}, "TransactionListQuery")
		}
	}
	for _, n1 := range nums {
		for _, n2 := range nums {
			runE(map[string]any{"Msg": "TransactionRangeQuery", "B": "ref", "N1": n1, "N2": n2}, "TransactionRangeQuery")
		}
	}
	runE(map[string]any{"Msg": "Diagnostics"}, "Diagnostics")
}
