//go:build verif

package v2

import (
	"bufio"
	"encoding/json"
	"fmt"
	"github.com/nuts-foundation/nuts-node/network/transport/grpc"
	"google.golang.org/protobuf/proto"
	"math/rand"
	"os"
	"path/filepath"
	"sort"
	"strconv"
	"strings"
	"testing"

	"github.com/nuts-foundation/nuts-node/crypto/hash"
	"github.com/nuts-foundation/nuts-node/network/dag"
	"github.com/nuts-foundation/nuts-node/network/transport/v2/gossip"
)

// layout of the C07 universe (index ranges)
type vLayout struct {
	L, X, W, F      int // trunk length, branch length, fan width, fresh chain length
	trunk           int // start index of each region
	leaf1, leaf2    int
	bx, by          int
	branchAt        int // trunk position the branches hang off
	wide, wideAt    int
	fresh           [3]int
	invalid         []int // indices of invalid transactions
	badSig, badClk  int
	dangling, root2 int
	garbage         int
	badSigLate      int
	privA, privB    int // private transactions (C15 flavour inside C07 scenarios)
	end             int
}

func buildC07Universe(u *vUniverse, thorough bool) *vLayout {
	ly := &vLayout{L: 1640, X: 700, W: 820, F: 30}
	if thorough {
		ly = &vLayout{L: 3700, X: 1600, W: 1500, F: 40}
	}
	ly.trunk = len(u.txs)
	for i := 0; i < ly.L; i++ {
		if i == 0 {
			u.add(vTxSpec{clock: -1, tag: "trunk"})
		} else {
			u.add(vTxSpec{prevs: []int{ly.trunk + i - 1}, clock: -1, tag: "trunk"})
		}
	}
	ly.leaf1 = len(u.txs)
	for i := 0; i < ly.L; i++ {
		u.add(vTxSpec{prevs: []int{ly.trunk + i}, clock: -1, tag: "leaf1"})
	}
	ly.leaf2 = len(u.txs)
	for i := 0; i < ly.L; i++ {
		u.add(vTxSpec{prevs: []int{ly.leaf1 + i}, clock: -1, tag: "leaf2"})
	}
	ly.branchAt = 40
	ly.bx = len(u.txs)
	for i := 0; i < ly.X; i++ {
		p := ly.bx + i - 1
		if i == 0 {
			p = ly.trunk + ly.branchAt
		}
		u.add(vTxSpec{prevs: []int{p}, clock: -1, tag: "bx"})
	}
	ly.by = len(u.txs)
	for i := 0; i < ly.X; i++ {
		p := ly.by + i - 1
		if i == 0 {
			p = ly.trunk + ly.branchAt
		}
		u.add(vTxSpec{prevs: []int{p}, clock: -1, tag: "by"})
	}
	ly.wideAt = 300
	ly.wide = len(u.txs)
	for i := 0; i < ly.W; i++ {
		u.add(vTxSpec{prevs: []int{ly.trunk + ly.wideAt}, clock: -1, tag: "wide"})
	}
	for k := 0; k < 3; k++ {
		ly.fresh[k] = len(u.txs)
		for i := 0; i < ly.F; i++ {
			p := ly.fresh[k] + i - 1
			if i == 0 {
				p = ly.trunk + 1
			}
			u.add(vTxSpec{prevs: []int{p}, clock: -1, tag: "fresh"})
		}
	}
	// invalid transactions (never admissible)
	ly.badSig = u.add(vTxSpec{prevs: []int{ly.trunk + 3}, clock: -1, badSig: true, tag: "invalid"})
	ly.badClk = u.add(vTxSpec{prevs: []int{ly.trunk + 3}, clock: 9, tag: "invalid"})
	ly.dangling = u.add(vTxSpec{prevs: []int{ly.trunk + 3}, extraPrev: []hash.SHA256Hash{hash.SHA256Sum([]byte("nowhere"))}, clock: 4, tag: "invalid"})
	ly.root2 = u.add(vTxSpec{clock: -1, payload: []byte("second root"), tag: "invalid"})
	ly.garbage = u.add(vTxSpec{garbage: true, tag: "invalid"})
	ly.badSigLate = u.add(vTxSpec{prevs: []int{ly.trunk + 600}, clock: -1, badSig: true, tag: "invalid"})
	ly.invalid = []int{ly.badSig, ly.badClk, ly.dangling, ly.root2, ly.garbage, ly.badSigLate}
	// two private transactions hanging off the trunk
	palAB := &vPal{dids: []string{"did:nuts:A", "did:nuts:B"}}
	palAB.ciphers = []int{u.cipher("did:nuts:A", palAB.dids), u.cipher("did:nuts:B", palAB.dids)}
	ly.privA = u.add(vTxSpec{prevs: []int{ly.trunk + 2}, clock: -1, pal: palAB, tag: "priv"})
	ly.privB = u.add(vTxSpec{prevs: []int{ly.trunk + 700}, clock: -1, pal: palAB, tag: "priv"})
	ly.end = len(u.txs)
	return ly
}

type vGen struct {
	s   *vSim
	ly  *vLayout
	rnd *rand.Rand
	// bookkeeping for `create`
	freshNext [3]int
}

func (g *vGen) conns2(nNodes int, did bool) []vConnCfg {
	var r []vConnCfg
	for a := 0; a < nNodes; a++ {
		for b := 0; b < nNodes; b++ {
			if a != b {
				c := vConnCfg{At: a, Peer: b, Auth: did}
				if did {
					c.Did = "did:nuts:" + string(rune('A'+b))
				}
				r = append(r, c)
			}
		}
	}
	return r
}

func (g *vGen) nodeCfg(i int, withDid bool, dagRanges [][2]int) vNodeCfg {
	nc := vNodeCfg{Resolvable: true, Dag: dagRanges, Kaks: []vKak{}, Priv: []int{}, NoPayload: []int{}}
	if withDid {
		nc.Did = "did:nuts:" + string(rune('A'+i))
		kid, _ := g.s.u.kak(nc.Did)
		nc.Kaks = []vKak{{Kid: kid, Held: true}}
	}
	return nc
}

// scenario templates: each returns the DAG ranges of the nodes and a list of features
func (g *vGen) template(k int, nNodes int) ([][][2]int, []string, string) {
	ly, r := g.ly, g.rnd
	pg := int(dag.PageSize)
	maxPages := ly.L / pg
	dags := make([][][2]int, nNodes)
	feats := []string{}
	name := ""
	switch k {
	case 0: // one side n pages behind
		pages := 1 + r.Intn(maxPages)
		b := ly.L - r.Intn(40)
		a := b - pages*pg + r.Intn(60) - 30
		if a < 2 {
			a = 2 + r.Intn(30)
		}
		dags[0] = [][2]int{{ly.trunk, ly.trunk + a}}
		dags[1] = [][2]int{{ly.trunk, ly.trunk + b}}
		name = fmt.Sprintf("behind-%dp", pages)
		feats = append(feats, fmt.Sprintf("pages-behind=%d", (b-a)/pg))
	case 1: // disjoint branches
		x := []int{1, 10, 200, 650}[r.Intn(4)]
		y := []int{1, 10, 200, 650}[r.Intn(4)]
		if x > ly.X {
			x = ly.X
		}
		if y > ly.X {
			y = ly.X
		}
		c := ly.branchAt + 1 + r.Intn(30)
		dags[0] = [][2]int{{ly.trunk, ly.trunk + c}, {ly.bx, ly.bx + x}}
		dags[1] = [][2]int{{ly.trunk, ly.trunk + c}, {ly.by, ly.by + y}}
		name = fmt.Sprintf("branches-%d-%d", x, y)
		feats = append(feats, "disjoint-branches")
	case 2: // leaf differences spread over many pages
		sizes := []int{1, 10, 200, 700, 1500}
		d := sizes[r.Intn(len(sizes))]
		if d > ly.L-20 {
			d = ly.L - 20
		}
		a := ly.L - r.Intn(20)
		// node 1 has d leaves node 0 lacks, spread as `parts` runs over the trunk
		parts := 1 + r.Intn(5)
		per := d / parts
		if per == 0 {
			per = 1
			parts = d
		}
		dags[0] = [][2]int{{ly.trunk, ly.trunk + a}}
		dags[1] = [][2]int{{ly.trunk, ly.trunk + a}}
		got := 0
		for p := 0; p < parts; p++ {
			lo := p * (a - 1) / parts
			n := per
			if p == parts-1 {
				n = d - got
			}
			if lo+n > a-1 {
				n = a - 1 - lo
			}
			if n <= 0 {
				continue
			}
			dags[1] = append(dags[1], [2]int{ly.leaf1 + lo, ly.leaf1 + lo + n})
			if r.Intn(3) == 0 { // second-level leaves: prev dependencies inside the difference
				dags[1] = append(dags[1], [2]int{ly.leaf2 + lo, ly.leaf2 + lo + n/2})
			}
			got += n
		}
		// node 0 has a few leaves of its own elsewhere
		if r.Intn(2) == 0 {
			lo := r.Intn(a - 30)
			dags[0] = append(dags[0], [2]int{ly.leaf2 - 1 - lo - 5, ly.leaf2 - 1 - lo})
			// those are leaf1 indices near the end: only valid if below the trunk prefix
			last := dags[0][len(dags[0])-1]
			if last[1]-ly.leaf1 > a-1 || last[0] < ly.leaf1 {
				dags[0] = dags[0][:len(dags[0])-1]
			}
		}
		name = fmt.Sprintf("leaves-%d-in-%d", d, parts)
		feats = append(feats, fmt.Sprintf("diff=%d", d), fmt.Sprintf("runs=%d", parts))
	case 3: // many refs per clock
		a := ly.wideAt + 1 + r.Intn(200)
		w := []int{50, 300, ly.W}[r.Intn(3)]
		dags[0] = [][2]int{{ly.trunk, ly.trunk + a}}
		dags[1] = [][2]int{{ly.trunk, ly.trunk + a}, {ly.wide, ly.wide + w}}
		name = fmt.Sprintf("wide-%d", w)
		feats = append(feats, "many-refs-per-clock")
	case 4: // mix: behind + branch + leaves
		a := 100 + r.Intn(ly.L-200)
		b := 100 + r.Intn(ly.L-200)
		dags[0] = [][2]int{{ly.trunk, ly.trunk + a}, {ly.bx, ly.bx + r.Intn(ly.X)}, {ly.leaf1 + 10, ly.leaf1 + 10 + r.Intn(60)}}
		dags[1] = [][2]int{{ly.trunk, ly.trunk + b}, {ly.by, ly.by + r.Intn(ly.X)}, {ly.leaf1 + 50, ly.leaf1 + 50 + r.Intn(40)}}
		name = "mix"
		feats = append(feats, "mix")
	case 7: // EQUAL page height, one side lacks > 650 transactions on pages >= 1 (one IBLT cannot decode them; page 0 is identical)
		a := ly.L - r.Intn(20)
		n := 700 + r.Intn(300)
		lo := pg + 10 + r.Intn(40)
		if lo+n > a-1 {
			n = a - 1 - lo
		}
		who := r.Intn(2)
		dags[0] = [][2]int{{ly.trunk, ly.trunk + a}}
		dags[1] = [][2]int{{ly.trunk, ly.trunk + a}}
		// first- and second-level leaves over the same clocks: > 650 missing refs within ONE page
		dags[who] = append(dags[who], [2]int{ly.leaf1 + lo, ly.leaf1 + lo + n}, [2]int{ly.leaf2 + lo, ly.leaf2 + lo + n})
		if r.Intn(2) == 0 { // and a handful the other way round, on the last page
			dags[1-who] = append(dags[1-who], [2]int{ly.leaf1 + a - 30, ly.leaf1 + a - 30 + r.Intn(20)})
		}
		name = fmt.Sprintf("equalheight-%d-on-page1plus", n)
		feats = append(feats, "equal-height-large-diff-on-page>=1")
	case 6: // a peer that is BEHIND with a wide, shallow DAG: > 650 transactions on page 0 the other side lacks, the other several pages ahead
		short := ly.wideAt + 1 + r.Intn(100) // still on page 0
		w := 700 + r.Intn(ly.W-700+1)
		long := ly.L - r.Intn(60)
		if r.Intn(4) == 0 {
			long = pg + 40 + r.Intn(pg) // only one or two pages ahead
		}
		behind, ahead := 1, 0
		if r.Intn(2) == 0 {
			behind, ahead = 0, 1
		}
		dags[behind] = [][2]int{{ly.trunk, ly.trunk + short}, {ly.wide, ly.wide + w}}
		dags[ahead] = [][2]int{{ly.trunk, ly.trunk + long}}
		name = fmt.Sprintf("widepage0-behind-%d", w)
		feats = append(feats, "behind-peer-wide-page0", fmt.Sprintf("pages-ahead=%d", long/pg))
	case 5: // equal DAGs (stability) or tiny difference
		a := 50 + r.Intn(ly.L-60)
		dags[0] = [][2]int{{ly.trunk, ly.trunk + a}}
		dags[1] = [][2]int{{ly.trunk, ly.trunk + a}}
		if r.Intn(2) == 0 {
			dags[1] = append(dags[1], [2]int{ly.leaf1 + a - 2, ly.leaf1 + a - 1})
		}
		name = "equal-or-one"
		feats = append(feats, "stability")
	}
	for i := 2; i < nNodes; i++ {
		a := 20 + r.Intn(ly.L-30)
		dags[i] = [][2]int{{ly.trunk, ly.trunk + a}, {ly.fresh[2], ly.fresh[2] + r.Intn(ly.F)}}
		if i == 2 {
			g.freshNext[2] = dags[i][1][1] - ly.fresh[2]
		}
	}
	return dags, feats, name
}

func (g *vGen) liveConv(n *vNode) (cid [2]int, kind string, a, b uint32, refs []hash.SHA256Hash, ok bool) {
	n.p.cMan.mutex.Lock()
	defer n.p.cMan.mutex.Unlock()
	var keys []string
	for k := range n.p.cMan.conversations {
		if _, known := g.s.cidName[k]; known {
			keys = append(keys, k)
		}
	}
	if len(keys) == 0 {
		return
	}
	sort.Slice(keys, func(i, j int) bool { return fmt.Sprint(g.s.cidName[keys[i]]) < fmt.Sprint(g.s.cidName[keys[j]]) })
	k := keys[g.rnd.Intn(len(keys))]
	c := n.p.cMan.conversations[k]
	cid = g.s.cidName[k]
	ok = true
	switch d := c.conversationData.(type) {
	case *Envelope_State:
		kind = "state"
		a = d.State.LC
	case *Envelope_TransactionListQuery:
		kind = "lq"
		refs = vRefs(d.TransactionListQuery.Refs)
	case *Envelope_TransactionRangeQuery:
		kind = "rq"
		a, b = d.TransactionRangeQuery.Start, d.TransactionRangeQuery.End
	}
	return
}

func (g *vGen) plName(i int) string {
	t := g.s.u.txs[i]
	if t.tx == nil || t.pal != nil {
		return ""
	}
	return g.s.u.payID[t.ph]
}

// a forged message for node `to`, pretending to come from `from`
func (g *vGen) forge(from, to int) *vMsg {
	ly, r, s := g.ly, g.rnd, g.s
	n := s.nodes[to]
	cid, kind, a, b, refs, live := g.liveConv(n)
	forgedCid := [2]int{7, r.Intn(3)}
	pick := r.Intn(17)
	if pick >= 14 {
		pick = 1
	}
	someValid := func(k int) []vNetTx { // valid transactions the node may or may not have
		var l []vNetTx
		base := ly.trunk + r.Intn(ly.L-k-1)
		for i := 0; i < k; i++ {
			l = append(l, vNetTx{I: base + i, Pl: g.plName(base + i)})
		}
		return l
	}
	inv := ly.invalid[r.Intn(len(ly.invalid))]
	switch pick {
	case 0: // TransactionList without conversation
		return &vMsg{T: "tl", C: &forgedCid, Num: 1, Total: 1, Txs: someValid(1 + r.Intn(4))}
	case 1: // TransactionList on a live conversation with whatever content
		if live && r.Intn(3) != 0 {
			// right transaction, WRONG payload (rolls the write transaction back) / boundary clocks of a range conversation
			l := someValid(1 + r.Intn(2))
			l[0].Pl = g.plName(ly.trunk + 1)
			if kind == "rq" {
				for _, c := range []int{int(a), int(b) - 1, int(b)} {
					if c >= 0 && c < ly.L {
						l = append(l, vNetTx{I: ly.trunk + c, Pl: g.plName(ly.trunk + c)})
					}
				}
			}
			return &vMsg{T: "tl", C: &cid, Num: 1, Total: 2, Txs: l}
		}
		if !live {
			return &vMsg{T: "tl", C: &forgedCid, Num: 1, Total: 1, Txs: []vNetTx{{I: inv, Pl: g.plName(inv)}}}
		}
		return &vMsg{T: "tl", C: &cid, Num: 1, Total: uint32(1 + r.Intn(2)), Txs: someValid(1 + r.Intn(3))}
	case 2: // invalid transaction on a live conversation, shaped to pass the conversation check where possible
		if !live {
			return &vMsg{T: "tl", C: &forgedCid, Num: 1, Total: 1, Txs: []vNetTx{{I: inv}}}
		}
		return &vMsg{T: "tl", C: &cid, Num: 1, Total: 2, Txs: []vNetTx{{I: inv, Pl: g.plName(inv)}}}
	case 3: // in-range (for a range conversation) but invalid / out of order
		if live && kind == "rq" {
			var l []vNetTx
			for _, i := range []int{ly.badSig, ly.badClk, ly.dangling, ly.root2, ly.badSigLate} {
				if c := s.u.txs[i].clock; c >= a && c < b {
					l = append(l, vNetTx{I: i, Pl: g.plName(i)})
				}
			}
			// plus a valid one whose prevs the node may lack
			hi := int(b)
			if hi > ly.L-1 {
				hi = ly.L - 1
			}
			if hi > int(a) {
				k := ly.trunk + int(a) + r.Intn(hi-int(a))
				l = append(l, vNetTx{I: k, Pl: g.plName(k)})
			}
			return &vMsg{T: "tl", C: &cid, Num: 1, Total: 1, Txs: l}
		}
		if live && kind == "lq" && len(refs) > 0 {
			// requested refs, but in reverse clock order / without payload
			var l []vNetTx
			for i := len(refs) - 1; i >= 0 && len(l) < 5; i-- {
				if t := s.u.byRef[refs[i]]; t != nil {
					pl := g.plName(t.idx)
					empty := false
					if r.Intn(3) == 0 {
						pl = ""
						empty = r.Intn(2) == 0 // absent vs present-but-empty payload field
					}
					l = append(l, vNetTx{I: t.idx, Pl: pl, Empty: empty})
				}
			}
			return &vMsg{T: "tl", C: &cid, Num: 1, Total: 3, Txs: l}
		}
		return &vMsg{T: "tl", C: &forgedCid, Num: 2, Total: 2, Txs: someValid(2)}
	case 4: // TransactionSet: unknown conversation / wrong LCReq / garbage IBLT / arbitrary IBLT
		m := &vMsg{T: "set", C: &forgedCid, LCReq: uint32(r.Intn(ly.L)), LC: uint32(r.Intn(ly.L + 600))}
		if live {
			m.C = &cid
			if kind == "state" && r.Intn(4) != 0 {
				m.LCReq = a
			}
		}
		switch r.Intn(3) {
		case 0:
			m.IGarbage = true
		case 1:
			lo := ly.trunk + r.Intn(ly.L-100)
			m.ISet = [][2]int{{ly.trunk, lo}, {ly.leaf1 + 3, ly.leaf1 + 3 + r.Intn(20)}}
		default:
			m.ISet = [][2]int{{ly.trunk, ly.trunk + r.Intn(ly.L)}}
		}
		return m
	case 5: // gossip with arbitrary xor and refs (unknown, invalid, known)
		m := &vMsg{T: "gossip", LC: uint32(r.Intn(ly.L + 100)), XSet: [][2]int{{ly.trunk, ly.trunk + r.Intn(ly.L)}}}
		for i := 0; i < r.Intn(5); i++ {
			m.Refs = append(m.Refs, r.Intn(ly.end))
		}
		return m
	case 6: // gossip whose refs exactly explain the difference to a superset
		k := r.Intn(ly.F)
		m := &vMsg{T: "gossip", LC: uint32(r.Intn(ly.L)), XSet: [][2]int{{ly.trunk, ly.trunk + 5}}, Refs: []int{ly.fresh[1] + k}}
		return m
	case 7: // State with arbitrary xor
		return &vMsg{T: "state", C: &forgedCid, XSet: [][2]int{{ly.trunk, ly.trunk + r.Intn(ly.L)}}, LC: uint32(r.Intn(ly.L + 100))}
	case 8: // list query for arbitrary refs incl. private and unknown ones
		m := &vMsg{T: "lq", C: &forgedCid}
		for i := 0; i < r.Intn(6); i++ {
			m.Refs = append(m.Refs, r.Intn(ly.end))
		}
		m.Refs = append(m.Refs, ly.privA)
		return m
	case 9: // range queries, also degenerate
		a := uint32(r.Intn(ly.L))
		b := uint32(r.Intn(ly.L + 2000))
		if r.Intn(4) == 0 {
			b = 4294967295
		}
		return &vMsg{T: "rq", C: &forgedCid, A: a, B: b}
	case 10: // payload query (public, private, unknown)
		return &vMsg{T: "pq", Ref: []int{ly.privA, ly.privB, ly.trunk + r.Intn(ly.L), ly.garbage, -1}[r.Intn(5)]}
	case 11: // unsolicited payload: matching, mismatching, unknown tx, empty
		k := []int{ly.privA, ly.privB, ly.trunk + r.Intn(ly.L)}[r.Intn(3)]
		data := s.u.payID[s.u.txs[k].ph]
		switch r.Intn(4) {
		case 0:
			data = ""
		case 1:
			data = s.u.payID[s.u.txs[ly.trunk+1].ph]
		}
		if r.Intn(6) == 0 {
			k = -1
		}
		return &vMsg{T: "pl", Ref: k, Data: data}
	case 12:
		return &vMsg{T: "diag"}
	default: // State conversation answered with a TransactionList
		if live {
			return &vMsg{T: "tl", C: &cid, Num: 1, Total: 1, Txs: someValid(1)}
		}
		return &vMsg{T: "tl", C: &forgedCid, Num: 1, Total: 1}
	}
}

func (g *vGen) hostilePrefix(steps int, hostile bool) {
	s, r := g.s, g.rnd
	for i := 0; i < steps; i++ {
		c := s.sc.Conns[r.Intn(len(s.sc.Conns))]
		x := r.Intn(100)
		switch {
		case x < 14:
			s.exec(&vOp{Op: "tick", N: c.At, Peer: c.Peer})
		case x < 56 && len(s.pending) > 0:
			// deliver in arbitrary order
			k := r.Intn(len(s.pending))
			if r.Intn(3) == 0 {
				k = 0
			}
			s.exec(&vOp{Op: "deliver", M: s.pending[k]})
		case x < 62 && len(s.pending) > 0:
			// loss
			k := r.Intn(len(s.pending))
			s.pending = append(s.pending[:k:k], s.pending[k+1:]...)
		case x < 70 && len(s.sent) > 0:
			// duplicate / stale: any message ever sent
			s.exec(&vOp{Op: "deliver", M: r.Intn(len(s.sent))})
		case x < 90 && hostile:
			s.exec(&vOp{Op: "inject", From: c.Peer, To: c.At, Msg: g.forge(c.Peer, c.At)})
		case x < 92:
			s.exec(&vOp{Op: "advance", N: c.At, Dt: 1 + r.Intn(3)})
			if r.Intn(2) == 0 {
				s.exec(&vOp{Op: "evict", N: c.At})
			}
		case x < 95 && hostile:
			mode := []string{"down", "up", "disconnect", "connect"}[r.Intn(4)]
			s.exec(&vOp{Op: "conn", N: c.At, Peer: c.Peer, Mode: mode})
			if mode == "down" {
				// something to announce, then a tick that finds no connection: the queue must be kept
				if k := c.At; k < 3 && g.freshNext[k] < g.ly.F {
					s.exec(&vOp{Op: "create", N: k, Tx: g.ly.fresh[k] + g.freshNext[k]})
					g.freshNext[k]++
				}
				s.exec(&vOp{Op: "tick", N: c.At, Peer: c.Peer})
			} else if r.Intn(2) == 0 {
				s.exec(&vOp{Op: "tick", N: c.At, Peer: c.Peer})
			}
		case x < 96 && hostile && r.Intn(3) == 0:
			s.exec(&vOp{Op: "restart", N: c.At})
		case x < 97 && hostile && r.Intn(2) == 0:
			// the node's database is busy when the next received transaction is added
			s.exec(&vOp{Op: "fault", N: c.At, Mode: []string{"busy", "cancel"}[r.Intn(2)]})
		case x < 98:
			// a node creates a transaction of its own
			k := c.At
			if k < 3 && g.freshNext[k] < g.ly.F {
				s.exec(&vOp{Op: "create", N: k, Tx: g.ly.fresh[k] + g.freshNext[k]})
				g.freshNext[k]++
			}
		default:
			if hostile {
				s.exec(&vOp{Op: "create", N: c.At, Tx: g.ly.invalid[r.Intn(len(g.ly.invalid))]})
			}
		}
	}
}

func (g *vGen) runScenario(idx int, dir string) vVerdict {
	s, r := g.s, g.rnd
	nNodes := 2
	if (os.Getenv("VERIF_TIER") == "thorough" && idx%5 == 4) || idx%10 == 9 {
		nNodes = 3
	}
	k := idx % 8
	dags, feats, name := g.template(k, nNodes)
	g.freshNext = [3]int{0, 0, g.freshNext[2]}
	withDid := idx%3 == 0
	sc := vScenario{Name: fmt.Sprintf("s%d-%s", idx, name), Validity: 3, Conns: g.conns2(nNodes, withDid)}
	sc.MaxMsg = []int{512 * 1024, 64 * 1024, 48 * 1024}[r.Intn(3)]
	for i := 0; i < nNodes; i++ {
		sc.Nodes = append(sc.Nodes, g.nodeCfg(i, withDid, dags[i]))
	}
	if withDid && r.Intn(2) == 0 {
		// a private transaction held by node 1 (with payload) and possibly node 0 (without)
		sc.Nodes[1].Dag = append(sc.Nodes[1].Dag, [2]int{g.ly.privA, g.ly.privA + 1})
		sc.Nodes[1].Priv = []int{g.ly.privA}
		feats = append(feats, "private-tx")
	}
	first := s.out.nOps
	s.startScenario(sc, filepath.Join(dir, fmt.Sprintf("sc%d", idx)))
	defer s.endScenario()
	startSets, startDiff := s.startSets()
	hostile := idx%4 != 3
	steps := []int{0, 20, 60, 120}[r.Intn(4)]
	if hostile {
		feats = append(feats, "hostile-prefix")
	}
	feats = append(feats, fmt.Sprintf("prefix-steps=%d", steps), fmt.Sprintf("maxmsg=%d", sc.MaxMsg), fmt.Sprintf("nodes=%d", nNodes))
	g.hostilePrefix(steps, hostile)
	// node restarts: before the suffix and again after the first / second round (digests are written while transactions on
	// later pages arrive, then reloaded)
	s.restartAt = map[int]int{}
	if idx%3 == 1 {
		who := r.Intn(nNodes)
		s.restartAt[0] = who
		s.restartAt[1] = who
		if r.Intn(2) == 0 {
			s.restartAt[2] = r.Intn(nNodes)
		}
		feats = append(feats, "restarts")
	}
	// transient faults during the fair suffix: the next Add of a received transaction fails on every node - the database is busy
	// (no transaction comes into being) or the caller's context is cancelled while the write transaction runs (rollback at commit,
	// the in-memory trees are reloaded) -, the other kind once more on one node a round later. A failed Add is a lost
	// TransactionList: later rounds make up for it
	extra := 0
	if idx%3 == 2 {
		kinds := []string{"busy", "cancel"}
		if idx%6 == 5 {
			kinds = []string{"cancel", "busy"}
		}
		var everyone []vFaultAt
		for i := 0; i < nNodes; i++ {
			everyone = append(everyone, vFaultAt{i, kinds[0]})
		}
		s.faultAt = map[int][]vFaultAt{0: everyone, 1 + r.Intn(2): {{r.Intn(nNodes), kinds[1]}}}
		feats = append(feats, "add-faults")
		extra = 8
	}
	// a connection flap before the fair suffix: both ends see the stream go and the SAME peer come back (same key); transactions are
	// created while the connection is down and after it is back - only gossip can make the other side ask for them
	if idx%3 == 0 {
		cc := s.sc.Conns[r.Intn(len(s.sc.Conns))]
		a, b := cc.At, cc.Peer
		mk := func(k int) {
			if k < 3 && g.freshNext[k] < g.ly.F {
				s.exec(&vOp{Op: "create", N: k, Tx: g.ly.fresh[k] + g.freshNext[k]})
				g.freshNext[k]++
			}
		}
		s.exec(&vOp{Op: "conn", N: a, Peer: b, Mode: "disconnect"})
		s.exec(&vOp{Op: "conn", N: b, Peer: a, Mode: "disconnect"})
		mk(a)
		mk(b)
		s.exec(&vOp{Op: "conn", N: a, Peer: b, Mode: "connect"})
		s.exec(&vOp{Op: "conn", N: b, Peer: a, Mode: "connect"})
		mk(a)
		feats = append(feats, "connection-flap-then-new-transactions")
	}
	// the fair suffix: every connection is (re-)established first
	for _, cc := range s.sc.Conns {
		c := s.nodes[cc.At].conns[cc.Peer]
		_, _, _, _, hasQ := gossip.VerifQueue(s.nodes[cc.At].p.gManager, c.peer)
		if !c.connected || !hasQ {
			s.exec(&vOp{Op: "conn", N: cc.At, Peer: cc.Peer, Mode: "connect"})
		}
	}
	expireEvery := 1 + r.Intn(3)
	_, diffNow := s.startSets()
	maxRounds := 12 + 3*expireEvery + diffNow/40 + 4*nNodes + extra
	rounds := s.fairSuffix(maxRounds, expireEvery)
	post := s.stabilityProbe()
	s.exec(&vOp{Op: "observe"})
	feats = append(feats, fmt.Sprintf("expire-every=%d", expireEvery))
	v := s.verdict("c07", first, rounds, maxRounds, startDiff, startSets, feats)
	v.PostTraffic = post
	return v
}

// stability: once all XORs are equal one more gossip round must produce nothing but gossip
func (s *vSim) stabilityProbe() int {
	post := 0
	if s.allEqual() {
		for _, cc := range s.sc.Conns {
			before := len(s.sent)
			s.exec(&vOp{Op: "tick", N: cc.At, Peer: cc.Peer})
			guard := 0
			for len(s.pending) > 0 && guard < 50 {
				s.exec(&vOp{Op: "deliver", M: s.pending[0]})
				guard++
			}
			for _, pk := range s.sent[before:] {
				if pk.kind != "gossip" {
					post++
				}
			}
		}
	}
	return post
}

func vOpen(dir string) *vOut {
	_ = os.MkdirAll(dir, 0o755)
	ops, err := os.Create(filepath.Join(dir, "ops.jsonl"))
	if err != nil {
		panic(err)
	}
	impl, err := os.Create(filepath.Join(dir, "impl.out"))
	if err != nil {
		panic(err)
	}
	oracle, err := os.Create(filepath.Join(dir, "oracle.jsonl"))
	if err != nil {
		panic(err)
	}
	return &vOut{ops: ops, impl: impl, oracle: oracle}
}

func (o *vOut) close() {
	o.ops.Close()
	o.impl.Close()
	o.oracle.Close()
}

func vEnvInt(k string, def int) int {
	if v, err := strconv.Atoi(os.Getenv(k)); err == nil {
		return v
	}
	return def
}

func vNewSim(t *testing.T, out *vOut, seed int64) *vSim {
	return &vSim{t: t, u: newUniverse(), out: out, rnd: rand.New(rand.NewSource(seed)), dc: map[string]*[3]int{}, injected: map[hash.SHA256Hash]bool{},
		goid: vGoID(), asyncCh: make(chan vAsyncReq, 1024)}
}

func (s *vSim) emitUniverse(kind string, seed int64, tier string) {
	s.out.emit(vJSON(vOp{Op: "universe", Kind: kind, Seed: seed, Tier: tier}), "universe "+kind)
	for _, l := range s.u.ops {
		s.out.emit(l, "def")
	}
}

// replay: re-run the scenario/step ops of a file (universe definitions are regenerated from the header)
func vReplay(t *testing.T, path string, outDir string, build func(s *vSim, kind string, thorough bool)) {
	f, err := os.Open(path)
	if err != nil {
		t.Fatal(err)
	}
	defer f.Close()
	out := vOpen(outDir)
	defer out.close()
	var s *vSim
	sc := bufio.NewScanner(f)
	sc.Buffer(make([]byte, 1<<20), 1<<28)
	nsc := 0
	var startSets []map[hash.SHA256Hash]bool
	startDiff, first := 0, 0
	lastOp := ""
	finish := func() {
		if s != nil && s.nodes != nil {
			rounds, post := 0, 0
			if lastOp == "observe" && len(s.nodes) > 1 {
				// the recorded schedule is a prefix: follow it with a fresh (adaptive) fair suffix
				for _, cc := range s.sc.Conns {
					c := s.nodes[cc.At].conns[cc.Peer]
					_, _, _, _, hasQ := gossip.VerifQueue(s.nodes[cc.At].p.gManager, c.peer)
					if !c.connected || !hasQ {
						s.exec(&vOp{Op: "conn", N: cc.At, Peer: cc.Peer, Mode: "connect"})
					}
				}
				_, diffNow := s.startSets()
				rounds = s.fairSuffix(30+diffNow/40, 1)
				post = s.stabilityProbe()
				s.exec(&vOp{Op: "observe"})
			}
			v := s.verdict("replay", first, rounds, 30, startDiff, startSets, []string{"replay"})
			v.PostTraffic = post
			fmt.Fprintln(out.oracle, vJSON(v))
			s.endScenario()
		}
	}
	for sc.Scan() {
		var op vOp
		if err := json.Unmarshal(sc.Bytes(), &op); err != nil {
			continue
		}
		switch op.Op {
		case "universe":
			s = vNewSim(t, out, op.Seed)
			build(s, op.Kind, op.Tier == "thorough")
			s.emitUniverse(op.Kind, op.Seed, op.Tier)
		case "authn":
			if s == nil {
				s = vNewSim(t, out, 1)
			}
			s.authnCases(op.Case)
		case "tx", "payload", "cipher":
		case "chunk":
			if s == nil {
				s = vNewSim(t, out, 1)
			}
			s.chunkCase(op.MaxMsg, op.Runs)
		case "scenario":
			if s == nil {
				t.Fatal("replay file has no universe header")
			}
			finish()
			nsc++
			first = out.nOps
			s.startScenario(*op.Sc, filepath.Join(outDir, fmt.Sprintf("replay%d", nsc)))
			startSets, startDiff = s.startSets()
		default:
			if s != nil && s.nodes != nil {
				op.Dec, op.Missing, op.Order = "", nil, nil
				s.exec(&op)
				lastOp = op.Op
			}
		}
	}
	finish()
	if s != nil {
		fmt.Fprintln(out.oracle, vJSON(map[string]interface{}{"kind": "dc", "histogram": s.dc}))
		for _, l := range s.leaks {
			fmt.Fprintln(out.oracle, vJSON(map[string]interface{}{"kind": "leak", "leak": l}))
		}
	}
}

// chunkTransactionList directly: generated transaction-size lists, the REAL marshalled size of every resulting
// TransactionList envelope (as sendTransactionList builds it) against the gRPC limit
func vChunkCases(s *vSim) {
	r := s.rnd
	type run struct{ n, d, p int }
	lists := [][]run{
		{{2000, 60, 0}}, {{1700, 300, 0}}, {{1000, 644, 14}}, {{3000, 40, 1}}, {{30, 20000, 20000}}, {{1, 600000, 0}, {500, 100, 0}},
		{{400, 100, 0}, {3, 200000, 1000}, {400, 100, 0}}, {{1, 10, 0}}, {},
		{{500 + r.Intn(2500), 30 + r.Intn(300), r.Intn(3) * r.Intn(40)}, {r.Intn(50), 5000 + r.Intn(50000), r.Intn(2000)}, {r.Intn(2000), 50 + r.Intn(100), 0}},
	}
	for _, limit := range []int{512 * 1024, 64 * 1024, 20 * 1024} {
		for _, l := range lists {
			runs := [][3]int{}
			for _, x := range l {
				runs = append(runs, [3]int{x.n, x.d, x.p})
			}
			s.chunkCase(limit, runs)
		}
	}
}

func (s *vSim) chunkCase(limit int, runs [][3]int) {
	old := grpc.MaxMessageSizeInBytes
	defer func() { grpc.MaxMessageSizeInBytes = old }()
	grpc.MaxMessageSizeInBytes = limit
	var txs []*Transaction
	for _, x := range runs {
		for i := 0; i < x[0]; i++ {
			t := &Transaction{Data: make([]byte, x[1])}
			if x[2] > 0 {
				t.Payload = make([]byte, x[2])
			}
			txs = append(txs, t)
		}
	}
	chunks := chunkTransactionList(txs)
	lens := make([]string, len(chunks))
	var over []string
	for i, c := range chunks {
		lens[i] = strconv.Itoa(len(c))
		env := &Envelope{Message: &Envelope_TransactionList{TransactionList: &TransactionList{
			ConversationID: []byte("123e4567-e89b-12d3-a456-426614174000"), Transactions: c, TotalMessages: uint32(len(chunks)), MessageNumber: uint32(i + 1)}}}
		// a single transaction that does not fit on its own can not be helped by chunking
		if n := proto.Size(env); n > limit && len(c) > 1 {
			over = append(over, fmt.Sprintf("%d/%d:%dtx=%dB", i+1, len(chunks), len(c), n))
		}
	}
	s.out.emit(vJSON(map[string]interface{}{"op": "chunk", "maxmsg": limit, "runs": runs}), fmt.Sprintf("chunk lens=[%s] oversize=%d", strings.Join(lens, ","), len(over)))
	fmt.Fprintln(s.out.oracle, vJSON(map[string]interface{}{"kind": "chunk", "op": s.out.nOps - 1, "maxmsg": limit, "runs": runs, "chunks": len(chunks), "oversize": over}))
}

func TestVerifC07(t *testing.T) {
	vQuiet()
	outDir := os.Getenv("VERIF_OUT")
	if outDir == "" {
		t.Skip("VERIF_OUT not set")
	}
	seed := int64(vEnvInt("VERIF_SEED", 1))
	thorough := os.Getenv("VERIF_TIER") == "thorough"
	var ly *vLayout
	build := func(s *vSim, kind string, th bool) { ly = buildC07Universe(s.u, th) }
	if rp := os.Getenv("VERIF_REPLAY"); rp != "" {
		vReplay(t, rp, outDir, build)
		return
	}
	out := vOpen(outDir)
	defer out.close()
	s := vNewSim(t, out, seed)
	build(s, "c07", thorough)
	tier := "quick"
	if thorough {
		tier = "thorough"
	}
	s.emitUniverse("c07", seed, tier)
	vChunkCases(s)
	g := &vGen{s: s, ly: ly, rnd: s.rnd}
	n := vEnvInt("VERIF_SCENARIOS", 24)
	failed := 0
	for i := 0; i < n; i++ {
		v := g.runScenario(i, outDir)
		fmt.Fprintln(out.oracle, vJSON(v))
		if !v.Converged || len(v.Shrunk) > 0 || len(v.InvalidIn) > 0 {
			failed++
			if failed >= 2 {
				// two failing scenarios are enough for a report; non-converging runs are slow
				break
			}
		}
	}
	fmt.Fprintln(out.oracle, vJSON(map[string]interface{}{"kind": "dc", "histogram": s.dc}))
	for _, l := range s.leaks {
		fmt.Fprintln(out.oracle, vJSON(map[string]interface{}{"kind": "leak", "leak": l}))
	}
}
