//go:build verif

// C14 handler-level replay (injected with `go test -overlay`): the real protocol-v2 handleTransactionPayload on a real
// dag.State + bbolt file. The dag-level harness re-enacts the handler's three steps (GetTransaction, WritePayload,
// private.Finished); this test ties that re-enactment to the handler itself and replays the "second matching
// TransactionPayload" witness (and the same after a restart) end to end.
package v2

import (
	"context"
	"encoding/json"
	"errors"
	"fmt"
	"io"
	"math/rand"
	"os"
	"path/filepath"
	"strconv"
	"strings"
	"sync"
	"testing"
	"time"

	"github.com/nuts-foundation/go-did/did"
	"github.com/nuts-foundation/go-stoabs"
	"github.com/nuts-foundation/go-stoabs/bbolt"
	"github.com/nuts-foundation/nuts-node/network/dag"
	"github.com/nuts-foundation/nuts-node/network/transport/grpc"
	"github.com/nuts-foundation/nuts-node/vdr/resolver"
	"github.com/sirupsen/logrus"
)

// mode "db": the node's DID document cannot be read (a database error): handlePrivateTxRetry fails recoverably, the
// private job stays and is retried. mode "err": any other error: fatal. mode "nokeys": the document has no key agreement
// keys, the PAL cannot be decrypted: not meant for this node, done.
type c14Resolver struct{ mode string }

func (r c14Resolver) Resolve(id did.DID, _ *resolver.ResolveMetadata) (*did.Document, *resolver.DocumentMetadata, error) {
	switch r.mode {
	case "err":
		return nil, nil, errors.New("c14: document is broken")
	case "nokeys":
		return &did.Document{ID: id}, &resolver.DocumentMetadata{}, nil
	}
	return nil, nil, stoabs.DatabaseError(errors.New("c14: store unavailable"))
}

type c14Node struct {
	db    stoabs.KVStore
	state dag.State
	p     *protocol
}

func c14Open(t *testing.T, path string, calls *[]string, mu *sync.Mutex) *c14Node {
	return c14OpenMode(t, path, calls, mu, "db", time.Hour)
}

func c14OpenMode(t *testing.T, path string, calls *[]string, mu *sync.Mutex, mode string, retryDelay time.Duration) *c14Node {
	db, err := bbolt.CreateBBoltStore(path, stoabs.WithNoSync())
	if err != nil {
		t.Fatal(err)
	}
	state, err := dag.NewState(db)
	if err != nil {
		t.Fatal(err)
	}
	cfg := DefaultConfig()
	cfg.PayloadRetryDelay = retryDelay // time.Hour: no retry timer fires during the test
	p := New(cfg, did.MustParseDID("did:nuts:c14node"), state, c14Resolver{mode}, nil, nil, db).(*protocol)
	if err := p.Configure("c14"); err != nil {
		t.Fatal(err)
	}
	// the vcr registration, as written in vcr/ambassador.go
	if _, err := state.Notifier("vcr_vcs", func(ev dag.Event) (bool, error) {
		mu.Lock()
		*calls = append(*calls, fmt.Sprintf("%s:%d", ev.Type, ev.Retries))
		mu.Unlock()
		return true, nil
	}, dag.WithPersistency(db), dag.WithSelectionFilter(func(event dag.Event) bool {
		return event.Type == dag.PayloadEventType && event.Transaction.PayloadType() == "application/vc+json"
	})); err != nil {
		t.Fatal(err)
	}
	return &c14Node{db: db, state: state, p: p}
}

func (n *c14Node) close() {
	n.p.cancel()
	for _, x := range n.state.Notifiers() {
		_ = x.Close()
	}
	_ = n.db.Close(context.Background())
}

func (n *c14Node) jobs(name string) string {
	var l []string
	_ = n.db.ReadShelf(context.Background(), "_"+name+"_jobs", func(r stoabs.Reader) error {
		return r.Iterate(func(k stoabs.Key, v []byte) error {
			l = append(l, fmt.Sprintf("%x", k.Bytes()[:2]))
			return nil
		}, stoabs.BytesKey{})
	})
	return fmt.Sprint(len(l))
}

func TestVerifC14Handler(t *testing.T) {
	outDir := os.Getenv("VERIF_OUT")
	if outDir == "" {
		t.Skip("VERIF_OUT not set")
	}
	logrus.StandardLogger().SetOutput(io.Discard)
	dir := filepath.Join(outDir, "db-handler")
	_ = os.MkdirAll(dir, 0o755)
	defer os.RemoveAll(dir)
	path := filepath.Join(dir, "dag.db")
	var mu sync.Mutex
	var calls []string
	var lines []string
	ctx := context.Background()
	conn := &grpc.StubConnection{PeerID: "peer"}

	root := dag.CreateSignedTestTransaction(1, time.Now(), nil, "application/did+json", true)
	priv := dag.CreateSignedTestTransaction(2, time.Now(), [][]byte{{1, 2, 3}}, "application/vc+json", true, root)
	other := dag.CreateSignedTestTransaction(3, time.Now(), [][]byte{{1, 2, 3}}, "application/vc+json", true, root)
	payload := []byte{0, 0, 0, 2}
	msg := func(tx dag.Transaction, data []byte) *Envelope {
		return &Envelope{Message: &Envelope_TransactionPayload{TransactionPayload: &TransactionPayload{TransactionRef: tx.Ref().Slice(), Data: data}}}
	}
	n := c14Open(t, path, &calls, &mu)
	snap := func(what string, err error) {
		time.Sleep(2 * time.Millisecond) // the private notifier's retry goroutine makes its first attempt right away
		mu.Lock()
		e := "nil"
		if err != nil {
			e = strings.SplitN(err.Error(), " (", 2)[0]
		}
		lines = append(lines, fmt.Sprintf("%s err=%s calls=%v privateJobs=%s vcsJobs=%s", what, e, calls, n.jobs("private"), n.jobs("vcr_vcs")))
		mu.Unlock()
	}
	snap("add-root", n.state.Add(ctx, root, []byte{0, 0, 0, 1}))
	snap("add-private", n.state.Add(ctx, priv, nil))
	snap("payload-unknown-tx", n.p.handleTransactionPayload(ctx, conn, msg(other, payload)))
	snap("payload-mismatch", n.p.handleTransactionPayload(ctx, conn, msg(priv, []byte{9, 9})))
	snap("payload-1", n.p.handleTransactionPayload(ctx, conn, msg(priv, payload)))
	snap("payload-2", n.p.handleTransactionPayload(ctx, conn, msg(priv, payload)))
	// stop, reopen, start the notifiers, the same payload arrives once more
	n.close()
	n = c14Open(t, path, &calls, &mu)
	var runErr error
	for _, x := range n.state.Notifiers() {
		if err := x.Run(); err != nil {
			runErr = err
		}
	}
	snap("restart", runErr)
	snap("payload-3", n.p.handleTransactionPayload(ctx, conn, msg(priv, payload)))
	n.close()

	// ---- two DISTINCT transactions with byte-identical payloads: `twin` arrives with the payload, the private `priv`
	//      without; when priv's payload message arrives the payload subscriber must be called for priv as well (its own
	//      payload event), and a duplicate of that message must call nobody
	{
		ipath := filepath.Join(dir, "identical.db")
		var icalls []string
		in := c14Open(t, ipath, &icalls, &mu)
		twin := dag.CreateSignedTestTransaction(2, time.Now(), nil, "application/vc+json", true, root)
		isnap := func(what string, err error) {
			time.Sleep(2 * time.Millisecond)
			mu.Lock()
			e := "nil"
			if err != nil {
				e = strings.SplitN(err.Error(), " (", 2)[0]
			}
			lines = append(lines, fmt.Sprintf("identical-%s err=%s calls=%d privateJobs=%s", what, e, len(icalls), in.jobs("private")))
			mu.Unlock()
		}
		_ = in.state.Add(ctx, root, []byte{0, 0, 0, 1})
		isnap("add-twin-with-payload", in.state.Add(ctx, twin, payload))
		isnap("add-private", in.state.Add(ctx, priv, nil))
		isnap("payload-1", in.p.handleTransactionPayload(ctx, conn, msg(priv, payload)))
		isnap("payload-2", in.p.handleTransactionPayload(ctx, conn, msg(priv, payload)))
		in.close()
	}

	// ---- WritePayload FAILS (its write transaction is rolled back: another persistent subscriber cannot save its job) while the
	//      payload message of an admitted private transaction is handled: the private job must stay (the payload is not stored,
	//      the payload event does not exist), survive a restart, and be removed only by the message whose payload IS stored
	{
		wpath := filepath.Join(dir, "wpfail.db")
		var wcalls []string
		w := c14Open(t, wpath, &wcalls, &mu)
		other, oerr := bbolt.CreateBBoltStore(filepath.Join(dir, "wpfail-other.db"), stoabs.WithNoSync())
		if oerr != nil {
			t.Fatal(oerr)
		}
		present := func(n *c14Node) string {
			ok, _ := n.state.IsPayloadPresent(ctx, priv.PayloadHash())
			return fmt.Sprint(ok)
		}
		wsnap := func(n *c14Node, what string, err error) {
			time.Sleep(2 * time.Millisecond)
			mu.Lock()
			e := "nil"
			if err != nil {
				e = "error"
			}
			lines = append(lines, fmt.Sprintf("wpfail-%s err=%s vcsCalls=%d privateJobs=%s payloadStored=%s", what, e, len(wcalls), n.jobs("private"), present(n)))
			mu.Unlock()
		}
		_ = w.state.Add(ctx, root, []byte{0, 0, 0, 1})
		wsnap(w, "add-private", w.state.Add(ctx, priv, nil))
		// a persistent subscriber on ANOTHER store: its Save refuses the write transaction of the dag store, so saveEvent - and with
		// it the whole WritePayload transaction - fails (payload events only: Add of the private transaction itself was fine)
		if _, err := w.state.Notifier("c14_other_store", func(dag.Event) (bool, error) { return true, nil }, dag.WithPersistency(other),
			dag.WithSelectionFilter(func(event dag.Event) bool { return event.Type == dag.PayloadEventType })); err != nil {
			t.Fatal(err)
		}
		wsnap(w, "payload-write-fails", w.p.handleTransactionPayload(ctx, conn, msg(priv, payload)))
		w.close()
		_ = other.Close(ctx)
		// restart without the broken subscriber: Run replays the private job (the resolver answers with a database error: retried)
		w = c14Open(t, wpath, &wcalls, &mu)
		var werr error
		for _, x := range w.state.Notifiers() {
			if err := x.Run(); err != nil {
				werr = err
			}
		}
		wsnap(w, "restart", werr)
		wsnap(w, "payload-written", w.p.handleTransactionPayload(ctx, conn, msg(priv, payload)))
		w.close()
	}

	// ---- how the REAL handlePrivateTxRetry (the "private" receiver registered by the real Configure) classifies:
	//      database error -> retried; other error -> fatal (marked failed, shown by the protocol's diagnostics);
	//      PAL not decryptable with our keys -> done; payload already there -> done
	for mi, mode := range []string{"db", "err", "nokeys", "present"} {
		mpath := filepath.Join(dir, fmt.Sprintf("mode%d.db", mi))
		resolverMode := mode
		if mode == "present" {
			resolverMode = "db"
		}
		var mcalls []string
		m := c14OpenMode(t, mpath, &mcalls, &mu, resolverMode, time.Nanosecond)
		_ = m.state.Add(ctx, root, []byte{0, 0, 0, 1})
		if mode == "present" {
			// another transaction already brought the same payload
			twin := dag.CreateSignedTestTransaction(2, time.Now(), nil, "application/vc+json", true, root)
			_ = m.state.Add(ctx, twin, payload)
		}
		_ = m.state.Add(ctx, priv, nil)
		// 1ns retry delay: a retried job runs through its attempts right away. Wait until the job has settled in one of
		// the three observable classes: gone (done), retries = 21 (fatal), retries >= 2 (retried)
		retries := 0
		deadline := time.Now().Add(5 * time.Second)
		for {
			retries = -1
			_ = m.db.ReadShelf(ctx, "_private_jobs", func(r stoabs.Reader) error {
				v, err := r.Get(stoabs.BytesKey(priv.Ref().Slice()))
				if err == nil {
					ev := struct {
						Retries int `json:"retries"`
					}{}
					_ = json.Unmarshal(v, &ev)
					retries = ev.Retries
				}
				return nil
			})
			if retries == -1 || retries == 21 || retries >= 2 || time.Now().After(deadline) {
				break
			}
			time.Sleep(time.Millisecond)
		}
		dlq := -1
		for _, d := range m.p.Diagnostics() {
			if d.Name() == "payload_fetch_dlq" {
				if l, ok := d.Result().([]dag.Event); ok {
					dlq = len(l)
				}
			}
		}
		class := "done"
		switch {
		case retries == 21:
			class = "fatal"
		case retries >= 2:
			class = "retried"
		case retries >= 0:
			class = "pending"
		}
		lines = append(lines, fmt.Sprintf("private-%s class=%s dlq=%d", mode, class, dlq))
		m.close()
	}
	if err := os.WriteFile(filepath.Join(outDir, "handler.out"), []byte(strings.Join(lines, "\n")+"\n"), 0o644); err != nil {
		t.Fatal(err)
	}
}

// ---- deepening round 2: GENERATED calls of the real handlePrivateTxRetry, compared with NutsModel.C14.Receivers.privateRetry ----
// errors travel as their Unwrap chain, outermost first (Layer in Receivers.lean)

type c14DynResolver struct{ err *error }

func (r c14DynResolver) Resolve(id did.DID, _ *resolver.ResolveMetadata) (*did.Document, *resolver.DocumentMetadata, error) {
	if *r.err != nil {
		return nil, nil, *r.err
	}
	return &did.Document{ID: id}, &resolver.DocumentMetadata{}, nil // no key agreement keys: the PAL is not for this node
}

func c14Build(chain []string) error {
	var err error
	for i := len(chain) - 1; i >= 0; i-- {
		switch chain[i] {
		case "msg":
			if err == nil {
				err = errors.New("c14 leaf")
			} else {
				err = fmt.Errorf("c14 wrap %d: %w", i, err)
			}
		case "canceled":
			err = context.Canceled
		case "deadline":
			err = context.DeadlineExceeded
		case "db":
			err = stoabs.DatabaseError(err)
		case "fatal":
			err = dag.EventFatal{Err: err}
		}
	}
	return err
}

func c14Chain(err error) []string {
	var l []string
	for err != nil {
		switch err.(type) {
		case stoabs.ErrDatabase:
			l = append(l, "db")
		case dag.EventFatal:
			l = append(l, "fatal")
		default:
			switch err {
			case context.Canceled:
				l = append(l, "canceled")
			case context.DeadlineExceeded:
				l = append(l, "deadline")
			default:
				l = append(l, "msg")
			}
		}
		err = errors.Unwrap(err)
	}
	return l
}

func c14GenChain(rng *rand.Rand) []string {
	wrappers := []string{"msg", "msg", "db", "fatal"}
	leaves := []string{"msg", "msg", "canceled", "deadline", "db"}
	var c []string
	db := false
	for i, n := 0, rng.Intn(4); i < n; i++ {
		w := wrappers[rng.Intn(len(wrappers))]
		if w == "fatal" && rng.Intn(3) != 0 {
			w = "msg"
		}
		if w == "db" {
			if db {
				w = "msg"
			}
			db = true
		}
		c = append(c, w)
	}
	lf := leaves[rng.Intn(len(leaves))]
	if lf == "db" && db {
		lf = "msg"
	}
	return append(c, lf)
}

func TestVerifC14PrivateRetry(t *testing.T) {
	outDir := os.Getenv("VERIF_OUT")
	if outDir == "" {
		t.Skip("VERIF_OUT not set")
	}
	logrus.StandardLogger().SetOutput(io.Discard)
	seed, _ := strconv.ParseInt(os.Getenv("VERIF_SEED"), 10, 64)
	rng := rand.New(rand.NewSource(seed*104729 + 14))
	n := 80
	if os.Getenv("VERIF_TIER") == "thorough" {
		n = 600
	}
	dir := filepath.Join(outDir, "db-private")
	_ = os.MkdirAll(dir, 0o755)
	defer os.RemoveAll(dir)
	ctx := context.Background()
	open := func(name string) (stoabs.KVStore, dag.State) {
		db, err := bbolt.CreateBBoltStore(filepath.Join(dir, name), stoabs.WithNoSync())
		if err != nil {
			t.Fatal(err)
		}
		st, err := dag.NewState(db)
		if err != nil {
			t.Fatal(err)
		}
		return db, st
	}
	db, state := open("p.db")
	root := dag.CreateSignedTestTransaction(1, time.Now(), nil, "application/did+json", true)
	privHave := dag.CreateSignedTestTransaction(2, time.Now(), [][]byte{{1, 2, 3}}, "application/vc+json", true, root)
	privMiss := dag.CreateSignedTestTransaction(3, time.Now(), [][]byte{{1, 2, 3}}, "application/vc+json", true, root)
	_ = state.Add(ctx, root, []byte{0, 0, 0, 1})
	if err := state.Add(ctx, privHave, []byte{0, 0, 0, 2}); err != nil {
		t.Fatal(err)
	}
	if err := state.Add(ctx, privMiss, nil); err != nil {
		t.Fatal(err)
	}
	var resolveErr error
	p := New(DefaultConfig(), did.MustParseDID("did:nuts:c14node"), state, c14DynResolver{&resolveErr}, nil, nil, db).(*protocol)
	// a second node whose store has gone away: IsPayloadPresent itself fails
	db2, state2 := open("closed.db")
	_ = state2.Add(ctx, root, []byte{0, 0, 0, 1})
	p2 := New(DefaultConfig(), did.MustParseDID("did:nuts:c14node"), state2, c14DynResolver{&resolveErr}, nil, nil, db2).(*protocol)
	_ = db2.Close(ctx)
	_, perr := state2.IsPayloadPresent(ctx, privMiss.PayloadHash())

	var ops, lines []string
	emit := func(op map[string]interface{}, done bool, err error) {
		b, _ := json.Marshal(op)
		ops = append(ops, string(b))
		class := "done"
		switch {
		case err != nil && errors.As(err, new(dag.EventFatal)):
			class = "fatal"
		case err != nil:
			class = "fail"
		case !done:
			class = "notDone"
		}
		e := "-"
		if err != nil {
			e = strings.Join(c14Chain(err), ">")
		}
		lines = append(lines, fmt.Sprintf("recv|done=%v|err=%s|class=%s", done, e, class))
	}
	for i := 0; i < n; i++ {
		present := rng.Intn(4) == 0
		var chain []string
		if rng.Intn(5) != 0 {
			chain = c14GenChain(rng)
		}
		resolveErr = c14Build(chain)
		tx := privMiss
		if present {
			tx = privHave
		}
		ev := dag.Event{Type: dag.TransactionEventType, Hash: tx.Ref(), Transaction: tx}
		op := map[string]interface{}{"op": "rpriv", "present": present, "palNil": true}
		if chain != nil {
			op["derr"] = chain
		}
		if perr != nil && rng.Intn(8) == 0 {
			// the store is gone: the presence check fails with the store's own error (its chain is read from the real error)
			op["perr"] = c14Chain(perr)
			done, err := p2.handlePrivateTxRetry(ctx, ev)
			emit(op, done, err)
			continue
		}
		done, err := p.handlePrivateTxRetry(ctx, ev)
		emit(op, done, err)
	}
	_ = db.Close(ctx)
	if err := os.WriteFile(filepath.Join(outDir, "ops.jsonl"), []byte(strings.Join(ops, "\n")+"\n"), 0o644); err != nil {
		t.Fatal(err)
	}
	if err := os.WriteFile(filepath.Join(outDir, "impl.out"), []byte(strings.Join(lines, "\n")+"\n"), 0o644); err != nil {
		t.Fatal(err)
	}
}
