//go:build verif

// C14 start-up leg (injected with `go test -overlay`): the REAL Network.Start resume path on a real dag.State + bbolt
// file. The dag-level harness calls Run() on every notifier itself; this test ties "restart = Run for every
// notifier" to the place where Run is called: the loop over state.Notifiers() at the end of Network.Start.
// Run 1 leaves, per persistent subscriber, jobs in every state a stop can leave behind (never attempted, a few
// attempts, many attempts, nothing); run 2 starts a new Network on the same file; after Start returns every
// unfinished job of every persistent subscriber must have been attempted.
package network

import (
	"context"
	"encoding/json"
	"errors"
	"fmt"
	"io"
	"math/rand"
	"os"
	"path/filepath"
	"sort"
	"strconv"
	"strings"
	"sync"
	"testing"
	"time"

	"github.com/nuts-foundation/go-stoabs"
	"github.com/nuts-foundation/nuts-node/core"
	"github.com/nuts-foundation/nuts-node/network/dag"
	"github.com/nuts-foundation/nuts-node/storage"
	"github.com/sirupsen/logrus"
	"go.uber.org/mock/gomock"
)

type c14sStop struct{}

type c14sSub struct {
	name  string
	ptype string // payload type the filter selects ("" = every payload event)
}

// the persistent payload registrations of the source (nats / vdr / vcr_vcs / vcr_revocations), by their filters
var c14sSubs = []c14sSub{
	{"nats", ""},
	{"vdr", "application/did+json"},
	{"vcr_vcs", "application/vc+json"},
	{"vcr_revocations", "application/ld+json;type=revocation"},
}

type c14sNode struct {
	network *Network
	state   dag.State
	store   stoabs.KVStore
}

func (n *c14sNode) stop() {
	for _, s := range n.network.Subscribers() {
		_ = s.Close()
	}
	_ = n.state.Shutdown()
	_ = n.store.Close(context.Background())
}

// c14sOpen builds the Network engine the way the unit tests do (mocked connection manager / protocol) on a REAL state
func c14sOpen(t *testing.T, path string, recv func(sub int, ev dag.Event) (bool, error)) *c14sNode {
	ctrl := gomock.NewController(t)
	cxt := createNetwork(t, ctrl)
	store := storage.CreateTestBBoltStore(t, path)
	cxt.network.storeProvider = &storage.StaticKVStoreProvider{Store: store}
	state, err := dag.NewState(store)
	if err != nil {
		t.Fatal(err)
	}
	if err := state.Configure(core.ServerConfig{}); err != nil {
		t.Fatal(err)
	}
	cxt.network.state = state
	for i, s := range c14sSubs {
		i, s := i, s
		if err := cxt.network.Subscribe(s.name, func(ev dag.Event) (bool, error) { return recv(i, ev) },
			cxt.network.WithPersistency(),
			func() dag.NotifierOption { return dag.WithRetryDelay(time.Nanosecond) },
			WithSelectionFilter(func(event dag.Event) bool {
				return event.Type == dag.PayloadEventType && (s.ptype == "" || event.Transaction.PayloadType() == s.ptype)
			})); err != nil {
			t.Fatal(err)
		}
	}
	cxt.connectionManager.EXPECT().Start().AnyTimes()
	cxt.protocol.EXPECT().Start().AnyTimes()
	return &c14sNode{network: cxt.network, state: state, store: store}
}

func (n *c14sNode) jobs(t *testing.T, refIdx map[string]int) map[string]int {
	res := map[string]int{}
	for _, s := range c14sSubs {
		_ = n.store.ReadShelf(context.Background(), "_"+s.name+"_jobs", func(r stoabs.Reader) error {
			return r.Iterate(func(k stoabs.Key, v []byte) error {
				ev := struct {
					Retries int `json:"retries"`
				}{}
				_ = json.Unmarshal(v, &ev)
				res[fmt.Sprintf("%s.%d", s.name, refIdx[fmt.Sprintf("%x", k.Bytes())])] = ev.Retries
				return nil
			}, stoabs.BytesKey{})
		})
	}
	return res
}

// c14sJob: one job as the clean-up leg hands it to the model (error text mapped to a label of the model's JErr)
type c14sJob struct {
	S       int    `json:"s"`
	R       int    `json:"r"`
	Retries int    `json:"retries"`
	Err     string `json:"err"`
}

var c14sErrLabel = map[string]string{"keeps failing": "generic", "temporarily unavailable": "storage", "receiver did not finish or fail": "incomplete"}

func (n *c14sNode) jobsFull(refIdx map[string]int) []c14sJob {
	var res []c14sJob
	for si, s := range c14sSubs {
		_ = n.store.ReadShelf(context.Background(), "_"+s.name+"_jobs", func(r stoabs.Reader) error {
			return r.Iterate(func(k stoabs.Key, v []byte) error {
				ev := struct {
					Retries int    `json:"retries"`
					Error   string `json:"error"`
				}{}
				_ = json.Unmarshal(v, &ev)
				lab, ok := c14sErrLabel[ev.Error]
				if !ok {
					lab = "none"
					if ev.Error != "" {
						lab = "fatal"
					}
				}
				res = append(res, c14sJob{S: si, R: refIdx[fmt.Sprintf("%x", k.Bytes())], Retries: ev.Retries, Err: lab})
				return nil
			}, stoabs.BytesKey{})
		})
	}
	sort.Slice(res, func(i, j int) bool { return res[i].S < res[j].S || res[i].S == res[j].S && res[i].R < res[j].R })
	return res
}

func c14sFmt(m map[string]int) string {
	var l []string
	for k, v := range m {
		l = append(l, fmt.Sprintf("%s:%d", k, v))
	}
	sort.Strings(l)
	return strings.Join(l, ",")
}

func TestVerifC14Start(t *testing.T) {
	outDir := os.Getenv("VERIF_OUT")
	if outDir == "" {
		t.Skip("VERIF_OUT not set")
	}
	seed, _ := strconv.ParseInt(os.Getenv("VERIF_SEED"), 10, 64)
	rounds, _ := strconv.Atoi(os.Getenv("VERIF_ROUNDS"))
	if rounds == 0 {
		rounds = 6
	}
	logrus.StandardLogger().SetOutput(io.Discard)
	rng := rand.New(rand.NewSource(seed*104729 + 14))
	dir := filepath.Join(outDir, "db-start")
	_ = os.MkdirAll(dir, 0o755)
	defer os.RemoveAll(dir)
	var lines, cleanOps, cleanImpl []string
	ptypes := []string{"application/did+json", "application/vc+json", "application/ld+json;type=revocation", "foo/bar"}

	for round := 0; round < rounds; round++ {
		path := filepath.Join(dir, fmt.Sprintf("dag%d.db", round))
		// transactions of this round
		root := dag.CreateSignedTestTransaction(uint32(1000*round), time.Now(), nil, ptypes[rng.Intn(len(ptypes))], true)
		txs := []dag.Transaction{root}
		nTx := 2 + rng.Intn(4)
		for i := 1; i < nTx; i++ {
			txs = append(txs, dag.CreateSignedTestTransaction(uint32(1000*round+i), time.Now(), nil, ptypes[rng.Intn(len(ptypes))], true, root))
		}
		refIdx := map[string]int{}
		for i, tx := range txs {
			refIdx[fmt.Sprintf("%x", tx.Ref().Slice())] = i
		}
		// run 1: per (subscriber, tx) a scripted behaviour: done / stop inside the receiver (job never attempted) /
		// fail once or twice then the node stops / keep failing (>= threshold attempts)
		mode := map[[2]int]string{}
		modes := []string{"done", "never", "few", "many"}
		for s := range c14sSubs {
			// round 0 is the sharpest case: nothing at/over the threshold anywhere
			for i := range txs {
				m := modes[rng.Intn(len(modes))]
				if round%2 == 0 && m == "many" {
					m = "few"
				}
				// odd rounds exercise CleanupSubscriberEvents: most jobs of every subscriber are failed events
				if round%2 == 1 && rng.Intn(100) < 70 {
					m = "many"
				}
				mode[[2]int{s, i}] = m
			}
		}
		var mu sync.Mutex
		attempts := map[[2]int]int{}
		n1 := c14sOpen(t, path, func(s int, ev dag.Event) (bool, error) {
			i := refIdx[fmt.Sprintf("%x", ev.Hash.Slice())]
			mu.Lock()
			attempts[[2]int{s, i}]++
			k := attempts[[2]int{s, i}]
			m := mode[[2]int{s, i}]
			mu.Unlock()
			switch m {
			case "done":
				return true, nil
			case "never":
				panic(c14sStop{}) // the node stops inside the first call: nothing is recorded for this job
			case "few":
				if k >= 3 {
					// no further attempts get recorded: block the retry loop until the node is stopped
					time.Sleep(time.Hour)
				}
				return false, errors.New("temporarily unavailable")
			}
			return false, errors.New("keeps failing")
		})
		if err := n1.network.Start(); err != nil {
			t.Fatal(err)
		}
		for i, tx := range txs {
			payload := []byte{byte(uint32(1000*round+i) >> 24), byte(uint32(1000*round+i) >> 16), byte(uint32(1000*round+i) >> 8), byte(uint32(1000*round + i))}
			func() {
				defer func() {
					if r := recover(); r != nil {
						if _, ok := r.(c14sStop); !ok {
							panic(r)
						}
					}
				}()
				if err := n1.state.Add(context.Background(), tx, payload); err != nil {
					t.Fatal(err)
				}
			}()
		}
		// let the "many" loops spend (most of) their budget
		deadline := time.Now().Add(5 * time.Second)
		for time.Now().Before(deadline) {
			ok := true
			mu.Lock()
			for k, m := range mode {
				// a "never" panic aborts the Range of state.notify: later notifiers of that event were not called at all
				// wait until the loop has spent its whole budget (20 calls): nothing moves any more when the
				// snapshots below are taken
				if m == "many" && attempts[k] > 0 && attempts[k] < 20 {
					ok = false
				}
			}
			mu.Unlock()
			if ok {
				break
			}
			time.Sleep(time.Millisecond)
		}
		time.Sleep(5 * time.Millisecond) // the write-back of the last attempts
		before := n1.jobs(t, refIdx)
		// what must be there: every event a filter selects (selected); of those, everything whose subscriber did not
		// complete it must still be on its shelf (mustRemain)
		var selected, mustRemain []string
		for si, sub := range c14sSubs {
			for i, tx := range txs {
				if sub.ptype == "" || tx.PayloadType() == sub.ptype {
					selected = append(selected, fmt.Sprintf("%s.%d", sub.name, i))
					if mode[[2]int{si, i}] != "done" {
						mustRemain = append(mustRemain, fmt.Sprintf("%s.%d", sub.name, i))
					}
				}
			}
		}
		// operator action on a live node: remove the failed events of ONE subscriber whose error starts with a prefix
		cleanup := ""
		if round%2 == 1 {
			target := c14sSubs[(round/2)%len(c14sSubs)].name
			prefix := []string{"keeps", "keeps failing", "keeps", "failing", "k", "temporarily", "keeps failing!"}[rng.Intn(7)]
			if rng.Intn(6) == 0 {
				target = []string{"Nats", "vcr", "vdr_", "nats2"}[rng.Intn(4)] // no subscriber of that name
			}
			full := n1.jobsFull(refIdx)
			// mostly aim at the subscriber with the MOST failed events (several removals in one call), with a matching prefix
			if rng.Intn(3) > 0 {
				cnt := map[int]int{}
				best := -1
				for _, j := range full {
					if j.Retries >= 10 && j.Err == "generic" {
						cnt[j.S]++
						if best < 0 || cnt[j.S] > cnt[best] {
							best = j.S
						}
					}
				}
				if best >= 0 {
					target = c14sSubs[best].name
					prefix = []string{"keeps", "k", "keeps failing", "keeps fail"}[rng.Intn(4)]
				}
			}
			var order []int
			for _, sub := range n1.network.Subscribers() {
				for si, s := range c14sSubs {
					if s.name == sub.Name() {
						order = append(order, si)
					}
				}
			}
			cerr := n1.network.CleanupSubscriberEvents(target, prefix)
			afterCleanup := n1.jobs(t, refIdx)
			{
				names := []string{}
				for _, s := range c14sSubs {
					names = append(names, s.name)
				}
				texts := map[string]string{}
				for k, v := range c14sErrLabel {
					texts[v] = k
				}
				opj, _ := json.Marshal(map[string]interface{}{"op": "o14clean", "names": names, "order": order, "target": target, "prefix": prefix, "errText": texts, "jobs": full})
				cleanOps = append(cleanOps, string(opj))
				var rem []string
				for _, j := range n1.jobsFull(refIdx) {
					rem = append(rem, fmt.Sprintf("%d.%d:%d:%s", j.S, j.R, j.Retries, j.Err))
				}
				cleanImpl = append(cleanImpl, fmt.Sprintf("clean|%v|%s", cerr == nil, strings.Join(rem, ",")))
			}
			var removed []string
			for k := range before {
				if _, ok := afterCleanup[k]; !ok {
					removed = append(removed, fmt.Sprintf("%s:%d", k, before[k]))
				}
			}
			sort.Strings(removed)
			cleanup = fmt.Sprintf(" cleanup=%s/%s/%v removed=[%s]", target, strings.ReplaceAll(prefix, " ", "_"), cerr == nil, strings.Join(removed, ","))
			before = afterCleanup
		}
		n1.stop()

		// run 2: healthy subscribers; the real Network.Start
		called := map[string]int{}
		n2 := c14sOpen(t, path, func(s int, ev dag.Event) (bool, error) {
			mu.Lock()
			called[fmt.Sprintf("%s.%d", c14sSubs[s].name, refIdx[fmt.Sprintf("%x", ev.Hash.Slice())])]++
			mu.Unlock()
			return true, nil
		})
		startErr := n2.network.Start()
		mu.Lock()
		after := n2.jobs(t, refIdx)
		var missed []string
		for k := range before {
			if called[k] == 0 {
				missed = append(missed, k)
			}
		}
		sort.Strings(missed)
		e := "nil"
		if startErr != nil {
			e = startErr.Error()
		}
		sort.Strings(selected)
		sort.Strings(mustRemain)
		lines = append(lines, fmt.Sprintf("round=%d start=%s unfinished=[%s] attempted=[%s] left=[%s] missed=[%s] selected=[%s] mustremain=[%s]%s", round, e, c14sFmt(before), c14sFmt(called), c14sFmt(after), strings.Join(missed, ","), strings.Join(selected, ","), strings.Join(mustRemain, ","), cleanup))
		mu.Unlock()
		n2.stop()
		os.Remove(path)
	}
	if err := os.WriteFile(filepath.Join(outDir, "start.out"), []byte(strings.Join(lines, "\n")+"\n"), 0o644); err != nil {
		t.Fatal(err)
	}
	// the clean-up calls once more, for the model (NutsModel.C14.Api.cleanup): op + the jobs left afterwards
	_ = os.WriteFile(filepath.Join(outDir, "ops.jsonl"), []byte(strings.Join(cleanOps, "\n")+"\n"), 0o644)
	_ = os.WriteFile(filepath.Join(outDir, "impl.out"), []byte(strings.Join(cleanImpl, "\n")+"\n"), 0o644)
}
