//go:build verif

package issuer

// C05: the OpenID4VCI pre-authorized code is an authorization code too ("MUST be short-lived and single-use").
// The REAL openidHandler.HandleAccessTokenRequest on the REAL OpenID memory store over a gated session database;
// every interleaving of two (quick) / three (thorough) token requests presenting one pre-authorized code.

import (
	"context"
	"errors"
	"fmt"
	"math/rand"
	"net/http"
	"os"
	"path/filepath"
	"sort"
	"strconv"
	"strings"
	"testing"

	"github.com/nuts-foundation/go-did/did"
	"github.com/nuts-foundation/nuts-node/audit"
	"github.com/nuts-foundation/nuts-node/storage"
	"github.com/nuts-foundation/nuts-node/vcr/openid4vci"
)

func c05VciLevel(t *testing.T) storage.VerifC05Level {
	mk := func(id did.DID, identifier string) *openidHandler {
		h, err := NewOpenIDHandler(id, identifier, definitionsDIR, &http.Client{}, nil, storage.NewTestInMemorySessionDatabase(t))
		if err != nil {
			t.Fatal(err)
		}
		return h.(*openidHandler)
	}
	own := mk(issuerDID, issuerIdentifier)
	other := mk(did.MustParseDID("did:nuts:other"), "http://example.com/other")
	return func(b *storage.VerifC05Backend, scn *storage.VerifC05Scn) ([]func() string, error) {
		for _, i := range scn.Init {
			if i.Kind != "preauth" {
				return nil, fmt.Errorf("kind %s is not driven at vci level", i.Kind)
			}
			h := *own
			h.store = NewOpenIDMemoryStore(b.DB)
			if _, err := h.createOffer(context.Background(), issuedVC, i.ID); err != nil {
				return nil, err
			}
		}
		var fns []func() string
		for ti, r := range scn.Threads {
			r := r
			if r.Kind != "preauth" {
				return nil, fmt.Errorf("kind %s is not driven at vci level", r.Kind)
			}
			h := *own
			if r.Want != "clientA" {
				h = *other // a token request at another issuer of this node
			}
			h.store = NewOpenIDMemoryStore(b.DBFor(ti))
			fns = append(fns, func() string {
				token, _, err := h.HandleAccessTokenRequest(audit.TestContext(), r.ID)
				if err == nil && token != "" {
					return "ok"
				}
				var pe openid4vci.Error
				if errors.As(err, &pe) {
					switch {
					case strings.Contains(pe.Error(), "unknown pre-authorized code"):
						return "not-found"
					case strings.Contains(pe.Error(), "not issued by this issuer"):
						return "mismatch"
					}
				}
				if errors.Is(err, storage.ErrNotFound) || (err != nil && strings.Contains(err.Error(), "injected store failure")) {
					return "not-found"
				}
				return fmt.Sprintf("other:%v", err)
			})
		}
		return fns, nil
	}
}

func c05VciScn(name, backend string, present bool, threads ...storage.VerifC05Req) *storage.VerifC05Scn {
	var init []storage.VerifC05Init
	if present {
		init = []storage.VerifC05Init{{Kind: "preauth", ID: "s1", Val: "clientA"}}
	}
	return &storage.VerifC05Scn{Op: "run", Name: name, Level: "vci", Backend: backend, Init: init, Threads: threads}
}

func TestVerifC05(t *testing.T) {
	outDir := os.Getenv("VERIF_OUT")
	if outDir == "" {
		t.Skip("VERIF_OUT not set")
	}
	seed, _ := strconv.ParseInt(os.Getenv("VERIF_SEED"), 10, 64)
	thorough := os.Getenv("VERIF_TIER") == "thorough"
	maxRuns, _ := strconv.Atoi(os.Getenv("VERIF_MAXRUNS"))
	if maxRuns == 0 {
		maxRuns = 5000
	}
	rng := rand.New(rand.NewSource(seed*15485863 + 3))
	w, err := storage.VerifC05NewWriter(outDir)
	if err != nil {
		t.Fatal(err)
	}
	defer w.Close()
	level := c05VciLevel(t)

	if rp := os.Getenv("VERIF_REPLAY"); rp != "" {
		scns, err := storage.VerifC05ReadScenarios(rp, "vci")
		if err != nil {
			t.Fatal(err)
		}
		for _, s := range scns {
			w.Replay(level, s)
		}
		c05ReplayVForms(t, w, rp)
		return
	}
	if cd := os.Getenv("VERIF_CORPUS"); cd != "" {
		files, _ := filepath.Glob(filepath.Join(cd, "*.jsonl"))
		sort.Strings(files)
		for _, fn := range files {
			scns, err := storage.VerifC05ReadScenarios(fn, "vci")
			if err != nil {
				t.Fatalf("%s: %v", fn, err)
			}
			for _, s := range scns {
				w.Replay(level, s)
			}
			c05ReplayVForms(t, w, fn)
		}
	}
	good := storage.VerifC05Req{Kind: "preauth", ID: "s1", Want: "clientA", Pre: true, Post: true}
	wrong := storage.VerifC05Req{Kind: "preauth", ID: "s1", Want: "clientB", Pre: true, Post: true}
	scns := []*storage.VerifC05Scn{
		c05VciScn("preauth-2", "mem", true, good, good),
		c05VciScn("preauth-2", "mem", true, good, wrong),
		c05VciScn("preauth-2", "mem", true, wrong, wrong),
		c05VciScn("preauth-2-absent", "mem", false, good, good),
		c05VciScn("preauth-2-redis", "redis", true, good, []storage.VerifC05Req{good, wrong}[rng.Intn(2)]),
		c05VciScn("preauth-2-multinode", "redis-multinode", true, good, good),
	}
	for _, f := range []string{"get", "del"} {
		bad := good
		bad.Fail = f
		scns = append(scns, c05VciScn("preauth-2-fault-"+f, "mem", true, bad, good))
	}
	if thorough {
		scns = append(scns, c05VciScn("preauth-3", "mem", true, good, good, good), c05VciScn("preauth-3-mixed", "mem", true, good, wrong, good),
			c05VciScn("preauth-4", "mem", true, good, wrong, good, good), c05VciScn("preauth-3-multinode", "redis-multinode", true, good, good, good))
	} else if rng.Intn(2) == 0 {
		scns = append(scns, c05VciScn("preauth-3", "mem", true, good, good, good))
	} else {
		scns = append(scns, c05VciScn("preauth-3-mixed", "mem", true, good, wrong, good))
	}
	for _, s := range scns {
		// quick tier: scenarios of three and more requests get a smaller budget (the large ones are enumerated in the thorough tier)
		budget := maxRuns
		if !thorough && len(s.Threads) >= 3 && budget > 700 {
			budget = 700
		}
		n, cut := w.Explore(level, s, budget)
		if cut {
			// too many schedules to enumerate: add random walks through the schedule tree
			w.Sample(level, s, budget/2, rng.Intn)
		}
		w.Count(s, n, cut)
	}
	// sequential replays around the TTL (clock control: miniredis)
	for _, dt := range []int{899, 900, 901, 1 + rng.Intn(1800)} {
		s := c05VciScn("preauth-ttl", "redis", true, good, good)
		s.Sched = []int{-dt, 0, 0, 0, 0, -1, 1, 1, 1, 1}
		w.Replay(level, s)
	}
	// request-level leg: issuing calls and token requests served one after the other (op "vforms")
	c05VForms(t, w, rng, thorough)
	t.Logf("C05 vci harness: %d runs, %d goroutine dumps, %d diverged re-executions repeated", w.Runs, w.Dumps, storage.VerifC05Diverged)
}
