//go:build verif

package issuer

// C05, OpenID4VCI request-level leg (op "vforms"): sequences of calls served one after the other by the REAL
// openidMemoryStore.Store / StoreReference (the issuing side of createOffer, with chosen flow ids and codes) and the REAL
// openidHandler.HandleAccessTokenRequest of two issuers of one node, on the real session database (go-cache; miniredis
// with clock control).  Printed: the answer of every call (for an honoured token request: the flow its access token AND
// its c_nonce resolve to), the codes / flows alive at the end, the flows the stored access tokens / c_nonces refer to.
// The compiled Lean model (NutsModel/C05/Vci.lean) reads the same op.

import (
	"context"
	"encoding/json"
	"errors"
	"fmt"
	"math/rand"
	"net/http"
	"os"
	"sort"
	"strings"
	"testing"
	"time"

	"github.com/nuts-foundation/go-did/did"
	"github.com/nuts-foundation/nuts-node/audit"
	"github.com/nuts-foundation/nuts-node/storage"
	"github.com/nuts-foundation/nuts-node/vcr/openid4vci"
)

type c05VForm struct {
	Dt     int    `json:"dt"`
	T      string `json:"t"` // "flow" | "ref" | "token"
	ID     string `json:"id,omitempty"`
	Issuer string `json:"issuer,omitempty"` // "own" | "other"
	Flow   string `json:"flow,omitempty"`
	Code   string `json:"code"`
	At     string `json:"at,omitempty"` // issuer the token request is sent to: "own" | "other"
}

type c05VFormsOp struct {
	Op      string     `json:"op"`
	Scn     string     `json:"scn"`
	Backend string     `json:"backend"`
	Reqs    []c05VForm `json:"reqs"`
}

var c05VOtherDID = did.MustParseDID("did:nuts:other")

func c05VIssuer(name string) string {
	if name == "own" {
		return issuerDID.String()
	}
	return c05VOtherDID.String()
}

func c05VIssuerName(id string) string {
	switch id {
	case issuerDID.String():
		return "own"
	case c05VOtherDID.String():
		return "other"
	}
	return "?" + id
}

func c05VErr(err error) string {
	var pe openid4vci.Error
	if errors.As(err, &pe) {
		msg := ""
		if pe.Err != nil {
			msg = pe.Err.Error()
		}
		return string(pe.Code) + "|" + msg
	}
	return "error|" + err.Error()
}

func c05RunVForms(t *testing.T, w *storage.VerifC05Writer, op c05VFormsOp) {
	var b *storage.VerifC05Backend
	if op.Backend == "redis" {
		var err error
		if b, err = storage.VerifC05RedisBackend(nil, nil); err != nil {
			panic(err)
		}
	} else {
		b = storage.VerifC05MemBackend(nil, false, nil)
	}
	defer b.Close()
	mk := func(id did.DID, identifier string) *openidHandler {
		h, err := NewOpenIDHandler(id, identifier, definitionsDIR, &http.Client{}, nil, b.DB)
		if err != nil {
			t.Fatal(err)
		}
		return h.(*openidHandler)
	}
	handlers := map[string]*openidHandler{"own": mk(issuerDID, issuerIdentifier), "other": mk(c05VOtherDID, "http://example.com/other")}
	st := NewOpenIDMemoryStore(b.DB)
	ctx := context.Background()
	var answers, callSeqs []string
	var calls []string
	b.Gate.Calls = &calls
	for _, f := range op.Reqs {
		f := f
		calls = calls[:0]
		var seq []string
		if f.Dt > 0 && b.Advance != nil {
			b.Advance(time.Duration(f.Dt) * time.Second)
		}
		ans := func() (res string) {
			defer func() {
				if r := recover(); r != nil {
					res = fmt.Sprintf("panic:%v", r)
				}
			}()
			switch f.T {
			case "flow":
				if err := st.Store(ctx, Flow{ID: f.ID, IssuerID: c05VIssuer(f.Issuer)}); err != nil {
					return c05VErr(err)
				}
				return "ok"
			case "ref":
				if err := st.StoreReference(ctx, f.Flow, preAuthCodeRefType, f.Code); err != nil {
					return c05VErr(err)
				}
				return "ok"
			}
			token, cNonce, err := handlers[f.At].HandleAccessTokenRequest(audit.TestContext(), f.Code)
			// the underlying store calls the token endpoint made on the pre-authorized-code store, in order
			for _, c := range calls {
				if i := strings.Index(c, ":"); strings.HasPrefix(c[i+1:], "openid4vci/preauthcode/") {
					seq = append(seq, c[:i+1]+"preauth/"+strings.TrimPrefix(c[i+1:], "openid4vci/preauthcode/"))
				}
			}
			if err != nil {
				return c05VErr(err)
			}
			// what was issued: the access token and the c_nonce both resolve to the flow of the code
			fa, err1 := st.FindByReference(ctx, accessTokenRefType, token)
			fc, err2 := st.FindByReference(ctx, cNonceRefType, cNonce)
			if err1 != nil || err2 != nil || fa == nil || fc == nil {
				return fmt.Sprintf("200:unresolvable(%v,%v)", err1, err2)
			}
			if fa.ID != fc.ID {
				return "200:" + fa.ID + "!=" + fc.ID
			}
			return "200:" + fa.ID
		}()
		answers = append(answers, ans)
		callSeqs = append(callSeqs, strings.Join(seq, ","))
	}
	b.Gate.Calls = nil
	var live, at, cn []string
	val := func(refType, key string) string {
		var s string
		if err := b.DB.GetStore(TokenTTL, "openid4vci", refType).Get(key, &s); err != nil {
			return "?" + err.Error()
		}
		return s
	}
	for _, k := range b.Keys() {
		switch {
		case strings.HasPrefix(k, "openid4vci/preauthcode/"):
			c := strings.TrimPrefix(k, "openid4vci/preauthcode/")
			live = append(live, "code/"+c+"="+val("preauthcode", c))
		case strings.HasPrefix(k, "openid4vci/flow/"):
			id := strings.TrimPrefix(k, "openid4vci/flow/")
			var fl Flow
			iss := "?"
			if err := b.DB.GetStore(TokenTTL, "openid4vci", "flow").Get(id, &fl); err == nil {
				iss = c05VIssuerName(fl.IssuerID)
			}
			live = append(live, "flow/"+id+"="+iss)
		case strings.HasPrefix(k, "openid4vci/accesstoken/"):
			at = append(at, val("accesstoken", strings.TrimPrefix(k, "openid4vci/accesstoken/")))
		case strings.HasPrefix(k, "openid4vci/c_nonce/"):
			cn = append(cn, val("c_nonce", strings.TrimPrefix(k, "openid4vci/c_nonce/")))
		}
	}
	sort.Strings(live)
	sort.Strings(at)
	sort.Strings(cn)
	raw, _ := json.Marshal(op)
	var m map[string]interface{}
	_ = json.Unmarshal(raw, &m)
	w.Raw(m, fmt.Sprintf("vforms ans=%s live=[%s] at=[%s] cn=[%s] calls=[%s]", strings.Join(answers, ";"), strings.Join(live, ","), strings.Join(at, ","), strings.Join(cn, ","), strings.Join(callSeqs, ";")))
}

func c05GenVForms(rng *rand.Rand, idx int, backend string) c05VFormsOp {
	op := c05VFormsOp{Op: "vforms", Scn: fmt.Sprintf("vf-%d", idx), Backend: backend}
	flows := []string{"f1", "f2", "f3"}
	codes := []string{"c1", "c2", "c3", "f1", "c1/x"}
	issuers := []string{"own", "own", "other"}
	dt := func() int {
		if backend != "redis" {
			return 0
		}
		switch rng.Intn(8) {
		case 0:
			return 1 + rng.Intn(30)
		case 1:
			return 440 + rng.Intn(20) // two of these cross the TTL of 900 s
		case 2:
			return 899 + rng.Intn(3)
		}
		return 0
	}
	if backend == "redis" && rng.Intn(5) == 0 {
		// the flow expires before the code that refers to it: the code is consumed, the answer is the store's "not found"
		late := 300 + rng.Intn(500)
		iss := issuers[rng.Intn(len(issuers))]
		op.Reqs = append(op.Reqs, c05VForm{T: "flow", ID: "f1", Issuer: iss}, c05VForm{Dt: late, T: "ref", Flow: "f1", Code: "c1"},
			c05VForm{Dt: 900 - late + rng.Intn(late), T: "token", Code: "c1", At: iss}, c05VForm{Dt: rng.Intn(3), T: "token", Code: "c1", At: iss},
			c05VForm{T: "flow", ID: "f1", Issuer: iss}, c05VForm{T: "token", Code: "c1", At: iss})
		return op
	}
	// issuing prefix: one to three flows, one to four codes (a code of a flow that does not exist, a code issued twice,
	// two codes of one flow, a code stored some time after its flow: the flow expires first)
	nf := 1 + rng.Intn(3)
	flowIss := map[string]string{}
	for i := 0; i < nf; i++ {
		flowIss[flows[i]] = issuers[rng.Intn(len(issuers))]
		op.Reqs = append(op.Reqs, c05VForm{Dt: 0, T: "flow", ID: flows[i], Issuer: flowIss[flows[i]]})
	}
	if rng.Intn(6) == 0 {
		op.Reqs = append(op.Reqs, c05VForm{T: "flow", ID: []string{"", flows[0]}[rng.Intn(2)], Issuer: "other"})
	}
	nc := 1 + rng.Intn(4)
	var issued []string
	codeIss := map[string]string{}
	for i := 0; i < nc; i++ {
		fl := flows[rng.Intn(nf)]
		if rng.Intn(8) == 0 {
			fl = "f9" // no such flow
		}
		d := 0
		if i == 0 && rng.Intn(3) == 0 {
			d = dt()
		}
		code := codes[rng.Intn(len(codes))]
		if rng.Intn(12) == 0 {
			code = ""
		}
		if _, dup := codeIss[code]; !dup && fl != "f9" && code != "" {
			issued = append(issued, code)
			codeIss[code] = flowIss[fl]
		}
		op.Reqs = append(op.Reqs, c05VForm{Dt: d, T: "ref", Flow: fl, Code: code})
	}
	// token requests: mostly naming issued codes, mostly at the flow's issuer; repeated; interleaved with re-issuing
	// attempts; time passing (redis)
	n := 3 + rng.Intn(6)
	for i := 0; i < n; i++ {
		switch r := rng.Intn(12); {
		case r == 0:
			op.Reqs = append(op.Reqs, c05VForm{Dt: dt(), T: "ref", Flow: flows[rng.Intn(nf)], Code: codes[rng.Intn(len(codes))]})
		case r == 1:
			op.Reqs = append(op.Reqs, c05VForm{Dt: dt(), T: "flow", ID: flows[rng.Intn(len(flows))], Issuer: issuers[rng.Intn(len(issuers))]})
		default:
			code := codes[rng.Intn(3)]
			at := issuers[rng.Intn(len(issuers))]
			if len(issued) > 0 && rng.Intn(5) != 0 {
				code = issued[rng.Intn(len(issued))]
				if rng.Intn(4) != 0 {
					at = codeIss[code]
				}
			}
			if rng.Intn(10) == 0 {
				code = []string{"", "c9", "c1/x", "f1", "preauthcode/c1"}[rng.Intn(5)]
			}
			op.Reqs = append(op.Reqs, c05VForm{Dt: dt(), T: "token", Code: code, At: at})
		}
	}
	return op
}

func c05VForms(t *testing.T, w *storage.VerifC05Writer, rng *rand.Rand, thorough bool) {
	n := 120
	if thorough {
		n = 600
	}
	for i := 0; i < n; i++ {
		backend := "mem"
		if i%3 == 2 {
			backend = "redis"
		}
		c05RunVForms(t, w, c05GenVForms(rng, i, backend))
	}
}

func c05ReplayVForms(t *testing.T, w *storage.VerifC05Writer, path string) {
	data, err := os.ReadFile(path)
	if err != nil {
		return
	}
	for _, line := range strings.Split(string(data), "\n") {
		var op c05VFormsOp
		if json.Unmarshal([]byte(line), &op) == nil && op.Op == "vforms" {
			c05RunVForms(t, w, op)
		}
	}
}
