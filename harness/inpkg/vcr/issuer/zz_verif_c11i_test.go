//go:build verif

// C11 correspondence harness, issuer side end to end (injected with `go test -overlay`; nothing is written into /repo).
// Real issuer (NewIssuer wiring: Issue with status list entry, Revoke routing did:nuts / status list, buildRevocation,
// revokeStatusList) + real verifier (NewVerifier wiring) sharing one StatusList2021 on SQLite, real JSON-LD signing.
package issuer

import (
	"bufio"
	"context"
	"crypto"
	"encoding/json"
	"errors"
	"fmt"
	"math/rand"
	"os"
	"path"
	"path/filepath"
	"strconv"
	"strings"
	"testing"

	ssi "github.com/nuts-foundation/go-did"
	"github.com/nuts-foundation/go-did/did"
	"github.com/nuts-foundation/go-did/vc"
	"github.com/nuts-foundation/nuts-node/audit"
	nutsCrypto "github.com/nuts-foundation/nuts-node/crypto"
	"github.com/nuts-foundation/nuts-node/jsonld"
	"github.com/nuts-foundation/nuts-node/storage"
	testio "github.com/nuts-foundation/nuts-node/test/io"
	"github.com/nuts-foundation/nuts-node/vcr/credential"
	"github.com/nuts-foundation/nuts-node/vcr/revocation"
	"github.com/nuts-foundation/nuts-node/vcr/trust"
	"github.com/nuts-foundation/nuts-node/vcr/types"
	"github.com/nuts-foundation/nuts-node/vcr/verifier"
	"github.com/nuts-foundation/nuts-node/vdr/resolver"
	"github.com/sirupsen/logrus"
)

type c11iOp struct {
	Op         string `json:"op"` // ireset | iissue | irevoke | iverify
	Sc         int    `json:"sc"`
	Issuer     string `json:"issuer,omitempty"`
	StatusList bool   `json:"statuslist,omitempty"`
	K          int    `json:"k"`                 // index of an issued credential of this scenario
	Deliver    bool   `json:"deliver,omitempty"` // irevoke of a did:nuts credential: hand the published revocation to the verifier
	// iplant: a credential with TWO status entries of the node's own list is put into the issuer's store;
	// Shape = susp-first | other-first | two-rev | susp-only | other-only (what the first entry is / whether a second follows)
	Shape string `json:"shape,omitempty"`
}

var c11iDIDs = []string{"did:nuts:AAAAAAAAAAAAAAAAAAAAAAAAAAAAAAAAAAAAAAAAAAAA", "did:nuts:BBBBBBBBBBBBBBBBBBBBBBBBBBBBBBBBBBBBBBBBBBBB",
	"did:web:example.com:iam:alice", "did:web:example.com:iam:bob"}

// map-based DID resolver: every known DID has one assertion/signing key <did>#k1
type c11iResolver struct{ docs map[string]*did.Document }

func (r c11iResolver) Resolve(id did.DID, _ *resolver.ResolveMetadata) (*did.Document, *resolver.DocumentMetadata, error) {
	if d, ok := r.docs[id.String()]; ok {
		return d, &resolver.DocumentMetadata{}, nil
	}
	return nil, nil, resolver.ErrNotFound
}

type c11iPublisher struct{ revocations []credential.Revocation }

func (p *c11iPublisher) PublishCredential(context.Context, vc.VerifiableCredential, bool) error { return nil }
func (p *c11iPublisher) PublishRevocation(_ context.Context, r credential.Revocation) error {
	p.revocations = append(p.revocations, r)
	return nil
}

type c11iWorld struct {
	t      *testing.T
	ld     jsonld.JSONLD
	dir    string
	n      int
	res    c11iResolver
	keys   *nutsCrypto.Crypto
	pub    *c11iPublisher
	iss    Issuer
	ver    verifier.Verifier
	vstore verifier.Store
	istore Store
	issued []*vc.VerifiableCredential
	planted map[int]bool // unsigned credentials put into the store by iplant (verified without the signature check)
}

func (w *c11iWorld) reset() {
	if w.vstore != nil {
		_ = w.vstore.Close()
		_ = w.istore.Close()
	}
	w.n++
	db := storage.NewTestStorageEngine(w.t).GetSQLDatabase()
	for _, d := range c11iDIDs {
		if err := db.Exec("INSERT INTO did ( subject, id ) VALUES ( ?, ? )", d, d).Error; err != nil {
			w.t.Fatal(err)
		}
	}
	// keys live in the same SQL database (the status list signs inside its own transaction, which the key store joins)
	w.keys = nutsCrypto.NewDatabaseCryptoInstance(db)
	w.res = c11iResolver{docs: map[string]*did.Document{}}
	for _, d := range c11iDIDs {
		id := did.MustParseDID(d)
		kid := did.MustParseDIDURL(d + "#k1")
		_, pub, err := w.keys.New(audit.TestContext(), nutsCrypto.StringNamingFunc(kid.String()))
		if err != nil {
			w.t.Fatal(err)
		}
		vm, err := did.NewVerificationMethod(kid, ssi.JsonWebKey2020, id, pub.(crypto.PublicKey))
		if err != nil {
			w.t.Fatal(err)
		}
		doc := &did.Document{ID: id}
		doc.AddAssertionMethod(vm)
		w.res.docs[d] = doc
	}
	var err error
	w.istore, err = NewStore(db, path.Join(w.dir, fmt.Sprintf("issuer-%d.db", w.n)), storage.CreateTestBBoltStore(w.t, path.Join(w.dir, fmt.Sprintf("ibackup-%d.db", w.n))))
	if err != nil {
		w.t.Fatal(err)
	}
	w.vstore, err = verifier.NewLeiaVerifierStore(path.Join(w.dir, fmt.Sprintf("verifier-%d.db", w.n)), storage.CreateTestBBoltStore(w.t, path.Join(w.dir, fmt.Sprintf("vbackup-%d.db", w.n))))
	if err != nil {
		w.t.Fatal(err)
	}
	trustConfig := trust.NewConfig(path.Join(w.dir, fmt.Sprintf("trust-%d.yaml", w.n)))
	sl := revocation.NewStatusList2021(db, nil, "https://node.example")
	w.pub = &c11iPublisher{}
	// the real wiring of both constructors (Sign / ResolveKey / VerifySignature injected into the shared StatusList2021)
	w.iss = NewIssuer(w.istore, nil, w.pub, nil, w.res, w.keys, w.ld, trustConfig, sl)
	w.ver = verifier.NewVerifier(w.vstore, w.res, resolver.DIDKeyResolver{Resolver: w.res}, w.ld, trustConfig, sl)
	w.issued = nil
	w.planted = map[int]bool{}
}

func c11iClass(err error) string {
	switch {
	case err == nil:
		return "ok"
	case errors.Is(err, types.ErrRevoked):
		return "revoked"
	case errors.Is(err, types.ErrStatusNotFound):
		return "err:status-not-found"
	case errors.Is(err, types.ErrNotFound):
		return "err:notfound"
	}
	return "err:other:" + err.Error()
}

func (w *c11iWorld) exec(op c11iOp) (line string) {
	defer func() {
		if r := recover(); r != nil {
			line = fmt.Sprintf("%s panic:%v", op.Op, r)
		}
	}()
	ctx := audit.TestContext()
	switch op.Op {
	case "ireset":
		w.reset()
		return "ireset"
	case "iissue":
		template := vc.VerifiableCredential{
			Context:           []ssi.URI{credential.NutsV1ContextURI},
			Type:              []ssi.URI{ssi.MustParseURI("HumanCredential")},
			Issuer:            ssi.MustParseURI(op.Issuer),
			CredentialSubject: []interface{}{map[string]interface{}{"id": c11iDIDs[1]}},
		}
		cred, err := w.iss.Issue(ctx, template, CredentialOptions{WithStatusListRevocation: op.StatusList})
		if err != nil {
			return "iissue " + c11iClass(err)
		}
		w.issued = append(w.issued, cred)
		status := "none"
		if sts, _ := cred.CredentialStatuses(); len(sts) > 0 {
			var parts []string
			for _, s := range sts {
				var e revocation.StatusList2021Entry
				_ = json.Unmarshal(s.Raw(), &e)
				parts = append(parts, fmt.Sprintf("%s/%s#%s", e.Type, e.StatusPurpose, strings.TrimPrefix(e.StatusListCredential, "https://node.example/statuslist/")+"#"+e.StatusListIndex))
			}
			status = strings.Join(parts, ",")
		}
		return fmt.Sprintf("iissue ok k=%d idprefix=%v status=%s", len(w.issued)-1, strings.Split(cred.ID.String(), "#")[0] == op.Issuer, status)
	case "iplant":
		ii, ok := w.iss.(*issuer)
		if !ok {
			return "iplant err:issuer-type"
		}
		id := did.MustParseDID(op.Issuer)
		var entries []*revocation.StatusList2021Entry
		for j := 0; j < 2; j++ {
			e, err := ii.statusList.Entry(ctx, id, revocation.StatusPurposeRevocation)
			if err != nil {
				return "iplant " + c11iClass(err)
			}
			entries = append(entries, e)
		}
		switch op.Shape {
		case "susp-first":
			entries[0].StatusPurpose = "suspension"
		case "other-first":
			entries[0].Type = "OtherStatus"
		case "susp-only":
			entries[0].StatusPurpose = "suspension"
			entries = entries[:1]
		case "other-only":
			entries[0].Type = "OtherStatus"
			entries = entries[:1]
		}
		m := map[string]interface{}{
			"@context":          []interface{}{vc.VCContextV1URI().String(), credential.NutsV1Context, revocation.StatusList2021ContextURI.String()},
			"type":              []interface{}{"VerifiableCredential", "HumanCredential"},
			"id":                fmt.Sprintf("%s#plant-%d", op.Issuer, len(w.issued)),
			"issuer":            op.Issuer,
			"issuanceDate":      "2024-01-01T00:00:00Z",
			"credentialSubject": map[string]interface{}{"id": c11iDIDs[1]},
			"credentialStatus":  entries,
		}
		raw, _ := json.Marshal(m)
		cred, err := vc.ParseVerifiableCredential(string(raw))
		if err != nil {
			return "iplant err:build:" + err.Error()
		}
		if err = w.istore.StoreCredential(*cred); err != nil {
			return "iplant err:store:" + err.Error()
		}
		w.planted[len(w.issued)] = true
		w.issued = append(w.issued, cred)
		var parts []string
		for _, e := range entries {
			parts = append(parts, fmt.Sprintf("%s/%s#%s", e.Type, e.StatusPurpose, strings.TrimPrefix(e.StatusListCredential, "https://node.example/statuslist/")+"#"+e.StatusListIndex))
		}
		return fmt.Sprintf("iplant ok k=%d status=%s", len(w.issued)-1, strings.Join(parts, ","))
	case "irevoke":
		if op.K >= len(w.issued) {
			return "irevoke none"
		}
		cred := w.issued[op.K]
		before := len(w.pub.revocations)
		rev, err := w.iss.Revoke(ctx, *cred.ID)
		out := "irevoke " + c11iClass(err)
		if rev != nil {
			// did:nuts route: a signed revocation naming the credential and its issuer, published once
			out += fmt.Sprintf(" net subject=%v issuer=%v published=%d", rev.Subject.String() == cred.ID.String(), rev.Issuer.String() == cred.Issuer.String(), len(w.pub.revocations)-before)
			if op.Deliver {
				out += " register=" + c11iClass(w.ver.RegisterRevocation(*rev))
			}
		} else if err == nil {
			out += " statuslist"
		}
		return out
	case "iverify":
		if op.K >= len(w.issued) {
			return "iverify none"
		}
		return "iverify " + c11iClass(w.ver.Verify(*w.issued[op.K], true, !w.planted[op.K], nil))
	}
	return "bad-op:" + op.Op
}

func TestVerifC11i(t *testing.T) {
	outDir := os.Getenv("VERIF_OUT")
	if outDir == "" {
		t.Skip("VERIF_OUT not set")
	}
	logrus.SetLevel(logrus.PanicLevel)
	seed, _ := strconv.ParseInt(os.Getenv("VERIF_SEED"), 10, 64)
	nScen, _ := strconv.Atoi(os.Getenv("VERIF_SCENARIOS"))
	if nScen == 0 {
		nScen = 5
	}
	w := &c11iWorld{t: t, ld: jsonld.NewTestJSONLDManager(t), dir: testio.TestDirectory(t)}
	w.reset()
	fo, err := os.Create(filepath.Join(outDir, "ops.jsonl"))
	if err != nil {
		t.Fatal(err)
	}
	defer fo.Close()
	fi, err := os.Create(filepath.Join(outDir, "impl.out"))
	if err != nil {
		t.Fatal(err)
	}
	defer fi.Close()
	bo, bi := bufio.NewWriter(fo), bufio.NewWriter(fi)
	defer bo.Flush()
	defer bi.Flush()
	run := func(op c11iOp) {
		line := w.exec(op)
		js, _ := json.Marshal(op)
		bo.Write(js)
		bo.WriteByte('\n')
		bi.WriteString(line)
		bi.WriteByte('\n')
	}
	if rp := os.Getenv("VERIF_REPLAY"); rp != "" {
		f, err := os.Open(rp)
		if err != nil {
			t.Fatal(err)
		}
		defer f.Close()
		sc := bufio.NewScanner(f)
		for sc.Scan() {
			var op c11iOp
			if json.Unmarshal(sc.Bytes(), &op) == nil && strings.HasPrefix(op.Op, "i") {
				run(op)
			}
		}
		return
	}
	rng := rand.New(rand.NewSource(seed*32452843 + 7))
	for sc := 0; sc < nScen; sc++ {
		run(c11iOp{Op: "ireset", Sc: sc})
		n := 0
		for i, steps := 0, 10+rng.Intn(14); i < steps; i++ {
			switch k := rng.Intn(10); {
			case k < 4 || n == 0:
				is := c11iDIDs[rng.Intn(len(c11iDIDs))]
				run(c11iOp{Op: "iissue", Sc: sc, Issuer: is, StatusList: strings.HasPrefix(is, "did:web") || rng.Intn(3) == 0})
				n++
			case k == 4:
				run(c11iOp{Op: "iplant", Sc: sc, Issuer: c11iDIDs[2+rng.Intn(2)], Shape: []string{"susp-first", "other-first", "two-rev", "susp-only", "other-only", "susp-first"}[rng.Intn(6)]})
				n++
			case k < 7:
				run(c11iOp{Op: "irevoke", Sc: sc, K: rng.Intn(n), Deliver: rng.Intn(4) != 0})
			default:
				run(c11iOp{Op: "iverify", Sc: sc, K: rng.Intn(n)})
			}
		}
		for k := 0; k < n; k++ {
			run(c11iOp{Op: "iverify", Sc: sc, K: k})
		}
	}
}
