//go:build verif

package holder

// C12 (deepening round) — the presenter's VP-format negotiation. For generated verifier metadata (`BuildParams.Format`)
// and definition `format` objects the REAL code is run twice:
//   1. credential.Formats.Match chained exactly as presenter.buildSubmission does (the statement list of that function
//      is pinned by fact_presenter_build_submission_source) followed by pe.ChooseVPFormat: step results + chosen format,
//      compared line by line with the Lean model (NutsModel/C12/Formats.lean, driver op `formats`);
//   2. the real presenter.buildSubmission on an empty wallet: whether it stops with "don't share a supported VP format".
// Writes formats.ops.jsonl / formats.impl.out.

import (
	"bufio"
	"encoding/json"
	"fmt"
	"math/rand"
	"os"
	"path/filepath"
	"sort"
	"strconv"
	"strings"
	"testing"
	"time"

	"github.com/nuts-foundation/go-did/did"
	"github.com/nuts-foundation/go-did/vc"
	"github.com/nuts-foundation/nuts-node/audit"
	"github.com/nuts-foundation/nuts-node/auth/oauth"
	"github.com/nuts-foundation/nuts-node/crypto"
	"github.com/nuts-foundation/nuts-node/jsonld"
	"github.com/nuts-foundation/nuts-node/storage/orm"
	"github.com/nuts-foundation/nuts-node/vcr/credential"
	"github.com/nuts-foundation/nuts-node/vcr/pe"
	"github.com/nuts-foundation/nuts-node/vdr"
	"github.com/nuts-foundation/nuts-node/vdr/resolver"
	"go.uber.org/mock/gomock"
)

type wFmt = map[string]map[string][]string

func wShow(m wFmt) string {
	fk := []string{}
	for k := range m {
		fk = append(fk, k)
	}
	sort.Strings(fk)
	parts := []string{}
	for _, k := range fk {
		pk := []string{}
		for p := range m[k] {
			pk = append(pk, p)
		}
		sort.Strings(pk)
		pp := []string{}
		for _, p := range pk {
			pp = append(pp, p+"=["+strings.Join(m[k][p], ",")+"]")
		}
		parts = append(parts, k+"={"+strings.Join(pp, ",")+"}")
	}
	return "{" + strings.Join(parts, ",") + "}"
}

var wAlgs = []string{"ES256", "EdDSA", "PS256", "ES384", "RS256", "none"}
var wProofs = []string{"JsonWebSignature2020", "Ed25519Signature2018", "X"}

func wGen(rng *rand.Rand, formats []string, algKeys, proofKeys []string) wFmt {
	m := wFmt{}
	for _, f := range formats {
		if rng.Intn(4) == 0 {
			continue
		}
		ps := map[string][]string{}
		pool, keys := wAlgs, algKeys
		if strings.HasPrefix(f, "ldp") {
			pool, keys = wProofs, proofKeys
		}
		switch rng.Intn(8) {
		case 0: // no parameters at all
		case 1: // a parameter of the other family
			ps["x"] = []string{"y"}
		default:
			vals := []string{}
			for _, v := range pool {
				if rng.Intn(3) > 0 {
					vals = append(vals, v)
				}
			}
			if rng.Intn(6) == 0 && len(vals) > 0 {
				vals = append(vals, vals[0]) // duplicate value
			}
			ps[keys[rng.Intn(len(keys))]] = vals
			if rng.Intn(5) == 0 {
				ps["x"] = []string{"y"}
			}
		}
		m[f] = ps
	}
	return m
}

func TestVerifC12Formats(t *testing.T) {
	outDir := os.Getenv("VERIF_OUT")
	if outDir == "" {
		t.Skip("VERIF_OUT not set")
	}
	seed, _ := strconv.ParseInt(os.Getenv("VERIF_SEED"), 10, 64)
	n := 600
	if os.Getenv("VERIF_TIER") == "thorough" {
		n = 20000
	}
	fo, _ := os.Create(filepath.Join(outDir, "formats.ops.jsonl"))
	defer fo.Close()
	fi, _ := os.Create(filepath.Join(outDir, "formats.impl.out"))
	defer fi.Close()
	wo, wi := bufio.NewWriterSize(fo, 1<<20), bufio.NewWriterSize(fi, 1<<20)
	defer wo.Flush()
	defer wi.Flush()

	key := vdr.TestMethodDIDAPrivateKey()
	walletDID := vdr.TestDIDA
	ctx := audit.TestContext()
	keyStorage := crypto.NewMemoryStorage()
	_ = keyStorage.SavePrivateKey(ctx, key.KID, key.PrivateKey)
	keyStore := crypto.NewTestCryptoInstance(orm.NewTestDatabase(t), keyStorage)
	_ = keyStore.Link(ctx, key.KID, key.KID, "1")
	ctrl := gomock.NewController(t)
	keyResolver := resolver.NewMockKeyResolver(ctrl)
	keyResolver.EXPECT().ResolveKey(gomock.Any(), nil, resolver.NutsSigningKeyType).Return(key.KID, key.PublicKey, nil).AnyTimes()
	p := presenter{documentLoader: jsonld.NewTestJSONLDManager(t).DocumentLoader(), signer: keyStore, keyResolver: keyResolver}

	defaults := oauth.DefaultOpenIDSupportedFormats()
	openidFormats := []string{"jwt_vp_json", "jwt_vc_json", "ldp_vp", "ldp_vc", "jwt_vp", "jwt_vc", "other"}
	difFormats := []string{"jwt_vp", "jwt_vc", "ldp_vp", "ldp_vc", "jwt_vp_json", "other"}
	run := func(verifier wFmt, pdFormat *pe.PresentationDefinitionClaimFormatDesignations) {
		op := map[string]interface{}{"op": "formats", "defaults": defaults, "verifier": verifier, "pdFormat": pdFormat}
		b, _ := json.Marshal(op)
		wo.Write(b)
		wo.WriteByte('\n')
		line := func() (line string) {
			defer func() {
				if r := recover(); r != nil {
					line = "formats panic:" + fmt.Sprint(r)
				}
			}()
			fc := credential.OpenIDSupportedFormats(oauth.DefaultOpenIDSupportedFormats())
			fc = fc.Match(credential.OpenIDSupportedFormats(verifier))
			step1 := wShow(fc.Map)
			if pdFormat != nil {
				fc = fc.Match(credential.DIFClaimFormats(*pdFormat))
			}
			chosen := pe.ChooseVPFormat(fc.Map)
			return fmt.Sprintf("formats chosen=%s step1=%s step2=%s", chosen, step1, wShow(fc.Map))
		}()
		real := func() (res string) {
			defer func() {
				if r := recover(); r != nil {
					res = "panic"
				}
			}()
			pd := pe.PresentationDefinition{Id: "pdf", Format: pdFormat}
			_, _, err := p.buildSubmission(ctx, map[did.DID][]vc.VerifiableCredential{walletDID: {}}, pd,
				BuildParams{Audience: "did:web:example.com:iam:verifier", Expires: time.Now().Add(time.Minute), Format: verifier, Nonce: "n"})
			switch {
			case err == nil:
				return "ok"
			case strings.Contains(err.Error(), "don't share a supported VP format"):
				return "nofmt"
			}
			return "err"
		}()
		wi.WriteString(line + "\treal=" + real + "\n")
	}
	if rp := os.Getenv("VERIF_REPLAY"); rp != "" {
		f, err := os.Open(rp)
		if err != nil {
			t.Fatal(err)
		}
		defer f.Close()
		sc := bufio.NewScanner(f)
		sc.Buffer(make([]byte, 1<<20), 1<<26)
		for sc.Scan() {
			var op struct {
				Op       string                                          `json:"op"`
				Verifier wFmt                                            `json:"verifier"`
				PdFormat *pe.PresentationDefinitionClaimFormatDesignations `json:"pdFormat"`
			}
			if json.Unmarshal(sc.Bytes(), &op) == nil && op.Op == "formats" {
				run(op.Verifier, op.PdFormat)
			}
		}
		return
	}
	rng := rand.New(rand.NewSource(seed*104729 + 5))
	for i := 0; i < n; i++ {
		var verifier wFmt
		if rng.Intn(10) > 0 {
			// OpenID metadata usually spells the parameters *_values_supported; sometimes the DIF names
			verifier = wGen(rng, openidFormats, []string{"alg_values_supported", "alg_values_supported", "alg"}, []string{"proof_type_values_supported", "proof_type_values_supported", "proof_type"})
		}
		var pdFormat *pe.PresentationDefinitionClaimFormatDesignations
		if rng.Intn(3) > 0 {
			g := pe.PresentationDefinitionClaimFormatDesignations(wGen(rng, difFormats, []string{"alg", "alg", "alg_values_supported"}, []string{"proof_type", "proof_type", "proof_type_values_supported"}))
			pdFormat = &g
		}
		run(verifier, pdFormat)
	}
}
