//go:build verif

package credential

// C01 (deepening round 2026-09-28): correspondence harness for the parts of vcr/credential that the first C01 model took as inputs:
// the type-specific subject validators (validator.go), PresentationIssuanceDate / PresentationExpirationDate, FilterOnDIDMethod and
// AutoCorrectSelfAttestedCredential (util.go).  Every op is self-contained (it carries the document text) and replayable.

import (
	"encoding/base64"
	"encoding/json"
	"fmt"
	"math/rand"
	"net/url"
	"os"
	"path"
	"sort"
	"strconv"
	"strings"
	"testing"
	"time"
	"unicode"

	"github.com/lestrrat-go/jwx/v2/jwt"
	"github.com/nuts-foundation/go-did/did"
	"github.com/nuts-foundation/go-did/vc"
	"github.com/nuts-foundation/nuts-node/vcr/revocation"
	"github.com/nuts-foundation/nuts-node/vcr/signature/proof"
	"github.com/nuts-foundation/nuts-node/vdr/resolver"
)

type c01vOut struct {
	ops, impl *os.File
	stats     map[string]int
}

func (o *c01vOut) emit(op map[string]any, line string) {
	b, err := json.Marshal(op)
	if err != nil {
		panic(err)
	}
	o.ops.Write(append(b, '\n'))
	o.impl.WriteString(line + "\n")
	o.stats[fmt.Sprint(op["op"])+":"+strings.SplitN(line, " ", 2)[0]]++
}

func c01vMs(t time.Time) int64 { return t.UnixMilli() }

func c01vGuard(f func() string) (out string) {
	defer func() {
		if r := recover(); r != nil {
			out = "panic"
		}
	}()
	return f()
}

// ---------------------------------------------------------------- rune tables (contract of the model's isGoSpace / lowerRune)

func c01vRuneTables(o *c01vOut) {
	var sp, lo []string
	for r := rune(0); r <= unicode.MaxRune; r++ {
		if unicode.IsSpace(r) {
			sp = append(sp, strconv.Itoa(int(r)))
		}
		if r >= 0x80 && r != 0xFFFD && !(r >= 0xD800 && r <= 0xDFFF) {
			if l := strings.ToLower(string(r)); len(l) == 1 { // lowers to ONE ASCII byte
				lo = append(lo, strconv.Itoa(int(r))+">"+l)
			}
		}
	}
	// strings.TrimSpace agrees with unicode.IsSpace on each single rune
	for r := rune(0); r < 0x3100; r++ {
		if (strings.TrimSpace(string(r)) == "") != unicode.IsSpace(r) && r != 0xFFFD && !(r >= 0xD800 && r <= 0xDFFF) {
			sp = append(sp, "trimspace-disagrees-"+strconv.Itoa(int(r)))
		}
	}
	o.emit(map[string]any{"op": "rune-tables"}, "space="+strings.Join(sp, ",")+";lower="+strings.Join(lo, ","))
}

// ---------------------------------------------------------------- validators

func c01vViewVC(c vc.VerifiableCredential, dids, urls map[string]any) map[string]any {
	addDID := func(s string) {
		if d, err := did.ParseDID(s); err == nil {
			dids[s] = d.String()
		} else {
			dids[s] = nil
		}
	}
	v := map[string]any{"fmt": c.Format()}
	ctx, types := []string{}, []string{}
	for _, u := range c.Context {
		ctx = append(ctx, u.String())
	}
	for _, u := range c.Type {
		types = append(types, u.String())
	}
	v["ctx"], v["types"] = ctx, types
	if c.ID != nil {
		v["id"] = c.ID.String()
		if d, err := resolver.GetDIDFromURL(c.ID.String()); err == nil {
			urls[c.ID.String()] = d.String()
		} else {
			urls[c.ID.String()] = nil
		}
	} else {
		v["id"] = nil
	}
	v["issuer"] = c.Issuer.String()
	addDID(c.Issuer.String())
	v["issued"] = c01vMs(c.IssuanceDate)
	if c.ExpirationDate != nil {
		v["expires"] = c01vMs(*c.ExpirationDate)
	} else {
		v["expires"] = nil
	}
	var subs []struct {
		ID did.DID `json:"id"`
	}
	if err := c.UnmarshalCredentialSubject(&subs); err != nil {
		v["subjects"] = nil
	} else {
		l := []string{}
		for _, s := range subs {
			if s.ID.Empty() {
				l = append(l, "")
			} else {
				l = append(l, s.ID.String())
			}
		}
		v["subjects"] = l
	}
	if c.CredentialStatus == nil {
		v["statuses"] = []any{}
	} else if sts, err := c.CredentialStatuses(); err != nil {
		v["statuses"] = nil
	} else {
		l := []any{}
		for _, s := range sts {
			e := map[string]any{"id": s.ID.String(), "typ": s.Type, "purpose": "", "index": nil, "listCred": "", "entryValid": true}
			if s.Type == revocation.StatusList2021EntryType {
				var en revocation.StatusList2021Entry
				if err := json.Unmarshal(s.Raw(), &en); err != nil {
					e["entryValid"] = false
					e["unmarshals"], e["urlOK"], e["entryId"] = false, false, ""
				} else {
					e["purpose"], e["listCred"] = en.StatusPurpose, en.StatusListCredential
					// deepening round 2: the index TEXT; the model computes strconv.Atoi itself (NutsModel/C01/Atoi.lean), "index" below stays as a cross-check
					e["indexText"] = en.StatusListIndex
					// deepening round: the inputs of StatusList2021Entry.Validate the model computes the verdict from (net/url is a contract)
					_, uerr := url.ParseRequestURI(en.StatusListCredential)
					e["unmarshals"], e["urlOK"], e["entryId"] = true, uerr == nil, en.ID
					if i, err := strconv.Atoi(en.StatusListIndex); err == nil && i >= 0 {
						e["index"] = i
					}
					e["entryValid"] = en.Validate() == nil
				}
			}
			l = append(l, e)
		}
		v["statuses"] = l
	}
	v["nProofs"] = len(c.Proof)
	// the two typed subjects exactly as the validators decode them (errors ignored, like the validators do)
	orgT := make([]NutsOrganizationCredentialSubject, 0)
	_ = c.UnmarshalCredentialSubject(&orgT)
	so := map[string]any{"n": len(orgT)}
	if len(orgT) > 0 {
		so["id"] = orgT[0].ID
		addDID(orgT[0].ID)
		so["orgNil"] = orgT[0].Organization == nil
		if n, ok := orgT[0].Organization["name"]; ok {
			so["orgName"] = n
		}
		if n, ok := orgT[0].Organization["city"]; ok {
			so["orgCity"] = n
		}
	}
	v["subjOrg"] = so
	authT := make([]NutsAuthorizationCredentialSubject, 0)
	_ = c.UnmarshalCredentialSubject(&authT)
	sa := map[string]any{"n": len(authT)}
	if len(authT) > 0 {
		sa["id"] = authT[0].ID
		addDID(authT[0].ID)
		sa["purposeOfUse"] = authT[0].PurposeOfUse
		rs := []any{}
		for _, r := range authT[0].Resources {
			ops := []string{}
			ops = append(ops, r.Operations...)
			rs = append(rs, map[string]any{"path": r.Path, "operations": ops})
		}
		sa["resources"] = rs
	}
	v["subjAuth"] = sa
	return v
}

func c01vValidate(o *c01vOut, label, text string) string {
	op := map[string]any{"op": "validate", "label": label, "text": text}
	var c vc.VerifiableCredential
	if err := json.Unmarshal([]byte(text), &c); err != nil {
		op["doc"] = nil
		o.emit(op, "unparseable")
		return "unparseable"
	}
	dids, urls := map[string]any{}, map[string]any{}
	op["doc"] = c01vViewVC(c, dids, urls)
	op["dids"], op["urls"] = dids, urls
	line := c01vGuard(func() string {
		if err := FindValidator(c).Validate(c); err != nil {
			return "invalid"
		}
		return "ok"
	})
	o.emit(op, line)
	return line
}

var c01vBlanks = []string{"", " ", "\t", "\n ", "\u00a0", "\u0085", "\u1680", "\u2003", "\u2028", "\u202f", "\u205f", "\u3000", " \t\r\n\v\f"}
var c01vNearBlanks = []string{"\u200b", "\ufeff", "\u180e", "\u001c", "\u001f", "\u2060", " x ", "\u00a0a", "0"}

func c01vPick(rnd *rand.Rand, l []string) string { return l[rnd.Intn(len(l))] }

func c01vOperation(rnd *rand.Rand, good bool) string {
	valid := []string{"read", "vread", "update", "patch", "delete", "history", "create", "search", "document"}
	w := valid[rnd.Intn(len(valid))]
	if good {
		switch rnd.Intn(5) {
		case 0:
			return strings.ToUpper(w)
		case 1:
			return strings.ToUpper(w[:1]) + w[1:]
		case 2:
			if strings.Contains(w, "i") {
				return strings.Replace(w, "i", "\u0130", 1) // unicode.ToLower(U+0130) = 'i'
			}
			return w
		default:
			return w
		}
	}
	bad := []string{"", " ", "write", w + " ", " " + w, w + "s", w[:len(w)-1], w + "\u0000", "*", "read,vread", "rea\u0434", strings.Replace(w, "e", "\u0435", 1) + "\u0435",
		strings.Replace(w, "s", "\u017f", 1) + "\u017f", "\u212a", "READ ", "any"}
	return bad[rnd.Intn(len(bad))]
}

func c01vResource(rnd *rand.Rand, good bool) map[string]any {
	r := map[string]any{"path": "/" + c01vPick(rnd, []string{"Patient", "composition/1", "Task?x=1", "a b", "\u00e9"}), "userContext": rnd.Intn(2) == 0}
	n := 1 + rnd.Intn(3)
	ops := []any{}
	for i := 0; i < n; i++ {
		ops = append(ops, c01vOperation(rnd, true))
	}
	r["operations"] = ops
	if !good {
		switch rnd.Intn(8) {
		case 0:
			r["path"] = c01vPick(rnd, c01vBlanks)
		case 1:
			delete(r, "path")
		case 2:
			r["operations"] = []any{}
		case 3:
			delete(r, "operations")
		case 4:
			r["operations"] = nil
		default: // one bad operation at a random position (first / middle / last)
			ops[rnd.Intn(len(ops))] = c01vOperation(rnd, false)
		}
	}
	if rnd.Intn(12) == 0 {
		r["path"] = c01vPick(rnd, c01vNearBlanks)
	}
	return r
}

func c01vAuthSubject(rnd *rand.Rand) (map[string]any, string) {
	s := map[string]any{"id": "did:nuts:B8PUHs2AUHbFF1xLLK4eZjgErEcMXHxs68FteY7NDtCY", "purposeOfUse": "eOverdracht-receiver"}
	what := "good"
	nres := rnd.Intn(5)
	rs := []any{}
	for i := 0; i < nres; i++ {
		rs = append(rs, c01vResource(rnd, true))
	}
	if nres > 0 || rnd.Intn(2) == 0 {
		s["resources"] = rs
	}
	switch rnd.Intn(16) {
	case 0:
		s["id"] = c01vPick(rnd, append(append([]string{}, c01vBlanks...), c01vNearBlanks...))
		what = "id"
	case 1:
		s["id"] = c01vPick(rnd, []string{"not a did", "did:", "did:web:example.com", "did:nuts:", "DID:nuts:abc", "did:nuts:abc#frag", " did:nuts:abc", "did:x:y z", "urn:uuid:1"})
		what = "id"
	case 2:
		delete(s, "id")
		what = "id"
	case 3:
		s["purposeOfUse"] = c01vPick(rnd, c01vBlanks)
		what = "purpose"
	case 4:
		s["purposeOfUse"] = c01vPick(rnd, c01vNearBlanks)
		what = "purpose"
	case 5:
		delete(s, "purposeOfUse")
		if rnd.Intn(2) == 0 {
			s["PurposeOfUse"] = "x" // encoding/json matches member names case-insensitively
		}
		what = "purpose"
	case 6:
		s["purposeOfUse"] = []any{5, nil, map[string]any{}, true}[rnd.Intn(4)]
		what = "purpose"
	case 7, 8, 9, 10: // ONE bad resource at a random position among good ones
		k := rnd.Intn(len(rs) + 1)
		rs = append(rs[:k], append([]any{c01vResource(rnd, false)}, rs[k:]...)...)
		s["resources"] = rs
		what = fmt.Sprintf("resource-%d-of-%d", k, len(rs))
	case 11:
		s["resources"] = []any{"x", 5, nil, map[string]any{"0": c01vResource(rnd, false)}}[rnd.Intn(4)]
		what = "resources-type"
	}
	return s, what
}

func c01vOrgSubject(rnd *rand.Rand) (map[string]any, string) {
	org := map[string]any{"name": "Zorggroep \u00e9\u00e9n", "city": "Amandelmere"}
	s := map[string]any{"id": "did:nuts:B8PUHs2AUHbFF1xLLK4eZjgErEcMXHxs68FteY7NDtCY", "organization": org}
	what := "good"
	switch rnd.Intn(14) {
	case 0:
		org[c01vPick(rnd, []string{"name", "city"})] = c01vPick(rnd, c01vBlanks)
		what = "org-blank"
	case 1:
		org[c01vPick(rnd, []string{"name", "city"})] = c01vPick(rnd, c01vNearBlanks)
		what = "org-near-blank"
	case 2:
		delete(org, c01vPick(rnd, []string{"name", "city"}))
		what = "org-absent"
	case 3:
		k := c01vPick(rnd, []string{"name", "city"})
		v := org[k]
		delete(org, k)
		org[strings.ToUpper(k[:1])+k[1:]] = v // map keys are matched exactly
		what = "org-key-case"
	case 4:
		s["organization"] = []any{nil, map[string]any{}, "x", []any{}}[rnd.Intn(4)]
		what = "org-shape"
	case 5:
		delete(s, "organization")
		what = "org-shape"
	case 6:
		s["id"] = c01vPick(rnd, append(append([]string{}, c01vBlanks...), "not a did", "did:web:example.com", "did:nuts:"))
		what = "id"
	case 7:
		delete(s, "id")
		what = "id"
	case 8:
		org[c01vPick(rnd, []string{"name", "city"})] = 5 // a type error: the member stays unset, decoding continues
		what = "org-type"
	}
	return s, what
}

func c01vCredential(rnd *rand.Rand, kind string) (map[string]any, string) {
	issuer := "did:nuts:CuE3qeFGGLhEAS3gKzhMCeqd1dGa9at5JCbmCfyMU2Ey"
	c := map[string]any{
		"@context":     []any{"https://www.w3.org/2018/credentials/v1", "https://nuts.nl/credentials/v1"},
		"id":           issuer + "#" + strconv.Itoa(rnd.Intn(1000)),
		"issuer":       issuer,
		"issuanceDate": "2023-01-01T12:00:00Z",
	}
	var subj map[string]any
	what := ""
	switch kind {
	case "auth":
		c["type"] = []any{"NutsAuthorizationCredential", "VerifiableCredential"}
		subj, what = c01vAuthSubject(rnd)
	case "org":
		c["type"] = []any{"NutsOrganizationCredential", "VerifiableCredential"}
		subj, what = c01vOrgSubject(rnd)
	default:
		c["type"] = []any{"VerifiableCredential", c01vPick(rnd, []string{"OtherCredential", "NutsEmployeeCredential", "nutsauthorizationcredential"})}
		if rnd.Intn(2) == 0 {
			subj, what = c01vAuthSubject(rnd)
		} else {
			subj, what = c01vOrgSubject(rnd)
		}
		what = "other-type:" + what
	}
	c["credentialSubject"] = subj
	// the frame around the subject (one change in one of six cases)
	if rnd.Intn(6) == 0 {
		switch rnd.Intn(11) {
		case 0:
			c["credentialSubject"] = []any{subj, subj}
			what += "+two-subjects"
		case 1:
			c["credentialSubject"] = []any{}
			what += "+no-subject"
		case 2:
			c["@context"] = []any{"https://www.w3.org/2018/credentials/v1"}
			what += "+no-nuts-context"
		case 3:
			c["id"] = "did:nuts:B8PUHs2AUHbFF1xLLK4eZjgErEcMXHxs68FteY7NDtCY#1"
			what += "+id-of-other"
		case 4:
			delete(c, "id")
			what += "+no-id"
		case 5:
			delete(c, "issuanceDate")
			what += "+no-date"
		case 6:
			c["type"] = []any{"VerifiableCredential", "NutsOrganizationCredential", "NutsAuthorizationCredential"}
			what += "+both-types-org-first"
		case 7:
			c["type"] = []any{"NutsAuthorizationCredential", "NutsOrganizationCredential"}
			what += "+both-types-auth-first-no-vc"
		case 8:
			c["credentialSubject"] = []any{subj, "x"}
			what += "+second-subject-string"
		case 9:
			c["credentialStatus"] = map[string]any{"id": "https://example.com/s#1", "type": "StatusList2021Entry", "statusPurpose": "revocation", "statusListIndex": "1", "statusListCredential": "https://example.com/s"}
			if rnd.Intn(2) == 0 {
				c["@context"] = append(c["@context"].([]any), "https://w3id.org/vc/status-list/2021/v1")
			}
			what += "+status"
		case 10:
			c["id"] = "#1"
			what += "+relative-id"
		}
	}
	return c, what
}

func c01vValidators(o *c01vOut, rnd *rand.Rand, n int) {
	for i := 0; i < n; i++ {
		kind := []string{"auth", "auth", "auth", "org", "org", "other"}[rnd.Intn(6)]
		c, what := c01vCredential(rnd, kind)
		b, _ := json.Marshal(c)
		c01vValidate(o, kind+":"+what, string(b))
	}
}

// ---------------------------------------------------------------- credentialStatus entries (deepening round 2)

// index texts around what strconv.Atoi accepts (the model computes the slot from the text: NutsModel/C01/Atoi.lean)
var c01vIndexTexts = []string{"0", "1", "7", "42", "131071", "+7", "-0", "-000", "+0", "007", "0000000000000000000000012",
	"9223372036854775807", "9223372036854775808", "+9223372036854775807", "-9223372036854775808", "-9223372036854775809",
	"99999999999999999999", "999999999999999999", "1000000000000000000",
	"", "+", "-", "-1", "-7", "--1", "++1", "+-1", " 1", "1 ", "1\n", "\t1", "1_0", "1_000", "0x10", "0b1", "0o7", "1e3", "1.0", "1,0", "١", "１", "1\u0000",
	"٣", "1a", "a", "true", "null", "0-1", "1+"}

func c01vStatusEntry(rnd *rand.Rand, n int) (map[string]any, string) {
	list := "https://example.com/statuslist/" + strconv.Itoa(1+rnd.Intn(3))
	e := map[string]any{"id": list + "#" + strconv.Itoa(n), "type": "StatusList2021Entry", "statusPurpose": "revocation",
		"statusListIndex": strconv.Itoa(rnd.Intn(131072)), "statusListCredential": list}
	what := "good"
	switch rnd.Intn(14) {
	case 0, 1, 2, 3, 4:
		t := c01vPick(rnd, c01vIndexTexts)
		e["statusListIndex"] = t
		what = "index=" + strconv.QuoteToASCII(t)
	case 5:
		switch rnd.Intn(4) {
		case 0:
			e["statusListIndex"] = rnd.Intn(100)
			what = "index-json-number"
		case 1:
			delete(e, "statusListIndex")
			what = "index-absent"
		case 2:
			e["statusListIndex"] = nil
			what = "index-null"
		default:
			e["statusListIndex"] = []any{"1"}
			what = "index-list"
		}
	case 6:
		e["id"] = list
		what = "id-is-the-list"
	case 7:
		switch rnd.Intn(3) {
		case 0:
			delete(e, "id")
			what = "id-absent"
		case 1:
			e["id"] = ""
			what = "id-empty"
		default:
			e["id"] = 5
			what = "id-number"
		}
	case 8:
		t := c01vPick(rnd, []string{"", "Other", "statuslist2021entry", "StatusList2021Entry ", "StatusList2021"})
		if t == "" && rnd.Intn(2) == 0 {
			delete(e, "type")
		} else {
			e["type"] = t
		}
		what = "type=" + t
		if t != "" && rnd.Intn(2) == 0 { // an entry of another type is not validated beyond id and type
			e["statusListIndex"] = "-5"
			what += "+bad-index"
		}
	case 9:
		t := c01vPick(rnd, []string{"", "suspension", "Revocation", " "})
		if t == "" && rnd.Intn(2) == 0 {
			delete(e, "statusPurpose")
		} else {
			e["statusPurpose"] = t
		}
		what = "purpose=" + t
	case 10:
		t := c01vPick(rnd, []string{"", "example.com/list", "/relative/list", "http://[::1", "https://example.com/a b", "mailto:x@example.com", ":", "*"})
		e["statusListCredential"] = t
		what = "list=" + t
	}
	return e, what
}

func c01vStatusCredential(rnd *rand.Rand) (map[string]any, string) {
	issuer := "did:nuts:CuE3qeFGGLhEAS3gKzhMCeqd1dGa9at5JCbmCfyMU2Ey"
	c := map[string]any{
		"@context":          []any{"https://www.w3.org/2018/credentials/v1", "https://nuts.nl/credentials/v1", "https://w3id.org/vc/status-list/2021/v1"},
		"id":                issuer + "#" + strconv.Itoa(rnd.Intn(1000)),
		"type":              []any{"VerifiableCredential", "OtherCredential"},
		"issuer":            issuer,
		"issuanceDate":      "2023-01-01T12:00:00Z",
		"credentialSubject": map[string]any{"id": "did:nuts:GvkzxsezHvEc8nGhgz6Xo3jbqkHwswLmWw3CYtCm7hAW"},
	}
	what := ""
	if rnd.Intn(5) == 0 { // a Nuts credential: validateNutsCredentialID + subject first, then the same default validator
		c2, w := c01vCredential(rnd, "org")
		delete(c2, "credentialStatus")
		c2["@context"] = append(c2["@context"].([]any), "https://w3id.org/vc/status-list/2021/v1")
		c, what = c2, "org("+w+"):"
	}
	n := 1 + rnd.Intn(3)
	var entries []any
	for i := 0; i < n; i++ {
		e, w := c01vStatusEntry(rnd, i)
		if n > 1 && i != rnd.Intn(n) && rnd.Intn(3) != 0 { // mostly ONE deviating entry among good ones, at every position
			e, w = c01vStatusEntry(rand.New(rand.NewSource(1)), i)
			for w != "good" {
				e, w = c01vStatusEntry(rnd, i)
			}
		}
		entries = append(entries, e)
		what += strconv.Itoa(i) + "/" + strconv.Itoa(n) + ":" + w + ";"
	}
	switch rnd.Intn(12) {
	case 0:
		c["@context"] = []any{"https://www.w3.org/2018/credentials/v1", "https://nuts.nl/credentials/v1"}
		what += "+no-status-context"
	case 1:
		entries = append(entries, c01vPick(rnd, []string{"x", ""}))
		what += "+string-entry"
	case 2:
		entries = []any{}
		what = "empty-list"
	case 3:
		c["credentialStatus"] = nil
		return c, "status:null"
	}
	if len(entries) == 1 && rnd.Intn(2) == 0 {
		c["credentialStatus"] = entries[0]
		what += "+object"
	} else {
		c["credentialStatus"] = entries
	}
	return c, "status:" + what
}

func c01vStatuses(o *c01vOut, rnd *rand.Rand, n int) {
	for i := 0; i < n; i++ {
		c, what := c01vStatusCredential(rnd)
		b, _ := json.Marshal(c)
		c01vValidate(o, what, string(b))
	}
}

// ---------------------------------------------------------------- presentation dates

func c01vTime(p *time.Time) string {
	if p == nil {
		return "nil"
	}
	return strconv.FormatInt(p.UnixMilli(), 10)
}

func c01vProofView(p proof.LDProof) map[string]any {
	var exp any
	if p.Expires != nil {
		exp = c01vMs(*p.Expires)
	}
	return map[string]any{"shape": "one", "typ": string(p.Type), "vm": p.VerificationMethod.String(), "purpose": p.ProofPurpose,
		"created": c01vMs(p.Created), "expires": exp, "jws": ""}
}

func c01vPresDates(o *c01vOut, label, text string) {
	op := map[string]any{"op": "pres-dates", "label": label, "text": text}
	p, err := vc.ParseVerifiablePresentation(text)
	if err != nil {
		op["doc"] = nil
		o.emit(op, "unparseable")
		return
	}
	v := map[string]any{"fmt": p.Format(), "nProofs": len(p.Proof), "vcs": []any{}}
	switch p.Format() {
	case vc.JWTPresentationProofFormat:
		j := map[string]any{"kid": "", "alg": ""}
		if tok, err := jwt.Parse([]byte(text), jwt.WithVerify(false), jwt.WithValidate(false)); err == nil {
			tm := func(k string, t time.Time) {
				if _, ok := tok.Get(k); ok {
					j[k] = c01vMs(t)
				}
			}
			tm("nbf", tok.NotBefore())
			tm("exp", tok.Expiration())
			tm("iat", tok.IssuedAt())
		}
		v["jwt"] = j
	default:
		var proofs []proof.LDProof
		err := p.UnmarshalProofValue(&proofs)
		v["proofDecodes"] = err == nil
		if err == nil && len(proofs) == 1 {
			v["proof"] = c01vProofView(proofs[0])
		} else if len(p.Proof) > 0 {
			v["proof"] = map[string]any{"shape": "malformed"}
		}
	}
	op["doc"] = v
	line := c01vGuard(func() string {
		return "iss=" + c01vTime(PresentationIssuanceDate(*p)) + " exp=" + c01vTime(PresentationExpirationDate(*p))
	})
	o.emit(op, line)
}

func c01vJWT(claims map[string]any) string {
	h, _ := json.Marshal(map[string]any{"alg": "ES256", "typ": "JWT", "kid": "did:web:example.com#0"})
	c, _ := json.Marshal(claims)
	e := base64.RawURLEncoding.EncodeToString
	return e(h) + "." + e(c) + "." + e([]byte("signature"))
}

func c01vDates(o *c01vOut, rnd *rand.Rand, n int) {
	stamps := []any{nil, "2023-01-01T12:00:00Z", "0001-01-01T00:00:00Z", "2023-01-01T12:00:00.5Z", "1970-01-01T00:00:00Z", "2023-01-01T13:00:00+01:00", "yesterday", 5, "9999-12-31T23:59:59Z"}
	nums := []any{nil, 0, 1700000000, int64(-62135596800), 1700000000.5, -1, 253402300799, "1700000000"}
	for i := 0; i < n; i++ {
		if rnd.Intn(2) == 0 {
			mk := func() map[string]any {
				p := map[string]any{"type": "JsonWebSignature2020", "verificationMethod": "did:web:example.com#0", "proofPurpose": "assertionMethod", "jws": "x..y"}
				if s := stamps[rnd.Intn(len(stamps))]; s != nil {
					p["created"] = s
				}
				if s := stamps[rnd.Intn(len(stamps))]; s != nil && rnd.Intn(2) == 0 {
					p["expires"] = s
				}
				return p
			}
			vp := map[string]any{"@context": []any{"https://www.w3.org/2018/credentials/v1"}, "type": "VerifiablePresentation"}
			what := "one"
			switch rnd.Intn(8) {
			case 0:
				what = "none"
			case 1:
				vp["proof"] = []any{mk(), mk()}
				what = "two"
			case 2:
				vp["proof"] = []any{mk()}
				what = "one-in-list"
			case 3:
				vp["proof"] = []any{}
				what = "empty-list"
			case 4:
				vp["proof"] = "x"
				what = "string"
			default:
				vp["proof"] = mk()
			}
			b, _ := json.Marshal(vp)
			c01vPresDates(o, "ld:"+what, string(b))
		} else {
			cl := map[string]any{"iss": "did:web:example.com", "vp": map[string]any{"@context": []any{"https://www.w3.org/2018/credentials/v1"}, "type": "VerifiablePresentation"}}
			for _, k := range []string{"nbf", "iat", "exp"} {
				if v := nums[rnd.Intn(len(nums))]; v != nil {
					cl[k] = v
				}
			}
			c01vPresDates(o, "jwt", c01vJWT(cl))
		}
	}
}

// ---------------------------------------------------------------- FilterOnDIDMethod

func c01vFilter(o *c01vOut, label string, texts []string, methods []string) {
	op := map[string]any{"op": "filter-method", "label": label, "texts": texts, "methods": methods}
	var creds []vc.VerifiableCredential
	views := []any{}
	for _, t := range texts {
		var c vc.VerifiableCredential
		if err := json.Unmarshal([]byte(t), &c); err != nil {
			op["creds"] = nil
			o.emit(op, "unparseable")
			return
		}
		creds = append(creds, c)
		v := map[string]any{"issuerMethod": nil, "subjects": nil}
		if d, err := did.ParseDID(c.Issuer.String()); err == nil {
			v["issuerMethod"] = d.Method
		}
		bl := make([]BaseCredentialSubject, 0)
		if err := c.UnmarshalCredentialSubject(&bl); err == nil {
			l := []any{}
			for _, b := range bl {
				var m any
				if d, err := did.ParseDID(b.ID); err == nil {
					m = d.Method
				}
				l = append(l, []any{b.ID, m})
			}
			v["subjects"] = l
		}
		views = append(views, v)
	}
	op["creds"] = views
	line := c01vGuard(func() string {
		kept := FilterOnDIDMethod(creds, methods)
		// identify the kept ones by position (the result is a subsequence of the input)
		var idx []string
		k := 0
		for i := range creds {
			if k < len(kept) && kept[k].ID != nil && creds[i].ID != nil && kept[k].ID.String() == creds[i].ID.String() {
				idx = append(idx, strconv.Itoa(i))
				k++
			}
		}
		if k != len(kept) {
			return "not-a-subsequence"
		}
		return "keep=" + strings.Join(idx, ",")
	})
	o.emit(op, line)
}

func c01vFilters(o *c01vOut, rnd *rand.Rand, n int) {
	dids := []string{"did:web:example.com", "did:nuts:CuE3qeFGGLhEAS3gKzhMCeqd1dGa9at5JCbmCfyMU2Ey", "did:jwk:abc", "did:key:z6Mk", "did:WEB:example.com", "https://example.com/issuer", "", "did:web", "did:webx:a"}
	for i := 0; i < n; i++ {
		var texts []string
		nc := rnd.Intn(6)
		for k := 0; k < nc; k++ {
			c := map[string]any{"@context": []any{"https://www.w3.org/2018/credentials/v1"}, "type": []any{"VerifiableCredential"}, "id": "urn:c:" + strconv.Itoa(k),
				"issuer": c01vPick(rnd, dids[:6])}
			ns := 1 + rnd.Intn(3)
			if rnd.Intn(8) == 0 {
				ns = 0
			}
			ss := []any{}
			for j := 0; j < ns; j++ {
				s := map[string]any{"x": j}
				if rnd.Intn(6) != 0 {
					s["id"] = c01vPick(rnd, dids)
				}
				ss = append(ss, s)
			}
			switch rnd.Intn(12) {
			case 0:
				ss = append(ss, "a-string-subject") // does not decode as BaseCredentialSubject
			case 1:
				ss = append(ss, map[string]any{"id": 5})
			}
			c["credentialSubject"] = ss
			b, _ := json.Marshal(c)
			texts = append(texts, string(b))
		}
		var methods []string
		for _, m := range []string{"web", "nuts", "jwk", "key", "WEB"} {
			if rnd.Intn(3) == 0 {
				methods = append(methods, m)
			}
		}
		if methods == nil && rnd.Intn(2) == 0 {
			methods = []string{}
		}
		c01vFilter(o, "filter", texts, methods)
	}
}

// ---------------------------------------------------------------- AutoCorrectSelfAttestedCredential

func c01vAutoView(c vc.VerifiableCredential) map[string]any {
	v := map[string]any{"nProofs": len(c.Proof), "issuer": c.Issuer.String(), "issued": c01vMs(c.IssuanceDate), "id": nil, "nSubjects": nil, "subject0HasId": false, "subject0Id": nil}
	if c.ID != nil {
		v["id"] = c.ID.String()
	}
	var cs []map[string]interface{}
	if err := c.UnmarshalCredentialSubject(&cs); err == nil {
		v["nSubjects"] = len(cs)
	} else {
		v["nSubjects"] = len(cs) // the function ignores the error and looks at whatever was decoded
	}
	if len(cs) >= 1 && cs[0] != nil {
		if id, ok := cs[0]["id"]; ok {
			v["subject0HasId"] = true
			if s, ok := id.(string); ok {
				v["subject0Id"] = s
			} else {
				b, _ := json.Marshal(id)
				v["subject0Id"] = "json:" + string(b)
			}
		}
	}
	return v
}

func c01vAutoLine(before, after map[string]any) string {
	id := "nil"
	if s, ok := after["id"].(string); ok {
		id = s
		if before["id"] == nil {
			id = "NEW"
		}
	}
	issued := strconv.FormatInt(after["issued"].(int64), 10)
	if before["issued"].(int64) != after["issued"].(int64) {
		issued = "NOW"
		if after["issued"].(int64)%1000 != 0 {
			issued = "NOW-not-truncated"
		}
	}
	s0 := "nil"
	if s, ok := after["subject0Id"].(string); ok {
		s0 = s
	}
	return fmt.Sprintf("proofs=%v id=%s issuer=%s issued=%s n=%v has=%v s0=%s", after["nProofs"], id, after["issuer"], issued, after["nSubjects"], after["subject0HasId"], s0)
}

func c01vAuto(o *c01vOut, label, text, requester string) {
	op := map[string]any{"op": "autocorrect", "label": label, "text": text, "requester": requester}
	var c vc.VerifiableCredential
	if err := json.Unmarshal([]byte(text), &c); err != nil {
		op["c"] = nil
		o.emit(op, "unparseable")
		return
	}
	before := c01vAutoView(c)
	op["c"] = before
	line := c01vGuard(func() string {
		r := AutoCorrectSelfAttestedCredential(c, did.MustParseDID(requester))
		return c01vAutoLine(before, c01vAutoView(r))
	})
	o.emit(op, line)
}

func c01vAutos(o *c01vOut, rnd *rand.Rand, n int) {
	for i := 0; i < n; i++ {
		c := map[string]any{"@context": []any{"https://www.w3.org/2018/credentials/v1"}, "type": []any{"VerifiableCredential", "DiscoveryRegistrationCredential"}}
		if rnd.Intn(2) == 0 {
			c["id"] = "urn:uuid:" + strconv.Itoa(rnd.Intn(100))
		}
		if rnd.Intn(2) == 0 {
			c["issuer"] = c01vPick(rnd, []string{"did:web:other.example", "did:web:example.com"})
		}
		if rnd.Intn(2) == 0 {
			c["issuanceDate"] = c01vPick(rnd, []string{"2023-01-01T12:00:00Z", "0001-01-01T00:00:00Z", "2023-01-01T12:00:00.25Z"})
		}
		switch rnd.Intn(8) {
		case 0:
		case 1:
			c["credentialSubject"] = []any{}
		case 2:
			c["credentialSubject"] = []any{map[string]any{"a": 1}, map[string]any{"b": 2}}
		case 3:
			c["credentialSubject"] = []any{map[string]any{"id": c01vPick(rnd, []string{"did:web:other.example", "", "x"}), "a": 1}}
		case 4:
			c["credentialSubject"] = []any{map[string]any{"id": []any{nil, 5, map[string]any{}}[rnd.Intn(3)]}}
		case 5:
			c["credentialSubject"] = []any{nil}
		default:
			c["credentialSubject"] = []any{map[string]any{"a": 1}}
		}
		if rnd.Intn(4) == 0 {
			c["proof"] = map[string]any{"type": "JsonWebSignature2020", "jws": "x..y"}
		}
		b, _ := json.Marshal(c)
		c01vAuto(o, "auto", string(b), "did:web:example.com")
	}
}

// ---------------------------------------------------------------- replay + main

func c01vReplay(o *c01vOut, file, prefix string) {
	data, err := os.ReadFile(file)
	if err != nil {
		return
	}
	for _, ln := range strings.Split(string(data), "\n") {
		var op map[string]any
		if strings.TrimSpace(ln) == "" || json.Unmarshal([]byte(ln), &op) != nil {
			continue
		}
		str := func(k string) string { s, _ := op[k].(string); return s }
		strs := func(k string) []string {
			l, ok := op[k].([]any)
			if !ok {
				return nil
			}
			r := []string{}
			for _, x := range l {
				s, _ := x.(string)
				r = append(r, s)
			}
			return r
		}
		switch str("op") {
		case "rune-tables":
			c01vRuneTables(o)
		case "validate":
			c01vValidate(o, prefix+str("label"), str("text"))
		case "pres-dates":
			c01vPresDates(o, prefix+str("label"), str("text"))
		case "filter-method":
			c01vFilter(o, prefix+str("label"), strs("texts"), strs("methods"))
		case "autocorrect":
			c01vAuto(o, prefix+str("label"), str("text"), str("requester"))
		}
	}
}

func TestVerifC01V(t *testing.T) {
	outDir := os.Getenv("VERIF_OUT")
	if outDir == "" {
		t.Skip("VERIF_OUT not set")
	}
	seed, _ := strconv.ParseInt(os.Getenv("VERIF_SEED"), 10, 64)
	thorough := os.Getenv("VERIF_TIER") == "thorough"
	rnd := rand.New(rand.NewSource(seed*104729 + 17))
	opsF, err := os.Create(path.Join(outDir, "ops.jsonl"))
	if err != nil {
		t.Fatal(err)
	}
	defer opsF.Close()
	implF, err := os.Create(path.Join(outDir, "impl.out"))
	if err != nil {
		t.Fatal(err)
	}
	defer implF.Close()
	o := &c01vOut{ops: opsF, impl: implF, stats: map[string]int{}}
	if rp := os.Getenv("VERIF_REPLAY"); rp != "" {
		c01vReplay(o, rp, "")
		return
	}
	if dir := os.Getenv("VERIF_CORPUS"); dir != "" {
		files, _ := os.ReadDir(dir)
		var names []string
		for _, f := range files {
			if strings.HasSuffix(f.Name(), ".jsonl") {
				names = append(names, f.Name())
			}
		}
		sort.Strings(names)
		for _, n := range names {
			c01vReplay(o, path.Join(dir, n), "corpus:"+strings.TrimSuffix(n, ".jsonl")+":")
		}
	}
	k := 1
	if thorough {
		k = 8
	}
	c01vRuneTables(o)
	// the unmodified documents first: own-output style bases that must be accepted
	for _, kind := range []string{"auth", "org"} {
		for {
			c, what := c01vCredential(rnd, kind)
			if what == "good" {
				b, _ := json.Marshal(c)
				c01vValidate(o, kind+":base", string(b))
				break
			}
		}
	}
	c01vValidators(o, rnd, 1500*k)
	c01vDates(o, rnd, 400*k)
	c01vFilters(o, rnd, 300*k)
	c01vAutos(o, rnd, 200*k)
	c01vStatuses(o, rand.New(rand.NewSource(seed*7919+5)), 600*k)
	sb, _ := json.Marshal(o.stats)
	os.WriteFile(path.Join(outDir, "stats.json"), sb, 0o644)
}
