//go:build verif

// C19 harness for vcr/revocation: bitstring.bit/setBit (compared with the Lean model, any index, any length) and
// exploration (crash/timeout oracle) of the status-list credential path: json → vc.VerifiableCredential → validate → expand → bit.
package revocation

import (
	"bytes"
	"encoding/hex"
	"encoding/json"
	"errors"
	"fmt"
	"io"
	"math"
	mrand "math/rand"
	"net/http"
	"os"
	"strconv"
	"strings"
	"testing"

	"github.com/nuts-foundation/go-did/vc"
)

func c19RunBit(o *c19Out, bs []byte, idx int, tag string) {
	orig := append([]byte(nil), bs...)
	b := bitstring(append([]byte(nil), bs...))
	line := "bit=" + c19Class(c19Guard(func() string {
		v, err := b.bit(idx)
		if err != nil {
			return "err:ErrIndexNotInBitstring"
		}
		return fmt.Sprintf("ok:%v", v)
	}))
	for _, val := range []bool{true, false} {
		b2 := bitstring(append([]byte(nil), bs...))
		v := val
		res := c19Guard(func() string {
			if err := b2.setBit(idx, v); err != nil {
				if hex.EncodeToString(b2) != hex.EncodeToString(orig) {
					return "STATE-CHANGED-ON-ERROR"
				}
				return "err:ErrIndexNotInBitstring"
			}
			return "ok:" + hex.EncodeToString(b2)
		})
		line += fmt.Sprintf(" set%v=%s", v, c19Class(res))
	}
	o.dist["bit:"+tag]++
	o.emit(map[string]any{"op": "bit", "bs": hex.EncodeToString(bs), "idx": strconv.Itoa(idx)}, line)
}

const c19ValidSLC = `{"@context":["https://www.w3.org/2018/credentials/v1","https://w3id.org/vc/status-list/2021/v1"],
"id":"https://example.com/statuslist/did:web:example.com/1","type":["VerifiableCredential","StatusList2021Credential"],
"issuer":"did:web:example.com","issuanceDate":"2024-01-01T00:00:00Z","validFrom":"2024-01-01T00:00:00Z","expirationDate":"2034-01-01T00:00:00Z",
"credentialSubject":{"id":"https://example.com/statuslist/did:web:example.com/1","type":"StatusList2021","statusPurpose":"revocation","encodedList":"ENCODED"},
"proof":{"type":"JsonWebSignature2020","created":"2024-01-01T00:00:00Z","verificationMethod":"did:web:example.com#0","proofPurpose":"assertionMethod","jws":"eyJhbGciOiJFUzI1NiJ9..AAAA"}}`

func TestVerifC19(t *testing.T) {
	dir := os.Getenv("VERIF_OUT")
	if dir == "" {
		t.Skip("VERIF_OUT not set")
	}
	o := c19Open(dir)
	defer o.close(dir)
	r := mrand.New(mrand.NewSource(c19Seed()*15485863 + 3))
	m := jmut{r}

	slcPath := func(in string) string {
		var cred vc.VerifiableCredential
		if err := json.Unmarshal([]byte(in), &cred); err != nil {
			return "err:unmarshal"
		}
		cs := &StatusList2021{}
		subj, err := cs.validate(cred)
		if err != nil {
			return "err:validate"
		}
		bs, err := expand(subj.EncodedList)
		if err != nil {
			return "err:expand"
		}
		for _, idx := range []int{0, 7, 8, len(bs)*8 - 1, len(bs) * 8, -1, math.MaxInt64, math.MinInt64} {
			bs.bit(idx)
		}
		return "ok"
	}
	entryPath := func(in string) string {
		// the credentialStatus entry of a credential being verified: statusListIndex is a string parsed with Atoi
		var e StatusList2021Entry
		if err := json.Unmarshal([]byte(in), &e); err != nil {
			return "err:unmarshal"
		}
		idx, err := strconv.Atoi(e.StatusListIndex)
		if err != nil {
			return "err:atoi"
		}
		bs := newBitstring()
		if _, err := bs.bit(idx); err != nil {
			return "err:index"
		}
		return "ok"
	}

	// the whole remote path: Verify(credential with a StatusList2021Entry) → download (fake HTTP client serving the mutant)
	// → verify (validate, expand, signature stub) → store in SQL → bit(index).  State digest: the number of stored status
	// list credentials must not change when the downloaded credential is rejected.
	cs := newTestStatusList2021(t)
	fake := &c19Doer{}
	cs.client = fake
	holderVC := func(index string) vc.VerifiableCredential {
		var c vc.VerifiableCredential
		_ = json.Unmarshal([]byte(`{"@context":["https://www.w3.org/2018/credentials/v1","https://w3id.org/vc/status-list/2021/v1"],"id":"did:web:example.com#1","type":["VerifiableCredential"],"issuer":"did:web:example.com","issuanceDate":"2024-01-01T00:00:00Z","credentialSubject":{"id":"did:web:holder.example.com"},
"credentialStatus":{"id":"https://example.com/statuslist/did:web:example.com/1#`+index+`","type":"StatusList2021Entry","statusPurpose":"revocation","statusListIndex":"`+index+`","statusListCredential":"https://example.com/statuslist/did:web:example.com/1"}}`), &c)
		return c
	}
	countRows := func() int64 {
		var n int64
		cs.db.Model(new(credentialRecord)).Count(&n)
		return n
	}
	verifyPath := func(in string) string {
		var w struct {
			Status int
			Body   string
			Index  string
		}
		if json.Unmarshal([]byte(in), &w) != nil {
			return "err:harness"
		}
		cs.db.Where("1 = 1").Delete(new(credentialRecord))
		before := countRows()
		fake.status, fake.body = w.Status, []byte(w.Body)
		err := cs.Verify(holderVC(w.Index))
		if err != nil {
			if errors.Is(err, errRevoked) {
				return "ok:revoked"
			}
			// a status list credential that was rejected by download/verify must not have been stored
			var sub StatusList2021CredentialSubject
			if _, verr := c19VerifyOnly(cs, w.Body, &sub); verr != nil && countRows() != before {
				return "STATE-CHANGED-ON-ERROR"
			}
			return "err"
		}
		return "ok"
	}
	verifyIn := func(status int, body []byte, index string) string {
		b, _ := json.Marshal(map[string]any{"Status": status, "Body": string(body), "Index": index})
		return string(b)
	}

	// update(url), modelled (NutsModel/C19/StatusList.lean): what go-did's accessors say about the downloaded credential is data
	const slURL = "https://example.com/statuslist/did:web:example.com/1"
	updateOp := func(status int, body []byte) {
		var downloaded any
		var cred vc.VerifiableCredential
		expandMap := map[string]any{}
		if status != 0 && status <= 299 && json.Unmarshal(body, &cred) == nil { // (download only refuses status codes > 299)
			var subs []StatusList2021CredentialSubject
			var subsJSON any
			if cred.UnmarshalCredentialSubject(&subs) == nil {
				l := []any{}
				for _, s := range subs {
					l = append(l, map[string]any{"id": s.ID, "type": s.Type, "purpose": s.StatusPurpose, "list": c19Show(s.EncodedList)})
					if bs, err := expand(s.EncodedList); err == nil {
						expandMap[c19Show(s.EncodedList)] = len(bs)
					}
				}
				subsJSON = l
			}
			var exp any
			if cred.ExpirationDate != nil {
				exp = cred.ExpirationDate.IsZero()
			}
			downloaded = map[string]any{"hasVCContext": cred.ContainsContext(vc.VCContextV1URI()), "hasSLContext": cred.ContainsContext(StatusList2021ContextURI),
				"isVCType": cred.IsType(vc.VerifiableCredentialTypeV1URI()), "isSLCType": cred.IsType(statusList2021CredentialTypeURI), "nTypes": len(cred.Type),
				"idNil": cred.ID == nil, "issuanceZero": cred.IssuanceDate.IsZero(), "jsonldWithoutProof": cred.Format() == vc.JSONLDCredentialProofFormat && cred.Proof == nil,
				"hasStatus": cred.CredentialStatus != nil, "subjects": subsJSON, "expiration": exp}
		}
		fake.status, fake.body = status, body
		res := c19Guard(func() string {
			rec, err := cs.update(slURL)
			if err != nil {
				m := err.Error()
				for _, p := range [][2]string{{"default context is required", "validate:ctx1"}, {"context 'https://w3id.org/vc/status-list/2021/v1' is required", "validate:ctx2"},
					{"type 'VerifiableCredential' is required", "validate:type1"}, {"contains other types", "validate:types"}, {"'ID' is required", "validate:id"},
					{"issuanceDate is required", "validate:issuance"}, {"'proof' is required", "validate:proof"}, {"with a CredentialStatus is not supported", "validate:status"},
					{"single credentialSubject expected", "validate:single"}, {"credentialSubject.type '", "validate:stype"}, {"statusPurpose is required", "validate:purpose"},
					{"encodedList is required", "validate:list"}, {"type '", "validate:type2"}, {"encodedList is invalid", "expand"}, {"wrong credential", "wrong credential"},
					{"fetching StatusList2021Credential", "download"}, {"connection refused", "download"}} {
					if strings.Contains(m, p[0]) {
						return "err:" + p[1]
					}
				}
				if downloaded == nil {
					return "err:download"
				}
				return "err:validate:subject-unmarshal"
			}
			return fmt.Sprintf("ok purpose=%s bytes=%d expires=%v", rec.StatusPurpose, len(rec.Bitstring), rec.Expires != nil)
		})
		o.emit(map[string]any{"op": "slc.update", "url": slURL, "downloaded": downloaded, "expand": expandMap, "body": c19Short(string(body), 3000), "status": status}, c19Class(res))
	}

	replay, isReplay := c19ReadOps()
	for _, op := range replay {
		switch op["op"] {
		case "bit":
			h, _ := op["bs"].(string)
			bs, _ := hex.DecodeString(h)
			is, _ := op["idx"].(string)
			idx, err := strconv.Atoi(is)
			if err == nil {
				c19RunBit(o, bs, idx, "replay")
			}
		case "x.revocation.statusListCredential":
			in, _ := op["input"].(string)
			o.explore("revocation.statusListCredential", in, func() string { return slcPath(in) })
		case "slc.update":
			b, _ := op["body"].(string)
			st, _ := op["status"].(json.Number)
			n, _ := st.Int64()
			updateOp(int(n), []byte(b))
		case "x.revocation.Verify":
			in, _ := op["input"].(string)
			o.explore("revocation.Verify", in, func() string { return verifyPath(in) })
		case "x.revocation.statusListEntry":
			in, _ := op["input"].(string)
			o.explore("revocation.statusListEntry", in, func() string { return entryPath(in) })
		}
	}
	if isReplay {
		return
	}

	// ---- bitstring: all lengths 0..5 × all boundary indexes, then random lengths/indexes incl. extreme ints
	ext := []int{0, 1, 7, 8, 9, -1, -7, -8, -9, math.MaxInt64, math.MaxInt64 - 7, math.MinInt64, math.MinInt64 + 1, math.MaxInt32, math.MinInt32, 1 << 40, maxBitstringIndex, maxBitstringIndex + 1}
	for n := 0; n <= 5; n++ {
		bs := make([]byte, n)
		r.Read(bs)
		for idx := -9; idx <= n*8+9; idx++ {
			c19RunBit(o, bs, idx, "small-exhaustive")
		}
		for _, idx := range ext {
			c19RunBit(o, bs, idx, "extreme-index")
		}
	}
	nRand := c19Env("VERIF_N", 400)
	for i := 0; i < nRand; i++ {
		n := r.Intn(40)
		if r.Intn(20) == 0 {
			n = defaultBitstringLengthInBytes
		}
		bs := make([]byte, n)
		r.Read(bs)
		var idx int
		switch r.Intn(4) {
		case 0:
			idx = ext[r.Intn(len(ext))]
		case 1:
			idx = n*8 - 3 + r.Intn(6)
		default:
			idx = r.Intn(n*8 + 1)
		}
		if n > 64 { // keep lines small: only the outcome class is interesting for big strings
			b := bitstring(bs)
			res := c19Guard(func() string {
				if _, err := b.bit(idx); err != nil {
					return "err"
				}
				return "ok"
			})
			o.dist["bit:full-size(outcome only)"]++
			o.count("bit.full", c19Class(res))
			continue
		}
		c19RunBit(o, bs, idx, "random")
	}

	// ---- exploration: status list credential documents
	enc, _ := compress(make([]byte, defaultBitstringLengthInBytes))
	short, _ := compress(make([]byte, 3))
	empty, _ := compress(nil)
	valid := func(e string) []byte {
		root, _ := jparse([]byte(c19ValidSLC))
		b := root.bytes()
		return []byte(string(bytesReplace(b, "ENCODED", e)))
	}
	if res := c19Guard(func() string { return slcPath(string(valid(enc))) }); res != "ok" {
		t.Fatalf("valid status list credential is not accepted: %s", res)
	}
	run := func(b []byte, kind string) {
		in := string(b)
		o.dist["slc:"+kind]++
		o.explore("revocation.statusListCredential", in, func() string { return slcPath(in) })
	}
	jsystematic(valid(enc), run)
	for _, e := range []string{short, empty, "", "A", "AA", "AAA", "AAAA", "====", "H4sIAAAAAAAA", enc[:len(enc)/2], enc + "A", enc + "==", "H4sIAAAAAAAA_w", "!!!!"} {
		run(valid(e), "encodedList-variant")
	}
	for i := 0; i < nRand*2; i++ {
		b, kind := m.mutate(valid(enc))
		run(b, "rand:"+kind)
	}
	// full Verify path
	if res := c19Guard(func() string { return verifyPath(verifyIn(200, valid(enc), "5")) }); res != "ok" {
		t.Fatalf("valid status list credential is not accepted by Verify: %s", res)
	}
	runV := func(in, kind string) {
		o.dist["slverify:"+kind]++
		o.explore("revocation.Verify", in, func() string { return verifyPath(in) })
	}
	for _, st := range []int{0, 200, 204, 299, 300, 404, 500} {
		for _, idx := range []string{"0", "5", "131071", "131072", "-1", "9223372036854775807", "9223372036854775808", "x", "", "1e3", " 5", "0x10"} {
			runV(verifyIn(st, valid(enc), idx), "transport×index")
		}
	}
	for _, e := range []string{short, empty, "", "A", "AAAA", "H4sIAAAAAAAA", enc[:len(enc)/2], enc + "A"} {
		for _, idx := range []string{"0", "23", "24", "131071"} {
			runV(verifyIn(200, valid(e), idx), "encodedList-variant×index")
		}
	}
	jsystematic(valid(enc), func(b []byte, kind string) { runV(verifyIn(200, b, "5"), kind); o.dist["slc.update:"+kind]++; updateOp(200, b) })
	for _, st := range []int{0, 199, 200, 299, 300, 500} {
		updateOp(st, valid(enc))
	}
	// optional members missing / null / zero; subject arrays of 0, 1, 2 elements
	for _, variant := range [][2]string{{`"expirationDate":"2034-01-01T00:00:00Z",`, ``}, {`"expirationDate":"2034-01-01T00:00:00Z"`, `"expirationDate":null`},
		{`"expirationDate":"2034-01-01T00:00:00Z"`, `"expirationDate":"0001-01-01T00:00:00Z"`}, {`"validFrom":"2024-01-01T00:00:00Z",`, ``}} {
		b := bytesReplace(valid(enc), variant[0], variant[1])
		o.dist["slc.update:optional-member"]++
		updateOp(200, b)
		runV(verifyIn(200, b, "5"), "optional-member")
	}
	{
		root, _ := jparse(valid(enc))
		for i, k := range root.keys {
			if k == "credentialSubject" {
				one := root.kids[i].clone()
				for _, shape := range []*jnode{{kind: 'a'}, {kind: 'a', kids: []*jnode{one.clone()}}, {kind: 'a', kids: []*jnode{one.clone(), one.clone()}}, {kind: 'a', kids: []*jnode{{kind: 'n'}}}, {kind: 'a', kids: []*jnode{{kind: 'a'}}}} {
					c := root.clone()
					c.kids[i] = shape
					o.dist["slc.update:subject-array-shape"]++
					updateOp(200, c.bytes())
					runV(verifyIn(200, c.bytes(), "5"), "subject-array-shape")
				}
			}
		}
	}
	for i := 0; i < nRand; i++ {
		b, kind := m.mutate(valid(enc))
		runV(verifyIn(200, b, []string{"5", "131071", "131072", "0"}[r.Intn(4)]), "rand:"+kind)
	}

	validEntry := `{"id":"https://example.com/statuslist/1#5","type":"StatusList2021Entry","statusPurpose":"revocation","statusListIndex":"5","statusListCredential":"https://example.com/statuslist/1"}`
	runE := func(b []byte, kind string) {
		in := string(b)
		o.dist["slentry:"+kind]++
		o.explore("revocation.statusListEntry", in, func() string { return entryPath(in) })
	}
	jsystematic([]byte(validEntry), runE)
	for i := 0; i < nRand; i++ {
		b, kind := m.mutate([]byte(validEntry))
		runE(b, "rand:"+kind)
	}
	// Scan (storage → bitstring): any driver value type
	for i, v := range []any{nil, "", "A", enc, []byte(enc), []byte{}, 5, 1.5, true, []any{}, map[string]any{}, short} {
		val := v
		o.explore("revocation.bitstring.Scan", fmt.Sprintf("case %d", i), func() string {
			var bs bitstring
			if err := bs.Scan(val); err != nil {
				return "err"
			}
			return "ok"
		})
	}
}

type c19Doer struct {
	status int
	body   []byte
}

func (f *c19Doer) Do(req *http.Request) (*http.Response, error) {
	if f.status == 0 {
		return nil, errors.New("connection refused")
	}
	return &http.Response{StatusCode: f.status, Header: http.Header{}, Body: io.NopCloser(bytes.NewReader(f.body))}, nil
}

// c19VerifyOnly says whether cs.verify accepts the body as a status list credential (used by the state-digest oracle)
func c19VerifyOnly(cs *StatusList2021, body string, sub *StatusList2021CredentialSubject) (bool, error) {
	var cred vc.VerifiableCredential
	if err := json.Unmarshal([]byte(body), &cred); err != nil {
		return false, err
	}
	s, err := cs.verify(cred)
	if err != nil {
		return false, err
	}
	*sub = *s
	return true, nil
}

func bytesReplace(b []byte, old, new string) []byte {
	s := string(b)
	for i := 0; i+len(old) <= len(s); i++ {
		if s[i:i+len(old)] == old {
			return []byte(s[:i] + new + s[i+len(old):])
		}
	}
	return b
}
