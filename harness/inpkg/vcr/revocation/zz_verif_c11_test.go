//go:build verif

// C11 correspondence harness (injected with `go test -overlay`; nothing is written into /repo).
// Runs the real StatusList2021 (issuer and verifier side) of two nodes on SQLite with an HMAC signer, on generated
// operation sequences, and prints one canonical line per operation (impl.out) next to the operations (ops.jsonl).
package revocation

import (
	"bufio"
	"bytes"
	"context"
	"crypto"
	"crypto/hmac"
	"crypto/sha256"
	"encoding/hex"
	"encoding/json"
	"errors"
	"fmt"
	"io"
	"math"
	"math/rand"
	"net/http"
	"net/url"
	"os"
	"path/filepath"
	"regexp"
	"sort"
	"strconv"
	"strings"
	"sync"
	"testing"
	"time"

	ssi "github.com/nuts-foundation/go-did"
	"github.com/nuts-foundation/go-did/did"
	"github.com/nuts-foundation/go-did/vc"
	"github.com/nuts-foundation/nuts-node/storage"
	"github.com/nuts-foundation/nuts-node/vcr/types"
	"github.com/nuts-foundation/nuts-node/vdr/resolver"
	"github.com/sirupsen/logrus"
	"gorm.io/gorm"
)

// ---------- operations (ops.jsonl)

type c11URL struct {
	Node   int    `json:"node"`             // -1: raw URL
	Issuer string `json:"issuer,omitempty"` // status list URL of node: <base>/statuslist/<issuer>/<page>
	Page   int    `json:"page"`
	Raw    string `json:"raw,omitempty"`
}

type c11Status struct {
	Type    string `json:"type"`
	Purpose string `json:"purpose"`
	List    c11URL `json:"list"`
	Idx     string `json:"idx"`
}

type c11Cred struct {
	ID        string      `json:"id"`
	NoStatus  bool        `json:"nostatus,omitempty"`
	Statuses  []c11Status `json:"statuses"`
	IssuerDID string      `json:"issuer"`
}

type c11Host struct {
	URL      string `json:"url"`
	Kind     string `json:"kind"` // ok | fail | garbage | badsig | wrongsubject | suspension | noexp | short | noproof | twosubjects | emptylist | badlist | status | types3 | noctx
	Bits     []int  `json:"bits"`
	LenBytes int    `json:"len"`
	Signer   string `json:"signer"`
	ExpIn    int    `json:"expin"`
	Subject  c11URL `json:"subject"` // for wrongsubject
}

type c11BitOp struct {
	I int  `json:"i"`
	V bool `json:"v"`
}

type c11Op struct {
	Op      string     `json:"op"`
	Sc      int        `json:"sc"`
	Node    int        `json:"node"`
	Issuer  string     `json:"issuer,omitempty"`
	Purpose string     `json:"purpose,omitempty"`
	Page    int        `json:"page,omitempty"`
	List    *c11URL    `json:"list,omitempty"`
	Idx     string     `json:"idx,omitempty"`
	To      int        `json:"to,omitempty"`
	Secs    int        `json:"secs,omitempty"`
	Issuers []string   `json:"issuers,omitempty"`
	Cred    *c11Cred   `json:"cred,omitempty"`
	Host    *c11Host   `json:"host,omitempty"`
	Dids    []string   `json:"dids,omitempty"`
	Sets    []c11BitOp `json:"sets,omitempty"`
	Gets    []int      `json:"gets,omitempty"`
	Len     int        `json:"len,omitempty"`
	Revokes []c11Status `json:"revokes,omitempty"` // mix: entries to revoke concurrently (list + idx)
	// wire: StatusList2021Entry.Validate / strconv.Atoi / strconv.Itoa differential (fields of the entry as Go strings;
	// UrlOK = verdict of url.ParseRequestURI on Raw, computed by the generator; N = number printed with Itoa)
	ID    string `json:"id,omitempty"`
	Type  string `json:"type,omitempty"`
	Raw   string `json:"raw,omitempty"`
	UrlOK bool   `json:"urlok,omitempty"`
	N     int64  `json:"n,omitempty"`
	// SignFail: the injected Sign fails during this operation (key store outage after ResolveKey succeeded)
	SignFail bool `json:"signfail,omitempty"`
	// Down: the status list endpoints of these nodes cannot be reached during this operation
	Down []int `json:"down,omitempty"`
}

// ---------- fast signer: HMAC over the canonical JSON without proof, key derived from the key id

func c11Key(kid string) []byte { h := sha256.Sum256([]byte("c11-secret|" + kid)); return h[:] }

func c11Canonical(cred vc.VerifiableCredential) ([]byte, error) {
	bs, err := json.Marshal(cred)
	if err != nil {
		return nil, err
	}
	m := map[string]interface{}{}
	if err = json.Unmarshal(bs, &m); err != nil {
		return nil, err
	}
	delete(m, "proof")
	return json.Marshal(m)
}

func c11Mac(kid string, canon []byte) string {
	h := hmac.New(sha256.New, c11Key(kid))
	h.Write(canon)
	return hex.EncodeToString(h.Sum(nil))
}

func c11Sign(_ context.Context, unsigned vc.VerifiableCredential, kid string) (*vc.VerifiableCredential, error) {
	unsigned.Proof = nil
	canon, err := c11Canonical(unsigned)
	if err != nil {
		return nil, err
	}
	unsigned.Proof = []interface{}{map[string]interface{}{"type": "VerifHmac", "verificationMethod": kid, "mac": c11Mac(kid, canon)}}
	bs, err := json.Marshal(unsigned)
	if err != nil {
		return nil, err
	}
	return vc.ParseVerifiableCredential(string(bs))
}

func c11VerifySignature(cred vc.VerifiableCredential, _ *time.Time) error {
	if len(cred.Proof) != 1 {
		return errors.New("verif: exactly one proof expected")
	}
	p, ok := cred.Proof[0].(map[string]interface{})
	if !ok {
		return errors.New("verif: proof is not an object")
	}
	kid, _ := p["verificationMethod"].(string)
	mac, _ := p["mac"].(string)
	if strings.Split(kid, "#")[0] != cred.Issuer.String() {
		return errors.New("verif: key is not of the issuer")
	}
	canon, err := c11Canonical(cred)
	if err != nil {
		return err
	}
	if !hmac.Equal([]byte(mac), []byte(c11Mac(kid, canon))) {
		return errors.New("verif: invalid signature")
	}
	return nil
}

func c11ResolveKey(issuer did.DID, _ *time.Time, _ resolver.RelationType) (string, crypto.PublicKey, error) {
	if strings.Contains(issuer.String(), "nokey") {
		return "", nil, resolver.ErrKeyNotFound
	}
	return issuer.String() + "#k1", nil, nil
}

// ---------- world: two nodes + foreign hosts

type c11Node struct {
	cs   *StatusList2021
	base string
}

type c11World struct {
	t        *testing.T
	nodes    []*c11Node
	hosts    map[string]c11Host
	urlIndex map[string]c11URL // rendered status list URL -> structured form
	dlLog    []string
	issuers  []string
	mu       sync.Mutex
	// race injection
	raceArmed  bool
	raceNode   int
	raceIssuer string
	raceDone   chan string
	// interleaving point inside Credential(): between its reads and its transaction (where it resolves the signing key)
	hookArmed  bool
	hookNode   int
	hookList   string
	hookIdx    string
	hookResult string
	signFail   bool
	down       map[int]bool
}

var c11Bases = []string{"https://n0.example", "https://n1.example/iam"}

// base URLs a node is re-configured to by the `rebase` operation (restart with a changed `url` setting)
var c11AltBases = []string{"https://n0.example:8443", "https://public.example/n", "http://n0.example"}

// c11AltName: URLs under a re-configured base are named ?<base>/<issuer>/<page> (what the model driver prints for a base
// that is not one of the two node bases)
func c11AltName(s string) (string, bool) {
	for _, alt := range c11AltBases {
		if rest, ok := strings.CutPrefix(s, alt+"/statuslist/"); ok {
			if i := strings.LastIndex(rest, "/"); i > 0 {
				return "?" + alt + "/" + rest[:i] + "/" + rest[i+1:], true
			}
		}
	}
	return "", false
}

func (w *c11World) render(u c11URL) string {
	if u.Node < 0 || u.Node >= len(w.nodes) {
		return u.Raw
	}
	id, err := did.ParseDID(u.Issuer)
	if err != nil {
		return u.Raw
	}
	s := w.nodes[u.Node].cs.statusListURL(*id, u.Page)
	w.urlIndex[s] = c11URL{Node: u.Node, Issuer: u.Issuer, Page: u.Page}
	return s
}

// name is the canonical short name of a URL: n<node>/<issuer>/<page> or raw:<url>
func (w *c11World) name(s string) string {
	if n, ok := c11AltName(s); ok {
		return n
	}
	if u, ok := w.urlIndex[s]; ok {
		return fmt.Sprintf("n%d/%s/%d", u.Node, u.Issuer, u.Page)
	}
	// try all known issuers/pages (URLs produced by the implementation)
	for ni := range w.nodes {
		for _, is := range w.issuers {
			id, err := did.ParseDID(is)
			if err != nil {
				continue
			}
			for p := 0; p <= 12; p++ {
				if w.nodes[ni].cs.statusListURL(*id, p) == s {
					w.urlIndex[s] = c11URL{Node: ni, Issuer: is, Page: p}
					return fmt.Sprintf("n%d/%s/%d", ni, is, p)
				}
			}
		}
	}
	return "raw:" + s
}

// Do implements core.HTTPRequestDoer: status list URLs of the two nodes are answered by that node's Credential()
func (w *c11World) Do(req *http.Request) (*http.Response, error) {
	s := req.URL.String()
	w.dlLog = append(w.dlLog, w.name(s))
	resp := func(code int, body []byte) (*http.Response, error) {
		return &http.Response{StatusCode: code, Body: io.NopCloser(bytes.NewReader(body)), Header: http.Header{}}, nil
	}
	if u, ok := w.urlIndex[s]; ok {
		if w.down[u.Node] {
			return nil, errors.New("verif: connection refused")
		}
		id, _ := did.ParseDID(u.Issuer)
		cred, err := w.nodes[u.Node].cs.Credential(context.Background(), *id, u.Page)
		if err != nil {
			return resp(404, []byte(`{"title":"not found"}`))
		}
		bs, _ := json.Marshal(cred)
		return resp(200, bs)
	}
	h, ok := w.hosts[s]
	if !ok {
		return nil, errors.New("verif: no such host")
	}
	switch h.Kind {
	case "fail":
		return resp(500, []byte("boom"))
	case "garbage":
		return resp(200, []byte("{not json"))
	}
	cred, err := w.hostCredential(h)
	if err != nil {
		return nil, err
	}
	return resp(200, cred)
}

// hostCredential builds what a foreign host serves right now
func (w *c11World) hostCredential(h c11Host) ([]byte, error) {
	n := h.LenBytes
	if n == 0 {
		n = defaultBitstringLengthInBytes
	}
	bs := bitstring(make([]byte, n))
	for _, i := range h.Bits {
		_ = bs.setBit(i, true)
	}
	enc, err := compress(bs)
	if err != nil {
		return nil, err
	}
	now := time.Now()
	subjectID := h.URL
	purpose := "revocation"
	switch h.Kind {
	case "wrongsubject":
		subjectID = w.render(h.Subject)
	case "suspension":
		purpose = "suspension"
	case "emptylist":
		enc = ""
	case "badlist":
		enc = "!!!not-base64!!!"
	}
	subj := map[string]interface{}{"id": subjectID, "type": StatusList2021CredentialSubjectType, "statusPurpose": purpose, "encodedList": enc}
	var subjects interface{} = subj
	if h.Kind == "twosubjects" {
		subjects = []interface{}{subj, subj}
	}
	if h.Kind == "subjtype" {
		subj["type"] = "Other"
	}
	m := map[string]interface{}{
		"@context":          []interface{}{vc.VCContextV1URI().String(), StatusList2021ContextURI.String()},
		"type":              []interface{}{"VerifiableCredential", StatusList2021CredentialType},
		"id":                h.Signer + "#" + "hosted",
		"issuer":            h.Signer,
		"issuanceDate":      now.Format(time.RFC3339Nano),
		"credentialSubject": subjects,
	}
	if h.Kind != "noexp" {
		m["expirationDate"] = now.Add(time.Duration(h.ExpIn) * time.Second).Format(time.RFC3339Nano)
	}
	switch h.Kind {
	case "types3":
		m["type"] = []interface{}{"VerifiableCredential", StatusList2021CredentialType, "Extra"}
	case "noctx":
		m["@context"] = []interface{}{vc.VCContextV1URI().String()}
	case "status":
		m["credentialStatus"] = map[string]interface{}{"id": "x#1", "type": "Other"}
	}
	raw, _ := json.Marshal(m)
	cred, err := vc.ParseVerifiableCredential(string(raw))
	if err != nil {
		return nil, err
	}
	if h.Kind == "noproof" {
		return json.Marshal(cred)
	}
	signed, err := c11Sign(context.Background(), *cred, h.Signer+"#k1")
	if err != nil {
		return nil, err
	}
	if h.Kind == "badsig" {
		p := signed.Proof[0].(map[string]interface{})
		mac := p["mac"].(string)
		first := byte('0')
		if mac[0] == '0' {
			first = '1'
		}
		p["mac"] = string(first) + mac[1:]
	}
	return json.Marshal(signed)
}

func c11NewWorld(t *testing.T) *c11World {
	w := &c11World{t: t, hosts: map[string]c11Host{}, urlIndex: map[string]c11URL{}}
	for i, base := range c11Bases {
		db := storage.NewTestStorageEngine(t).GetSQLDatabase()
		cs := NewStatusList2021(db, w, base)
		cs.Sign = func(ctx context.Context, unsigned vc.VerifiableCredential, kid string) (*vc.VerifiableCredential, error) {
			if w.signFail {
				return nil, errC11KeyStoreDown
			}
			return c11Sign(ctx, unsigned, kid)
		}
		hookNode := i
		cs.ResolveKey = func(issuer did.DID, at *time.Time, rel resolver.RelationType) (string, crypto.PublicKey, error) {
			if w.hookArmed && w.hookNode == hookNode {
				// a Revoke() of an entry of the list being served commits right here: after Credential() looked at the stored
				// list, before it takes the lock and re-issues
				w.hookArmed = false
				e := StatusList2021Entry{ID: "x", Type: StatusList2021EntryType, StatusPurpose: StatusPurposeRevocation, StatusListIndex: w.hookIdx, StatusListCredential: w.hookList}
				w.hookResult = c11ErrClass(w.nodes[hookNode].cs.Revoke(context.Background(), ssi.MustParseURI("did:web:example.com#"+w.hookIdx), e))
			}
			return c11ResolveKey(issuer, at, rel)
		}
		cs.VerifySignature = c11VerifySignature
		w.nodes = append(w.nodes, &c11Node{cs: cs, base: base})
		ni := i
		// race injection: fail the victim's page creation with ErrDuplicatedKey exactly when a concurrent Entry of the
		// same issuer (which really runs and commits before the victim retries) creates that page
		err := db.Callback().Create().Before("gorm:create").Register("verif:c11race", func(tx *gorm.DB) {
			if !w.raceArmed || w.raceNode != ni || tx.Statement.Table != "status_list" {
				return
			}
			w.raceArmed = false
			if os.Getenv("VERIF_DEBUG") != "" {
				fmt.Printf("RACE CALLBACK table=%s dest=%T %+v\n", tx.Statement.Table, tx.Statement.Dest, tx.Statement.Dest)
			}
			sqlDB, _ := db.DB()
			before := sqlDB.Stats().WaitCount
			done := make(chan string, 1)
			w.raceDone = done
			issuer := w.raceIssuer
			go func() { done <- w.entryLine(ni, issuer, StatusPurposeRevocation) }()
			for i := 0; sqlDB.Stats().WaitCount == before && i < 5000; i++ {
				time.Sleep(200 * time.Microsecond)
			}
			_ = tx.AddError(gorm.ErrDuplicatedKey)
		})
		if err != nil {
			t.Fatal(err)
		}
	}
	return w
}

func (w *c11World) reset(dids []string) {
	w.hosts = map[string]c11Host{}
	w.dlLog = nil
	w.issuers = dids
	for _, n := range w.nodes {
		for _, tbl := range []string{"status_list_entry", "status_list_credential", "status_list", "did"} {
			if err := n.cs.db.Exec("DELETE FROM " + tbl).Error; err != nil {
				w.t.Fatal(err)
			}
		}
		for _, d := range dids {
			if strings.Contains(d, "unknown") {
				continue
			}
			if err := n.cs.db.Exec("INSERT INTO did ( subject, id ) VALUES ( ?, ? )", d, d).Error; err != nil {
				w.t.Fatal(err)
			}
		}
	}
}

var errC11KeyStoreDown = errors.New("verif: key store unavailable")

func c11ErrClass(err error) string {
	switch {
	case err == nil:
		return "ok"
	case errors.Is(err, errC11KeyStoreDown):
		return "err:sign"
	case errors.Is(err, types.ErrRevoked):
		return "revoked"
	case errors.Is(err, types.ErrNotFound):
		return "err:notfound"
	case errors.Is(err, errUnsupportedPurpose):
		return "err:purpose"
	case errors.Is(err, ErrIndexNotInBitstring):
		return "err:index"
	case errors.Is(err, resolver.ErrKeyNotFound):
		return "err:key"
	case errors.Is(err, strconv.ErrSyntax), errors.Is(err, strconv.ErrRange):
		return "err:atoi"
	case strings.Contains(err.Error(), "FOREIGN KEY"), strings.Contains(err.Error(), "foreign key"):
		return "err:fk"
	case strings.HasPrefix(err.Error(), "status list:"):
		return "err:statuslist"
	case strings.Contains(err.Error(), "does not match vc.credentialStatus.statusPurpose"):
		return "err:purpose-mismatch"
	}
	return "err:other:" + err.Error()
}

func (w *c11World) entryLine(node int, issuer string, purpose string) string {
	id, err := did.ParseDID(issuer)
	if err != nil {
		return "err:did"
	}
	e, err := w.nodes[node].cs.Entry(context.Background(), *id, StatusPurpose(purpose))
	if err != nil {
		return c11ErrClass(err)
	}
	w.mu.Lock()
	defer w.mu.Unlock()
	ok := e.Type == StatusList2021EntryType && e.StatusPurpose == StatusPurposeRevocation && e.ID == e.StatusListCredential+"#"+e.StatusListIndex &&
		e.Validate() == nil // the entry handed out passes the validator every verifier runs (theorem issued_entry_validates)
	return fmt.Sprintf("%s %s wf=%v", w.name(e.StatusListCredential), e.StatusListIndex, ok)
}

func c11SetBits(bs bitstring) string {
	var l []string
	for q, b := range bs {
		if b == 0 {
			continue
		}
		for r := 0; r < 8; r++ {
			if b>>(7-r)&1 == 1 {
				l = append(l, strconv.Itoa(q*8+r))
			}
		}
	}
	return "[" + strings.Join(l, ",") + "]"
}

func c11Subset(a, b string) bool {
	in := map[string]bool{}
	for _, x := range strings.Split(strings.Trim(b, "[]"), ",") {
		in[x] = true
	}
	for _, x := range strings.Split(strings.Trim(a, "[]"), ",") {
		if x != "" && !in[x] {
			return false
		}
	}
	return true
}

// servedBits: the set bits of the list the node serves right now ("none" when it does not serve it)
func (w *c11World) servedBits(node int, l c11URL) string {
	id, err := did.ParseDID(l.Issuer)
	if err != nil {
		return "none"
	}
	cred, err := w.nodes[node].cs.Credential(context.Background(), *id, l.Page)
	if err != nil {
		return "none"
	}
	var subj []StatusList2021CredentialSubject
	if err := cred.UnmarshalCredentialSubject(&subj); err != nil || len(subj) != 1 {
		return "malformed"
	}
	bs, err := expand(subj[0].EncodedList)
	if err != nil {
		return "malformed"
	}
	return c11SetBits(bs)
}

func c11Minutes(d time.Duration) int64 {
	s := d.Seconds()
	if s >= 0 {
		return int64((s + 30) / 60)
	}
	return -int64((-s + 30) / 60)
}

// describe a served / stored StatusList2021Credential
func (w *c11World) describeVC(cred *vc.VerifiableCredential) string {
	var subj []StatusList2021CredentialSubject
	if err := cred.UnmarshalCredentialSubject(&subj); err != nil || len(subj) != 1 {
		return "malformed-subject"
	}
	bits, err := expand(subj[0].EncodedList)
	if err != nil {
		return "malformed-list"
	}
	sig := "ok"
	if err := c11VerifySignature(*cred, nil); err != nil {
		sig = "BAD"
	}
	now := time.Now()
	ttl := "none"
	if cred.ExpirationDate != nil {
		ttl = strconv.FormatInt(c11Minutes(cred.ExpirationDate.Sub(now)), 10)
	}
	return fmt.Sprintf("issuer=%s subj=%s purpose=%s len=%d bits=%s age=%d ttl=%s sig=%s", cred.Issuer.String(), w.name(subj[0].ID),
		subj[0].StatusPurpose, len(bits), c11SetBits(bits), c11Minutes(now.Sub(cred.IssuanceDate)), ttl, sig)
}

// tick lets `secs` of virtual time pass: every stored timestamp (columns and the signed credential) moves into the past
func (w *c11World) tick(secs int) {
	d := time.Duration(secs) * time.Second
	for _, n := range w.nodes {
		var recs []credentialRecord
		if err := n.cs.db.Find(&recs).Error; err != nil {
			w.t.Fatal(err)
		}
		for _, r := range recs {
			raw := r.Raw
			if cred, err := vc.ParseVerifiableCredential(r.Raw); err == nil {
				valid := c11VerifySignature(*cred, nil) == nil
				cred.IssuanceDate = cred.IssuanceDate.Add(-d)
				if cred.ExpirationDate != nil {
					e := cred.ExpirationDate.Add(-d)
					cred.ExpirationDate = &e
				}
				if valid {
					p := cred.Proof[0].(map[string]interface{})
					if s, err := c11Sign(context.Background(), *cred, p["verificationMethod"].(string)); err == nil {
						raw = s.Raw()
					}
				} else if bs, err := json.Marshal(cred); err == nil {
					raw = string(bs)
				}
			}
			upd := map[string]interface{}{"created_at": r.CreatedAt - int64(secs), "raw": raw}
			if r.Expires != nil {
				upd["expires"] = *r.Expires - int64(secs)
			}
			if err := n.cs.db.Model(&credentialRecord{}).Where("subject_id = ?", r.SubjectID).UpdateColumns(upd).Error; err != nil {
				w.t.Fatal(err)
			}
		}
	}
}

func (w *c11World) buildCredential(c c11Cred) (*vc.VerifiableCredential, error) {
	m := map[string]interface{}{
		"@context":          []interface{}{vc.VCContextV1URI().String(), StatusList2021ContextURI.String()},
		"type":              []interface{}{"VerifiableCredential", "TestCredential"},
		"issuer":            c.IssuerDID,
		"issuanceDate":      time.Now().Add(-time.Hour).Format(time.RFC3339),
		"credentialSubject": map[string]interface{}{"id": "did:web:holder.example"},
	}
	if c.ID != "" {
		m["id"] = c.ID
	}
	if !c.NoStatus {
		var sts []interface{}
		for i, s := range c.Statuses {
			list := w.render(s.List)
			sts = append(sts, map[string]interface{}{"id": fmt.Sprintf("%s#%s-%d", list, s.Idx, i), "type": s.Type, "statusPurpose": s.Purpose,
				"statusListIndex": s.Idx, "statusListCredential": list})
		}
		m["credentialStatus"] = sts
	}
	raw, _ := json.Marshal(m)
	return vc.ParseVerifiableCredential(string(raw))
}

func (w *c11World) exec(op c11Op) (line string) {
	defer func() {
		if r := recover(); r != nil {
			line = fmt.Sprintf("panic:%v", r)
		}
	}()
	ctx := context.Background()
	w.signFail = op.SignFail && (op.Op == "entry" || op.Op == "revoke" || op.Op == "serve")
	w.down = map[int]bool{}
	for _, n := range op.Down {
		w.down[n] = true
	}
	defer func() { w.signFail = false; w.down = nil }()
	switch op.Op {
	case "reset":
		w.reset(op.Dids)
		return "reset"
	case "entry":
		return "entry " + w.entryLine(op.Node, op.Issuer, op.Purpose)
	case "race":
		w.raceArmed, w.raceNode, w.raceIssuer, w.raceDone = true, op.Node, op.Issuer, nil
		victim := w.entryLine(op.Node, op.Issuer, StatusPurposeRevocation)
		w.raceArmed = false
		comp := "none"
		if w.raceDone != nil {
			comp = <-w.raceDone
		}
		return "race victim=" + victim + " competitor=" + comp
	case "par":
		res := make([]string, len(op.Issuers))
		var wg sync.WaitGroup
		for i, is := range op.Issuers {
			wg.Add(1)
			go func(i int, is string) {
				defer wg.Done()
				res[i] = w.entryLine(op.Node, is, StatusPurposeRevocation)
			}(i, is)
		}
		wg.Wait()
		sort.Strings(res)
		return "par " + strings.Join(res, " ; ")
	case "mix":
		// real goroutines: Entry calls, Revoke calls and Credential calls of the touched lists, all at once
		type served struct {
			name string
			bits string
			ok   bool
		}
		lists := map[string]c11URL{}
		for _, rv := range op.Revokes {
			lists[w.render(rv.List)] = rv.List
		}
		before := map[string]string{}
		for u, l := range lists {
			before[u] = w.servedBits(op.Node, l)
		}
		entries := make([]string, len(op.Issuers))
		revs := make([]string, len(op.Revokes))
		var mids []served
		var wg sync.WaitGroup
		for i, is := range op.Issuers {
			wg.Add(1)
			go func(i int, is string) { defer wg.Done(); entries[i] = w.entryLine(op.Node, is, StatusPurposeRevocation) }(i, is)
		}
		for i, rv := range op.Revokes {
			wg.Add(1)
			u := w.render(rv.List) // (not in the goroutine: render fills a map)
			go func(i int, rv c11Status, u string) {
				defer wg.Done()
				e := StatusList2021Entry{ID: "x", Type: StatusList2021EntryType, StatusPurpose: StatusPurposeRevocation, StatusListIndex: rv.Idx, StatusListCredential: u}
				err := w.nodes[op.Node].cs.Revoke(ctx, ssi.MustParseURI("did:web:example.com#"+rv.Idx), e)
				w.mu.Lock()
				revs[i] = w.name(u) + "#" + rv.Idx + ":" + c11ErrClass(err)
				w.mu.Unlock()
			}(i, rv, u)
		}
		for u, l := range lists {
			wg.Add(1)
			go func(u string, l c11URL) {
				defer wg.Done()
				id, _ := did.ParseDID(l.Issuer)
				cred, err := w.nodes[op.Node].cs.Credential(ctx, *id, l.Page)
				if err != nil {
					return
				}
				var subj []StatusList2021CredentialSubject
				_ = cred.UnmarshalCredentialSubject(&subj)
				ok := len(subj) == 1 && c11VerifySignature(*cred, nil) == nil
				bits := ""
				if ok {
					if bs, err := expand(subj[0].EncodedList); err == nil {
						bits = c11SetBits(bs)
					}
				}
				w.mu.Lock()
				mids = append(mids, served{name: u, bits: bits, ok: ok})
				w.mu.Unlock()
			}(u, l)
		}
		wg.Wait()
		// every list served in the middle is validly signed and lies between the list before and the list after
		mid := "ok"
		var after []string
		names := make([]string, 0, len(lists))
		for u := range lists {
			names = append(names, u)
		}
		sort.Strings(names)
		for _, u := range names {
			a := w.servedBits(op.Node, lists[u])
			after = append(after, w.name(u)+"="+a)
			for _, m := range mids {
				if m.name == u && (!m.ok || !c11Subset(before[u], m.bits) || !c11Subset(m.bits, a)) {
					mid = "BAD(" + before[u] + "→" + m.bits + "→" + a + ")"
				}
			}
		}
		sort.Strings(entries)
		sort.Strings(revs)
		return fmt.Sprintf("mix entries=[%s] revokes=[%s] after=[%s] mid=%s", strings.Join(entries, " ; "), strings.Join(revs, " "), strings.Join(after, " "), mid)
	case "bump":
		u := w.render(*op.List)
		tx := w.nodes[op.Node].cs.db.Model(&credentialIssuerRecord{}).Where("subject_id = ? AND last_issued_index <= ?", u, op.To).
			UpdateColumn("last_issued_index", op.To)
		return fmt.Sprintf("bump %d", tx.RowsAffected)
	case "revoke":
		e := StatusList2021Entry{ID: "x", Type: StatusList2021EntryType, StatusPurpose: op.Purpose, StatusListIndex: op.Idx, StatusListCredential: w.render(*op.List)}
		err := w.nodes[op.Node].cs.Revoke(ctx, ssi.MustParseURI("did:web:example.com#"+op.Idx), e)
		return "revoke " + c11ErrClass(err)
	case "serve":
		id, err := did.ParseDID(op.Issuer)
		if err != nil {
			return "serve err:did"
		}
		cred, err := w.nodes[op.Node].cs.Credential(ctx, *id, op.Page)
		if err != nil {
			return "serve " + c11ErrClass(err)
		}
		return "serve " + w.describeVC(cred)
	case "serverace":
		id, err := did.ParseDID(op.Issuer)
		if err != nil {
			return "serverace err:did"
		}
		w.hookArmed, w.hookNode, w.hookList, w.hookIdx, w.hookResult = true, op.Node, w.nodes[op.Node].cs.statusListURL(*id, op.Page), op.Idx, "none"
		cred, err := w.nodes[op.Node].cs.Credential(ctx, *id, op.Page)
		w.hookArmed = false
		if err != nil {
			return "serverace revoke=" + w.hookResult + " " + c11ErrClass(err)
		}
		return "serverace revoke=" + w.hookResult + " " + w.describeVC(cred)
	case "record":
		// the stored record for a list on a node (what entries are judged by)
		var rec credentialRecord
		if err := w.nodes[op.Node].cs.db.First(&rec, "subject_id = ?", w.render(*op.List)).Error; err != nil {
			return "record none"
		}
		exp := "none"
		if rec.Expires != nil {
			exp = strconv.FormatInt(c11Minutes(time.Unix(*rec.Expires, 0).Sub(time.Now())), 10)
		}
		return fmt.Sprintf("record purpose=%s bits=%s age=%d ttl=%s", rec.StatusPurpose, c11SetBits(rec.Bitstring), c11Minutes(time.Since(time.Unix(rec.CreatedAt, 0))), exp)
	case "tick":
		w.tick(op.Secs)
		return "tick"
	case "host":
		w.hosts[op.Host.URL] = *op.Host
		return "host"
	case "verify":
		cred, err := w.buildCredential(*op.Cred)
		if err != nil {
			return "verify err:build:" + err.Error()
		}
		w.dlLog = nil
		err = w.nodes[op.Node].cs.Verify(*cred)
		return fmt.Sprintf("verify %s dl=[%s]", c11ErrClass(err), strings.Join(w.dlLog, ","))
	case "rebase":
		cs := w.nodes[op.Node].cs
		old := cs.baseURL
		cs.baseURL = op.Raw
		defer func() { cs.baseURL = old }()
		id, err := did.ParseDID(op.Issuer)
		if err != nil {
			return "rebase err:did"
		}
		var lines, revs []string
		var got []*StatusList2021Entry
		for j := 0; j < op.To; j++ {
			e, err := cs.Entry(ctx, *id, StatusPurposeRevocation)
			if err != nil {
				lines = append(lines, c11ErrClass(err))
				continue
			}
			ok := e.Type == StatusList2021EntryType && e.StatusPurpose == StatusPurposeRevocation && e.ID == e.StatusListCredential+"#"+e.StatusListIndex && e.Validate() == nil
			lines = append(lines, fmt.Sprintf("%s %s wf=%v", w.name(e.StatusListCredential), e.StatusListIndex, ok))
			got = append(got, e)
		}
		for _, e := range got {
			revs = append(revs, c11ErrClass(cs.Revoke(ctx, ssi.MustParseURI("did:web:example.com#"+e.StatusListIndex), *e)))
		}
		return fmt.Sprintf("rebase entries=[%s] revokes=[%s]", strings.Join(lines, " ; "), strings.Join(revs, " "))
	case "url":
		// statusListURL under an arbitrary base URL (Raw), issuer, page
		id, err := did.ParseDID(op.Issuer)
		if err != nil {
			return "url err:did"
		}
		cs := &StatusList2021{baseURL: op.Raw}
		return "url " + cs.statusListURL(*id, op.Page)
	case "wire":
		e := StatusList2021Entry{ID: op.ID, Type: op.Type, StatusPurpose: op.Purpose, StatusListIndex: op.Idx, StatusListCredential: op.Raw}
		at := "err"
		if v, err := strconv.Atoi(op.Idx); err == nil {
			at = strconv.Itoa(v)
		}
		it := strconv.Itoa(int(op.N))
		rt := "DIFF"
		if back, err := strconv.Atoi(it); err == nil && int64(back) == op.N {
			rt = "ok"
		}
		return fmt.Sprintf("wire validate=%s atoi=%s itoa=%s rt=%s intsize=%d", c11ValidateClass(e.Validate()), at, it, rt, strconv.IntSize)
	case "bits":
		n := op.Len
		bs := bitstring(make([]byte, n))
		var out []string
		for _, s := range op.Sets {
			if err := bs.setBit(s.I, s.V); err != nil {
				out = append(out, "e")
			} else {
				out = append(out, ".")
			}
		}
		var gets []string
		for _, g := range op.Gets {
			v, err := bs.bit(g)
			switch {
			case err != nil:
				gets = append(gets, "e")
			case v:
				gets = append(gets, "1")
			default:
				gets = append(gets, "0")
			}
		}
		// contract check (not modelled): compress/expand round trip
		rt := "rt=ok"
		if enc, err := compress(bs); err != nil {
			rt = "rt=ERR"
		} else if back, err := expand(enc); err != nil || !bytes.Equal(back, bs) {
			rt = "rt=DIFF"
		}
		return fmt.Sprintf("bits set=%s get=%s all=%s %s", strings.Join(out, ""), strings.Join(gets, ""), c11SetBits(bs), rt)
	}
	return "bad-op:" + op.Op
}

// ---------- generator (online: the next operation is chosen knowing the implementation's earlier answers)

var c11Issuers = []string{"did:web:example.com:iam:alice", "did:web:example.com:iam:bob", "did:web:carol.example", "did:web:example.com:iam:nokey", "did:web:unknown.example"}
var c11Foreign = []string{"https://evil.example/list/1", "https://other.example/statuslist/did:web:example.com:iam:alice/1", "https://lists.example/a"}

type c11Entry struct {
	list c11URL
	idx  int
}

type c11Gen struct {
	rng     *rand.Rand
	sc      int
	nticks  int
	entries []c11Entry // entries handed out in this scenario (parsed from the implementation's lines)
	revoked []c11Entry // successfully revoked
	hosted  []string
	pending []c11Op // follow-up operations (hostile sequences): run before anything else is chosen
}

var c11EntryRe = regexp.MustCompile(`n(\d+)/(\S+)/(\d+) (\d+) wf=`)
var c11MixRevRe = regexp.MustCompile(`n(\d+)/([^ /]+)/(\d+)#(\d+):ok`)

func (g *c11Gen) observe(op c11Op, line string) {
	switch op.Op {
	case "reset":
		g.entries, g.revoked, g.hosted, g.nticks = nil, nil, nil, 0
	case "mix":
		for _, m := range c11MixRevRe.FindAllStringSubmatch(line, -1) {
			n, _ := strconv.Atoi(m[1])
			p, _ := strconv.Atoi(m[3])
			i, _ := strconv.Atoi(m[4])
			g.revoked = append(g.revoked, c11Entry{list: c11URL{Node: n, Issuer: m[2], Page: p}, idx: i})
		}
		fallthrough
	case "entry", "race", "par", "rebase":
		for _, m := range c11EntryRe.FindAllStringSubmatch(line, -1) {
			n, _ := strconv.Atoi(m[1])
			p, _ := strconv.Atoi(m[3])
			i, _ := strconv.Atoi(m[4])
			g.entries = append(g.entries, c11Entry{list: c11URL{Node: n, Issuer: m[2], Page: p}, idx: i})
			if op.Op == "rebase" && !strings.Contains(line, "err:") { // the operation revoked every entry it was handed
				g.revoked = append(g.revoked, c11Entry{list: c11URL{Node: n, Issuer: m[2], Page: p}, idx: i})
			}
		}
	case "revoke":
		if line == "revoke ok" {
			i, _ := strconv.Atoi(op.Idx)
			g.revoked = append(g.revoked, c11Entry{list: *op.List, idx: i})
		}
	case "serverace":
		if strings.HasPrefix(line, "serverace revoke=ok") {
			i, _ := strconv.Atoi(op.Idx)
			g.revoked = append(g.revoked, c11Entry{list: c11URL{Node: op.Node, Issuer: op.Issuer, Page: op.Page}, idx: i})
		}
	case "host":
		g.hosted = append(g.hosted, op.Host.URL)
	}
}

func (g *c11Gen) pick(l []string) string { return l[g.rng.Intn(len(l))] }

func (g *c11Gen) someList(node int) c11URL {
	if len(g.entries) > 0 && g.rng.Intn(4) != 0 {
		return g.entries[g.rng.Intn(len(g.entries))].list
	}
	return c11URL{Node: node, Issuer: g.pick(c11Issuers[:3]), Page: 1 + g.rng.Intn(3)}
}

func (g *c11Gen) someIdx() string {
	switch g.rng.Intn(12) {
	case 0:
		return "-1"
	case 1:
		return strconv.Itoa(maxBitstringIndex)
	case 2:
		return strconv.Itoa(maxBitstringIndex + 1)
	case 3:
		return []string{"abc", "", "9223372036854775808", "1_0", "-", "+0", " 1"}[g.rng.Intn(7)]
	case 4:
		return strconv.Itoa(maxBitstringIndex - g.rng.Intn(4))
	case 5:
		return strconv.Itoa(g.rng.Intn(maxBitstringIndex))
	}
	return strconv.Itoa(g.rng.Intn(6))
}

// an entry to revoke / to name in a credential: mostly one that was really handed out (or already revoked)
func (g *c11Gen) someEntry(node int) (c11URL, string) {
	r := g.rng
	switch {
	case len(g.revoked) > 0 && r.Intn(4) == 0:
		e := g.revoked[r.Intn(len(g.revoked))]
		return e.list, g.alias(strconv.Itoa(e.idx))
	case len(g.entries) > 0 && r.Intn(5) != 0:
		e := g.entries[r.Intn(len(g.entries))]
		if r.Intn(8) == 0 {
			return e.list, g.someIdx()
		}
		return e.list, g.alias(strconv.Itoa(e.idx))
	case r.Intn(4) == 0:
		return c11URL{Node: -1, Raw: g.pick(c11Foreign)}, g.someIdx()
	}
	return g.someList(node), g.someIdx()
}

// alias: now and then another spelling strconv.Atoi reads as the same position ("+7", "07", "007")
func (g *c11Gen) alias(s string) string {
	switch g.rng.Intn(16) {
	case 0:
		return "+" + s
	case 1:
		return "0" + s
	case 2:
		return "00" + s
	}
	return s
}

func (g *c11Gen) tickSecs() int {
	ms := []int{0, 0, 0, 1, 1, 2, 23, 24, 47, 71, 72, 95, 96, 97, 200}
	return ms[g.rng.Intn(len(ms))]*900 + 60
}

func (g *c11Gen) hostOp() c11Op {
	r := g.rng
	kinds := []string{"ok", "ok", "ok", "ok", "ok", "ok", "ok", "ok", "ok", "ok", "ok", "ok", "fail", "garbage", "badsig", "wrongsubject", "suspension", "noexp", "short", "noproof", "twosubjects",
		"emptylist", "badlist", "status", "types3", "noctx", "subjtype"}
	h := c11Host{URL: g.pick(c11Foreign), Kind: g.pick(kinds), Signer: g.pick([]string{"did:web:evil.example", "did:web:example.com:iam:alice"}),
		ExpIn: []int{20, 920, 86420, 1820}[r.Intn(4)]}
	for j := 1 + r.Intn(3); j > 0; j-- {
		h.Bits = append(h.Bits, r.Intn(6))
	}
	if h.Kind == "short" {
		h.LenBytes = 1 + r.Intn(2)
		h.Kind = "ok"
	}
	if h.Kind == "ok" && r.Intn(3) == 0 {
		// a list larger than the 16 kB minimum (the spec's size is a lower bound) with revoked positions beyond 131071
		h.LenBytes = []int{defaultBitstringLengthInBytes + 1, 2 * defaultBitstringLengthInBytes, 4 * defaultBitstringLengthInBytes}[r.Intn(3)]
		h.Bits = []int{h.LenBytes*8 - 1 - r.Intn(8), maxBitstringIndex + 1 + r.Intn(h.LenBytes*8-maxBitstringIndex-1)}
		if r.Intn(2) == 0 {
			h.Bits = append(h.Bits, r.Intn(6))
		}
	}
	// hostile follow-up: a credential naming exactly this URL and one of the bits this host sets, verified on either node
	// (a list that is mis-signed, names another list, has another purpose … must not revoke it), again after a refresh window
	mk := func() c11Op {
		c := c11Cred{ID: "did:web:example.com:iam:alice#h" + strconv.Itoa(r.Intn(3)), IssuerDID: "did:web:example.com:iam:alice",
			Statuses: []c11Status{{Type: StatusList2021EntryType, Purpose: "revocation", List: c11URL{Node: -1, Raw: h.URL}, Idx: strconv.Itoa(h.Bits[r.Intn(len(h.Bits))])}}}
		return c11Op{Op: "verify", Node: r.Intn(2), Cred: &c}
	}
	g.pending = append(g.pending, mk())
	if r.Intn(2) == 0 {
		g.pending = append(g.pending, c11Op{Op: "tick", Secs: 960}, mk())
	}
	if h.Kind == "wrongsubject" {
		h.Subject = g.someList(0)
		if r.Intn(2) == 0 {
			h.Subject = c11URL{Node: -1, Raw: g.pick(c11Foreign)}
			if h.Subject.Raw == h.URL {
				h.Subject.Raw += "/x"
			}
		}
	}
	return c11Op{Op: "host", Host: &h}
}

func (g *c11Gen) next() c11Op {
	r := g.rng
	if len(g.pending) > 0 {
		op := g.pending[0]
		g.pending = g.pending[1:]
		if op.Op == "tick" {
			// at most 14 ticks per scenario: every tick is k*900+60 s, so differences of virtual times stay ≥ 60 s away from
			// the thresholds (multiples of 900 s) and the real time that passes during a scenario cannot flip a comparison
			if g.nticks >= 14 {
				return g.next()
			}
			g.nticks++
		}
		return op
	}
	node := 0
	if r.Intn(5) == 0 {
		node = 1
	}
	switch k := r.Intn(100); {
	case k >= 18 && k < 20:
		// the node's public URL changes while an issuer (preferably one that already has a page) keeps issuing
		is := g.pick(c11Issuers[:3])
		for _, j := range r.Perm(len(g.entries)) {
			if g.entries[j].list.Node == node {
				is = g.entries[j].list.Issuer
				break
			}
		}
		return c11Op{Op: "rebase", Node: node, Issuer: is, To: 2 + r.Intn(3), Raw: c11AltBases[r.Intn(len(c11AltBases))]}
	case k < 20:
		is := g.pick(c11Issuers[:3])
		if r.Intn(12) == 0 {
			is = g.pick(c11Issuers)
		}
		p := StatusPurposeRevocation
		if r.Intn(25) == 0 {
			p = statusPurposeSuspension
		}
		return c11Op{Op: "entry", Node: node, Issuer: is, Purpose: p, SignFail: r.Intn(10) == 0}
	case k < 25:
		return c11Op{Op: "race", Node: node, Issuer: g.pick(c11Issuers[:3])}
	case k < 27:
		n := 2 + r.Intn(5)
		var l []string
		for j := 0; j < n; j++ {
			l = append(l, g.pick(c11Issuers[:3]))
		}
		return c11Op{Op: "par", Node: node, Issuers: l}
	case k < 29:
		// concurrent Entry / Revoke / Credential on one node; revocations of entries that were really handed out there
		var mine []c11Entry
		for _, e := range g.entries {
			if e.list.Node == node {
				mine = append(mine, e)
			}
		}
		if len(mine) == 0 {
			return c11Op{Op: "entry", Node: node, Issuer: g.pick(c11Issuers[:3]), Purpose: StatusPurposeRevocation}
		}
		op := c11Op{Op: "mix", Node: node}
		for j := r.Intn(4); j > 0; j-- {
			op.Issuers = append(op.Issuers, g.pick(c11Issuers[:3]))
		}
		for j := 1 + r.Intn(4); j > 0; j-- {
			e := mine[r.Intn(len(mine))]
			op.Revokes = append(op.Revokes, c11Status{List: e.list, Idx: strconv.Itoa(e.idx)})
		}
		return op
	case k < 36:
		u := g.someList(node)
		to := maxBitstringIndex - r.Intn(3)
		if r.Intn(4) == 0 {
			to = r.Intn(10)
		}
		return c11Op{Op: "bump", Node: u.Node, List: &u, To: to}
	case k < 54:
		u, idx := g.someEntry(node)
		n := node
		if u.Node >= 0 && r.Intn(10) != 0 {
			n = u.Node // revoke on the node that manages the list (otherwise: not found)
		}
		p := StatusPurposeRevocation
		if r.Intn(20) == 0 {
			p = statusPurposeSuspension
		}
		return c11Op{Op: "revoke", Node: n, List: &u, Idx: idx, Purpose: p}
	case k < 64:
		if len(g.entries) > 0 && r.Intn(5) != 0 {
			u := g.entries[r.Intn(len(g.entries))].list
			return c11Op{Op: "serve", Node: u.Node, Issuer: u.Issuer, Page: u.Page, SignFail: r.Intn(8) == 0}
		}
		return c11Op{Op: "serve", Node: node, Issuer: g.pick(c11Issuers[:4]), Page: r.Intn(4)}
	case k < 72:
		if g.nticks < 12 {
			g.nticks++
			return c11Op{Op: "tick", Secs: g.tickSecs()}
		}
		return g.next()
	case k < 74:
		// hostile sequence: let a list come close to its expiry, then serve it while a Revoke() of one of its entries commits
		// between Credential()'s reads and its transaction; the served list and every later verification must show the bit
		if len(g.entries) == 0 || g.nticks >= 13 {
			return c11Op{Op: "entry", Node: node, Issuer: g.pick(c11Issuers[:3]), Purpose: StatusPurposeRevocation}
		}
		e := g.entries[r.Intn(len(g.entries))]
		c := c11Cred{ID: "did:web:example.com:iam:alice#r" + strconv.Itoa(r.Intn(3)), IssuerDID: "did:web:example.com:iam:alice",
			Statuses: []c11Status{{Type: StatusList2021EntryType, Purpose: "revocation", List: e.list, Idx: strconv.Itoa(e.idx)}}}
		g.pending = append(g.pending,
			c11Op{Op: "serverace", Node: e.list.Node, Issuer: e.list.Issuer, Page: e.list.Page, Idx: strconv.Itoa(e.idx)},
			c11Op{Op: "verify", Node: e.list.Node, Cred: &c},
			c11Op{Op: "verify", Node: 1 - e.list.Node, Cred: &c},
			c11Op{Op: "serve", Node: e.list.Node, Issuer: e.list.Issuer, Page: e.list.Page})
		g.nticks++
		return c11Op{Op: "tick", Secs: []int{71, 72, 72, 72, 96}[r.Intn(5)]*900 + 60}
	case k < 78 && k >= 75 && len(g.entries) > 0 && g.nticks <= 11:
		// hostile sequence: a verifier node caches the list BEFORE the revocation; after the revocation its cache gets older
		// than maxAgeExternal, so a verification refreshes it (revoked); every later verification — from the cache, with the
		// issuer's endpoint down, after another refresh window with the endpoint still down — must answer revoked as well,
		// and the stored row must hold the downloaded bits
		e := g.entries[r.Intn(len(g.entries))]
		l := e.list
		other := 1 - l.Node
		c := c11Cred{ID: "did:web:example.com:iam:alice#p" + strconv.Itoa(r.Intn(3)), IssuerDID: "did:web:example.com:iam:alice",
			Statuses: []c11Status{{Type: StatusList2021EntryType, Purpose: "revocation", List: l, Idx: strconv.Itoa(e.idx)}}}
		g.pending = append(g.pending,
			c11Op{Op: "revoke", Node: l.Node, List: &l, Idx: strconv.Itoa(e.idx), Purpose: StatusPurposeRevocation},
			c11Op{Op: "verify", Node: other, Cred: &c},
			c11Op{Op: "tick", Secs: 960},
			c11Op{Op: "verify", Node: other, Cred: &c},
			c11Op{Op: "verify", Node: other, Cred: &c},
			c11Op{Op: "record", Node: other, List: &l},
			c11Op{Op: "verify", Node: other, Cred: &c, Down: []int{l.Node}},
			c11Op{Op: "tick", Secs: 1860},
			c11Op{Op: "verify", Node: other, Cred: &c, Down: []int{l.Node}},
			c11Op{Op: "verify", Node: other, Cred: &c})
		return c11Op{Op: "verify", Node: other, Cred: &c}
	case k >= 87 && k < 90 && len(g.entries) > 0 && g.nticks <= 12:
		// hostile sequence (every list the node serves is validly signed and not about to expire): a list is served, time passes
		// until it is inside the refresh window or already expired, then it is requested while the signer is unavailable — the
		// re-issue fails and the request must fail with it (not fall back to the stored, (nearly) expired list); then healthy again
		e := g.entries[r.Intn(len(g.entries))]
		sv := func(fail bool) c11Op {
			return c11Op{Op: "serve", Node: e.list.Node, Issuer: e.list.Issuer, Page: e.list.Page, SignFail: fail}
		}
		g.pending = append(g.pending,
			c11Op{Op: "tick", Secs: []int{72, 73, 80, 95, 96, 97, 200}[r.Intn(7)]*900 + 60},
			sv(true), sv(true), sv(false))
		return sv(false)
	case k >= 84 && k < 87:
		// hostile sequence (a status entry is honoured only from the list the credential itself names, and stays honoured):
		// list V (valid, bit j set) is cached by a verification that answers revoked; then ANOTHER url A serves a validly
		// signed list that claims to be V (credentialSubject.id = V) with the bit clear, and a credential naming A is verified
		// (refused: wrong credential); the first credential, verified again within the cache lifetime, must still be revoked
		// and the cached record of V must be unchanged
		vi := r.Intn(len(c11Foreign))
		urlV, urlA := c11Foreign[vi], c11Foreign[(vi+1+r.Intn(len(c11Foreign)-1))%len(c11Foreign)]
		j := r.Intn(6)
		signer := g.pick([]string{"did:web:evil.example", "did:web:example.com:iam:alice"})
		mk := func(url, id string) *c11Cred {
			return &c11Cred{ID: id, IssuerDID: "did:web:example.com:iam:alice",
				Statuses: []c11Status{{Type: StatusList2021EntryType, Purpose: "revocation", List: c11URL{Node: -1, Raw: url}, Idx: strconv.Itoa(j)}}}
		}
		cV, cA := mk(urlV, "did:web:example.com:iam:alice#v"+strconv.Itoa(r.Intn(3))), mk(urlA, "did:web:example.com:iam:alice#a"+strconv.Itoa(r.Intn(3)))
		vn := r.Intn(2)
		g.pending = append(g.pending,
			c11Op{Op: "verify", Node: vn, Cred: cV},
			c11Op{Op: "host", Host: &c11Host{URL: urlA, Kind: "wrongsubject", Subject: c11URL{Node: -1, Raw: urlV}, Signer: signer, ExpIn: 86420, Bits: []int{(j + 1) % 6}}},
			c11Op{Op: "verify", Node: vn, Cred: cA},
			c11Op{Op: "verify", Node: vn, Cred: cV},
			c11Op{Op: "record", Node: vn, List: &c11URL{Node: -1, Raw: urlV}},
			c11Op{Op: "verify", Node: 1 - vn, Cred: cV})
		return c11Op{Op: "host", Host: &c11Host{URL: urlV, Kind: "ok", Signer: signer, ExpIn: 86420, Bits: []int{j}}}
	case k >= 81 && k < 84 && g.nticks <= 12:
		// hostile sequence: an EXTERNAL list (with expirationDate far away, close, or WITHOUT one) is cached by a verification;
		// its issuer then sets the bit; once the cache is older than maxAgeExternal the next verification must ask the host
		// again and answer revoked; a second verification right after (cache hit) as well
		url := g.pick(c11Foreign)
		j := r.Intn(6)
		kind, expin := "noexp", 0
		switch r.Intn(3) {
		case 0:
			kind, expin = "ok", 86420
		case 1:
			kind, expin = "ok", 1820
		}
		mkHost := func(bits []int) c11Op {
			return c11Op{Op: "host", Host: &c11Host{URL: url, Kind: kind, Signer: "did:web:evil.example", ExpIn: expin, Bits: bits}}
		}
		c := c11Cred{ID: "did:web:example.com:iam:alice#x" + strconv.Itoa(r.Intn(3)), IssuerDID: "did:web:example.com:iam:alice",
			Statuses: []c11Status{{Type: StatusList2021EntryType, Purpose: "revocation", List: c11URL{Node: -1, Raw: url}, Idx: strconv.Itoa(j)}}}
		vn := r.Intn(2)
		g.pending = append(g.pending,
			c11Op{Op: "verify", Node: vn, Cred: &c},
			mkHost([]int{(j + 1) % 6, j}),
			c11Op{Op: "verify", Node: vn, Cred: &c},
			c11Op{Op: "tick", Secs: 960},
			c11Op{Op: "verify", Node: vn, Cred: &c},
			c11Op{Op: "verify", Node: vn, Cred: &c},
			c11Op{Op: "record", Node: vn, List: &c11URL{Node: -1, Raw: url}})
		return mkHost([]int{(j + 1) % 6})
	case k >= 78 && k < 81 && len(g.entries) > 1:
		// hostile sequence: one credential with two revocation entries that name DIFFERENT lists of one node, exactly one of
		// them revoked; both orders, on the hosting node and on the other node. Every entry must be judged by the list that
		// entry names.
		e1 := g.entries[r.Intn(len(g.entries))]
		var cand []c11Entry
		for _, e := range g.entries {
			if e.list.Node == e1.list.Node && (e.list.Issuer != e1.list.Issuer || e.list.Page != e1.list.Page) {
				cand = append(cand, e)
			}
		}
		if len(cand) == 0 {
			return c11Op{Op: "entry", Node: e1.list.Node, Issuer: g.pick(c11Issuers[:3]), Purpose: StatusPurposeRevocation}
		}
		e2 := cand[r.Intn(len(cand))]
		st := func(e c11Entry) c11Status {
			return c11Status{Type: StatusList2021EntryType, Purpose: "revocation", List: e.list, Idx: strconv.Itoa(e.idx)}
		}
		mkc := func(a, b c11Entry) *c11Cred {
			return &c11Cred{ID: "did:web:example.com:iam:alice#m" + strconv.Itoa(r.Intn(3)), IssuerDID: "did:web:example.com:iam:alice", Statuses: []c11Status{st(a), st(b)}}
		}
		l1 := e1.list
		n, o := l1.Node, 1-l1.Node
		g.pending = append(g.pending,
			c11Op{Op: "verify", Node: n, Cred: mkc(e1, e2)}, c11Op{Op: "verify", Node: n, Cred: mkc(e2, e1)},
			c11Op{Op: "verify", Node: o, Cred: mkc(e2, e1)}, c11Op{Op: "verify", Node: o, Cred: mkc(e1, e2)})
		return c11Op{Op: "revoke", Node: n, List: &l1, Idx: strconv.Itoa(e1.idx), Purpose: StatusPurposeRevocation}
	case k < 75 && len(g.entries) > 0:
		// hostile sequence: the key store fails while a revocation is being signed into the list; whatever Revoke answers,
		// the lists served afterwards, local verification and a repeated Revoke must agree with that answer
		e := g.entries[r.Intn(len(g.entries))]
		c := c11Cred{ID: "did:web:example.com:iam:alice#s" + strconv.Itoa(r.Intn(3)), IssuerDID: "did:web:example.com:iam:alice",
			Statuses: []c11Status{{Type: StatusList2021EntryType, Purpose: "revocation", List: e.list, Idx: strconv.Itoa(e.idx)}}}
		l := e.list
		g.pending = append(g.pending,
			c11Op{Op: "serve", Node: l.Node, Issuer: l.Issuer, Page: l.Page},
			c11Op{Op: "verify", Node: l.Node, Cred: &c},
			c11Op{Op: "revoke", Node: l.Node, List: &l, Idx: strconv.Itoa(e.idx), Purpose: StatusPurposeRevocation},
			c11Op{Op: "serve", Node: l.Node, Issuer: l.Issuer, Page: l.Page},
			c11Op{Op: "verify", Node: l.Node, Cred: &c})
		return c11Op{Op: "revoke", Node: l.Node, List: &l, Idx: strconv.Itoa(e.idx), Purpose: StatusPurposeRevocation, SignFail: true}
	case k < 75:
		u := g.someList(r.Intn(2))
		if len(g.hosted) > 0 && r.Intn(3) == 0 {
			u = c11URL{Node: -1, Raw: g.pick(g.hosted)}
		}
		return c11Op{Op: "record", Node: r.Intn(2), List: &u}
	case k < 80:
		return g.hostOp()
	default:
		var sts []c11Status
		ns := 1
		if r.Intn(6) == 0 {
			ns = 2 + r.Intn(2)
		}
		for j := 0; j < ns; j++ {
			u, idx := g.someEntry(r.Intn(2))
			st := c11Status{Type: StatusList2021EntryType, Purpose: "revocation", List: u, Idx: idx}
			switch r.Intn(16) {
			case 0:
				st.Type = "OtherStatus"
			case 1:
				st.Purpose = "suspension"
			case 2, 3, 4:
				st.List = c11URL{Node: -1, Raw: g.pick(c11Foreign)}
				if len(g.hosted) > 0 && r.Intn(5) != 0 {
					st.List.Raw = g.pick(g.hosted)
				}
				st.Idx = strconv.Itoa(r.Intn(6))
				if r.Intn(6) == 0 {
					st.Idx = strconv.Itoa(6 + r.Intn(30))
				}
			}
			sts = append(sts, st)
		}
		c := c11Cred{ID: "did:web:example.com:iam:alice#c" + strconv.Itoa(r.Intn(5)), IssuerDID: "did:web:example.com:iam:alice", Statuses: sts}
		if r.Intn(25) == 0 {
			c.NoStatus = true
		}
		return c11Op{Op: "verify", Node: r.Intn(2), Cred: &c}
	}
}

// c11ValidateClass names the check of StatusList2021Entry.Validate that refused the entry
func c11ValidateClass(err error) string {
	switch {
	case err == nil:
		return "ok"
	case strings.Contains(err.Error(), "is the same as"):
		return "err:id-is-list"
	case strings.Contains(err.Error(), "type must be"):
		return "err:type"
	case strings.Contains(err.Error(), "statusPurpose is required"):
		return "err:purpose"
	case strings.Contains(err.Error(), "invalid StatusList2021Entry.statusListIndex"):
		return "err:index"
	case strings.HasPrefix(err.Error(), "parse StatusList2021Entry.statusListCredential URL"):
		return "err:url"
	}
	return "err:other:" + err.Error()
}

var c11IdxStrings = []string{"0", "7", "07", "007", "+7", "-7", "-0", "+0", "", "-", "+", "+-7", "--7", "7-", " 7", "7 ", "\t7", "7\n", "1_0", "_7", "0x10", "0b1", "0o7",
	"1e3", "1.0", "7,0", "\u0667", "\uff17", "\u00b2", "seven", "131071", "131072", "2147483647", "2147483648", "4294967296", "999999999999999999", "1000000000000000000",
	"9223372036854775807", "9223372036854775808", "+9223372036854775807", "-9223372036854775808", "-9223372036854775809", "18446744073709551615", "18446744073709551616",
	"00000000000000000000000007", "+00000000000000000000000007", "-00000000000000000000000007", "99999999999999999999999999", "0000000000000000000", "000000000000000000",
	"7\x00", "\x007", "7a", "a7", "٧7", "7#", "#7", "%37"}
var c11WireURLs = []string{"https://n0.example/statuslist/did:web:example.com:iam:alice/1", "https://lists.example/a", "/statuslist/x/1", "", "*", "lists.example/a", "did:web:x",
	"https://lists.example/a b", "https://lists.example/\x7f", "http://[::1/x", "https://lists.example/%zz", "x", "//lists.example/a", "https://lists.example/a#frag", ":", "1:a"}

// c11WireOp: one Validate/Atoi/Itoa differential case; k < 0: random
func c11WireOp(r *rand.Rand, k int) c11Op {
	op := c11Op{Op: "wire", ID: "https://lists.example/a#7", Type: StatusList2021EntryType, Purpose: StatusPurposeRevocation, Idx: "7", Raw: "https://lists.example/a"}
	if k >= 0 && k < len(c11IdxStrings) {
		op.Idx = c11IdxStrings[k]
	} else {
		switch r.Intn(4) {
		case 0:
			op.Idx = c11IdxStrings[r.Intn(len(c11IdxStrings))]
		case 1: // random decimal of random length (around the fast-path limit of 18 digits and the int64 limit of 19)
			n := 1 + r.Intn(22)
			b := make([]byte, 0, n+1)
			if r.Intn(3) == 0 {
				b = append(b, "+-"[r.Intn(2)])
			}
			for i := 0; i < n; i++ {
				b = append(b, byte('0'+r.Intn(10)))
			}
			op.Idx = string(b)
		case 2: // one foreign byte somewhere in a decimal
			b := []byte(strconv.Itoa(r.Intn(200000)))
			b[r.Intn(len(b))] = " _-+.:/ax"[r.Intn(9)]
			op.Idx = string(b)
		default:
			op.Idx = strconv.Itoa(r.Intn(maxBitstringIndex + 2))
		}
		mut := r.Intn(12)
		if r.Intn(3) == 0 {
			op.Raw = c11WireURLs[r.Intn(len(c11WireURLs))]
			if r.Intn(3) != 0 { // the URL check is the last one: keep the other fields valid so that it decides
				mut = 11
				if r.Intn(2) == 0 {
					op.Idx = strconv.Itoa(r.Intn(maxBitstringIndex + 1))
				}
			}
		}
		switch mut {
		case 0:
			op.ID = op.Raw
		case 1:
			op.ID = ""
		case 2:
			op.Type = []string{"", "statuslist2021entry", "StatusList2021", "StatusList2021Entry ", "BitstringStatusListEntry"}[r.Intn(5)]
		case 3:
			op.Purpose = []string{"", "suspension", " ", "Revocation"}[r.Intn(4)]
		case 4: // several checks fail at once: the first one in source order names the error
			op.ID, op.Type, op.Purpose, op.Idx = op.Raw, "x", "", "-1"
		case 5:
			op.Type, op.Purpose = "x", ""
		case 6:
			op.Purpose, op.Idx = "", "abc"
		case 7:
			op.Idx, op.Raw = "-1", ""
			op.ID = "y"
		}
	}
	_, err := url.ParseRequestURI(op.Raw)
	op.UrlOK = err == nil
	switch r.Intn(6) {
	case 0:
		op.N = []int64{0, -1, 1, 9, 10, 99, 100, 131071, 131072, math.MaxInt64, math.MinInt64, math.MaxInt32, math.MinInt32, -10, -9}[r.Intn(15)]
	case 1:
		op.N = r.Int63() - r.Int63()
	case 2:
		op.N = int64(math.Pow10(r.Intn(19))) - int64(r.Intn(2))
	default:
		op.N = int64(r.Intn(maxBitstringIndex + 2))
	}
	return op
}

func c11BitsOp(r *rand.Rand) c11Op {
	n := []int{0, 1, 2, 3, 16, defaultBitstringLengthInBytes, defaultBitstringLengthInBytes + 1, 2 * defaultBitstringLengthInBytes, 4 * defaultBitstringLengthInBytes}[r.Intn(9)]
	var sets []c11BitOp
	var gets []int
	idx := func() int {
		switch r.Intn(8) {
		case 0:
			return -1 - r.Intn(20)
		case 1:
			return n*8 + r.Intn(10)
		case 2:
			return n*8 - 1 - r.Intn(3)
		}
		if n == 0 {
			return r.Intn(8)
		}
		return r.Intn(n * 8)
	}
	for j := 0; j < 1+r.Intn(24); j++ {
		sets = append(sets, c11BitOp{I: idx(), V: r.Intn(5) != 0})
	}
	for j := 0; j < 24; j++ {
		gets = append(gets, idx())
	}
	for _, s := range sets {
		gets = append(gets, s.I)
	}
	return c11Op{Op: "bits", Len: n, Sets: sets, Gets: gets}
}

// ---------- test entry point

func TestVerifC11(t *testing.T) {
	outDir := os.Getenv("VERIF_OUT")
	if outDir == "" {
		t.Skip("VERIF_OUT not set")
	}
	logrus.SetLevel(logrus.PanicLevel)
	seed, _ := strconv.ParseInt(os.Getenv("VERIF_SEED"), 10, 64)
	nScen, _ := strconv.Atoi(os.Getenv("VERIF_SCENARIOS"))
	if nScen == 0 {
		nScen = 40
	}
	w := c11NewWorld(t)
	w.reset(c11Issuers)
	fo, err := os.Create(filepath.Join(outDir, "ops.jsonl"))
	if err != nil {
		t.Fatal(err)
	}
	defer fo.Close()
	fi, err := os.Create(filepath.Join(outDir, "impl.out"))
	if err != nil {
		t.Fatal(err)
	}
	defer fi.Close()
	bo, bi := bufio.NewWriter(fo), bufio.NewWriter(fi)
	defer bo.Flush()
	defer bi.Flush()
	run := func(op c11Op) string {
		line := w.exec(op)
		js, _ := json.Marshal(op)
		bo.Write(js)
		bo.WriteByte('\n')
		bi.WriteString(line)
		bi.WriteByte('\n')
		return line
	}
	readOps := func(path string) {
		f, err := os.Open(path)
		if err != nil {
			t.Fatal(err)
		}
		defer f.Close()
		sc := bufio.NewScanner(f)
		sc.Buffer(make([]byte, 1<<20), 1<<26)
		for sc.Scan() {
			var op c11Op
			if json.Unmarshal(sc.Bytes(), &op) == nil && op.Op != "" {
				run(op)
			}
		}
	}
	if rp := os.Getenv("VERIF_REPLAY"); rp != "" {
		readOps(rp)
		return
	}
	if cd := os.Getenv("VERIF_CORPUS"); cd != "" {
		files, _ := filepath.Glob(filepath.Join(cd, "r*.jsonl"))
		sort.Strings(files)
		for _, fn := range files {
			readOps(fn)
		}
	}
	rng := rand.New(rand.NewSource(seed*7919 + 11))
	// exhaustive small bitstring differential: every index of a 2-byte string, set then read all
	for i := -1; i <= 17; i++ {
		var gets []int
		for j := -1; j <= 17; j++ {
			gets = append(gets, j)
		}
		run(c11Op{Op: "bits", Len: 2, Sets: []c11BitOp{{I: i, V: true}}, Gets: gets})
		run(c11Op{Op: "bits", Len: 2, Sets: []c11BitOp{{I: 3, V: true}, {I: i, V: true}, {I: i, V: false}}, Gets: gets})
	}
	// lengths beyond the 16 kB minimum (round trip through compress/expand; last bit, first bit beyond the minimum size)
	for _, n := range []int{defaultBitstringLengthInBytes + 1, 2 * defaultBitstringLengthInBytes, 4 * defaultBitstringLengthInBytes} {
		idx := []int{0, maxBitstringIndex, maxBitstringIndex + 1, n*8 - 1, n * 8}
		var sets []c11BitOp
		for _, i := range idx {
			sets = append(sets, c11BitOp{I: i, V: true})
		}
		run(c11Op{Op: "bits", Len: n, Sets: sets, Gets: idx})
	}
	for i := 0; i < 40; i++ {
		run(c11BitsOp(rng))
	}
	// statusListURL rendering: every base the harness uses x issuers (incl. a did:web with an escaped port) x pages
	urlIssuers := append(append([]string{}, c11Issuers...), "did:web:localhost%3A8080:iam:x", "did:web:example.com:iam:alice:1", "did:nuts:AAAAAAAAAAAAAAAAAAAAAAAAAAAAAAAAAAAAAAAAAAAA", "did:web:a")
	for _, b := range append(append([]string{}, c11Bases...), c11AltBases...) {
		for _, is := range urlIssuers {
			for _, pg := range []int{0, 1, 2, 9, 10, 11, 12, 99, 100, 1 + rng.Intn(100000)} {
				run(c11Op{Op: "url", Raw: b, Issuer: is, Page: pg})
			}
		}
	}
	// wire layer: every hostile index string on an otherwise valid entry, then random entries
	for k := range c11IdxStrings {
		run(c11WireOp(rng, k))
	}
	for i := 0; i < 3*nScen/2; i++ {
		run(c11WireOp(rng, -1))
	}
	g := &c11Gen{rng: rng}
	for sc := 0; sc < nScen; sc++ {
		g.sc = sc
		reset := c11Op{Op: "reset", Sc: sc, Dids: c11Issuers}
		g.observe(reset, run(reset))
		steps := 12 + rng.Intn(34)
		start := time.Now()
		for i := 0; i < steps && time.Since(start) < 20*time.Second; i++ {
			op := g.next()
			op.Sc = sc
			g.observe(op, run(op))
		}
	}
}
