//go:build verif

package proof

// C17 harness for JSON-LD proof signatures: LDProof.Verify (in-package). A document is signed with the real
// LDProof.Sign (in-memory key store), then the detached JWS of the proof, the document, the proof options and the key
// handed to Verify are varied. Injected with `go test -overlay`; nothing is written into /repo.

import (
	"bufio"
	"crypto"
	"crypto/ecdsa"
	"crypto/ed25519"
	"crypto/elliptic"
	"crypto/hmac"
	crand "crypto/rand"
	"crypto/sha256"
	"crypto/x509"
	"encoding/base64"
	"encoding/json"
	"crypto/rsa"
	"encoding/hex"
	"fmt"
	"os"
	"path/filepath"
	"strconv"
	"strings"
	"testing"
	"time"

	"github.com/lestrrat-go/jwx/v2/jwa"
	"github.com/lestrrat-go/jwx/v2/jws"
	"github.com/nuts-foundation/nuts-node/audit"
	nutsCrypto "github.com/nuts-foundation/nuts-node/crypto"
	"github.com/nuts-foundation/nuts-node/jsonld"
	"github.com/nuts-foundation/nuts-node/vcr/signature"
)

type vLdOp struct {
	Op    string                 `json:"op"`
	C     string                 `json:"c"`
	Name  string                 `json:"name"`
	SAlg  string                 `json:"signedalg,omitempty"`
	Class string                 `json:"class"`
	HAlg  string                 `json:"halg"`
	By    string                 `json:"by"`
	V     map[string]interface{} `json:"v"`
}

func TestVerifC17LdProof(t *testing.T) {
	outDir := os.Getenv("VERIF_OUT")
	if outDir == "" {
		t.Skip("VERIF_OUT not set")
	}
	only := map[string]bool{}
	if p := os.Getenv("VERIF_REPLAY"); p != "" {
		b, _ := os.ReadFile(p)
		for _, line := range strings.Split(string(b), "\n") {
			var m struct{ C, Name string }
			if json.Unmarshal([]byte(line), &m) == nil && m.Name != "" {
				only[m.C+"|"+m.Name] = true
			}
		}
	}
	opsF, _ := os.Create(filepath.Join(outDir, "ops.jsonl"))
	implF, _ := os.Create(filepath.Join(outDir, "impl.out"))
	ops, impl := bufio.NewWriterSize(opsF, 1<<20), bufio.NewWriterSize(implF, 1<<20)
	defer func() { ops.Flush(); impl.Flush(); opsF.Close(); implF.Close() }()
	n := 0

	contextLoader := jsonld.NewTestJSONLDManager(t).DocumentLoader()
	suite := signature.JSONWebSignature2020{ContextLoader: contextLoader}
	enc := base64.RawURLEncoding
	rounds := 1
	if os.Getenv("VERIF_TIER") == "thorough" {
		rounds = 4
	}
	rsaKey, _ := rsa.GenerateKey(crand.Reader, 2048)
	for round := 0; round < rounds; round++ {
		cryptoInstance := nutsCrypto.NewMemoryCryptoInstance(t)
		kid := "did:nuts:issuer" + strconv.Itoa(round) + "#key-1"
		_, key, err := cryptoInstance.New(audit.TestContext(), nutsCrypto.StringNamingFunc(kid))
		if err != nil {
			t.Fatal(err)
		}
		otherEC, _ := ecdsa.GenerateKey(elliptic.P256(), crand.Reader)
		otherEd, _, _ := ed25519.GenerateKey(crand.Reader)
		document := map[string]interface{}{
			"@context": []interface{}{map[string]interface{}{"title": "http://schema.org#title", "body": "http://schema.org#body"}},
			"title":    "Hello world!", "body": "round " + strconv.Itoa(round),
		}
		now := time.Now()
		ldProof := NewLDProof(ProofOptions{Created: now, ProofPurpose: "assertionMethod"})
		signSuite := signature.JSONWebSignature2020{ContextLoader: contextLoader, Signer: cryptoInstance}
		result, err := ldProof.Sign(audit.TestContext(), document, signSuite, kid)
		if err != nil {
			t.Fatal(err)
		}
		signed := result.(SignedDocument)
		valid := LDProof{}
		if err := signed.UnmarshalProofValue(&valid); err != nil {
			t.Fatal(err)
		}
		docNoProof := signed.DocumentWithoutProof()
		parts := strings.Split(valid.JWS, "..")
		hdrOf := func(m map[string]interface{}) string { b, _ := json.Marshal(m); return enc.EncodeToString(b) }
		pubDER, _ := x509.MarshalPKIXPublicKey(key)
		hm := func(hdr string) string { // an HMAC with public material over header + "." + (unknown digest: the attacker can compute it)
			mac := hmac.New(sha256.New, pubDER)
			mac.Write([]byte(hdr + "."))
			return enc.EncodeToString(mac.Sum(nil))
		}
		flip := func(s string, i int) string {
			b := []byte(s)
			if b[i] == 'A' {
				b[i] = 'B'
			} else {
				b[i] = 'A'
			}
			return string(b)
		}

		type variant struct {
			name, class, by string
			proof           LDProof
			doc             Document
			key             crypto.PublicKey
		}
		with := func(jwsValue string) LDProof { p := valid; p.JWS = jwsValue; return p }
		vs := []variant{
			{"valid", "valid", "signer", valid, docNoProof, key},
			{"hdr-alg-none", "tampered", "nobody", with(hdrOf(map[string]interface{}{"alg": "none", "b64": false, "crit": []string{"b64"}}) + ".." + parts[1]), docNoProof, key},
			{"hdr-alg-none-empty-sig", "alg-none", "nobody", with(hdrOf(map[string]interface{}{"alg": "none", "b64": false, "crit": []string{"b64"}}) + ".."), docNoProof, key},
			{"hdr-alg-hs256-hmac-pub", "alg-hmac", "nobody", func() LDProof {
				h := hdrOf(map[string]interface{}{"alg": "HS256", "b64": false, "crit": []string{"b64"}})
				return with(h + ".." + hm(h))
			}(), docNoProof, key},
			{"hdr-alg-es384-keep-sig", "tampered", "nobody", with(hdrOf(map[string]interface{}{"alg": "ES384", "b64": false, "crit": []string{"b64"}}) + ".." + parts[1]), docNoProof, key},
			{"hdr-json-spacing", "tampered", "nobody", with(enc.EncodeToString([]byte(`{ "alg":"ES256","b64":false,"crit":["b64"] }`)) + ".." + parts[1]), docNoProof, key},
			{"hdr-empty", "tampered", "nobody", with(".." + parts[1]), docNoProof, key},
			{"sig-flipped", "tampered", "nobody", with(parts[0] + ".." + flip(parts[1], len(parts[1])/2)), docNoProof, key},
			{"sig-truncated", "truncated", "nobody", with(parts[0] + ".." + parts[1][:len(parts[1])/2]), docNoProof, key},
			{"sig-empty", "truncated", "nobody", with(parts[0] + ".."), docNoProof, key},
			{"sig-not-base64", "tampered", "nobody", with(parts[0] + "..!!!" + parts[1]), docNoProof, key},
			{"sig-padded", "reencoded", "signer", with(parts[0] + ".." + parts[1] + "=="), docNoProof, key},
			{"jws-single-dot", "tampered", "nobody", with(parts[0] + "." + parts[1]), docNoProof, key},
			{"jws-attached-payload", "tampered", "nobody", with(parts[0] + ".e30." + parts[1]), docNoProof, key},
			{"jws-three-parts", "tampered", "nobody", with(parts[0] + ".." + parts[1] + ".." + parts[1]), docNoProof, key},
			{"jws-three-dots", "tampered", "nobody", with(parts[0] + "..." + parts[1]), docNoProof, key},
			{"jws-four-dots", "tampered", "nobody", with(parts[0] + "...." + parts[1]), docNoProof, key},
			{"jws-sig-then-dots", "tampered", "nobody", with(parts[0] + ".." + parts[1] + ".."), docNoProof, key},
			{"jws-only-dots", "truncated", "nobody", with(".."), docNoProof, key},
			{"sig-lf-inside", "reencoded", "signer", with(parts[0] + ".." + parts[1][:10] + "\n" + parts[1][10:]), docNoProof, key},
			{"sig-crlf-end", "reencoded", "signer", with(parts[0] + ".." + parts[1] + "\r\n"), docNoProof, key},
			{"sig-space-inside", "tampered", "nobody", with(parts[0] + ".." + parts[1][:10] + " " + parts[1][10:]), docNoProof, key},
			{"sig-std-alphabet", "tampered", "nobody", with(parts[0] + ".." + strings.NewReplacer("-", "+", "_", "/").Replace(parts[1]) + "+"), docNoProof, key},
			{"sig-one-extra-char", "tampered", "nobody", with(parts[0] + ".." + parts[1] + "A"), docNoProof, key},
			{"sig-dropped-char", "truncated", "nobody", with(parts[0] + ".." + parts[1][:len(parts[1])-1]), docNoProof, key},
			{"jws-empty", "truncated", "nobody", with(""), docNoProof, key},
			{"key-other-ec", "forged", "nobody", valid, docNoProof, &otherEC.PublicKey},
			{"key-other-ed25519", "forged", "nobody", valid, docNoProof, otherEd},
			{"key-nil", "forged", "nobody", valid, docNoProof, nil},
			{"key-ed25519-31-bytes", "forged", "nobody", valid, docNoProof, ed25519.PublicKey(otherEd[:31])},
			{"key-ed25519-empty", "forged", "nobody", valid, docNoProof, ed25519.PublicKey{}},
			{"key-is-hmac-bytes", "forged", "nobody", valid, docNoProof, pubDER},
			{"doc-altered", "tampered", "nobody", valid, func() Document {
				d := map[string]interface{}{}
				b, _ := json.Marshal(docNoProof)
				_ = json.Unmarshal(b, &d)
				d["title"] = "Hello world?"
				return d
			}(), key},
			{"doc-extra-undefined-member", "undefined-member", "signer", valid, func() Document {
				d := map[string]interface{}{}
				b, _ := json.Marshal(docNoProof)
				_ = json.Unmarshal(b, &d)
				d["notInContext"] = "ignored by canonicalisation"
				return d
			}(), key},
			{"proof-created-altered", "tampered", "nobody", func() LDProof { p := valid; p.Created = now.Add(time.Second); return p }(), docNoProof, key},
			{"proof-purpose-altered", "tampered", "nobody", func() LDProof { p := valid; p.ProofPurpose = "authentication"; return p }(), docNoProof, key},
			{"proof-nonce-added", "tampered", "nobody", func() LDProof { p := valid; s := "n"; p.Nonce = &s; return p }(), docNoProof, key},
		}
		// wave 9: an issuer whose DID document lists an RSA key. Hand-built detached JWS proofs over the SAME document and proof options:
		// header alg X, signature REALLY made with X by the RSA key holder. PS256 (what the key determines) is the control; RS256/384/512
		// (RSASSA-PKCS1-v1_5, on no allow-list) and PS384/PS512 (not what the key determines) must be refused.
		signedAlg := map[string]string{}
		if rsaKey != nil {
			canonDoc, e1 := suite.CanonicalizeDocument(docNoProof)
			prep, e2 := valid.asCanonicalizableMap()
			if e1 == nil && e2 == nil {
				if canonProof, e3 := suite.CanonicalizeDocument(prep); e3 == nil {
					tbv := append(suite.CalculateDigest(canonProof), suite.CalculateDigest(canonDoc)...)
					for _, a := range []jwa.SignatureAlgorithm{jwa.PS256, jwa.RS256, jwa.RS384, jwa.RS512, jwa.PS384, jwa.PS512} {
						signer, err := jws.NewSigner(a)
						if err != nil {
							t.Fatal(err)
						}
						hdr := hdrOf(map[string]interface{}{"alg": a.String(), "b64": false, "crit": []string{"b64"}})
						sig, err := signer.Sign([]byte(fmt.Sprintf("%s.%s", hdr, tbv)), rsaKey)
						if err != nil {
							t.Fatal(err)
						}
						class := "alg-not-allowed"
						if a == jwa.PS256 {
							class = "valid"
						}
						nm := "rsa-issuer-signed-" + strings.ToLower(a.String())
						signedAlg[nm] = a.String()
						vs = append(vs, variant{nm, class, "signer", with(hdr + ".." + enc.EncodeToString(sig)), docNoProof, &rsaKey.PublicKey})
					}
					// the same with a header that states no algorithm at all, signed PS256 / RS256
					for _, a := range []jwa.SignatureAlgorithm{jwa.PS256, jwa.RS256} {
						signer, _ := jws.NewSigner(a)
						hdr := hdrOf(map[string]interface{}{"b64": false, "crit": []string{"b64"}})
						sig, _ := signer.Sign([]byte(fmt.Sprintf("%s.%s", hdr, tbv)), rsaKey)
						class := "alg-not-allowed"
						if a == jwa.PS256 {
							class = "valid"
						}
						nm := "rsa-issuer-no-hdr-alg-signed-" + strings.ToLower(a.String())
						signedAlg[nm] = a.String()
						vs = append(vs, variant{nm, class, "signer", with(hdr + ".." + enc.EncodeToString(sig)), docNoProof, &rsaKey.PublicKey})
					}
				}
			}
		}
		for _, v := range vs {
			name := "r" + strconv.Itoa(round) + "-" + v.name
			if len(only) > 0 && !only["ldproof|"+name] {
				continue
			}
			// verdicts of the libraries, computed the way Verify feeds them
			verd := map[string]interface{}{}
			canonDoc, err1 := suite.CanonicalizeDocument(v.doc)
			prepared, err2 := v.proof.asCanonicalizableMap()
			var canonProof []byte
			var err3 error
			if err2 == nil {
				canonProof, err3 = suite.CanonicalizeDocument(prepared)
			}
			verd["canon"] = err1 == nil && err2 == nil && err3 == nil
			alg, aerr := nutsCrypto.SignatureAlgorithm(v.key)
			verd["fits"] = true // the algorithm is derived from the key: it fits unless the key is malformed (Ed25519 key of the wrong length)
			if ek, ok := v.key.(ed25519.PublicKey); ok && len(ek) != ed25519.PublicKeySize {
				verd["fits"] = false
			}
			verd["keyalg"] = ""
			if aerr == nil {
				verd["keyalg"] = string(alg)
			}
			// the model computes parts / signature decoding / derived algorithm itself from these
			verd["jwshex"] = hex.EncodeToString([]byte(v.proof.JWS))
			switch k := v.key.(type) {
			case nil:
				verd["keykind"] = "nil"
			case *ecdsa.PublicKey:
				verd["keykind"], verd["keybits"] = "ecdsa", k.Params().BitSize
			case ed25519.PublicKey:
				verd["keykind"] = "ed25519"
			case *rsa.PublicKey:
				verd["keykind"] = "rsa"
			default:
				verd["keykind"] = "other"
			}
			sp := strings.Split(v.proof.JWS, "..")
			verd["parts"] = len(sp)
			if len(sp) == 2 {
				sig, derr := enc.DecodeString(sp[1])
				verd["sigdecodes"] = derr == nil
				if derr == nil && aerr == nil && verd["canon"] == true && verd["fits"] == true { // crypto/ed25519 panics on a malformed key
					tbv := append(suite.CalculateDigest(canonProof), suite.CalculateDigest(canonDoc)...)
					if ver, err := jws.NewVerifier(alg); err == nil {
						verd["verified"] = ver.Verify([]byte(fmt.Sprintf("%s.%s", sp[0], tbv)), sig, v.key) == nil
					}
				}
			}
			halg := ""
			if hb, err := enc.DecodeString(sp[0]); err == nil {
				var h map[string]interface{}
				if json.Unmarshal(hb, &h) == nil {
					halg, _ = h["alg"].(string)
				}
			}
			res := "reject"
			func() {
				defer func() {
					if p := recover(); p != nil {
						res = "panic"
					}
				}()
				if err := v.proof.Verify(v.doc, suite, v.key); err == nil {
					res = "accept"
				}
			}()
			b, _ := json.Marshal(vLdOp{Op: "consume", C: "ldproof", Name: name, SAlg: signedAlg[v.name], Class: v.class, HAlg: halg, By: v.by, V: verd})
			ops.Write(b)
			ops.WriteByte('\n')
			impl.WriteString(res + "\n")
			n++
		}
	}
	if n == 0 {
		t.Fatal("nothing generated")
	}
}
