//go:build verif

package pe

// C12 leg `envjson`: the routing layer of util.go — Envelope.UnmarshalJSON / ParseEnvelope / tryParseJSONArray /
// parseJSONArrayEnvelope / parseJSONObjectOrStringEnvelope / Envelope.MarshalJSON — on generated envelope texts.
// The op carries what encoding/json, go-did and jwx say about every byte string involved (computed here by calling
// the libraries directly, not through util.go); the Lean model combines those verdicts the way util.go does.

import (
	"encoding/json"
	"math/rand"
	"reflect"
	"strconv"
	"strings"

	"github.com/lestrrat-go/jwx/v2/jwt"
	"github.com/nuts-foundation/go-did/vc"
)

type zSingleText struct {
	VP   string `json:"vp"`   // bad | jwt | jwt-unparsable | ld
	JSON bool   `json:"json"` // json.Unmarshal succeeds
}

type zArrEntry struct {
	IsString     bool        `json:"isString"`
	AsString     zSingleText `json:"asString"`
	AsMarshalled zSingleText `json:"asMarshalled"`
}

type zEnvBytes struct {
	First   string      `json:"first"` // first byte ("" = empty)
	Top     string      `json:"top"`   // invalid | array | other
	VP      string      `json:"vp"`
	Entries []zArrEntry `json:"entries"`
}

func zVPVerdict(s string) (v string) {
	defer func() {
		if recover() != nil {
			v = "bad"
		}
	}()
	p, err := vc.ParseVerifiablePresentation(s)
	if err != nil || p == nil {
		return "bad"
	}
	if p.Format() == vc.JWTPresentationProofFormat {
		if _, err := jwt.Parse([]byte(s), jwt.WithVerify(false), jwt.WithValidate(false)); err != nil {
			return "jwt-unparsable"
		}
		return "jwt"
	}
	return "ld"
}

func zSingleVerdict(s string) zSingleText {
	var x interface{}
	return zSingleText{VP: zVPVerdict(s), JSON: json.Unmarshal([]byte(s), &x) == nil}
}

func zEnvBytesOf(s string) zEnvBytes {
	b := zEnvBytes{Top: "other", VP: zVPVerdict(s), Entries: []zArrEntry{}}
	if len(s) > 0 {
		b.First = s[:1]
	}
	var x interface{}
	if json.Unmarshal([]byte(s), &x) != nil {
		b.Top = "invalid"
		return b
	}
	if arr, ok := x.([]interface{}); ok {
		b.Top = "array"
		for _, e := range arr {
			en := zArrEntry{}
			if str, isStr := e.(string); isStr {
				en.IsString = true
				en.AsString = zSingleVerdict(str)
			}
			m, _ := json.Marshal(e)
			en.AsMarshalled = zSingleVerdict(string(m))
			b.Entries = append(b.Entries, en)
		}
	}
	return b
}

func zShapeOf(e *Envelope) string {
	// array iff asInterface is a slice (parseJSONArrayEnvelope), single iff it is anything else
	if _, isArr := e.asInterface.([]interface{}); isArr {
		return "array:" + strconv.Itoa(len(e.Presentations))
	}
	if len(e.Presentations) != 1 {
		return "single-with-" + strconv.Itoa(len(e.Presentations))
	}
	return "single"
}

func (r *zRun) opEnvJSON(text string) {
	op := zOp{Op: "envjson", EnvText: text}
	var outer interface{}
	inner := text
	if json.Unmarshal([]byte(text), &outer) != nil {
		op.Outer = "invalid"
	} else if s, isStr := outer.(string); isStr {
		op.Outer = "str"
		inner = s
	} else {
		op.Outer = "other"
	}
	eb := zEnvBytesOf(inner)
	op.EnvBytes = &eb
	line := func() (line string) {
		defer func() {
			if p := recover(); p != nil {
				line = "envjson panic"
			}
		}()
		var e Envelope
		if err := e.UnmarshalJSON([]byte(text)); err != nil {
			return "envjson err marshal=none again=none"
		}
		line = "envjson ok " + zShapeOf(&e)
		if string(e.raw) != inner {
			line += " raw-differs"
		}
		var out []byte
		form := func() (form string) {
			defer func() {
				if recover() != nil {
					form = "panic"
				}
			}()
			var err error
			out, err = e.MarshalJSON()
			if err != nil {
				return "err"
			}
			if string(out) == string(e.raw) {
				return "asis"
			}
			var back interface{}
			if json.Unmarshal(out, &back) == nil {
				if s, ok := back.(string); ok && s == string(e.raw) {
					return "quoted"
				}
			}
			return "other"
		}()
		line += " marshal=" + form
		if out == nil {
			return line + " again=none"
		}
		var e2 Envelope
		if err := e2.UnmarshalJSON(out); err != nil {
			return line + " again=err"
		}
		if string(e2.raw) == string(e.raw) && reflect.DeepEqual(e2.asInterface, e.asInterface) && len(e2.Presentations) == len(e.Presentations) && zShapeOf(&e2) == zShapeOf(&e) {
			return line + " again=same"
		}
		return line + " again=differs"
	}()
	r.stats["envjson"]++
	r.emit(op, line)
}

// envJSONCase: envelope texts of every routing class — LD object, JWT string, arrays (mixed, with junk, empty, nested),
// the same wrapped in a JSON string, leading whitespace, scalars, null, truncated texts
func (r *zRun) envJSONCase(rng *rand.Rand) {
	creds := []vc.VerifiableCredential{}
	for i := 0; i < 1+rng.Intn(2); i++ {
		if c, err := vc.ParseVerifiableCredential(zGenCred(rng, i).Src); err == nil {
			creds = append(creds, *c)
		}
	}
	q := func(s string) string { b, _ := json.Marshal(s); return string(b) }
	ld := zMakeVP(false, creds, true, rng.Intn(1000))
	jw := zMakeVP(true, creds, true, rng.Intn(1000))
	n := rng.Intn(4)
	vps := []string{}
	for i := 0; i < n; i++ {
		vps = append(vps, zMakeVP(rng.Intn(2) == 0, creds, true, rng.Intn(1000)))
	}
	arr := zEnvelopeText(vps, true)
	junk := []string{"null", "7", "true", `""`, "{}", `"x.y.z"`, "[" + ld + "]", `{"a":1}`}
	parts := []string{}
	for i := 0; i <= n; i++ {
		if i == rng.Intn(n+1) {
			parts = append(parts, junk[rng.Intn(len(junk))])
		}
		if i < n {
			if strings.HasPrefix(vps[i], "{") {
				parts = append(parts, vps[i])
			} else {
				parts = append(parts, q(vps[i]))
			}
		}
	}
	arrJunk := "[" + strings.Join(parts, ",") + "]"
	texts := []string{ld, q(jw), arr, q(arr), q(ld), jw, arrJunk, q(arrJunk), "[]", q("[]"), " " + ld, "\n" + arr, q(" " + ld), q(" " + arr),
		"null", "7", `""`, `" "`, "{}", q("{}"), q(q(jw)), "[" + arr + "]", ld[:len(ld)/2], q(ld[:len(ld)/2]), q("[" + q(jw)), arr[:len(arr)-1], "", q(jw) + " ", "[" + q(jw) + "," + q(jw) + "]"}
	// every class is visited in turn; two further texts are drawn at random
	r.opEnvJSON(texts[r.stats["envjson-case"]%len(texts)])
	r.opEnvJSON(texts[rng.Intn(len(texts))])
	r.opEnvJSON(texts[rng.Intn(len(texts))])
	r.stats["envjson-case"]++
}
