//go:build verif

package pe

// C12 correspondence harness (injected with `go test -overlay`; never lives in /repo).
// Generates schema-directed presentation definitions x wallets x submissions, runs the REAL vcr/pe code
// (ParsePresentationDefinition, Match, Build, ParseEnvelope, Validate, ResolveConstraintsFields) and writes
//   ops.jsonl — one JSON op per line for the Lean model (plus the raw inputs, so that a line can be replayed)
//   impl.out  — one canonical line per op.
// Third-party behaviour the model takes as data: go-did (credential views, Raw, json.Marshal identity,
// decoding of envelope values), regexp2 results, and JSONPath restricted to the generated subset.

import (
	"bufio"
	"encoding/base64"
	"encoding/json"
	"errors"
	"fmt"
	"math/rand"
	"os"
	"path/filepath"
	"runtime/debug"
	"sort"
	"strconv"
	"strings"
	"testing"
	"time"

	"github.com/dlclark/regexp2"
	"github.com/lestrrat-go/jwx/v2/jws"
	ssi "github.com/nuts-foundation/go-did"
	"github.com/nuts-foundation/go-did/did"
	"github.com/nuts-foundation/go-did/vc"
	"github.com/nuts-foundation/nuts-node/vcr/credential"
)

// ---------- ops

type zCredSrc struct {
	Src    string `json:"src"`              // JSON-LD text or compact JWT
	Holder bool   `json:"holder,omitempty"` // strip format/raw (in-memory "holder credential")
}

type zCred struct { // derived view for the model
	Name       string      `json:"name"`
	Fmt        string      `json:"fmt"`
	Key        string      `json:"key"`
	Raw        string      `json:"raw"`
	Tree       interface{} `json:"tree"`
	ProofTypes []string    `json:"proofTypes"`
	NProof     int         `json:"nproof"`
	Alg        string      `json:"alg"`
	SigEmpty   bool        `json:"sigEmpty"`
	SelEmpty   bool        `json:"selEmpty"`
}

type zMapping struct {
	Id     string    `json:"id"`
	Fmt    string    `json:"fmt"`
	Path   string    `json:"path"`
	Nested *zMapping `json:"nested,omitempty"`
}

type zDecode struct { // go-did contract: a value found in the envelope (or in a decoded presentation), decoded with a format
	Root int           `json:"root"`           // 0 = Envelope.asInterface, k>0 = the map view of the k-th decoded value that has one
	At   []interface{} `json:"at"`             // object keys / array indexes from the root to the value
	Fmt  string        `json:"fmt"`
	Kind string        `json:"kind"`           // "vc" | "vp"   (values that do not decode are not listed)
	Cred string        `json:"cred,omitempty"` // kind vc: name of the decoded credential
	Raw  string        `json:"raw,omitempty"`  // kind vc: digest of Raw()
	Map  int           `json:"map,omitempty"`  // index (>0) into Maps of the json.Marshal->map view, 0 = none (marshals to a string)
}

type zPresCred struct {
	Ref  string `json:"ref,omitempty"`  // same view as this credential of the case, except Raw
	Raw  string `json:"raw,omitempty"`
	Full *zCred `json:"full,omitempty"` // a view that differs from the case's credentials
}

type zOp struct {
	Op string `json:"op"`
	N  int    `json:"n"`
	// case
	DefRaw string          `json:"defRaw,omitempty"`
	Srcs   []zCredSrc      `json:"srcs,omitempty"`
	Def    interface{}     `json:"def,omitempty"`
	Creds  []zCred         `json:"creds,omitempty"`
	Re     [][]string      `json:"re,omitempty"` // [pattern, input, kind, value]
	// match / build / validate
	Wallet  []int      `json:"wallet,omitempty"`
	Wallets [][]int    `json:"wallets,omitempty"`
	EnvRaw  string     `json:"envRaw,omitempty"` // validate: envelope text (replay)
	Env     interface{} `json:"env,omitempty"`   // Envelope.asInterface
	Pres    [][]zPresCred `json:"pres,omitempty"` // per presentation: its credentials as parsed from the envelope
	Maps    []interface{} `json:"maps,omitempty"` // map views of decoded values (index 0 unused)
	EnvErr  bool       `json:"envErr,omitempty"` // ParseEnvelope failed
	Entries []string   `json:"entries,omitempty"` // array envelopes: per presented entry "vp" | "junk" (go-did's verdict on that entry alone)
	Signer  []bool     `json:"signer,omitempty"` // per presentation: PresentationSigner succeeded
	Sub     []zMapping `json:"sub,omitempty"`    // descriptor_map of the submission under test
	Decode  []zDecode  `json:"decode,omitempty"`
	Mut     string     `json:"mut,omitempty"`    // which mutation produced the submission (statistics only)
	// vpformat: keys of the verifier's vp_formats metadata handed to ChooseVPFormat
	Supported []string `json:"supported,omitempty"`
	// envjson (zz_verif_c12_envjson_test.go): the text handed to Envelope.UnmarshalJSON, its JSON class, and the libraries' verdicts on the bytes ParseEnvelope receives
	EnvText  string     `json:"envText,omitempty"`
	Outer    string     `json:"outer,omitempty"`
	EnvBytes *zEnvBytes `json:"envBytes,omitempty"`
	// nildef: a definition unmarshalled WITHOUT schema validation (null entries become nil pointers)
	NilRaw string      `json:"nilRaw,omitempty"` // JSON text (replay)
	RawDef interface{} `json:"rawDef,omitempty"` // for the model: descs / srs with nulls, nestedNull
	// fields
	CredMap [][]interface{} `json:"credMap,omitempty"` // [descriptor id, credential index] in the order given to the model
}

// ---------- canonicalisation helpers

func zDigest(s string) string {
	// short stable identity of a long string (FNV-1a 64), readable in diffs
	var h uint64 = 14695981039346656037
	for i := 0; i < len(s); i++ {
		h ^= uint64(s[i])
		h *= 1099511628211
	}
	return fmt.Sprintf("%016x", h)
}

func zErrClass(err error) string {
	if err == nil {
		return "ok"
	}
	m := err.Error()
	switch {
	case errors.Is(err, ErrNoCredentials):
		return "nocred"
	case errors.Is(err, ErrUnsupportedFilter):
		return "unsupported"
	case strings.Contains(m, "is required but not available"):
		return "group"
	case strings.Contains(m, "contains both 'from' and 'from_nested'"):
		return "sr-both"
	case strings.Contains(m, "is missing 'from' or 'from_nested'"):
		return "sr-missing"
	case strings.Contains(m, "contains unknown rule"):
		return "sr-rule"
	case strings.Contains(m, "multiple regex capture groups"):
		return "regex-groups"
	case strings.Contains(m, "error parsing regexp"), strings.Contains(m, "match timeout"):
		return "regex"
	case strings.Contains(m, "parsing error"):
		return "jsonpath"
	}
	if len(m) > 60 {
		m = m[:60]
	}
	return "other:" + m
}

func zPanicSite(r interface{}) string {
	s := fmt.Sprint(r)
	switch {
	case strings.Contains(s, "nil pointer dereference"):
		return "nil-deref"
	case strings.Contains(s, "interface conversion"):
		return "type-assert"
	case strings.Contains(s, "index out of range"):
		return "index"
	}
	if len(s) > 50 {
		s = s[:50]
	}
	return s
}

type zAlias vc.VerifiableCredential

// the map view matchConstraint builds (same switch on Format())
func zTree(c vc.VerifiableCredential) interface{} {
	var m map[string]interface{}
	switch c.Format() {
	case vc.JWTCredentialProofFormat:
		m, _ = remarshalToMap(zAlias(c))
	default:
		m, _ = remarshalToMap(c)
	}
	return m
}

func zKey(c vc.VerifiableCredential) string {
	b, _ := json.Marshal(c)
	return zDigest(string(b))
}

func zParseCred(s zCredSrc) (*vc.VerifiableCredential, error) {
	c, err := vc.ParseVerifiableCredential(s.Src)
	if err != nil {
		return nil, err
	}
	if s.Holder {
		h := vc.VerifiableCredential{Context: c.Context, ID: c.ID, Type: c.Type, Issuer: c.Issuer, IssuanceDate: c.IssuanceDate,
			ExpirationDate: c.ExpirationDate, CredentialStatus: c.CredentialStatus, CredentialSubject: c.CredentialSubject, Proof: c.Proof}
		return &h, nil
	}
	return c, nil
}

func zCredView(name string, c vc.VerifiableCredential) zCred {
	v := zCred{Name: name, Fmt: c.Format(), Key: zKey(c), Raw: zDigest(c.Raw()), Tree: zTree(c), NProof: len(c.Proof),
		SelEmpty: selectableVC(c).empty(), ProofTypes: []string{}}
	if c.Raw() == "" {
		v.Raw = ""
	}
	proofs, _ := c.Proofs()
	for _, p := range proofs {
		v.ProofTypes = append(v.ProofTypes, string(p.Type))
	}
	if c.Format() == vc.JWTCredentialProofFormat {
		if msg, err := jws.ParseString(c.Raw()); err == nil && len(msg.Signatures()) > 0 {
			a, _ := msg.Signatures()[0].ProtectedHeaders().Get(jws.AlgorithmKey)
			v.Alg = fmt.Sprint(a)
			v.SigEmpty = len(msg.Signatures()[0].Signature()) == 0
		}
	}
	return v
}

// explicit rendering of the parsed definition (nil-ness made visible; json.Marshal's omitempty would hide `enum: []`)
func zFormats(f *PresentationDefinitionClaimFormatDesignations) interface{} {
	if f == nil {
		return nil
	}
	out := [][]interface{}{}
	keys := []string{}
	for k := range *f {
		keys = append(keys, k)
	}
	sort.Strings(keys)
	for _, k := range keys {
		entry := (*f)[k]
		if entry == nil {
			continue
		}
		ek := []string{}
		for e := range entry {
			ek = append(ek, e)
		}
		sort.Strings(ek)
		items := [][]interface{}{}
		for _, e := range ek {
			if entry[e] == nil {
				continue
			}
			items = append(items, []interface{}{e, entry[e]})
		}
		out = append(out, []interface{}{k, items})
	}
	return out
}

func zSR(s *SubmissionRequirement) map[string]interface{} {
	m := map[string]interface{}{"name": s.Name, "rule": s.Rule, "from": s.From}
	if s.Count != nil {
		m["count"] = *s.Count
	}
	if s.Min != nil {
		m["min"] = *s.Min
	}
	if s.Max != nil {
		m["max"] = *s.Max
	}
	n := []interface{}{}
	for _, x := range s.FromNested {
		n = append(n, zSR(x))
	}
	m["nested"] = n
	return m
}

func zDef(pd *PresentationDefinition) map[string]interface{} {
	ds := []interface{}{}
	for _, d := range pd.InputDescriptors {
		dm := map[string]interface{}{"id": d.Id, "name": d.Name, "group": append([]string{}, d.Group...), "format": zFormats(d.Format)}
		if d.Constraints != nil {
			fs := []interface{}{}
			for _, f := range d.Constraints.Fields {
				fm := map[string]interface{}{"paths": append([]string{}, f.Path...), "optional": f.Optional != nil && *f.Optional}
				if f.Id != nil {
					fm["id"] = *f.Id
				}
				if f.Filter != nil {
					flt := map[string]interface{}{"type": f.Filter.Type}
					if f.Filter.Const != nil {
						flt["const"] = *f.Filter.Const
					}
					if f.Filter.Enum != nil {
						flt["enum"] = append([]string{}, f.Filter.Enum...)
					}
					if f.Filter.Pattern != nil {
						flt["pattern"] = *f.Filter.Pattern
					}
					fm["filter"] = flt
				}
				fs = append(fs, fm)
			}
			dm["fields"] = fs
		}
		ds = append(ds, dm)
	}
	srs := []interface{}{}
	for _, s := range pd.SubmissionRequirements {
		srs = append(srs, zSR(s))
	}
	return map[string]interface{}{"id": pd.Id, "format": zFormats(pd.Format), "descs": ds, "srs": srs}
}

func zStrings(v interface{}, acc map[string]bool) {
	switch x := v.(type) {
	case string:
		acc[x] = true
	case []interface{}:
		for _, e := range x {
			zStrings(e, acc)
		}
	case map[string]interface{}:
		for _, e := range x {
			zStrings(e, acc)
		}
	}
}

func zRegex(p, s string) (string, string) {
	re, err := regexp2.Compile(p, regexp2.ECMAScript)
	if err != nil {
		return "compileErr", ""
	}
	re.MatchTimeout = time.Second // the contract table itself must terminate; a timeout is a run error
	m, err := re.FindStringMatch(s)
	if err != nil {
		return "runErr", ""
	}
	if m == nil {
		return "noMatch", ""
	}
	switch len(m.Groups()) {
	case 1:
		return "whole", string(m.Capture.Runes())
	case 2:
		return "cap", string(m.Groups()[1].Runes())
	}
	return "many", ""
}

func zPatterns(pd *PresentationDefinition) []string {
	set := map[string]bool{}
	for _, d := range pd.InputDescriptors {
		if d.Constraints == nil {
			continue
		}
		for _, f := range d.Constraints.Fields {
			if f.Filter != nil && f.Filter.Pattern != nil {
				set[*f.Filter.Pattern] = true
			}
		}
	}
	out := []string{}
	for p := range set {
		out = append(out, p)
	}
	sort.Strings(out)
	return out
}

// ---------- running one case on the real code

type zRun struct {
	t     *testing.T
	ops   *bufio.Writer
	out   *bufio.Writer
	n     int
	pd    *PresentationDefinition
	creds []vc.VerifiableCredential
	srcs  []zCredSrc
	names map[string]string // key -> name
	stats map[string]int
}

func (r *zRun) emit(op zOp, line string) {
	op.N = r.n
	r.n++
	b, err := json.Marshal(op)
	if err != nil {
		r.t.Fatal(err)
	}
	r.ops.Write(b)
	r.ops.WriteByte('\n')
	r.out.WriteString(line)
	r.out.WriteByte('\n')
}

func (r *zRun) credName(c vc.VerifiableCredential) string {
	if n, ok := r.names[zKey(c)]; ok {
		return n
	}
	return "?" + zKey(c)
}

// opCase parses the definition and credentials; returns false when the definition is rejected (schema / unmarshal)
func (r *zRun) opCase(defRaw string, srcs []zCredSrc) bool {
	op := zOp{Op: "case", DefRaw: defRaw, Srcs: srcs}
	pd, err := ParsePresentationDefinition([]byte(defRaw))
	if err != nil {
		r.pd = nil
		r.stats["def:rejected"]++
		r.emit(zOp{Op: "reject", DefRaw: defRaw}, "reject")
		return false
	}
	r.pd = pd
	r.creds = nil
	r.srcs = srcs
	r.names = map[string]string{}
	strs := map[string]bool{}
	for i, s := range srcs {
		c, err := zParseCred(s)
		if err != nil {
			r.t.Fatalf("generator produced an unparsable credential: %v\n%s", err, s.Src)
		}
		name := "c" + strconv.Itoa(i)
		k := zKey(*c)
		if _, dup := r.names[k]; !dup {
			r.names[k] = name
		}
		r.creds = append(r.creds, *c)
		v := zCredView(name, *c)
		op.Creds = append(op.Creds, v)
		zStrings(v.Tree, strs)
	}
	ss := []string{}
	for s := range strs {
		ss = append(ss, s)
	}
	sort.Strings(ss)
	op.Re = [][]string{}
	for _, p := range zPatterns(pd) {
		for _, s := range ss {
			k, v := zRegex(p, s)
			op.Re = append(op.Re, []string{p, s, k, v})
		}
	}
	op.Def = zDef(pd)
	// wf=true: the schema accepted the definition (the model recomputes it from the parsed submission requirements)
	r.emit(op, fmt.Sprintf("case req=%v wf=true", pd.CredentialsRequired()))
	return true
}

func zShowMappings(ms []InputDescriptorMappingObject) string {
	parts := []string{}
	for _, m := range ms {
		s := m.Id + ":" + m.Format + ":" + m.Path
		if m.PathNested != nil {
			s += ">" + m.PathNested.Id + ":" + m.PathNested.Format + ":" + m.PathNested.Path
		}
		parts = append(parts, s)
	}
	return "[" + strings.Join(parts, ",") + "]"
}

// zWatchdog runs f; when it has not returned in time the outcome is "<op> hang" (the goroutine is abandoned)
const zWatchdogTime = 10 * time.Second // generous: the final runs happen on a busy box; a real hang never returns

func zWatchdog(op string, f func() string) string {
	done := make(chan string, 1)
	go func() { done <- f() }()
	select {
	case l := <-done:
		return l
	case <-time.After(zWatchdogTime):
		return op + " hang"
	}
}

func (r *zRun) opMatch(wallet []int) {
	vcs := []vc.VerifiableCredential{}
	for _, i := range wallet {
		vcs = append(vcs, r.creds[i])
	}
	line := zWatchdog("match", func() (line string) {
		defer func() {
			if p := recover(); p != nil {
				line = "match panic:" + zPanicSite(p)
				if os.Getenv("VERIF_DEBUG") != "" {
					fmt.Printf("PANIC %v\n%s\n", p, debug.Stack())
				}
			}
		}()
		sel, maps, err := r.pd.Match(vcs)
		if err != nil {
			return "match err:" + zErrClass(err)
		}
		names := []string{}
		for _, c := range sel {
			names = append(names, r.credName(c))
		}
		return "match ok vcs=[" + strings.Join(names, ",") + "] map=" + zShowMappings(maps)
	})
	cls := strings.SplitN(line, " ", 3)[1]
	if strings.HasPrefix(cls, "err:other") {
		cls = "err:other"
	}
	r.stats["match:"+cls]++
	r.emit(zOp{Op: "match", Wallet: append([]int{}, wallet...)}, line)
}

// ---------- build / validate / fields on the real code

func zToIDMO(m zMapping) InputDescriptorMappingObject {
	o := InputDescriptorMappingObject{Id: m.Id, Format: m.Fmt, Path: m.Path}
	if m.Nested != nil {
		n := zToIDMO(*m.Nested)
		o.PathNested = &n
	}
	return o
}

func zFromIDMO(o InputDescriptorMappingObject) zMapping {
	m := zMapping{Id: o.Id, Fmt: o.Format, Path: o.Path}
	if o.PathNested != nil {
		n := zFromIDMO(*o.PathNested)
		m.Nested = &n
	}
	return m
}

var zHolder = did.MustParseDID("did:example:holder0")

// opBuild runs PresentationSubmissionBuilder.Build over the given wallets; returns the sign instruction when it succeeded
func (r *zRun) opBuild(wallets [][]int) (*SignInstruction, *PresentationSubmission) {
	var sign *SignInstruction
	var sub *PresentationSubmission
	line := func() (line string) {
		defer func() {
			if p := recover(); p != nil {
				line = "build panic:" + zPanicSite(p)
			}
		}()
		b := r.pd.PresentationSubmissionBuilder()
		for _, w := range wallets {
			vcs := []vc.VerifiableCredential{}
			for _, i := range w {
				vcs = append(vcs, r.creds[i])
			}
			b.AddWallet(zHolder, vcs)
		}
		ps, si, err := b.Build("ldp_vp")
		if err != nil {
			if strings.Contains(err.Error(), "failed to match presentation definition") || err.Error() == "" {
				return "build err:nomatch"
			}
			return "build err:" + zErrClass(err)
		}
		sign, sub = &si, &ps
		names := []string{}
		for _, c := range si.VerifiableCredentials {
			names = append(names, r.credName(c))
		}
		if zShowMappings(si.Mappings) != zShowMappings(ps.DescriptorMap) {
			return "build ok BUT sign instruction mappings differ from the submission's descriptor map"
		}
		return "build ok vcs=[" + strings.Join(names, ",") + "] map=" + zShowMappings(ps.DescriptorMap)
	}()
	r.stats["build:"+strings.SplitN(line, " ", 3)[1]]++
	ws := [][]int{}
	for _, w := range wallets {
		ws = append(ws, append([]int{}, w...))
	}
	r.emit(zOp{Op: "build", Wallets: ws}, line)
	return sign, sub
}

// zMakeVP renders a presentation holding the credentials: JSON-LD object text or compact JWT
func zMakeVP(jwtVP bool, creds []vc.VerifiableCredential, signerOK bool, salt int) string {
	vp := vc.VerifiablePresentation{
		Context:              []ssi.URI{ssi.MustParseURI("https://www.w3.org/2018/credentials/v1")},
		Type:                 []ssi.URI{ssi.MustParseURI("VerifiablePresentation")},
		VerifiableCredential: creds,
	}
	if jwtVP {
		inner, _ := vp.MarshalJSON()
		hdr := map[string]interface{}{"alg": "ES256", "typ": "JWT"}
		if signerOK {
			hdr["kid"] = "did:example:holder0#k"
		}
		claims := map[string]interface{}{"iss": "did:example:holder0", "sub": "did:example:holder0", "jti": "did:example:holder0#vp" + strconv.Itoa(salt),
			"vp": json.RawMessage(inner)}
		return zB64(hdr) + "." + zB64(claims) + "." + base64.RawURLEncoding.EncodeToString([]byte("sig"))
	}
	id := ssi.MustParseURI("did:example:holder0#vp" + strconv.Itoa(salt))
	vp.ID = &id
	if signerOK {
		vp.Proof = []interface{}{map[string]interface{}{"type": "JsonWebSignature2020", "verificationMethod": "did:example:holder0#k", "proofPurpose": "authentication", "jws": "x"}}
	}
	b, _ := vp.MarshalJSON()
	return string(b)
}

// zEnvelopeText: one presentation -> its text; several (or forceArray) -> JSON array of objects / JWT strings
func zEnvelopeText(vps []string, forceArray bool) string {
	if len(vps) == 1 && !forceArray {
		return vps[0]
	}
	parts := []string{}
	for _, v := range vps {
		if strings.HasPrefix(v, "{") {
			parts = append(parts, v)
		} else {
			q, _ := json.Marshal(v)
			parts = append(parts, string(q))
		}
	}
	return "[" + strings.Join(parts, ",") + "]"
}

type zDecoder struct {
	r        *zRun
	entries  []zDecode
	maps     []interface{}
	presName map[string]string // Raw() -> name of a presentation credential
	nextX    int
	// map views are only needed below a level that has a path_nested
	needVCMap, needVPMap bool
	level                map[int]int  // how many decodes deep a root map is
	inCred               map[int]bool // the root map is the map view of a credential
}

func (d *zDecoder) toMap(v interface{}) int {
	b, err := json.Marshal(v)
	if err != nil {
		return 0
	}
	var m map[string]interface{}
	if json.Unmarshal(b, &m) != nil || m == nil {
		return 0
	}
	d.maps = append(d.maps, m)
	return len(d.maps) - 1
}

// walk enumerates the string/object values below a root (to a small depth) and decodes each the way resolveCredential does
func (d *zDecoder) walk(root int, at []interface{}, v interface{}, depth int) {
	try := func(text string, fmts ...string) {
		for _, f := range fmts {
			e := zDecode{Root: root, At: append([]interface{}{}, at...), Fmt: f}
			if strings.HasSuffix(f, "_vc") {
				c, err := vc.ParseVerifiableCredential(text)
				if err != nil {
					continue
				}
				e.Kind = "vc"
				e.Raw = zDigest(c.Raw())
				if n, ok := d.presName[c.Raw()]; ok {
					e.Cred = n
				} else if n, ok := d.r.names[zKey(*c)]; ok {
					e.Cred = n + "'"
				} else {
					e.Cred = "x" + strconv.Itoa(d.nextX)
					d.nextX++
				}
				if d.needVCMap {
					e.Map = d.toMap(c)
				}
			} else {
				p, err := vc.ParseVerifiablePresentation(text)
				if err != nil {
					continue
				}
				e.Kind = "vp"
				if d.needVPMap {
					e.Map = d.toMap(p)
				}
			}
			d.entries = append(d.entries, e)
			// values below a decoded value (path_nested is evaluated on its map view): presentations found near the top of the
			// envelope, and credentials (a path_nested may hang below an entry that already is a credential); at most 3 maps deep
			// presentations near the top of the envelope; credentials at a credential position (`verifiableCredential`,
			// `verifiableCredential[i]`) of the envelope or of such a presentation. Nothing below a credential's map is decoded further.
			atCredPos := (len(at) >= 1 && at[len(at)-1] == "verifiableCredential") || (len(at) >= 2 && at[len(at)-2] == "verifiableCredential")
			if e.Map > 0 && !d.inCred[root] && ((e.Kind == "vp" && root == 0 && depth <= 1) || (e.Kind == "vc" && atCredPos && d.level[root] <= 1)) {
				d.level[e.Map] = d.level[root] + 1
				d.inCred[e.Map] = e.Kind == "vc"
				d.walk(e.Map, nil, d.maps[e.Map], 1)
			}
		}
	}
	switch x := v.(type) {
	case string:
		if strings.Count(x, ".") == 2 && len(x) > 20 { // only compact JWS look-alikes are worth decoding
			try(x, "jwt_vc", "jwt_vp")
		}
	case map[string]interface{}:
		b, _ := json.Marshal(x)
		try(string(b), "ldp_vc", "ldp_vp")
		if depth < 4 {
			keys := []string{}
			for k := range x {
				keys = append(keys, k)
			}
			sort.Strings(keys)
			for _, k := range keys {
				d.walk(root, append(at, k), x[k], depth+1)
			}
		}
	case []interface{}:
		if depth < 4 {
			for i, e := range x {
				d.walk(root, append(at, i), e, depth+1)
			}
		}
	}
}

func zValidateErrClass(err error) string {
	m := err.Error()
	switch {
	case strings.HasPrefix(m, "resolve credentials from presentation submission"):
		return "resolve"
	case strings.Contains(m, "presentation submission doesn't match presentation definition"):
		return "empty-required"
	case strings.Contains(m, "unable to derive presentation signer"):
		return "signer"
	case strings.HasPrefix(m, "expected ") && strings.Contains(m, " credentials, got "):
		return "count"
	case strings.HasPrefix(m, "incorrect mapping for input descriptor"):
		return "mapping"
	}
	return "build"
}

func (r *zRun) opValidate(envRaw string, sub []zMapping, mut string) {
	op := zOp{Op: "validate", EnvRaw: envRaw, Sub: sub, Mut: mut}
	// array envelope: what go-did says about each presented entry on its own (independent of parseJSONArrayEnvelope)
	var rawEntries []json.RawMessage
	if strings.HasPrefix(strings.TrimSpace(envRaw), "[") && json.Unmarshal([]byte(envRaw), &rawEntries) == nil {
		op.Entries = []string{}
		for _, re := range rawEntries {
			text := string(re)
			var str string
			if json.Unmarshal(re, &str) == nil && strings.HasPrefix(strings.TrimSpace(text), "\"") {
				text = str
			}
			if _, err := vc.ParseVerifiablePresentation(text); err == nil {
				op.Entries = append(op.Entries, "vp")
			} else {
				op.Entries = append(op.Entries, "junk")
			}
		}
	}
	env, err := ParseEnvelope([]byte(envRaw))
	if err != nil {
		op.EnvErr = true
		r.stats["validate:envelope-err"]++
		r.emit(op, "validate envelope-err")
		return
	}
	op.Env = env.asInterface
	dec := &zDecoder{r: r, maps: []interface{}{nil}, presName: map[string]string{}, level: map[int]int{}, inCred: map[int]bool{}}
	presNames := map[string]string{} // Raw -> name (for the result line)
	universe := map[string]zCred{}
	for i, c := range r.creds {
		universe[zKey(c)] = zCredView("c"+strconv.Itoa(i), c)
	}
	for pi, p := range env.Presentations {
		row := []zPresCred{}
		for ci, c := range p.VerifiableCredential {
			view := zCredView("", c)
			name := ""
			if u, ok := universe[view.Key]; ok {
				cmp := u
				cmp.Name, cmp.Raw = "", view.Raw
				a, _ := json.Marshal(cmp)
				b, _ := json.Marshal(view)
				if string(a) == string(b) {
					name = u.Name
					row = append(row, zPresCred{Ref: u.Name, Raw: view.Raw})
				}
			}
			if name == "" {
				name = "p" + strconv.Itoa(pi) + "_" + strconv.Itoa(ci)
				if u, ok := universe[view.Key]; ok {
					name = u.Name + "~"
				}
				view.Name = name
				row = append(row, zPresCred{Full: &view})
			}
			if _, dup := presNames[c.Raw()]; !dup {
				presNames[c.Raw()] = name
			}
		}
		op.Pres = append(op.Pres, row)
		_, serr := credential.PresentationSigner(p)
		op.Signer = append(op.Signer, serr == nil)
	}
	dec.presName = presNames
	// regexp contract entries for strings that only occur in presentation credentials outside the case's universe
	extra := map[string]bool{}
	for _, row := range op.Pres {
		for _, pc := range row {
			if pc.Full != nil {
				zStrings(pc.Full.Tree, extra)
			}
		}
	}
	if len(extra) > 0 {
		ss := []string{}
		for x := range extra {
			ss = append(ss, x)
		}
		sort.Strings(ss)
		for _, pat := range zPatterns(r.pd) {
			for _, x := range ss {
				k, v := zRegex(pat, x)
				op.Re = append(op.Re, []string{pat, x, k, v})
			}
		}
	}
	for _, m := range sub {
		for l := &m; l != nil && l.Nested != nil; l = l.Nested {
			if strings.HasSuffix(l.Fmt, "_vc") {
				dec.needVCMap = true
			} else {
				dec.needVPMap = true
			}
		}
	}
	dec.walk(0, nil, env.asInterface, 0)
	op.Decode, op.Maps = dec.entries, dec.maps
	line := func() (line string) {
		defer func() {
			if p := recover(); p != nil {
				line = "validate panic:" + zPanicSite(p)
			}
		}()
		ps := PresentationSubmission{Id: "s", DefinitionId: r.pd.Id}
		for _, m := range sub {
			ps.DescriptorMap = append(ps.DescriptorMap, zToIDMO(m))
		}
		res, err := ps.Validate(*env, *r.pd)
		if err != nil {
			return "validate err:" + zValidateErrClass(err)
		}
		ids := []string{}
		for id := range res {
			ids = append(ids, id)
		}
		sort.Strings(ids)
		parts := []string{}
		for _, id := range ids {
			n, ok := presNames[res[id].Raw()]
			if !ok {
				n = "?" + zDigest(res[id].Raw())
			}
			parts = append(parts, id+"="+n)
		}
		return "validate ok {" + strings.Join(parts, ",") + "}"
	}()
	r.stats["validate:"+strings.SplitN(line, " ", 3)[1]]++
	r.stats["mut:"+mut+":"+strings.SplitN(strings.SplitN(line, " ", 3)[1], ":", 2)[0]]++
	r.emit(op, line)
}

func zShowValue(v interface{}) string {
	b, _ := json.Marshal(v)
	return string(b)
}

func (r *zRun) opFields(credMap [][]interface{}) {
	m := map[string]vc.VerifiableCredential{}
	clean := [][]interface{}{}
	for _, e := range credMap {
		id, _ := e[0].(string)
		var idx int
		switch x := e[1].(type) {
		case int:
			idx = x
		case float64:
			idx = int(x)
		}
		if _, dup := m[id]; dup { // a Go map holds one credential per id: the later one
			for k := range clean {
				if clean[k][0] == id {
					clean[k][1] = idx
				}
			}
		} else {
			clean = append(clean, []interface{}{id, idx})
		}
		m[id] = r.creds[idx]
	}
	line := func() (line string) {
		defer func() {
			if p := recover(); p != nil {
				line = "fields panic:" + zPanicSite(p)
			}
		}()
		res, err := r.pd.ResolveConstraintsFields(m)
		if err != nil {
			// which credential's evaluation error is reported depends on Go map iteration order: the class is not printed
			_ = zErrClass(err)
			return "fields err"
		}
		keys := []string{}
		for k := range res {
			keys = append(keys, k)
		}
		sort.Strings(keys)
		parts := []string{}
		for _, k := range keys {
			parts = append(parts, k+"="+zShowValue(res[k]))
		}
		return "fields ok {" + strings.Join(parts, ",") + "}"
	}()
	r.stats["fields:"+strings.SplitN(strings.SplitN(line, " ", 3)[1], ":", 2)[0]]++
	r.emit(zOp{Op: "fields", CredMap: clean}, line)
}

// zMutations derives forged / damaged descriptor maps from a correct one
func zMutations(rng *rand.Rand, sub []zMapping, nCreds int) map[string][]zMapping {
	cp := func() []zMapping { return append([]zMapping{}, sub...) }
	out := map[string][]zMapping{}
	foreign := []string{"$", "$.verifiableCredential", "$.verifiableCredential[0].credentialSubject", "$.holder", "$.proof", "$.type",
		"$.verifiableCredential[*]", "$.a.", "$.verifiableCredential[0].proof", "$.verifiableCredential.credentialSubject", "$.id", "$[0]"}
	if len(sub) >= 2 {
		i := rng.Intn(len(sub))
		j := (i + 1 + rng.Intn(len(sub)-1)) % len(sub)
		m := cp()
		m[i].Path, m[j].Path = m[j].Path, m[i].Path
		m[i].Fmt, m[j].Fmt = m[j].Fmt, m[i].Fmt
		out["swap-paths"] = m
		m = cp()
		m[i], m[j] = m[j], m[i]
		out["reorder"] = m
	}
	if len(sub) >= 1 {
		i := rng.Intn(len(sub))
		m := cp()
		out["drop"] = append(m[:i], m[i+1:]...)
		m = cp()
		out["duplicate-entry"] = append(m, m[i])
		m = cp()
		x := m[i]
		x.Id = "dX"
		out["surplus-unknown-id"] = append(m, x)
		m = cp()
		m[i].Path = "$.verifiableCredential[" + strconv.Itoa(rng.Intn(nCreds+2)) + "]"
		out["repoint"] = m
		m = cp()
		if m[i].Fmt == "ldp_vc" {
			m[i].Fmt = "jwt_vc"
		} else {
			m[i].Fmt = "ldp_vc"
		}
		out["format"] = m
		m = cp()
		m[i].Path = zPick(rng, foreign)
		out["foreign-path"] = m
		m = cp()
		inner := m[i]
		m[i] = zMapping{Id: inner.Id, Fmt: []string{"ldp_vp", "jwt_vp", "ldp_vc"}[rng.Intn(3)], Path: "$", Nested: &inner}
		out["nested-root"] = m
		m = cp()
		w := m[i]
		w.Path = "$.verifiableCredential[" + strconv.Itoa(rng.Intn(nCreds+1)) + "]"
		out["shadowed-first-entry"] = append([]zMapping{w}, m...)
		m = cp()
		m[i].Id = "d" + strconv.Itoa(1+rng.Intn(4))
		out["rename-id"] = m
		// a path_nested hanging below an entry that already lands on the credential (the schema allows it, no wallet emits it):
		// dangling, to a non-credential object, to a string, to the credential itself
		for name, np := range map[string]string{"nested-under-credential-dangling": "$.doesNotExist", "nested-under-credential-to-subject": "$.credentialSubject",
			"nested-under-credential-to-string": "$.issuer", "nested-under-credential-self": "$"} {
			m = cp()
			last := &m[i]
			for last.Nested != nil { // array envelopes: one level deeper than needed
				n := *last.Nested
				last.Nested = &n
				last = last.Nested
			}
			f := last.Fmt
			if rng.Intn(4) == 0 {
				f = []string{"ldp_vc", "jwt_vc"}[rng.Intn(2)]
			}
			last.Nested = &zMapping{Id: last.Id, Fmt: f, Path: np}
			out[name] = m
		}
	}
	out["empty"] = []zMapping{}
	return out
}

// opNilDef: what Match / CredentialsRequired / Build / ResolveConstraintsFields do with nil entries
func (r *zRun) opNilDef(nilRaw string, wallet []int) {
	var pd PresentationDefinition
	if err := json.Unmarshal([]byte(nilRaw), &pd); err != nil {
		r.t.Fatalf("nil-entry definition does not unmarshal: %v", err)
	}
	var generic map[string]interface{}
	json.Unmarshal([]byte(nilRaw), &generic)
	// model view: clean entries through zDef on a copy without the nil entries is not possible entry-wise, so render per entry
	descs := []interface{}{}
	for _, d := range pd.InputDescriptors {
		if d == nil {
			descs = append(descs, nil)
		} else {
			one := zDef(&PresentationDefinition{InputDescriptors: []*InputDescriptor{d}})
			descs = append(descs, one["descs"].([]interface{})[0])
		}
	}
	nestedNull := false
	var scan func(s *SubmissionRequirement)
	scan = func(s *SubmissionRequirement) {
		for _, n := range s.FromNested {
			if n == nil {
				nestedNull = true
			} else {
				scan(n)
			}
		}
	}
	var strip func(s *SubmissionRequirement) *SubmissionRequirement
	strip = func(s *SubmissionRequirement) *SubmissionRequirement {
		c := *s
		c.FromNested = nil
		for _, n := range s.FromNested {
			if n != nil {
				c.FromNested = append(c.FromNested, strip(n))
			}
		}
		return &c
	}
	srs := []interface{}{}
	for _, s := range pd.SubmissionRequirements {
		if s == nil {
			srs = append(srs, nil)
		} else {
			scan(s)
			srs = append(srs, zSR(strip(s)))
		}
	}
	vcs := []vc.VerifiableCredential{}
	cm := map[string]vc.VerifiableCredential{}
	for _, i := range wallet {
		vcs = append(vcs, r.creds[i])
		cm["d1"] = r.creds[i]
	}
	guard := func(f func() string) (out string) {
		defer func() {
			if p := recover(); p != nil {
				out = "panic:" + zPanicSite(p)
			}
		}()
		return f()
	}
	errCls := func(err error) string {
		switch {
		case err == nil:
			return "ok"
		case strings.Contains(err.Error(), "contains null"):
			return "err:nil-entry"
		case strings.Contains(err.Error(), "failed to match presentation definition") || err.Error() == "":
			return "err:nomatch"
		}
		return "err:" + zErrClass(err)
	}
	m := guard(func() string { _, _, err := pd.Match(vcs); return errCls(err) })
	req := guard(func() string { return fmt.Sprint(pd.CredentialsRequired()) })
	b := guard(func() string {
		bd := pd.PresentationSubmissionBuilder()
		bd.AddWallet(zHolder, vcs)
		_, _, err := bd.Build("ldp_vp")
		if err != nil {
			return "err:nomatch" // Build joins the per-wallet Match errors
		}
		return "ok"
	})
	f := guard(func() string { _, err := pd.ResolveConstraintsFields(cm); return errCls(err) })
	r.stats["nildef"]++
	r.emit(zOp{Op: "nildef", NilRaw: nilRaw, Wallet: append([]int{}, wallet...),
		RawDef: map[string]interface{}{"id": pd.Id, "descs": descs, "srs": srs, "nestedNull": nestedNull}},
		fmt.Sprintf("nildef match=%s required=%s build=%s fields=%s", m, req, b, f))
}

var zNilDefs = []string{
	`{"id":"x","input_descriptors":[null]}`,
	`{"id":"x","input_descriptors":[{"id":"d1","constraints":{}},null]}`,
	`{"id":"x","input_descriptors":[{"id":"d1","group":["A"],"constraints":{}}],"submission_requirements":[null]}`,
	`{"id":"x","input_descriptors":[{"id":"d1","group":["A"],"constraints":{}}],"submission_requirements":[{"rule":"all","from":"A"},null]}`,
	`{"id":"x","input_descriptors":[{"id":"d1","group":["A"],"constraints":{}}],"submission_requirements":[{"rule":"pick","count":1,"from":"A"},null]}`,
	`{"id":"x","input_descriptors":[{"id":"d1","group":["A"],"constraints":{}}],"submission_requirements":[{"rule":"all","from_nested":[null]}]}`,
	`{"id":"x","input_descriptors":[{"id":"d1","group":["A"],"constraints":{}}],"submission_requirements":[{"rule":"pick","min":1,"from_nested":[{"rule":"all","from":"A"},{"rule":"all","from_nested":[null]}]}]}`,
	`{"id":"x","input_descriptors":[],"submission_requirements":[null]}`,
}

// ---------- generators

var zTypes = []string{"AlphaCredential", "BetaCredential", "GammaCredential"}
var zNames = []string{"Alice", "Bob", "Carol"}
var zRoles = []string{"nurse", "doctor", "admin"}
var zCities = []string{"Amsterdam", "Utrecht"}
var zAlgs = []string{"ES256", "EdDSA", "PS256"}
var zProofTypes = []string{"JsonWebSignature2020", "Ed25519Signature2018"}

func zPick(rng *rand.Rand, l []string) string { return l[rng.Intn(len(l))] }

func zB64(v interface{}) string {
	b, _ := json.Marshal(v)
	return base64.RawURLEncoding.EncodeToString(b)
}

// zGenCred builds one credential source; content comes from a small vocabulary so that definitions can target it
func zGenCred(rng *rand.Rand, i int) zCredSrc {
	subject := map[string]interface{}{}
	if rng.Intn(8) > 0 {
		subject["id"] = "did:example:holder" + strconv.Itoa(rng.Intn(2))
	}
	if rng.Intn(5) > 0 {
		subject["name"] = zPick(rng, zNames)
	}
	if rng.Intn(4) > 0 {
		subject["role"] = zPick(rng, zRoles)
	}
	switch rng.Intn(4) {
	case 0:
		subject["level"] = rng.Intn(4)
	case 1:
		subject["level"] = strconv.Itoa(rng.Intn(4))
	}
	if rng.Intn(3) == 0 {
		subject["active"] = rng.Intn(2) == 0
	}
	switch rng.Intn(6) {
	case 0:
		subject["tags"] = []interface{}{zPick(rng, zRoles), zPick(rng, zNames)}
	case 1:
		subject["tags"] = []interface{}{rng.Intn(3), rng.Intn(2) == 0}
	case 2:
		subject["tags"] = []interface{}{[]interface{}{zPick(rng, zRoles)}, zPick(rng, zRoles)}
	case 3:
		subject["tags"] = []interface{}{}
	case 4:
		subject["tags"] = zPick(rng, zRoles)
	}
	if rng.Intn(3) == 0 {
		subject["org"] = map[string]interface{}{"city": zPick(rng, zCities), "code": rng.Intn(3)}
	}
	if rng.Intn(10) == 0 {
		subject["nil"] = nil
	}
	if rng.Intn(12) == 0 {
		subject["tags"] = []interface{}{nil, zPick(rng, zRoles)}
	}
	types := []interface{}{"VerifiableCredential", zPick(rng, zTypes)}
	if rng.Intn(10) == 0 {
		types = types[:1]
	}
	issuer := "did:example:issuer" + strconv.Itoa(rng.Intn(2))
	id := "did:example:issuer#" + strconv.Itoa(i) + "-" + strconv.Itoa(rng.Intn(1000))
	ctx := []interface{}{"https://www.w3.org/2018/credentials/v1"}
	if rng.Intn(2) == 0 {
		// JSON-LD
		doc := map[string]interface{}{"@context": ctx, "type": types, "issuer": issuer, "issuanceDate": "2020-01-01T00:00:00Z", "credentialSubject": subject}
		if rng.Intn(6) > 0 {
			doc["id"] = id
		}
		switch rng.Intn(4) {
		case 0: // self-attested, no proof
		case 1:
			doc["proof"] = []interface{}{map[string]interface{}{"type": zPick(rng, zProofTypes)}, map[string]interface{}{"type": zPick(rng, zProofTypes)}}
		default:
			doc["proof"] = map[string]interface{}{"type": zPick(rng, zProofTypes), "jws": "x"}
		}
		b, _ := json.Marshal(doc)
		return zCredSrc{Src: string(b), Holder: rng.Intn(12) == 0}
	}
	// JWT
	hdr := map[string]interface{}{"alg": zPick(rng, zAlgs), "typ": "JWT", "kid": issuer + "#k"}
	claims := map[string]interface{}{"iss": issuer, "nbf": 1577836800,
		"vc": map[string]interface{}{"@context": ctx, "type": types, "credentialSubject": subject}}
	if rng.Intn(6) > 0 {
		claims["jti"] = id
	}
	if rng.Intn(3) == 0 {
		claims["sub"] = "did:example:holder" + strconv.Itoa(rng.Intn(2))
	}
	sig := base64.RawURLEncoding.EncodeToString([]byte("signature"))
	if rng.Intn(5) == 0 {
		sig = ""
	}
	return zCredSrc{Src: zB64(hdr) + "." + zB64(claims) + "." + sig}
}

var zPathPool = []string{"$.type", "$.type[1]", "$.type[*]", "$.issuer", "$.id", "$.credentialSubject.name", "$.credentialSubject.role",
	"$.credentialSubject.level", "$.credentialSubject.active", "$.credentialSubject.tags", "$.credentialSubject.tags[0]",
	"$.credentialSubject.tags[1]", "$.credentialSubject.tags[*]", "$.credentialSubject.org.city", "$.credentialSubject.org.code",
	"$.credentialSubject.org", "$.credentialSubject.missing", "$.credentialSubject.nil", "$.credentialSubject[\"name\"]",
	"$[\"credentialSubject\"][\"role\"]", "$.credentialSubject.name.x", "$.credentialSubject.tags.x", "$.credentialSubject.tags[7]",
	"$.credentialSubject.id", "$.credentialSubject.tags[0][0]", "$.type[0]",
	"$.credentialSubject[0].name", "$.credentialSubject[0].role", "$.credentialSubject[0].level", "$.credentialSubject[0].tags",
	"$.credentialSubject[0].tags[*]", "$.credentialSubject[0].org.city", "$.credentialSubject[0].active", "$.credentialSubject[0].id",
	"$.credentialSubject[0].tags[0]", "$.credentialSubject[1].name", "$.proof.type", "$.issuanceDate"}

var zPatternPool = []string{"^Alpha", "Credential$", "^(.*)Credential$", "(A)(l)pha", "a", "^did:example:(.*)$", "^(?:nur)se$", "o", "^$", "^(d)(o)(c)", "[0-9]+", "^(.)"}

func zLookup(v interface{}, path string) interface{} {
	r, _ := getValueAtPath(path, v)
	return r
}

// zGenFilter: target is the value found in the target credential (may be nil)
func zGenFilter(rng *rand.Rand, target interface{}) map[string]interface{} {
	f := map[string]interface{}{}
	// the type: usually the type of the target (element type for arrays)
	elem := target
	if a, ok := target.([]interface{}); ok && len(a) > 0 {
		elem = a[rng.Intn(len(a))]
	}
	ty := "string"
	switch elem.(type) {
	case float64:
		ty = "number"
	case bool:
		ty = "boolean"
	case []interface{}:
		ty = "array"
	case map[string]interface{}:
		ty = "object"
	}
	switch rng.Intn(14) {
	case 0:
		ty = []string{"string", "number", "boolean", "array", "object", "integer", "null"}[rng.Intn(7)]
	case 1:
		ty = ""
	}
	if ty != "" {
		f["type"] = ty
	}
	str, isStr := elem.(string)
	switch rng.Intn(9) {
	case 0, 1: // type only
	case 2, 3: // const
		if isStr && rng.Intn(5) > 0 {
			f["const"] = str
		} else {
			f["const"] = zPick(rng, append(append([]string{}, zRoles...), zTypes...))
		}
	case 4, 5: // enum
		en := []interface{}{}
		for k := rng.Intn(3); k > 0; k-- {
			en = append(en, zPick(rng, append(append([]string{}, zRoles...), zNames...)))
		}
		if isStr && rng.Intn(4) > 0 {
			en = append(en, str)
		}
		if len(en) == 0 && rng.Intn(40) > 0 {
			en = append(en, zPick(rng, zTypes))
		}
		f["enum"] = en
	case 6, 7: // pattern
		f["pattern"] = zPick(rng, zPatternPool)
		if isStr && len(str) > 2 {
			switch rng.Intn(5) {
			case 0:
				f["pattern"] = "^" + str[:2]
			case 1:
				f["pattern"] = "^" + str[:1] + "(.*)$"
			case 2:
				f["pattern"] = str[len(str)-2:] + "$"
			}
		}
		if rng.Intn(50) == 0 {
			f["pattern"] = "["
		}
	case 8: // combinations
		f["pattern"] = zPick(rng, zPatternPool)
		if isStr {
			f["const"] = str
		}
	}
	return f
}

func zGenFormats(rng *rand.Rand) map[string]interface{} {
	f := map[string]interface{}{}
	if rng.Intn(3) > 0 {
		pts := []interface{}{}
		for _, p := range zProofTypes {
			if rng.Intn(3) > 0 {
				pts = append(pts, p)
			}
		}
		if len(pts) == 0 && rng.Intn(30) > 0 {
			pts = append(pts, zPick(rng, zProofTypes))
		}
		f["ldp_vc"] = map[string]interface{}{"proof_type": pts}
	}
	if rng.Intn(3) > 0 {
		as := []interface{}{}
		for _, a := range zAlgs {
			if rng.Intn(3) > 0 {
				as = append(as, a)
			}
		}
		if len(as) == 0 && rng.Intn(30) > 0 {
			as = append(as, zPick(rng, zAlgs))
		}
		f["jwt_vc"] = map[string]interface{}{"alg": as}
	}
	if rng.Intn(4) == 0 {
		f["ldp_vp"] = map[string]interface{}{"proof_type": []interface{}{"JsonWebSignature2020"}}
	}
	return f
}

// zPickOnly: every generated requirement is a pick rule with only count and/or max (none of them "demands" a
// credential through `all` or `min`; whether credentials are required then hangs on the input descriptors)
var zPickOnly bool

func zGenSR(rng *rand.Rand, groups []string, depth int, feat map[string]int, force string) map[string]interface{} {
	s := map[string]interface{}{}
	if rng.Intn(3) == 0 {
		s["name"] = "sr" + strconv.Itoa(rng.Intn(9))
	}
	if zPickOnly {
		s["rule"] = "pick"
		switch rng.Intn(3) {
		case 0:
			s["count"] = 1 + rng.Intn(2)
		case 1:
			s["max"] = 1 + rng.Intn(2)
		case 2:
			s["count"] = 1 + rng.Intn(2)
			s["max"] = rng.Intn(3)
		}
		feat["sr:pick-only"]++
	} else if rng.Intn(2) == 0 {
		s["rule"] = "all"
		feat["sr:all"]++
	} else {
		s["rule"] = "pick"
		switch rng.Intn(6) {
		case 0:
			s["count"] = 1 + rng.Intn(2)
			feat["sr:pick-count"]++
		case 1:
			s["min"] = rng.Intn(3)
			feat["sr:pick-min-only"]++
		case 2:
			s["max"] = rng.Intn(3)
			feat["sr:pick-max-only"]++
		case 3:
			s["min"] = rng.Intn(3)
			s["max"] = rng.Intn(3)
			feat["sr:pick-min-max"]++
		case 4:
			feat["sr:pick-bare"]++
		case 5:
			s["count"] = 1 + rng.Intn(2)
			s["max"] = rng.Intn(3)
			feat["sr:pick-count-max"]++
		}
	}
	switch rng.Intn(60) {
	case 0:
		s["count"] = 0
		feat["sr:invalid-count-0"]++
	case 1:
		s["rule"] = "some"
		feat["sr:invalid-rule"]++
	case 2:
		s["from"] = zPick(rng, groups)
		s["from_nested"] = []interface{}{map[string]interface{}{"rule": "all", "from": "A"}}
		feat["sr:invalid-both"]++
		return s
	}
	if depth > 0 && rng.Intn(4) == 0 {
		n := []interface{}{}
		for k := 1 + rng.Intn(3); k > 0; k-- {
			n = append(n, zGenSR(rng, groups, depth-1, feat, force))
			force = ""
		}
		s["from_nested"] = n
		feat["sr:nested"]++
	} else if force != "" {
		s["from"] = force
	} else {
		s["from"] = zPick(rng, groups)
	}
	return s
}

// zGenDef builds a presentation definition (JSON text) aimed at the given credentials
func zGenDef(rng *rand.Rand, creds []vc.VerifiableCredential, feat map[string]int) string {
	def := map[string]interface{}{"id": "pd" + strconv.Itoa(rng.Intn(100))}
	if rng.Intn(4) == 0 {
		def["format"] = zGenFormats(rng)
		feat["pd-format"]++
	}
	useSR := rng.Intn(5) < 2
	groups := []string{"A", "B", "C"}[:1+rng.Intn(3)]
	nd := 1 + rng.Intn(3)
	if rng.Intn(15) == 0 {
		nd = 0
	}
	ds := []interface{}{}
	fid := 0
	for i := 0; i < nd; i++ {
		d := map[string]interface{}{"id": "d" + strconv.Itoa(i+1)}
		fidStart := fid
		if rng.Intn(25) == 0 && i > 0 {
			d["id"] = "d1"
			feat["dup-descriptor-id"]++
		}
		if rng.Intn(3) == 0 {
			d["name"] = "n" + strconv.Itoa(i)
		}
		if useSR {
			g := []interface{}{zPick(rng, groups)}
			if rng.Intn(4) == 0 {
				g = append(g, zPick(rng, groups))
			}
			if rng.Intn(20) == 0 {
				g = append(g, "Z")
			}
			if rng.Intn(12) > 0 {
				d["group"] = g
			}
		}
		if rng.Intn(5) == 0 {
			d["format"] = zGenFormats(rng)
			feat["descriptor-format"]++
		}
		if !useSR && i > 0 && rng.Intn(5) == 0 {
			// the same constraints as the previous descriptor (or none): one credential serves both
			if prev, ok := ds[i-1].(map[string]interface{})["constraints"]; ok && rng.Intn(3) > 0 {
				// deep copy without field ids (the same id in two descriptors makes ResolveConstraintsFields order dependent)
				var cp map[string]interface{}
				pb, _ := json.Marshal(prev)
				json.Unmarshal(pb, &cp)
				if fs, ok := cp["fields"].([]interface{}); ok {
					for _, f := range fs {
						delete(f.(map[string]interface{}), "id")
					}
				}
				d["constraints"] = cp
			} else {
				d["constraints"] = map[string]interface{}{}
			}
			feat["descriptor-shares-credential"]++
		} else if rng.Intn(30) > 0 {
			var target interface{}
			var hits []string
			if len(creds) > 0 && rng.Intn(8) > 0 {
				target = zTree(creds[rng.Intn(len(creds))])
				for _, p := range zPathPool {
					if v := zLookup(target, p); v != nil {
						if a, ok := v.([]interface{}); !ok || len(a) > 0 {
							hits = append(hits, p)
						}
					}
				}
			}
			fields := []interface{}{}
			for k := rng.Intn(4); k > 0; k-- {
				f := map[string]interface{}{}
				paths := []interface{}{}
				for p := 1 + rng.Intn(2); p > 0; p-- {
					if len(hits) > 0 && rng.Intn(5) > 0 {
						paths = append(paths, zPick(rng, hits))
					} else {
						paths = append(paths, zPick(rng, zPathPool))
					}
				}
				if rng.Intn(60) == 0 {
					paths = append(paths, "$.a.")
				}
				if rng.Intn(60) == 0 {
					paths = append([]interface{}{"$"}, paths...)
				}
				f["path"] = paths
				var tv interface{}
				if target != nil {
					tv = zLookup(target, paths[0].(string))
				}
				if rng.Intn(4) > 0 {
					f["filter"] = zGenFilter(rng, tv)
				}
				if rng.Intn(4) == 0 {
					f["optional"] = rng.Intn(4) > 0
				}
				if rng.Intn(3) == 0 {
					fid++
					f["id"] = "f" + strconv.Itoa(fid)
					// the same id twice only inside one descriptor: across descriptors the result of
					// ResolveConstraintsFields depends on Go map iteration order
					if rng.Intn(10) == 0 && fid-1 > fidStart {
						f["id"] = "f" + strconv.Itoa(fid-1)
					}
				}
				fields = append(fields, f)
			}
			c := map[string]interface{}{}
			if len(fields) > 0 || rng.Intn(2) == 0 {
				c["fields"] = fields
			}
			d["constraints"] = c
		}
		ds = append(ds, d)
	}
	def["input_descriptors"] = ds
	if useSR {
		srs := []interface{}{}
		zPickOnly = rng.Intn(4) == 0
		if zPickOnly {
			feat["mode:pick-only-requirements"]++
		}
		defer func() { zPickOnly = false }()
		used := []string{}
		for _, d := range ds {
			if g, ok := d.(map[string]interface{})["group"].([]interface{}); ok {
				for _, x := range g {
					dup := false
					for _, u := range used {
						dup = dup || u == x.(string)
					}
					if !dup {
						used = append(used, x.(string))
					}
				}
			}
		}
		if len(used) > 0 && rng.Intn(10) < 7 {
			// every group that is used gets a requirement (otherwise Match reports the group as not available)
			rng.Shuffle(len(used), func(i, j int) { used[i], used[j] = used[j], used[i] })
			for _, g := range used {
				srs = append(srs, zGenSR(rng, groups, 2, feat, g))
			}
			if rng.Intn(4) == 0 {
				srs = append(srs, zGenSR(rng, groups, 2, feat, ""))
			}
		} else {
			for k := 1 + rng.Intn(2); k > 0; k-- {
				srs = append(srs, zGenSR(rng, groups, 2, feat, ""))
			}
		}
		def["submission_requirements"] = srs
		feat["mode:submission-requirements"]++
	} else {
		feat["mode:basic"]++
	}
	b, _ := json.Marshal(def)
	return string(b)
}

func zGenWallet(rng *rand.Rand, n int) []int {
	w := []int{}
	switch rng.Intn(8) {
	case 0, 2, 3, 4: // everything, in order
		for i := 0; i < n; i++ {
			w = append(w, i)
		}
	case 1: // empty
	default:
		perm := rng.Perm(n)
		k := rng.Intn(n + 1)
		w = append(w, perm[:k]...)
		if k > 0 && rng.Intn(8) == 0 {
			w = append(w, perm[0]) // the same credential twice
		}
	}
	return w
}

// ---------- replay of an ops file (only the raw inputs are read back)

func (r *zRun) replayFile(path string) {
	f, err := os.Open(path)
	if err != nil {
		r.t.Fatal(err)
	}
	defer f.Close()
	sc := bufio.NewScanner(f)
	sc.Buffer(make([]byte, 1<<20), 1<<26)
	live := false
	for sc.Scan() {
		var op zOp
		if json.Unmarshal(sc.Bytes(), &op) != nil {
			continue
		}
		switch op.Op {
		case "case", "reject":
			live = r.opCase(op.DefRaw, op.Srcs)
		case "match":
			if live {
				r.opMatch(op.Wallet)
			}
		case "build":
			if live {
				r.opBuild(op.Wallets)
			}
		case "validate":
			if live {
				r.opValidate(op.EnvRaw, op.Sub, op.Mut)
			}
		case "fields":
			if live {
				r.opFields(op.CredMap)
			}
		case "nildef":
			if live {
				r.opNilDef(op.NilRaw, op.Wallet)
			}
		case "vpformat":
			r.opVPFormat(op.Supported)
		case "envjson":
			r.opEnvJSON(op.EnvText)
		}
	}
}

func TestVerifC12(t *testing.T) {
	outDir := os.Getenv("VERIF_OUT")
	if outDir == "" {
		t.Skip("VERIF_OUT not set")
	}
	seed, _ := strconv.ParseInt(os.Getenv("VERIF_SEED"), 10, 64)
	nCases := 4000
	if os.Getenv("VERIF_TIER") == "thorough" {
		nCases = 40000
	}
	if v, err := strconv.Atoi(os.Getenv("VERIF_CASES")); err == nil {
		nCases = v
	}
	fo, err := os.Create(filepath.Join(outDir, "ops.jsonl"))
	if err != nil {
		t.Fatal(err)
	}
	fi, err := os.Create(filepath.Join(outDir, "impl.out"))
	if err != nil {
		t.Fatal(err)
	}
	r := &zRun{t: t, ops: bufio.NewWriterSize(fo, 1<<20), out: bufio.NewWriterSize(fi, 1<<20), stats: map[string]int{}}
	defer func() {
		r.ops.Flush()
		r.out.Flush()
		fo.Close()
		fi.Close()
		b, _ := json.MarshalIndent(r.stats, "", " ")
		os.WriteFile(filepath.Join(outDir, "stats.json"), b, 0o644)
	}()
	if rp := os.Getenv("VERIF_REPLAY"); rp != "" {
		r.replayFile(rp)
		return
	}
	if cd := os.Getenv("VERIF_CORPUS"); cd != "" {
		files, _ := filepath.Glob(filepath.Join(cd, "*.jsonl"))
		sort.Strings(files)
		for _, fn := range files {
			r.replayFile(fn)
			r.stats["corpus-files"]++
		}
	}
	rng := rand.New(rand.NewSource(seed*7919 + 12))
	for c := 0; c < nCases; c++ {
		if c%25 == 12 {
			r.pickWindowCase(rng)
			continue
		}
		if c%25 == 7 {
			r.ecmaCase(rng)
			continue
		}
		if c%25 == 18 {
			r.pickCountNestedCase(rng)
			continue
		}
		if c%20 == 9 {
			r.envJSONCase(rng)
		}
		if c%40 == 3 {
			// ChooseVPFormat on a random subset of metadata keys (in random order; nil map included)
			keys := []string{}
			for _, k := range rng.Perm(len(zVPFormatKeys)) {
				if rng.Intn(3) == 0 {
					keys = append(keys, zVPFormatKeys[k])
				}
			}
			r.opVPFormat(keys)
		}
		if c%500 == 250 {
			// definitions with nil entries, against the credentials of a small case
			srcs := []zCredSrc{zGenCred(rng, 0), zGenCred(rng, 1)}
			if r.opCase(`{"id":"pd","input_descriptors":[{"id":"d1","constraints":{}}]}`, srcs) {
				for _, nd := range zNilDefs {
					r.opNilDef(nd, zGenWallet(rng, 2))
				}
			}
			continue
		}
		if c%8000 == 1500 {
			r.hostileRegexCase(36 + rng.Intn(8))
			r.stats["hostile-regex-case"]++
			continue
		}
		n := 1 + rng.Intn(5)
		srcs := []zCredSrc{}
		creds := []vc.VerifiableCredential{}
		for i := 0; i < n; i++ {
			s := zGenCred(rng, i)
			pc, err := zParseCred(s)
			if err != nil {
				t.Fatalf("generated credential does not parse: %v\n%s", err, s.Src)
			}
			srcs = append(srcs, s)
			creds = append(creds, *pc)
		}
		defRaw := zGenDef(rng, creds, r.stats)
		if !r.opCase(defRaw, srcs) {
			continue
		}
		for k := 1 + rng.Intn(2); k > 0; k-- {
			w := zGenWallet(rng, n)
			r.opMatch(w)
			r.walletFlow(rng, w, n)
		}
		if len(r.pd.SubmissionRequirements) > 0 && rng.Intn(2) == 0 {
			// wallets that usually cannot fulfil the requirements: empty, or a single credential
			w := []int{}
			if rng.Intn(2) == 0 {
				w = []int{rng.Intn(n)}
			}
			r.opMatch(w)
			r.walletFlow(rng, w, n)
		}
		if rng.Intn(4) == 0 || (len(r.pd.SubmissionRequirements) > 0 && rng.Intn(3) == 0) {
			r.arbitraryEnvelope(rng, n)
		}
	}
}

// walletFlow: what the wallet does (Build, present) and what the verifier does with it (Validate, ResolveConstraintsFields),
// then the same envelope with damaged / forged descriptor maps
func (r *zRun) walletFlow(rng *rand.Rand, w []int, n int) {
	wallets := [][]int{w}
	if rng.Intn(6) == 0 {
		wallets = append([][]int{zGenWallet(rng, n)}, w)
	}
	sign, ps := r.opBuild(wallets)
	if sign == nil {
		return
	}
	sub := []zMapping{}
	for _, m := range ps.DescriptorMap {
		sub = append(sub, zFromIDMO(m))
	}
	jwtVP := rng.Intn(2) == 0
	signerOK := rng.Intn(12) > 0
	vpText := zMakeVP(jwtVP, sign.VerifiableCredentials, signerOK, rng.Intn(1000))
	envRaw := zEnvelopeText([]string{vpText}, false)
	r.opValidate(envRaw, sub, "orig")
	// the credentials the verifier derived feed ResolveConstraintsFields
	if len(sub) > 0 {
		cm := [][]interface{}{}
		for i, m := range sign.Mappings {
			if i >= len(sign.VerifiableCredentials) {
				break // fewer credentials than mappings: reported by the oracles on the build/validate lines
			}
			for ci := range r.creds {
				if zKey(r.creds[ci]) == zKey(sign.VerifiableCredentials[i]) {
					cm = append(cm, []interface{}{m.Id, ci})
					break
				}
			}
		}
		r.opFields(cm)
		if rng.Intn(3) == 0 { // arbitrary assignment
			cm2 := [][]interface{}{}
			for _, d := range r.pd.InputDescriptors {
				if rng.Intn(4) > 0 {
					cm2 = append(cm2, []interface{}{d.Id, rng.Intn(n)})
				}
			}
			cm2 = append(cm2, []interface{}{"dX", rng.Intn(n)})
			r.opFields(cm2)
		}
	}
	muts := zMutations(rng, sub, len(sign.VerifiableCredentials))
	names := []string{}
	for k := range muts {
		names = append(names, k)
	}
	sort.Strings(names)
	rng.Shuffle(len(names), func(i, j int) { names[i], names[j] = names[j], names[i] })
	for _, k := range names[:min(len(names), 6)] {
		r.opValidate(envRaw, muts[k], k)
	}
	// a DIFFERENT credential with the SAME id (a variant / re-issue with other claims) rides along in the presentation:
	// the honest map must still be accepted, a map pointing at the variant must be rejected
	if len(sub) > 0 && rng.Intn(3) == 0 {
		r.variantFlow(rng, sign, sub, jwtVP)
	}
	// the same presentation inside an array envelope: mappings need path_nested
	if rng.Intn(4) == 0 {
		other := zMakeVP(rng.Intn(2) == 0, nil, true, rng.Intn(1000))
		pos := rng.Intn(2)
		vps := []string{vpText, other}
		if pos == 1 {
			vps = []string{other, vpText}
		}
		if rng.Intn(3) == 0 {
			vps = []string{vpText}
			pos = 0
		}
		arr := zEnvelopeText(vps, true)
		nested := []zMapping{}
		for _, m := range sub {
			inner := m
			f := "ldp_vp"
			if rng.Intn(6) == 0 {
				f = "jwt_vp"
			}
			nested = append(nested, zMapping{Id: m.Id, Fmt: f, Path: "$[" + strconv.Itoa(pos) + "]", Nested: &inner})
		}
		r.opValidate(arr, nested, "array-nested")
		r.opValidate(arr, sub, "array-flat")
		// junk slots (null, number, boolean, array, empty string / object) at every position of the array envelope,
		// with descriptor maps addressing each index
		if rng.Intn(2) == 0 {
			junk := []string{"null", "5", "true", "[1]", `""`, "{}", `"not.a.jwt"`}
			parts := []string{}
			quote := func(v string) string {
				if strings.HasPrefix(v, "{") {
					return v
				}
				q, _ := json.Marshal(v)
				return string(q)
			}
			for _, v := range vps {
				parts = append(parts, quote(v))
			}
			at := rng.Intn(len(parts) + 1)
			parts = append(parts[:at], append([]string{junk[rng.Intn(len(junk))]}, parts[at:]...)...)
			if rng.Intn(3) == 0 {
				at2 := rng.Intn(len(parts) + 1)
				parts = append(parts[:at2], append([]string{junk[rng.Intn(len(junk))]}, parts[at2:]...)...)
			}
			junkArr := "[" + strings.Join(parts, ",") + "]"
			for k := 0; k < len(parts); k++ {
				addressed := []zMapping{}
				for _, m := range sub {
					inner := m
					addressed = append(addressed, zMapping{Id: m.Id, Fmt: "ldp_vp", Path: "$[" + strconv.Itoa(k) + "]", Nested: &inner})
				}
				r.opValidate(junkArr, addressed, "array-junk-slot")
			}
		}
		if len(nested) > 0 {
			am := zMutations(rng, nested, len(sign.VerifiableCredentials))
			for _, k := range []string{"nested-under-credential-dangling", "nested-under-credential-to-subject", "nested-under-credential-to-string", "nested-under-credential-self"} {
				if fm, ok := am[k]; ok && rng.Intn(2) == 0 {
					r.opValidate(arr, fm, "array-"+k)
				}
			}
		}
	}
}

// zVariant: same id, same format, other claims
func zVariant(src zCredSrc) (*vc.VerifiableCredential, bool) {
	tweak := func(subject interface{}) bool {
		m, ok := subject.(map[string]interface{})
		if !ok {
			return false
		}
		m["role"] = "admin"
		m["variant"] = "yes"
		return true
	}
	if src.Holder {
		return nil, false
	}
	var text string
	if strings.HasPrefix(src.Src, "{") {
		var doc map[string]interface{}
		if json.Unmarshal([]byte(src.Src), &doc) != nil || doc["id"] == nil || !tweak(doc["credentialSubject"]) {
			return nil, false
		}
		b, _ := json.Marshal(doc)
		text = string(b)
	} else {
		parts := strings.Split(src.Src, ".")
		if len(parts) != 3 {
			return nil, false
		}
		raw, err := base64.RawURLEncoding.DecodeString(parts[1])
		var claims map[string]interface{}
		if err != nil || json.Unmarshal(raw, &claims) != nil || claims["jti"] == nil {
			return nil, false
		}
		inner, _ := claims["vc"].(map[string]interface{})
		if inner == nil || !tweak(inner["credentialSubject"]) {
			return nil, false
		}
		text = parts[0] + "." + zB64(claims) + "." + parts[2]
	}
	c, err := vc.ParseVerifiableCredential(text)
	if err != nil {
		return nil, false
	}
	return c, true
}

func (r *zRun) variantFlow(rng *rand.Rand, sign *SignInstruction, sub []zMapping, jwtVP bool) {
	if len(sub) != len(sign.VerifiableCredentials) {
		return
	}
	i := rng.Intn(len(sub))
	var variant *vc.VerifiableCredential
	for ci := range r.creds {
		if zKey(r.creds[ci]) == zKey(sign.VerifiableCredentials[i]) {
			if v, ok := zVariant(r.srcs[ci]); ok {
				variant = v
			}
			break
		}
	}
	if variant == nil || variant.Raw() == sign.VerifiableCredentials[i].Raw() {
		return
	}
	creds := append(append([]vc.VerifiableCredential{}, sign.VerifiableCredentials...), *variant)
	envRaw := zEnvelopeText([]string{zMakeVP(jwtVP, creds, true, rng.Intn(1000))}, false)
	honest := append([]zMapping{}, sub...)
	for k := range honest {
		honest[k].Path = "$.verifiableCredential[" + strconv.Itoa(k) + "]" // the presentation now holds at least two credentials
	}
	r.opValidate(envRaw, honest, "variant-rides-along")
	forged := append([]zMapping{}, honest...)
	forged[i].Path = "$.verifiableCredential[" + strconv.Itoa(len(creds)-1) + "]"
	forged[i].Fmt = variant.Format()
	r.opValidate(envRaw, forged, "forged-to-same-id-variant")
}

// pickWindowCase: a pick requirement with min/max over a group (or over nested requirements) whose members are matched or
// not at EVERY position: one descriptor per credential id, the wallet holds a random subset in random order
func (r *zRun) pickWindowCase(rng *rand.Rand) {
	k := 3 + rng.Intn(2)
	srcs := []zCredSrc{}
	ds := []interface{}{}
	nested := rng.Intn(2) == 0
	nestedSRs := []interface{}{}
	for i := 0; i < k; i++ {
		id := "did:example:issuer#w" + strconv.Itoa(i)
		doc := map[string]interface{}{"@context": []interface{}{"https://www.w3.org/2018/credentials/v1"}, "id": id,
			"type": []interface{}{"VerifiableCredential", zPick(rng, zTypes)}, "issuer": "did:example:issuer0", "issuanceDate": "2020-01-01T00:00:00Z",
			"credentialSubject": map[string]interface{}{"id": "did:example:holder0", "role": zPick(rng, zRoles)}}
		b, _ := json.Marshal(doc)
		srcs = append(srcs, zCredSrc{Src: string(b)})
		g := "A"
		if nested {
			g = "G" + strconv.Itoa(i)
			nestedSRs = append(nestedSRs, map[string]interface{}{"rule": "all", "from": g})
		}
		ds = append(ds, map[string]interface{}{"id": "d" + strconv.Itoa(i+1), "group": []interface{}{g},
			"constraints": map[string]interface{}{"fields": []interface{}{map[string]interface{}{"path": []interface{}{"$.id"}, "id": "f" + strconv.Itoa(i+1),
				"filter": map[string]interface{}{"type": "string", "const": id}}}}})
	}
	sr := map[string]interface{}{"rule": "pick"}
	mn := rng.Intn(3)
	mx := mn + rng.Intn(3)
	switch rng.Intn(4) {
	case 0:
		sr["min"] = mn
	case 1:
		sr["max"] = 1 + rng.Intn(3)
	default:
		sr["min"], sr["max"] = mn, mx
	}
	if nested {
		sr["from_nested"] = nestedSRs
	} else {
		sr["from"] = "A"
	}
	def := map[string]interface{}{"id": "pdw", "input_descriptors": ds, "submission_requirements": []interface{}{sr}}
	b, _ := json.Marshal(def)
	r.stats["pick-window-case"]++
	if !r.opCase(string(b), srcs) {
		return
	}
	for rep := 0; rep < 3; rep++ {
		w := []int{}
		for _, i := range rng.Perm(k) {
			if rng.Intn(5) < 3 {
				w = append(w, i)
			}
		}
		r.opMatch(w)
		r.walletFlow(rng, w, k)
	}
}

// pickCountNestedCase: pick/count over `from_nested` whose members are `all from G_j` requirements over groups of ONE OR TWO
// descriptors (a taken member contributes 1 or 2 credentials, so "credentials collected" and "members taken" differ), one
// distinct credential per descriptor; wallets: everything (in random order), and random subsets
func (r *zRun) pickCountNestedCase(rng *rand.Rand) {
	ng := 3 + rng.Intn(2)
	srcs := []zCredSrc{}
	ds := []interface{}{}
	nestedSRs := []interface{}{}
	k := 0
	for j := 0; j < ng; j++ {
		g := "G" + strconv.Itoa(j)
		nestedSRs = append(nestedSRs, map[string]interface{}{"rule": "all", "from": g})
		for m := 1 + rng.Intn(2); m > 0; m-- {
			id := "did:example:issuer#n" + strconv.Itoa(k)
			doc := map[string]interface{}{"@context": []interface{}{"https://www.w3.org/2018/credentials/v1"}, "id": id,
				"type": []interface{}{"VerifiableCredential", zPick(rng, zTypes)}, "issuer": "did:example:issuer0", "issuanceDate": "2020-01-01T00:00:00Z",
				"credentialSubject": map[string]interface{}{"id": "did:example:holder0", "role": zPick(rng, zRoles)}}
			b, _ := json.Marshal(doc)
			srcs = append(srcs, zCredSrc{Src: string(b)})
			ds = append(ds, map[string]interface{}{"id": "d" + strconv.Itoa(k+1), "group": []interface{}{g},
				"constraints": map[string]interface{}{"fields": []interface{}{map[string]interface{}{"path": []interface{}{"$.id"}, "id": "f" + strconv.Itoa(k+1),
					"filter": map[string]interface{}{"type": "string", "const": id}}}}})
			k++
		}
	}
	sr := map[string]interface{}{"rule": "pick", "count": 1 + rng.Intn(ng-1), "from_nested": nestedSRs}
	def := map[string]interface{}{"id": "pdn", "input_descriptors": ds, "submission_requirements": []interface{}{sr}}
	b, _ := json.Marshal(def)
	r.stats["pick-count-nested-case"]++
	if !r.opCase(string(b), srcs) {
		return
	}
	for rep := 0; rep < 3; rep++ {
		w := []int{}
		for _, i := range rng.Perm(k) {
			if rep == 0 || rng.Intn(5) < 4 {
				w = append(w, i)
			}
		}
		r.opMatch(w)
		r.walletFlow(rng, w, k)
	}
}

// values on which ECMA-262 and other regular-expression dialects (.NET/RE2/PCRE defaults) disagree for anchored class
// patterns: a final line feed (`$`), non-ASCII digits and letters (\d, \w), case folding specials — next to plain ones
var zEcmaValues = []string{"admin", "admin\n", "nurse", "nurse\n", "1234", "\u0661\u0662\u0663\u0664", "12\n", "\u0967\u0968\u0969\u096a", "\uff41\uff44\uff4d\uff49\uff4e",
	"\u00dcnit", "unit", "\u212a", "K", "\u017f", "ab_1", "ab 1", "", "\nadmin", "Admin", "12345", "12", "Z", "a"}
var zEcmaPatterns = []string{"^[a-z]+$", "^\\d{4}$", "^\\w+$", "^[0-9]{2,4}$", "^[A-Za-z]*$", "^\\d+$", "^[a-z]{5}$", "^[a-zA-Z0-9]{1,}$", "^[\\w]{4}$", "^[K-k]$", "^\\w$", "^[a-z\\d]+$"}

// ecmaCase: anchored class patterns against near-matching values; every credential alone and the whole wallet are
// matched, built, validated and their named field resolved
func (r *zRun) ecmaCase(rng *rand.Rand) {
	k := 2 + rng.Intn(3)
	srcs := []zCredSrc{}
	for i := 0; i < k; i++ {
		subject := map[string]interface{}{"id": "did:example:holder0", "role": zPick(rng, zEcmaValues)}
		if rng.Intn(3) == 0 {
			subject["tags"] = []interface{}{zPick(rng, zEcmaValues), zPick(rng, zEcmaValues)}
		}
		doc := map[string]interface{}{"@context": []interface{}{"https://www.w3.org/2018/credentials/v1"}, "id": "did:example:issuer#e" + strconv.Itoa(i),
			"type": []interface{}{"VerifiableCredential", zPick(rng, zTypes)}, "issuer": "did:example:issuer0", "issuanceDate": "2020-01-01T00:00:00Z",
			"credentialSubject": subject}
		b, _ := json.Marshal(doc)
		srcs = append(srcs, zCredSrc{Src: string(b)})
	}
	paths := []interface{}{"$.credentialSubject.role"}
	if rng.Intn(3) == 0 {
		paths = []interface{}{"$.credentialSubject.tags", "$.credentialSubject.role"}
	}
	ds := []interface{}{map[string]interface{}{"id": "d1", "constraints": map[string]interface{}{"fields": []interface{}{
		map[string]interface{}{"id": "f1", "path": paths, "filter": map[string]interface{}{"type": "string", "pattern": zPick(rng, zEcmaPatterns)}}}}}}
	if rng.Intn(3) == 0 {
		ds = append(ds, map[string]interface{}{"id": "d2", "constraints": map[string]interface{}{"fields": []interface{}{
			map[string]interface{}{"id": "f2", "path": []interface{}{"$.credentialSubject.role"}, "optional": rng.Intn(2) == 0,
				"filter": map[string]interface{}{"type": "string", "pattern": zPick(rng, zEcmaPatterns)}}}}})
	}
	def := map[string]interface{}{"id": "pde", "input_descriptors": ds}
	b, _ := json.Marshal(def)
	r.stats["ecma-case"]++
	if !r.opCase(string(b), srcs) {
		return
	}
	for i := 0; i < k; i++ {
		r.opMatch([]int{i})
		r.walletFlow(rng, []int{i}, k)
	}
	w := rng.Perm(k)
	r.opMatch(w)
	r.walletFlow(rng, w, k)
}

var zVPFormatKeys = []string{"jwt_vp", "jwt_vp_json", "ldp_vp", "ldp_vc", "jwt_vc", "jwt_vc_json", "", "JWT_VP", "ldp"}

func (r *zRun) opVPFormat(keys []string) {
	var m map[string]map[string][]string
	if len(keys) > 0 {
		m = map[string]map[string][]string{}
		for _, k := range keys {
			m[k] = map[string][]string{"alg_values_supported": {"ES256"}}
		}
	}
	r.stats["vpformat"]++
	r.emit(zOp{Op: "vpformat", Supported: keys}, "vpformat "+ChooseVPFormat(m))
}

// hostileRegexCase: a verifier-chosen pattern with catastrophic backtracking on a wallet value; only Match is run, under the watchdog
func (r *zRun) hostileRegexCase(n int) {
	name := strings.Repeat("a", n) + "!"
	doc := map[string]interface{}{"@context": []interface{}{"https://www.w3.org/2018/credentials/v1"}, "id": "did:example:issuer#hostile",
		"type": []interface{}{"VerifiableCredential", "AlphaCredential"}, "issuer": "did:example:issuer0", "issuanceDate": "2020-01-01T00:00:00Z",
		"credentialSubject": map[string]interface{}{"id": "did:example:holder0", "name": name}}
	b, _ := json.Marshal(doc)
	def := `{"id":"pd","input_descriptors":[{"id":"d1","constraints":{"fields":[{"path":["$.credentialSubject.name"],"filter":{"type":"string","pattern":"^(a+)+$"}}]}}]}`
	if r.opCase(def, []zCredSrc{{Src: string(b)}}) {
		r.opMatch([]int{0})
	}
}

// arbitraryEnvelope: a presentation that was not produced by Build (credentials in any order, surplus credentials),
// with a descriptor map taken from Match on some wallet or invented
func (r *zRun) arbitraryEnvelope(rng *rand.Rand, n int) {
	w := zGenWallet(rng, n)
	creds := []vc.VerifiableCredential{}
	for _, i := range w {
		creds = append(creds, r.creds[i])
	}
	envRaw := zEnvelopeText([]string{zMakeVP(rng.Intn(2) == 0, creds, true, rng.Intn(1000))}, false)
	sub := []zMapping{}
	func() {
		defer func() { recover() }()
		_, maps, err := r.pd.Match(creds)
		if err == nil {
			for _, m := range maps {
				sub = append(sub, zFromIDMO(m))
			}
			if len(sub) == 1 {
				sub[0].Path = "$.verifiableCredential"
			}
		}
	}()
	if rng.Intn(2) == 0 {
		r.opValidate(envRaw, []zMapping{}, "arbitrary-empty-map")
	}
	if len(sub) == 0 || rng.Intn(3) == 0 {
		sub = []zMapping{}
		for _, d := range r.pd.InputDescriptors {
			if len(creds) > 0 && rng.Intn(4) > 0 {
				i := rng.Intn(len(creds))
				p := "$.verifiableCredential[" + strconv.Itoa(i) + "]"
				if len(creds) == 1 {
					p = "$.verifiableCredential"
				}
				sub = append(sub, zMapping{Id: d.Id, Fmt: creds[i].Format(), Path: p})
			}
		}
		r.opValidate(envRaw, sub, "arbitrary-invented")
		return
	}
	r.opValidate(envRaw, sub, "arbitrary-matched")
}
