//go:build verif

// C11 correspondence harness, ambassador (injected with `go test -overlay`; nothing is written into /repo).
// The real ambassador.handleNetworkRevocations with the real verifier on a real leia store whose StoreRevocation can be
// made to fail with (wrapped) context time-outs / cancellations or other storage errors.
package vcr

import (
	"bufio"
	"context"
	"crypto"
	"crypto/ecdsa"
	"encoding/json"
	"errors"
	"fmt"
	"math/rand"
	"os"
	"path"
	"path/filepath"
	"sort"
	"strconv"
	"strings"
	"testing"
	"time"

	ssi "github.com/nuts-foundation/go-did"
	"github.com/nuts-foundation/go-leia/v4"
	"github.com/nuts-foundation/go-did/did"
	"github.com/nuts-foundation/go-did/vc"
	"github.com/nuts-foundation/nuts-node/audit"
	nutsCrypto "github.com/nuts-foundation/nuts-node/crypto"
	"github.com/nuts-foundation/nuts-node/crypto/dpop"
	"github.com/nuts-foundation/nuts-node/crypto/storage/spi"
	"github.com/nuts-foundation/nuts-node/jsonld"
	"github.com/nuts-foundation/nuts-node/network"
	"github.com/nuts-foundation/nuts-node/network/dag"
	"github.com/nuts-foundation/nuts-node/storage"
	"github.com/nuts-foundation/nuts-node/storage/orm"
	testio "github.com/nuts-foundation/nuts-node/test/io"
	"github.com/nuts-foundation/nuts-node/vcr/credential"
	"github.com/nuts-foundation/nuts-node/vcr/revocation"
	"github.com/nuts-foundation/nuts-node/vcr/signature"
	"github.com/nuts-foundation/nuts-node/vcr/signature/proof"
	"github.com/nuts-foundation/nuts-node/vcr/trust"
	"github.com/nuts-foundation/nuts-node/vcr/types"
	"github.com/nuts-foundation/nuts-node/vcr/verifier"
	"github.com/nuts-foundation/nuts-node/vdr/resolver"
	"github.com/sirupsen/logrus"
	"go.uber.org/mock/gomock"
)

type c11aOp struct {
	Op      string `json:"op"` // areset | adeliver | averify
	Sc      int    `json:"sc"`
	Subject string `json:"subject,omitempty"`
	Issuer  string `json:"issuer,omitempty"`
	Fault   string `json:"fault,omitempty"` // "" | deadline | canceled | other
	Wraps   int    `json:"wraps,omitempty"` // how often the store wraps the context error with %w (RegisterRevocation wraps once more)
	ID      string `json:"id,omitempty"`
	// areprocess: content type of the re-processed transaction ("" in the op = private transaction without payload)
	CT        string `json:"ct,omitempty"`
	NoPayload bool   `json:"nopayload,omitempty"`
	// astore: a credential (id, issuer = id prefix unless Issuer is given) put into the node's credential store; Exp: it expires in one hour
	// aresolve / asearch: vcr.Resolve(id, resolveTime) / vcr.Search(issuer prefix did:nuts:, allowUntrusted, resolveTime);
	// resolveTime = now + At minutes (0: nil). atrust: the operator trusts Issuer for TestCredential
	Exp       bool `json:"exp,omitempty"`
	At        int  `json:"at,omitempty"`
	Untrusted bool `json:"untrusted,omitempty"`
}

const (
	c11aA = "did:nuts:AAAAAAAAAAAAAAAAAAAAAAAAAAAAAAAAAAAAAAAAAAAA"
	c11aB = "did:nuts:BBBBBBBBBBBBBBBBBBBBBBBBBBBBBBBBBBBBBBBBBBBB"
)

type c11aKeys struct{ priv map[string]*ecdsa.PrivateKey }

func (k *c11aKeys) ResolveKeyByID(keyID string, _ *resolver.ResolveMetadata, _ resolver.RelationType) (crypto.PublicKey, error) {
	if p, ok := k.priv[keyID]; ok {
		return p.Public(), nil
	}
	return nil, resolver.ErrKeyNotFound
}
func (k *c11aKeys) ResolveKey(id did.DID, _ *time.Time, _ resolver.RelationType) (string, crypto.PublicKey, error) {
	if p, ok := k.priv[id.String()+"#k1"]; ok {
		return id.String() + "#k1", p.Public(), nil
	}
	return "", nil, resolver.ErrKeyNotFound
}
func (k *c11aKeys) SignJWT(context.Context, map[string]interface{}, map[string]interface{}, string) (string, error) {
	return "", errors.New("not used")
}
func (k *c11aKeys) SignDPoP(context.Context, dpop.DPoP, string) (string, error) {
	return "", errors.New("not used")
}
func (k *c11aKeys) SignJWS(ctx context.Context, payload []byte, headers map[string]interface{}, kid string, detached bool) (string, error) {
	p, ok := k.priv[kid]
	if !ok {
		return "", nutsCrypto.ErrPrivateKeyNotFound
	}
	return nutsCrypto.SignJWS(ctx, payload, headers, p, detached)
}

// c11aStore is the real leia store with fault injection on the next StoreRevocation
type c11aStore struct {
	verifier.Store
	fault string
	wraps int
}

func (s *c11aStore) StoreRevocation(r credential.Revocation) error {
	f, n := s.fault, s.wraps
	s.fault = ""
	var err error
	switch f {
	case "":
		return s.Store.StoreRevocation(r)
	case "deadline":
		err = context.DeadlineExceeded
	case "canceled":
		err = context.Canceled
	default:
		return errors.New("verif: disk full")
	}
	for i := 0; i < n; i++ {
		err = fmt.Errorf("database error (level %d): %w", i, err)
	}
	return err
}

type c11aWriter struct{}

func (c11aWriter) StoreCredential(vc.VerifiableCredential, *time.Time) error { return nil }

type c11aWorld struct {
	t     *testing.T
	keys  *c11aKeys
	ld    jsonld.JSONLD
	dir   string
	n     int
	store *c11aStore
	v     verifier.Verifier
	amb   ambassador
	tx    dag.Transaction
	node  *vcr
	trust *trust.Config
}

func (w *c11aWorld) reset() {
	if w.store != nil {
		_ = w.store.Close()
	}
	w.n++
	backup := storage.CreateTestBBoltStore(w.t, path.Join(w.dir, fmt.Sprintf("backup-%d.db", w.n)))
	st, err := verifier.NewLeiaVerifierStore(path.Join(w.dir, fmt.Sprintf("verifier-store-%d.db", w.n)), backup)
	if err != nil {
		w.t.Fatal(err)
	}
	w.store = &c11aStore{Store: st}
	trustConfig := trust.NewConfig(path.Join(w.dir, fmt.Sprintf("trust-%d.yaml", w.n)))
	w.v = verifier.NewVerifier(w.store, nil, w.keys, w.ld, trustConfig, revocation.NewStatusList2021(orm.NewTestDatabase(w.t), nil, "https://verifier.example"))
	w.amb = ambassador{verifier: w.v}
	// the node's credential store (what createCredentialsStore builds) behind the real vcr.Resolve / vcr.Search
	if w.node != nil {
		_ = w.node.store.Close()
	}
	ls, err := leia.NewStore(path.Join(w.dir, fmt.Sprintf("credentials-%d.db", w.n)), leia.WithDocumentLoader(w.ld.DocumentLoader()))
	if err != nil {
		w.t.Fatal(err)
	}
	kv, err := storage.NewKVBackedLeiaStore(ls, storage.CreateTestBBoltStore(w.t, path.Join(w.dir, fmt.Sprintf("backup-creds-%d.db", w.n))))
	if err != nil {
		w.t.Fatal(err)
	}
	kv.AddConfiguration(storage.LeiaBackupConfiguration{CollectionName: "credentials", CollectionType: leia.JSONLDCollection,
		BackupShelf: credentialsBackupShelf, SearchQuery: leia.NewIRIPath()})
	w.trust = trustConfig
	w.node = &vcr{store: kv, verifier: w.v, trustConfig: trustConfig, jsonldManager: w.ld}
}

func (w *c11aWorld) resolveTime(op c11aOp) *time.Time {
	if op.At == 0 {
		return nil
	}
	t := time.Now().Add(time.Duration(op.At) * time.Minute)
	return &t
}

func c11aClass(err error) string {
	switch {
	case err == nil:
		return "ok"
	case errors.Is(err, types.ErrRevoked):
		return "revoked"
	case errors.Is(err, types.ErrUntrusted):
		return "untrusted"
	case errors.Is(err, types.ErrNotFound):
		return "notfound"
	case errors.Is(err, types.ErrCredentialNotValidAtTime):
		return "err:not-valid-at-time"
	}
	return "err:other:" + err.Error()
}

func (w *c11aWorld) signedRevocation(op c11aOp) ([]byte, error) {
	rev := credential.BuildRevocation(ssi.MustParseURI(op.Issuer), ssi.MustParseURI(op.Subject))
	asMap := map[string]interface{}{}
	b, _ := json.Marshal(rev)
	_ = json.Unmarshal(b, &asMap)
	ldProof := proof.NewLDProof(proof.ProofOptions{Created: time.Now()})
	webSig := signature.JSONWebSignature2020{ContextLoader: w.ld.DocumentLoader(), Signer: w.keys}
	res, err := ldProof.Sign(audit.TestContext(), asMap, webSig, op.Issuer+"#k1")
	if err != nil {
		return nil, err
	}
	return json.Marshal(res.(proof.SignedDocument))
}

func (w *c11aWorld) exec(op c11aOp) (line string) {
	defer func() {
		if r := recover(); r != nil {
			line = fmt.Sprintf("%s panic:%v", op.Op, r)
		}
	}()
	switch op.Op {
	case "areset":
		w.reset()
		return "areset"
	case "adeliver":
		payload, err := w.signedRevocation(op)
		if err != nil {
			return "adeliver err:build:" + err.Error()
		}
		w.store.fault, w.store.wraps = op.Fault, op.Wraps
		finished, err := w.amb.handleNetworkRevocations(dag.Event{Type: dag.PayloadEventType, Transaction: w.tx, Payload: payload})
		w.store.fault = ""
		switch {
		case err == nil && finished:
			return "adeliver done"
		case err != nil && errors.As(err, new(dag.EventFatal)):
			return "adeliver fatal"
		case err != nil && !finished:
			return "adeliver retry"
		}
		return fmt.Sprintf("adeliver odd:%v:%v", finished, err)
	case "areprocess":
		// the part of handleReprocessEvent after Ack + Unmarshal (a *nats.Msg cannot be acknowledged without a server):
		// `if len(twp.Payload) != 0 { callback := n.getCallbackFn(twp.Transaction.PayloadType()); callback(tx, payload) }`
		payload, err := w.signedRevocation(op)
		if err != nil {
			return "areprocess err:build:" + err.Error()
		}
		if op.NoPayload {
			payload = nil
		}
		w.store.fault, w.store.wraps = op.Fault, op.Wraps
		failed := false
		if len(payload) != 0 {
			failed = w.amb.getCallbackFn(op.CT)(w.tx, payload) != nil
		}
		w.store.fault = ""
		return fmt.Sprintf("areprocess failed=%v", failed)
	case "awire":
		// the real Configure(): which subscriptions it makes, what their filters let through and where the events end up
		ctrl := gomock.NewController(w.t)
		nw := network.NewMockTransactions(ctrl)
		nw.EXPECT().WithPersistency().Return(network.SubscriberOption(func() dag.NotifierOption { return dag.WithContext(context.Background()) })).AnyTimes()
		notifiers := map[string]dag.Notifier{}
		nw.EXPECT().Subscribe(gomock.Any(), gomock.Any(), gomock.Any()).DoAndReturn(func(name string, r dag.ReceiverFn, opts ...network.SubscriberOption) error {
			var nopts []dag.NotifierOption
			for _, o := range opts {
				nopts = append(nopts, o())
			}
			notifiers[name] = dag.NewNotifier(name, r, nopts...)
			return nil
		}).AnyTimes()
		a := ambassador{networkClient: nw, verifier: w.v, writer: c11aWriter{}}
		if err := a.Configure(); err != nil {
			return "awire err:" + err.Error()
		}
		var names []string
		for n := range notifiers {
			names = append(names, n)
		}
		sort.Strings(names)
		var parts []string
		for ni, name := range names {
			var res []string
			for ei, ev := range []struct{ label, evType, payloadType string }{
				{"rev", dag.PayloadEventType, types.RevocationLDDocumentType}, {"vc", dag.PayloadEventType, types.VcDocumentType},
				{"txevent", dag.TransactionEventType, types.RevocationLDDocumentType}} {
				subject := fmt.Sprintf("%s#wire-%d-%d-%d", c11aA, w.n, ni, ei)
				payload, err := w.signedRevocation(c11aOp{Subject: subject, Issuer: c11aA})
				if err != nil {
					return "awire err:build"
				}
				tx := dag.CreateSignedTestTransaction(uint32(100+ni*10+ei), time.Now(), nil, ev.payloadType, true)
				func() {
					defer func() { _ = recover() }()
					notifiers[name].Notify(dag.Event{Type: ev.evType, Hash: tx.Ref(), Transaction: tx, Payload: payload})
				}()
				stored, _ := w.v.IsRevoked(ssi.MustParseURI(subject))
				res = append(res, fmt.Sprintf("%s=%s", ev.label, map[bool]string{true: "stored", false: "-"}[stored]))
			}
			parts = append(parts, name+":["+strings.Join(res, " ")+"]")
		}
		return "awire " + strings.Join(parts, " ")
	case "astore":
		issuer := op.Issuer
		if issuer == "" {
			issuer = strings.Split(op.ID, "#")[0]
		}
		m := map[string]interface{}{
			"@context":          []interface{}{vc.VCContextV1URI().String()},
			"type":              []interface{}{"VerifiableCredential", "TestCredential"},
			"id":                op.ID,
			"issuer":            issuer,
			"issuanceDate":      time.Now().Add(-time.Hour).Format(time.RFC3339),
			"credentialSubject": map[string]interface{}{"id": c11aB},
		}
		if op.Exp {
			m["expirationDate"] = time.Now().Add(time.Hour).Format(time.RFC3339)
		}
		raw, _ := json.Marshal(m)
		if _, err := w.node.find(ssi.MustParseURI(op.ID)); err == nil {
			return "astore exists"
		}
		if err := w.node.credentialCollection().Add([]leia.Document{raw}); err != nil {
			return "astore err:" + err.Error()
		}
		return "astore ok"
	case "atrust":
		if err := w.trust.AddTrust(ssi.MustParseURI("TestCredential"), ssi.MustParseURI(op.Issuer)); err != nil {
			return "atrust err:" + err.Error()
		}
		return "atrust ok"
	case "aresolve":
		cred, err := w.node.Resolve(ssi.MustParseURI(op.ID), w.resolveTime(op))
		if cred != nil && (cred.ID == nil || cred.ID.String() != op.ID) {
			return "aresolve other-credential"
		}
		return fmt.Sprintf("aresolve cred=%v %s", cred != nil, c11aClass(err))
	case "asearch":
		terms := []SearchTerm{{IRIPath: jsonld.CredentialIssuerPath, Type: Prefix, Value: "did:nuts:"}}
		creds, err := w.node.Search(context.Background(), terms, op.Untrusted, w.resolveTime(op))
		if err != nil {
			return "asearch err:" + err.Error()
		}
		var ids []string
		for _, c := range creds {
			ids = append(ids, c.ID.String())
		}
		sort.Strings(ids)
		return "asearch [" + strings.Join(ids, " ") + "]"
	case "averify":
		m := map[string]interface{}{
			"@context":          []interface{}{vc.VCContextV1URI().String()},
			"type":              []interface{}{"VerifiableCredential", "TestCredential"},
			"id":                op.ID,
			"issuer":            strings.Split(op.ID, "#")[0],
			"issuanceDate":      time.Now().Add(-time.Hour).Format(time.RFC3339),
			"credentialSubject": map[string]interface{}{"id": c11aB},
		}
		raw, _ := json.Marshal(m)
		cred, err := vc.ParseVerifiableCredential(string(raw))
		if err != nil {
			return "averify err:build"
		}
		err = w.v.Verify(*cred, true, false, nil)
		switch {
		case err == nil:
			return "averify ok"
		case errors.Is(err, types.ErrRevoked):
			return "averify revoked"
		}
		return "averify err:" + err.Error()
	}
	return "bad-op:" + op.Op
}

func TestVerifC11a(t *testing.T) {
	outDir := os.Getenv("VERIF_OUT")
	if outDir == "" {
		t.Skip("VERIF_OUT not set")
	}
	logrus.SetLevel(logrus.PanicLevel)
	seed, _ := strconv.ParseInt(os.Getenv("VERIF_SEED"), 10, 64)
	nScen, _ := strconv.Atoi(os.Getenv("VERIF_SCENARIOS"))
	if nScen == 0 {
		nScen = 10
	}
	keys := &c11aKeys{priv: map[string]*ecdsa.PrivateKey{}}
	for _, d := range []string{c11aA, c11aB} {
		kp, err := spi.GenerateKeyPair()
		if err != nil {
			t.Fatal(err)
		}
		keys.priv[d+"#k1"] = kp
	}
	tx, _, _ := dag.CreateTestTransaction(1)
	w := &c11aWorld{t: t, keys: keys, ld: jsonld.NewTestJSONLDManager(t), dir: testio.TestDirectory(t), tx: tx}
	w.reset()
	fo, err := os.Create(filepath.Join(outDir, "ops.jsonl"))
	if err != nil {
		t.Fatal(err)
	}
	defer fo.Close()
	fi, err := os.Create(filepath.Join(outDir, "impl.out"))
	if err != nil {
		t.Fatal(err)
	}
	defer fi.Close()
	bo, bi := bufio.NewWriter(fo), bufio.NewWriter(fi)
	defer bo.Flush()
	defer bi.Flush()
	run := func(op c11aOp) {
		line := w.exec(op)
		js, _ := json.Marshal(op)
		bo.Write(js)
		bo.WriteByte('\n')
		bi.WriteString(line)
		bi.WriteByte('\n')
	}
	readOps := func(p string) {
		f, err := os.Open(p)
		if err != nil {
			t.Fatal(err)
		}
		defer f.Close()
		sc := bufio.NewScanner(f)
		for sc.Scan() {
			var op c11aOp
			if json.Unmarshal(sc.Bytes(), &op) == nil && strings.HasPrefix(op.Op, "a") {
				run(op)
			}
		}
	}
	if rp := os.Getenv("VERIF_REPLAY"); rp != "" {
		readOps(rp)
		return
	}
	if cd := os.Getenv("VERIF_CORPUS"); cd != "" {
		files, _ := filepath.Glob(filepath.Join(cd, "a*.jsonl"))
		sort.Strings(files)
		for _, fn := range files {
			readOps(fn)
		}
	}
	rng := rand.New(rand.NewSource(seed*15485863 + 3))
	for sc := 0; sc < nScen; sc++ {
		run(c11aOp{Op: "areset", Sc: sc})
		if sc%10 == 0 {
			run(c11aOp{Op: "awire", Sc: sc})
		}
		for i, steps := 0, 6+rng.Intn(14); i < steps; i++ {
			prefix := []string{c11aA, c11aB}[rng.Intn(2)]
			id := fmt.Sprintf("%s#%d", prefix, rng.Intn(3))
			ats := []int{0, 0, -100000, -120, -45, -30, -5, 5, 30, 100000}
			if rng.Intn(10) < 4 { // the node's own credential store: store / trust / Resolve / Search with a resolveTime
				switch rng.Intn(7) {
				case 0, 1:
					run(c11aOp{Op: "astore", Sc: sc, ID: id, Exp: rng.Intn(3) == 0})
				case 2:
					run(c11aOp{Op: "atrust", Sc: sc, Issuer: prefix})
				case 3, 4:
					run(c11aOp{Op: "aresolve", Sc: sc, ID: id, At: ats[rng.Intn(len(ats))]})
				default:
					run(c11aOp{Op: "asearch", Sc: sc, Untrusted: rng.Intn(2) == 0, At: ats[rng.Intn(len(ats))]})
				}
				continue
			}
			if rng.Intn(3) == 0 {
				run(c11aOp{Op: "averify", Sc: sc, ID: id})
				continue
			}
			if rng.Intn(5) == 0 { // operator-triggered REPROCESS of a (mostly revocation) transaction, then verify
				rp := c11aOp{Op: "areprocess", Sc: sc, Subject: id, Issuer: prefix, CT: types.RevocationLDDocumentType}
				switch rng.Intn(10) {
				case 0:
					rp.CT = "application/other+json"
				case 1:
					rp.CT = "application/ld+json"
				case 2:
					rp.NoPayload = true
				case 3:
					rp.Fault, rp.Wraps = []string{"deadline", "canceled", "other"}[rng.Intn(3)], rng.Intn(3)
				case 4:
					rp.Issuer = map[string]string{c11aA: c11aB, c11aB: c11aA}[prefix]
				}
				run(rp)
				run(c11aOp{Op: "averify", Sc: sc, ID: id})
				continue
			}
			op := c11aOp{Op: "adeliver", Sc: sc, Subject: id, Issuer: prefix}
			switch rng.Intn(8) {
			case 0: // revocation by the other party (properly signed by it): refused, fatal (no retry can help)
				op.Issuer = map[string]string{c11aA: c11aB, c11aB: c11aA}[prefix]
			case 1, 2, 3:
				op.Fault, op.Wraps = []string{"deadline", "canceled"}[rng.Intn(2)], rng.Intn(4)
			case 4:
				op.Fault = "other"
			}
			run(op)
			if op.Fault == "" && op.Issuer == prefix && rng.Intn(3) == 0 {
				// hostile sequence: the revocation arrived (possibly before the credential); the credential is stored, its issuer
				// trusted, and the node is asked about moments before and after the revocation's own date
				if rng.Intn(2) == 0 {
					run(c11aOp{Op: "atrust", Sc: sc, Issuer: prefix})
				}
				run(c11aOp{Op: "astore", Sc: sc, ID: id})
				other := fmt.Sprintf("%s#%d", prefix, 7+rng.Intn(2))
				run(c11aOp{Op: "astore", Sc: sc, ID: other})
				for _, at := range [][]int{{-30, 30}, {-5, 0}, {-45, 5}}[rng.Intn(3)] {
					run(c11aOp{Op: "aresolve", Sc: sc, ID: id, At: at})
					run(c11aOp{Op: "asearch", Sc: sc, Untrusted: rng.Intn(3) > 0, At: at})
				}
				run(c11aOp{Op: "aresolve", Sc: sc, ID: other, At: -30})
			}
			if op.Fault != "" && rng.Intn(2) == 0 { // the notifier's retry: same event again, store healthy
				op.Fault, op.Wraps = "", 0
				run(op)
				run(c11aOp{Op: "averify", Sc: sc, ID: id})
			}
		}
	}
}
