//go:build verif

// C01 — the NETWORK-INGEST path on a real in-process node: ambassador -> VCR.StoreCredential (the only place where the signature of a
// credential from the network is checked) -> VCR.Resolve / wallet (which verify WITHOUT signature check).  Histories: issue (published
// or not) -> altered / genuine copies arrive -> resolve.  Every line is an `expect` op: the op carries what the property demands,
// impl.out what the node did.
package test

import (
	"encoding/json"
	"os"
	"path"
	"strings"
	"testing"
	"time"

	"github.com/nuts-foundation/go-did/did"
	"github.com/nuts-foundation/go-did/vc"
	"github.com/nuts-foundation/nuts-node/audit"
	"github.com/nuts-foundation/nuts-node/test/node"
	"github.com/nuts-foundation/nuts-node/vcr"
	v2 "github.com/nuts-foundation/nuts-node/vcr/api/vcr/v2"
)

func TestVerifC01Store(t *testing.T) {
	outDir := os.Getenv("VERIF_OUT")
	if outDir == "" {
		t.Skip("VERIF_OUT not set")
	}
	opsF, err := os.Create(path.Join(outDir, "ops.jsonl"))
	if err != nil {
		t.Fatal(err)
	}
	defer opsF.Close()
	implF, err := os.Create(path.Join(outDir, "impl.out"))
	if err != nil {
		t.Fatal(err)
	}
	defer implF.Close()
	emit := func(label, expect, got string) {
		b, _ := json.Marshal(map[string]any{"op": "expect", "label": label, "expect": expect, "kind": "network-ingest"})
		opsF.Write(append(b, '\n'))
		implF.WriteString(got + "\n")
	}

	ctx := audit.TestContext()
	_, _, system := node.StartServer(t)
	vcrInstance := system.FindEngineByName("vcr").(vcr.VCR)
	api := v2.Wrapper{VCR: vcrInstance}
	issuerDID := registerDID(t, system)
	subjectDID := registerDID(t, system)

	orgName := func(c vc.VerifiableCredential) string {
		var subjects []struct {
			Organization map[string]string `json:"organization"`
		}
		_ = c.UnmarshalCredentialSubject(&subjects)
		if len(subjects) != 1 {
			return "?"
		}
		return subjects[0].Organization["name"]
	}
	alter := func(c vc.VerifiableCredential, name string) vc.VerifiableCredential {
		m := map[string]any{}
		_ = json.Unmarshal([]byte(c.Raw()), &m)
		subject := m["credentialSubject"]
		if l, ok := subject.([]any); ok {
			subject = l[0]
		}
		subject.(map[string]any)["organization"].(map[string]any)["name"] = name
		b, _ := json.Marshal(m)
		a, err := vc.ParseVerifiableCredential(string(b))
		if err != nil {
			t.Fatal(err)
		}
		return *a
	}
	issue := func(subject did.DID, name string, publish bool) vc.VerifiableCredential {
		request := v2.IssueVCRequest{CredentialSubject: map[string]any{"id": subject.String(), "organization": map[string]any{"name": name, "city": "Notendam"}},
			Issuer: issuerDID.String(), PublishToNetwork: &publish}
		if publish {
			vis := v2.IssueVCRequestVisibility("public")
			request.Visibility = &vis
		}
		_ = request.Type.FromIssueVCRequestType0("NutsOrganizationCredential")
		return issueVC(t, api, ctx, request)
	}
	// what the node reports for an id: the claim it would report as valid, and whether that document's signature verifies over its
	// CURRENT bytes (the oracle: whatever Resolve returns as valid has a verifying signature)
	report := func(tag string, id vc.VerifiableCredential, want string) {
		got := "not-found"
		resolved, err := vcrInstance.Resolve(*id.ID, nil)
		if err == nil && resolved != nil {
			got = "name=" + orgName(*resolved)
			if vcrInstance.Verifier().VerifySignature(*resolved, nil) != nil {
				got += " SIGNATURE-DOES-NOT-VERIFY"
			}
		} else if err != nil && !strings.Contains(err.Error(), "not found") {
			got = "error"
		}
		emit("resolve:"+tag, want, got)
		listed, _ := vcrInstance.Wallet().List(ctx, subjectDID)
		w := "wallet-clean"
		for _, c := range listed {
			if c.ID != nil && c.ID.String() == id.ID.String() && vcrInstance.Verifier().VerifySignature(c, nil) != nil {
				w = "wallet-holds-copy-whose-signature-does-not-verify name=" + orgName(c)
			}
		}
		emit("wallet:"+tag, "wallet-clean", w)
	}
	store := func(tag string, c vc.VerifiableCredential, want string) {
		now := time.Now()
		got := "stored"
		if err := vcrInstance.StoreCredential(c, &now); err != nil {
			got = "refused"
		}
		emit("store:"+tag, want, got)
	}

	// history 1: issued but NOT published (only the issuer store knows it) -> an altered copy with the same id and proof arrives
	u := issue(subjectDID, "Nuts Foundation", false)
	if err := vcrInstance.Verifier().Verify(u, false, true, nil); err != nil {
		t.Fatalf("sanity: genuine credential does not verify: %v", err)
	}
	report("unpublished:before", u, "not-found")
	store("unpublished:altered-copy", alter(u, "Evil Corp"), "refused")
	report("unpublished:after-altered-copy", u, "not-found")
	store("unpublished:genuine-copy", u, "stored")
	report("unpublished:after-genuine-copy", u, "name=Nuts Foundation")
	store("unpublished:altered-copy-after-genuine", alter(u, "Evil Corp"), "refused")
	report("unpublished:after-second-altered-copy", u, "name=Nuts Foundation")
	store("unpublished:genuine-copy-again", u, "stored")

	// history 2: a second unpublished credential, the altered copy arrives twice and then with another alteration
	u2 := issue(subjectDID, "Second Org", false)
	store("unpublished2:altered-copy", alter(u2, "Evil Corp"), "refused")
	store("unpublished2:altered-copy-again", alter(u2, "Evil Corp"), "refused")
	store("unpublished2:other-alteration", alter(u2, "Worse Corp"), "refused")
	report("unpublished2:after-altered-copies", u2, "not-found")

	// history 3: published (the genuine copy reached the VCR store through the node's own network transaction)
	p := issue(subjectDID, "Published Org", true)
	deadline := time.Now().Add(10 * time.Second)
	for time.Now().Before(deadline) {
		if r, err := vcrInstance.Resolve(*p.ID, nil); err == nil && r != nil {
			break
		}
		time.Sleep(50 * time.Millisecond)
	}
	report("published:before", p, "name=Published Org")
	store("published:altered-copy", alter(p, "Evil Corp"), "refused")
	report("published:after-altered-copy", p, "name=Published Org")
}
