//go:build verif

package verifier

// C17 harness for the credential / presentation JWT consumer signatureVerifier.jwtSignature (in-package: unexported).
// Uses the shared hostile generator of http/tokenV2 (overlaid export file). The DID key resolver is a mock backed by
// a map: the parties' keys under `<did>#key-1`, and under the bare DID (what an absent kid resolves to).
// Injected with `go test -overlay`; nothing is written into /repo.

import (
	"bufio"
	"crypto"
	"encoding/json"
	"fmt"
	"math/rand"
	"os"
	"path/filepath"
	"strconv"
	"strings"
	"testing"
	"time"

	"github.com/lestrrat-go/jwx/v2/jwa"
	"github.com/lestrrat-go/jwx/v2/jwt"
	"github.com/nuts-foundation/nuts-node/audit"
	nutsCrypto "github.com/nuts-foundation/nuts-node/crypto"
	"github.com/nuts-foundation/nuts-node/http/tokenV2"
	"github.com/nuts-foundation/nuts-node/jsonld"
	"github.com/nuts-foundation/nuts-node/vcr/signature"
	"github.com/nuts-foundation/nuts-node/vcr/signature/proof"
	"github.com/nuts-foundation/nuts-node/vdr/resolver"
	"go.uber.org/mock/gomock"
)

func btoi(b bool) int {
	if b {
		return 1
	}
	return 0
}

type vVcOp struct {
	Op     string                 `json:"op"`
	C      string                 `json:"c"`
	Name   string                 `json:"name"`
	Class  string                 `json:"class"`
	HAlg   string                 `json:"halg"`
	By     string                 `json:"by"`
	Issuer string                 `json:"issuer"`
	Info   tokenV2.VInfo          `json:"info"`
	V      map[string]interface{} `json:"v"`
}

func TestVerifC17VcJwt(t *testing.T) {
	outDir := os.Getenv("VERIF_OUT")
	if outDir == "" {
		t.Skip("VERIF_OUT not set")
	}
	seed, _ := strconv.ParseInt(os.Getenv("VERIF_SEED"), 10, 64)
	r := rand.New(rand.NewSource(seed*49979687 + 172))
	rounds := 2
	if os.Getenv("VERIF_TIER") == "thorough" {
		rounds = 8
	}
	if v, err := strconv.Atoi(os.Getenv("VERIF_ROUNDS")); err == nil {
		rounds = v
	}
	only := map[string]bool{}
	if p := os.Getenv("VERIF_REPLAY"); p != "" {
		b, _ := os.ReadFile(p)
		for _, line := range strings.Split(string(b), "\n") {
			var m struct{ C, Name string }
			if json.Unmarshal([]byte(line), &m) == nil && m.Name != "" {
				only[m.C+"|"+m.Name] = true
			}
		}
	}
	for k := range only { // replaying a step of a key history needs the earlier steps on the same object
		for _, ph := range []string{"@history-key-removed", "@history-key-restored"} {
			if strings.Contains(k, ph) {
				only[strings.Replace(k, ph, "", 1)] = true
				only[strings.Replace(k, ph, "@history-key-removed", 1)] = true
			}
		}
	}
	opsF, _ := os.Create(filepath.Join(outDir, "ops.jsonl"))
	implF, _ := os.Create(filepath.Join(outDir, "impl.out"))
	ops, impl := bufio.NewWriterSize(opsF, 1<<20), bufio.NewWriterSize(implF, 1<<20)
	defer func() { ops.Flush(); impl.Flush(); opsF.Close(); implF.Close() }()
	n := 0

	issuers := []*tokenV2.VKey{tokenV2.VNewKey("p256", "alice"), tokenV2.VNewKey("ed", "bob"), tokenV2.VNewKey("rsa", "carol"), tokenV2.VNewKey("p521", "erin")}
	mallory := tokenV2.VNewKey("p256", "mallory") // a party with a DID of his own (resolvable), not the issuer
	source := map[string]crypto.PublicKey{}
	didOf := func(k *tokenV2.VKey) string { return "did:web:example.com:iam:" + k.KeyName() }
	for _, k := range append([]*tokenV2.VKey{mallory}, issuers...) {
		k.SetKid(didOf(k) + "#key-1")
		source[k.KeyID()] = k.Public()
		source[didOf(k)] = k.Public() // resolveSigningKey: an absent kid resolves the issuer DID
	}
	// parties whose DID is a proper textual EXTENSION of an issuer's DID (…:alice2, …:alice.attacker.net, …:alice:sub) and one
	// whose DID is a proper PREFIX (…:ali): resolvable, with keys of their own. A kid check by prefix instead of equality
	// would take their keys for the issuer's.
	lookalikes := map[string][]*tokenV2.VKey{}
	for _, k := range issuers {
		for _, sfx := range []string{"2", ".attacker.net", ":sub", "%23x"} {
			l := tokenV2.VNewKey("p256", k.KeyName()+sfx)
			l.SetKid(didOf(l) + "#key-1")
			source[l.KeyID()], source[didOf(l)] = l.Public(), l.Public()
			lookalikes[k.KeyName()] = append(lookalikes[k.KeyName()], l)
		}
		l := tokenV2.VNewKey("ed", k.KeyName()[:len(k.KeyName())-2])
		l.SetKid(didOf(l) + "#key-1")
		source[l.KeyID()], source[didOf(l)] = l.Public(), l.Public()
		lookalikes[k.KeyName()] = append(lookalikes[k.KeyName()], l)
	}
	ctrl := gomock.NewController(t)
	mockKeyResolver := resolver.NewMockKeyResolver(ctrl)
	mockKeyResolver.EXPECT().ResolveKeyByID(gomock.Any(), gomock.Any(), resolver.NutsSigningKeyType).DoAndReturn(
		func(kid string, _ *resolver.ResolveMetadata, _ resolver.RelationType) (crypto.PublicKey, error) {
			if k, ok := source[kid]; ok {
				return k, nil
			}
			return nil, resolver.ErrKeyNotFound
		}).AnyTimes()
	sv := signatureVerifier{keyResolver: mockKeyResolver}
	now := time.Now()

	// The long-lived object (jar / signature verifier / authz server) is used across a KEY HISTORY: after the main run every key is
	// removed from the key source and the valid tokens are presented again (must be refused: the verification key is what the
	// source returns NOW), then the keys are restored (accepted again).
	savedKeys := map[string]crypto.PublicKey{}
	for _, phase := range []string{"", "@history-key-removed", "@history-key-restored"} {
		phaseRounds := rounds
		switch phase {
		case "@history-key-removed":
			phaseRounds = 1
			for k, v := range source {
				savedKeys[k] = v
				delete(source, k)
			}
		case "@history-key-restored":
			phaseRounds = 1
			for k, v := range savedKeys {
				source[k] = v
			}
		}
		for round := 0; round < phaseRounds; round++ {
			for ki, signer := range issuers {
				issuer := didOf(signer)
				claims := map[string]interface{}{"iss": issuer, "sub": "did:web:example.com:iam:holder", "jti": issuer + "#vc-1",
					"nbf": now.Add(-time.Minute).Unix(), "exp": now.Add(time.Hour).Unix(),
					"vc": map[string]interface{}{"@context": []string{"https://www.w3.org/2018/credentials/v1"}, "type": []string{"VerifiableCredential"},
						"credentialSubject": map[string]interface{}{"id": "did:web:example.com:iam:holder"}}}
				base := tokenV2.VNewBase(map[string]interface{}{"typ": "JWT", "kid": signer.KeyID()}, tokenV2.VJSON(claims), signer, issuers[(ki+1)%len(issuers)], mallory)
				variants := tokenV2.VHostile(r, base, 30)
				// the same credential (iss = this issuer) signed by each look-alike party with ITS key and ITS kid
				for _, l := range lookalikes[signer.KeyName()] {
					lb := tokenV2.VNewBase(map[string]interface{}{"typ": "JWT", "kid": signer.KeyID()}, tokenV2.VJSON(claims), signer, issuers[(ki+1)%len(issuers)], l)
					for _, v := range tokenV2.VHostile(r, lb, 0) {
						if v.By == "attacker" {
							v.Name = "lookalike(" + l.KeyName() + ")-" + v.Name
							v.Class = "lookalike-did-" + v.Class
							variants = append(variants, v)
						}
					}
				}
				for _, v := range variants {
					v.Name = "r" + strconv.Itoa(round) + "-" + signer.KeyName() + "-" + v.Name
					if phase != "" { // key history on the long-lived object: only the plain valid token, after the key source changed
						if v.Class != "valid" || !strings.HasSuffix(v.Name, "-valid") {
							continue
						}
						v.Name += phase
						if phase == "@history-key-removed" {
							v.Class = "key-removed"
						}
					}
					if len(only) > 0 && !only["vcjwt|"+v.Name] {
						continue
					}
					info, _ := tokenV2.VAnalyse(v.Tok)
					verd := map[string]interface{}{}
					if info.Parses && len(info.Sigs) == 1 {
						kid := info.Sigs[0].Kid
						if kid == "" {
							kid = issuer
						}
						key, ok := source[kid]
						verd["keyfound"] = ok
						if ok {
							verd["fits"] = tokenV2.VAlgFitsKey(info.Sigs[0].Alg, key)
							_, err := jwt.ParseString(v.Tok, jwt.WithKey(jwa.SignatureAlgorithm(info.Sigs[0].Alg), key), jwt.WithVerify(true))
							verd["verified"] = err == nil
						}
					}
					res := "reject"
					func() {
						defer func() {
							if p := recover(); p != nil {
								res = "panic"
							}
						}()
						if err := sv.jwtSignature(v.Tok, issuer, nil); err == nil {
							res = "accept"
						}
					}()
					b, _ := json.Marshal(vVcOp{Op: "consume", C: "vcjwt", Name: v.Name, Class: v.Class, HAlg: v.HAlg, By: v.By, Issuer: issuer, Info: info, V: verd})
					ops.Write(b)
					ops.WriteByte('\n')
					impl.WriteString(res + "\n")
					n++
					if phase == "" { // crypto.ExtractProtectedHeaders (what the key resolver gets as metadata) on the same token
						for _, tok := range []string{v.Tok, ""}[:1+btoi(strings.HasSuffix(v.Name, "-valid"))] {
							xres := "panic"
							func() {
								defer func() { _ = recover() }()
								h, err := ExtractProtectedHeaders(tok)
								if err != nil {
									xres = "err"
									return
								}
								str := func(x interface{}) string {
									if x == nil {
										return ""
									}
									return fmt.Sprintf("%v", x)
								}
								xres = "headers:" + str(h["alg"]) + "," + str(h["kid"])
							}()
							xi := info
							if tok == "" {
								xi, _ = tokenV2.VAnalyse(tok)
							}
							xb, _ := json.Marshal(map[string]interface{}{"op": "xph", "name": v.Name, "info": xi, "tokempty": tok == "", "class": v.Class})
							ops.Write(xb)
							ops.WriteByte('\n')
							impl.WriteString(xres + "\n")
							n++
						}
					}
				}
			}
		}
	}

	// ---------------- the JSON-LD format of the same clause: signatureVerifier.jsonldProof. The proof's verificationMethod must
	// be a key of the issuer; documents are signed with the real LDProof.Sign by the issuer, by an unrelated resolvable party
	// and by look-alike parties (DID a textual extension / prefix of the issuer's)
	{
		jm := jsonld.NewTestJSONLDManager(t)
		svld := signatureVerifier{keyResolver: nil, jsonldManager: jm}
		cryptoInstance := nutsCrypto.NewMemoryCryptoInstance(t)
		ldSource := map[string]crypto.PublicKey{}
		ldResolver := resolver.NewMockKeyResolver(ctrl)
		ldResolver.EXPECT().ResolveKeyByID(gomock.Any(), gomock.Any(), resolver.NutsSigningKeyType).DoAndReturn(
			func(kid string, _ *resolver.ResolveMetadata, _ resolver.RelationType) (crypto.PublicKey, error) {
				if k, ok := ldSource[kid]; ok {
					return k, nil
				}
				return nil, resolver.ErrKeyNotFound
			}).AnyTimes()
		svld.keyResolver = ldResolver
		newParty := func(didStr string) string {
			kid := didStr + "#key-1"
			if _, ok := ldSource[kid]; !ok {
				_, pk, err := cryptoInstance.New(audit.TestContext(), nutsCrypto.StringNamingFunc(kid))
				if err != nil {
					t.Fatal(err)
				}
				ldSource[kid] = pk
			}
			return kid
		}
		signSuite := signature.JSONWebSignature2020{ContextLoader: jm.DocumentLoader(), Signer: cryptoInstance}
		for _, issuerName := range []string{"alice", "bob"} {
			issuer := "did:web:example.com:iam:" + issuerName
			signers := map[string]string{"issuer": issuer, "other-party": "did:web:example.com:iam:mallory"}
			for _, sfx := range []string{"2", ".attacker.net", ":sub", "%23x"} {
				signers["lookalike("+issuerName+sfx+")"] = issuer + sfx
			}
			signers["lookalike-prefix"] = issuer[:len(issuer)-2]
			for who, signerDID := range signers {
				name := issuerName + "-signed-by-" + who
				if len(only) > 0 && !only["vcld|"+name] {
					continue
				}
				kid := newParty(signerDID)
				document := map[string]interface{}{
					"@context": []interface{}{map[string]interface{}{"title": "http://schema.org#title", "issuer": "http://schema.org#author"}},
					"title":    "credential of " + issuerName, "issuer": issuer,
				}
				res0, err := proof.NewLDProof(proof.ProofOptions{Created: now.Add(-time.Second), ProofPurpose: "assertionMethod"}).Sign(audit.TestContext(), document, signSuite, kid)
				if err != nil {
					t.Fatal(err)
				}
				class, by := "valid", "signer"
				if who != "issuer" {
					class, by = "lookalike-did-forged", "attacker"
					if who == "other-party" {
						class = "forged"
					}
				}
				_, found := ldSource[kid]
				runLd := func(name, class, by string, doc interface{}, proofObj bool, nproofs int) {
					res := "reject"
					func() {
						defer func() {
							if p := recover(); p != nil {
								res = "panic"
							}
						}()
						if err := svld.jsonldProof(doc, issuer, nil); err == nil {
							res = "accept"
						}
					}()
					b, _ := json.Marshal(vVcOp{Op: "consume", C: "vcld", Name: name, Class: class, HAlg: "ES256", By: by, Issuer: issuer,
						V: map[string]interface{}{"vm": kid, "keyfound": found, "validat": true, "keyalg": "ES256", "fits": true, "canon": true, "parts": 2, "sigdecodes": true,
							"verified": true, "proofobj": proofObj, "nproofs": nproofs}})
					ops.Write(b)
					ops.WriteByte('\n')
					impl.WriteString(res + "\n")
					n++
				}
				runLd(name, class, by, res0, true, 1)
				if who != "issuer" {
					continue
				}
				// --- `proof` as an ARRAY (a proof set): 0, 1, 2, 3 entries with valid / invalid / foreign proofs in every position.
				// Exactly one signature: anything but a single proof must be refused.
				signedDoc := res0.(proof.SignedDocument)
				validProof := signedDoc["proof"]
				broken := map[string]interface{}{}
				pb, _ := json.Marshal(validProof)
				_ = json.Unmarshal(pb, &broken)
				if j, ok := broken["jws"].(string); ok && len(j) > 10 {
					broken["jws"] = j[:len(j)-6] + "AAAAAA"
				}
				malloryKid := newParty("did:web:example.com:iam:mallory")
				res1, err := proof.NewLDProof(proof.ProofOptions{Created: now.Add(-time.Second), ProofPurpose: "assertionMethod"}).Sign(audit.TestContext(), document, signSuite, malloryKid)
				if err != nil {
					t.Fatal(err)
				}
				foreign := res1.(proof.SignedDocument)["proof"]
				sets := []struct {
					name  string
					set   []interface{}
					class string
				}{
					{"proofs-empty-array", []interface{}{}, "zero-sig"},
					{"proofs-array-of-one-valid", []interface{}{validProof}, "proof-array-one"},
					{"proofs-valid-broken", []interface{}{validProof, broken}, "multi-sig"},
					{"proofs-broken-valid", []interface{}{broken, validProof}, "multi-sig"},
					{"proofs-valid-valid", []interface{}{validProof, validProof}, "multi-sig"},
					{"proofs-valid-foreign", []interface{}{validProof, foreign}, "multi-sig"},
					{"proofs-foreign-valid", []interface{}{foreign, validProof}, "multi-sig"},
					{"proofs-valid-valid-broken", []interface{}{validProof, validProof, broken}, "multi-sig"},
					{"proofs-valid-null", []interface{}{validProof, nil}, "multi-sig"},
				}
				for _, ps := range sets {
					nm := issuerName + "-" + ps.name
					if len(only) > 0 && !only["vcld|"+nm] {
						continue
					}
					d := map[string]interface{}{}
					for k, v := range signedDoc {
						d[k] = v
					}
					d["proof"] = ps.set
					runLd(nm, ps.class, "signer", d, false, len(ps.set))
				}
			}
		}
		n += vC17FoldLeg(t, ops, impl, only, seed, os.Getenv("VERIF_TIER"), &svld, newParty, signSuite, now, ctrl)
	}
	if n == 0 {
		t.Fatal("nothing generated")
	}
}
