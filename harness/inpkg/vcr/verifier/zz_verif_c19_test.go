//go:build verif

// C19 exploration harness (crash/timeout oracle; the verification MODEL belongs to C01) for vcr/verifier/verifier.go:
// Verify and VerifyVP on structure-aware mutants of a JSON-LD credential / presentation and their JWT forms, with the
// signature check switched on (issuer resolution, key resolution and JSON-LD canonicalisation run on the mutant).
package verifier

import (
	"crypto/ecdsa"
	"crypto/ed25519"
	"encoding/json"
	"crypto/elliptic"
	"crypto/rand"
	"crypto/sha256"
	"encoding/base64"
	"errors"
	mrand "math/rand"
	"os"
	"testing"

	"github.com/nuts-foundation/go-did/did"
	"github.com/nuts-foundation/go-did/vc"
	"github.com/nuts-foundation/nuts-node/vcr/types"
	"go.uber.org/mock/gomock"
)

const c19VC = `{"@context":["https://www.w3.org/2018/credentials/v1","https://nuts.nl/credentials/v1","https://w3c-ccg.github.io/lds-jws2020/contexts/lds-jws2020-v1.json"],"id":"did:nuts:CuE3qeFGGLhEAS3gKzhMCeqd1dGa9at5JCbmCfyMU2Ey#1","type":["VerifiableCredential","NutsOrganizationCredential"],
"issuer":"did:nuts:CuE3qeFGGLhEAS3gKzhMCeqd1dGa9at5JCbmCfyMU2Ey","issuanceDate":"2024-01-01T00:00:00Z","expirationDate":"2034-01-01T00:00:00Z",
"credentialSubject":{"id":"did:nuts:B8PUHs2AUHbFF1xLLK4eZjgErEcMXHxs68FteY7NDtCY","organization":{"name":"x","city":"y"}},
"proof":{"type":"JsonWebSignature2020","created":"2024-01-01T00:00:00Z","verificationMethod":"did:nuts:CuE3qeFGGLhEAS3gKzhMCeqd1dGa9at5JCbmCfyMU2Ey#key-1","proofPurpose":"assertionMethod","jws":"eyJhbGciOiJFUzI1NiIsImI2NCI6ZmFsc2UsImNyaXQiOlsiYjY0Il19..AAAA"}}`

func c19VP() string {
	return `{"@context":["https://www.w3.org/2018/credentials/v1","https://w3c-ccg.github.io/lds-jws2020/contexts/lds-jws2020-v1.json"],"type":"VerifiablePresentation","holder":"did:nuts:B8PUHs2AUHbFF1xLLK4eZjgErEcMXHxs68FteY7NDtCY","verifiableCredential":[` + c19VC + `],
"proof":{"type":"JsonWebSignature2020","created":"2024-01-01T00:00:00Z","verificationMethod":"did:nuts:B8PUHs2AUHbFF1xLLK4eZjgErEcMXHxs68FteY7NDtCY#key-1","proofPurpose":"authentication","challenge":"n1","domain":"d","jws":"eyJhbGciOiJFUzI1NiIsImI2NCI6ZmFsc2UsImNyaXQiOlsiYjY0Il19..AAAA"}}`
}

func TestVerifC19(t *testing.T) {
	dir := os.Getenv("VERIF_OUT")
	if dir == "" {
		t.Skip("VERIF_OUT not set")
	}
	o := c19Open(dir)
	defer o.close(dir)
	r := mrand.New(mrand.NewSource(c19Seed()*982451653 + 17))
	m := jmut{r}
	key, _ := ecdsa.GenerateKey(elliptic.P256(), rand.Reader)

	ctx := newMockContext(t)
	ctx.store.EXPECT().GetRevocations(gomock.Any()).Return(nil, ErrNotFound).AnyTimes()
	ctx.didResolver.EXPECT().Resolve(gomock.Any(), gomock.Any()).Return(&did.Document{}, nil, nil).AnyTimes()
	ctx.keyResolver.EXPECT().ResolveKeyByID(gomock.Any(), gomock.Any(), gomock.Any()).Return(key.Public(), nil).AnyTimes()
	ctx.keyResolver.EXPECT().ResolveKey(gomock.Any(), gomock.Any(), gomock.Any()).Return("k", key.Public(), nil).AnyTimes()

	compact := func(header, payload string) string {
		b64 := base64.RawURLEncoding
		in := b64.EncodeToString([]byte(header)) + "." + b64.EncodeToString([]byte(payload))
		h := sha256.Sum256([]byte(in))
		rr, ss, _ := ecdsa.Sign(rand.Reader, key, h[:])
		sig := make([]byte, 64)
		rr.FillBytes(sig[:32])
		ss.FillBytes(sig[32:])
		return in + "." + b64.EncodeToString(sig)
	}
	cls := func(err error) string {
		if err == nil {
			return "ok"
		}
		if errors.Is(err, types.ErrRevoked) {
			return "err:revoked"
		}
		return "err"
	}
	vcPath := func(in string) string {
		c, err := vc.ParseVerifiableCredential(in)
		if err != nil {
			return "err:parse"
		}
		res := cls(ctx.verifier.Verify(*c, true, true, nil))
		ctx.verifier.Verify(*c, true, false, nil)
		return res
	}
	vpPath := func(in string) string {
		p, err := vc.ParseVerifiablePresentation(in)
		if err != nil {
			return "err:parse"
		}
		_, err = ctx.verifier.VerifyVP(*p, true, true, nil)
		return cls(err)
	}
	// the same two paths when the key that is resolved for the issuer / holder is an Ed25519 key of the wrong length (did:jwk, did:web and
	// did:key documents can carry one): JSON-LD proofs and JWTs. Input: {"len":<n>,"doc":…}
	badKeyCtx := map[int]mockContext{}
	for _, n := range []int{0, 31, 32, 33, 34, 64} {
		c := newMockContext(t)
		k := ed25519.PublicKey(make([]byte, n))
		c.store.EXPECT().GetRevocations(gomock.Any()).Return(nil, ErrNotFound).AnyTimes()
		c.didResolver.EXPECT().Resolve(gomock.Any(), gomock.Any()).Return(&did.Document{}, nil, nil).AnyTimes()
		c.keyResolver.EXPECT().ResolveKeyByID(gomock.Any(), gomock.Any(), gomock.Any()).Return(k, nil).AnyTimes()
		c.keyResolver.EXPECT().ResolveKey(gomock.Any(), gomock.Any(), gomock.Any()).Return("k", k, nil).AnyTimes()
		badKeyCtx[n] = c
	}
	badKeyPath := func(in string) string {
		var w struct {
			Len int    `json:"len"`
			Doc string `json:"doc"`
			VP  bool   `json:"vp"`
		}
		if json.Unmarshal([]byte(in), &w) != nil {
			return "err:harness"
		}
		c, ok := badKeyCtx[w.Len]
		if !ok {
			return "err:harness"
		}
		if w.VP {
			p, err := vc.ParseVerifiablePresentation(w.Doc)
			if err != nil {
				return "err:parse"
			}
			_, err = c.verifier.VerifyVP(*p, true, true, nil)
			return cls(err)
		}
		cr, err := vc.ParseVerifiableCredential(w.Doc)
		if err != nil {
			return "err:parse"
		}
		return cls(c.verifier.Verify(*cr, true, true, nil))
	}
	eps := map[string]func(string) string{"verifier.Verify": vcPath, "verifier.VerifyVP": vpPath, "verifier.wrong-length-ed25519-key": badKeyPath}

	replay, isReplay := c19ReadOps()
	for _, op := range replay {
		name, _ := op["op"].(string)
		if len(name) > 2 {
			if fn, ok := eps[name[2:]]; ok {
				in, _ := op["input"].(string)
				o.explore(name[2:], in, func() string { return fn(in) })
			}
		}
	}
	if isReplay {
		return
	}
	run := func(ep, in, kind string) {
		o.dist[ep+":"+kind]++
		fn := eps[ep]
		o.explore(ep, in, func() string { return fn(in) })
	}
	// issuer / id / subject values that are not DIDs (the default validator only wants them non-empty)
	for _, iss := range []string{`"https://example.com/not-a-did"`, `"x"`, `"did:"`, `"did:nuts:"`, `{"id":"https://example.com/x"}`, `{"id":"did:nuts:CuE3qeFGGLhEAS3gKzhMCeqd1dGa9at5JCbmCfyMU2Ey","name":"n"}`, `"urn:uuid:1"`, `"DID:NUTS:X"`} {
		for _, typ := range []string{`["VerifiableCredential","NutsOrganizationCredential"]`, `["VerifiableCredential","OtherCredential"]`, `["VerifiableCredential"]`} {
			root, _ := jparse([]byte(c19VC))
			for i, k := range root.keys {
				if k == "issuer" {
					root.kids[i] = jraw(iss)
				}
				if k == "type" {
					root.kids[i] = jraw(typ)
				}
			}
			run("verifier.Verify", string(root.bytes()), "issuer-not-a-did")
			hdr := `{"alg":"ES256","typ":"JWT","kid":"did:nuts:CuE3qeFGGLhEAS3gKzhMCeqd1dGa9at5JCbmCfyMU2Ey#key-1"}`
			for i, k := range root.keys {
				if k == "proof" {
					root.kids = append(root.kids[:i:i], root.kids[i+1:]...)
					root.keys = append(root.keys[:i:i], root.keys[i+1:]...)
					break
				}
			}
			run("verifier.Verify", compact(hdr, `{"iss":`+iss+`,"sub":"did:nuts:B8PUHs2AUHbFF1xLLK4eZjgErEcMXHxs68FteY7NDtCY","nbf":1704067200,"exp":2019686400,"jti":"did:nuts:CuE3qeFGGLhEAS3gKzhMCeqd1dGa9at5JCbmCfyMU2Ey#1","vc":`+string(root.bytes())+`}`), "jwt-issuer-not-a-did")
		}
	}
	for n := range badKeyCtx {
		eddsaHdr := `{"alg":"EdDSA","typ":"JWT","kid":"did:nuts:CuE3qeFGGLhEAS3gKzhMCeqd1dGa9at5JCbmCfyMU2Ey#key-1"}`
		jwtVC := compact(eddsaHdr, `{"iss":"did:nuts:CuE3qeFGGLhEAS3gKzhMCeqd1dGa9at5JCbmCfyMU2Ey","sub":"did:nuts:B8PUHs2AUHbFF1xLLK4eZjgErEcMXHxs68FteY7NDtCY","nbf":1704067200,"exp":2019686400,"jti":"did:nuts:CuE3qeFGGLhEAS3gKzhMCeqd1dGa9at5JCbmCfyMU2Ey#1","vc":{"@context":["https://www.w3.org/2018/credentials/v1","https://nuts.nl/credentials/v1"],"type":["VerifiableCredential","NutsOrganizationCredential"],"credentialSubject":{"id":"did:nuts:B8PUHs2AUHbFF1xLLK4eZjgErEcMXHxs68FteY7NDtCY","organization":{"name":"x","city":"y"}}}}`)
		for _, d := range []struct {
			doc string
			vp  bool
		}{{c19VC, false}, {c19VP(), true}, {jwtVC, false}} {
			b, _ := json.Marshal(map[string]any{"len": n, "doc": d.doc, "vp": d.vp})
			run("verifier.wrong-length-ed25519-key", string(b), "ed25519-length")
		}
	}
	jsystematic([]byte(c19VC), func(b []byte, kind string) { run("verifier.Verify", string(b), kind) })
	jsystematic([]byte(c19VP()), func(b []byte, kind string) { run("verifier.VerifyVP", string(b), kind) })
	n := c19Env("VERIF_N", 400)
	for i := 0; i < n; i++ {
		b, kind := m.mutate([]byte(c19VC))
		run("verifier.Verify", string(b), "rand:"+kind)
		b, kind = m.mutate([]byte(c19VP()))
		run("verifier.VerifyVP", string(b), "rand:"+kind)
	}
}
